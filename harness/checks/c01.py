"""C01 - Fields equal the magnetostatic integrals they claim to solve  (claimed INDIRECTLY, see DESIGN section 5 C01).

TLA+ cannot state the Biot-Savart / Coulomb integrals and a numerical integrator as ground truth would be differential
testing, which this project does not use.  What IS decided here: by the uniqueness theorem a field with zero flux of B through
closed surfaces, circulation of H equal to the threaded current, B = mu0 H + J (check C02) and the right dipole limit at infinity
is the field of the integrals.  This check runs the C14 engine on a branch-coverage family:
1. closed cells and loops STRADDLING every documented value-dependent switch of every field formula (spec/Integral.tla, operator
   Switch, with file:line), inside and outside the bodies, at relative sizes 1e-3..1e3: a wrong sign / factor / term in one branch
   makes the field discontinuous or non-solenoidal across that switch and shows as a flux / circulation residual;
2. the far-field law: the field at 100..1000 sizes equals the point-dipole field of moment J V / mu0 resp. I A n (integer
   arithmetic on lattice offsets: 4 pi rho^5 H = 3 r (m.r) - m rho^2) up to O((size/rho)^2);
3. the closed forms that are first principles themselves: Dipole formula, Sphere inside B = 2J/3 and outside = dipole.
"""
from ..common import tier
from ..report import Report
from . import c14

PROP = "C01"
CFG = {"quick": "MC_Integral_c01_quick.cfg", "thorough": "MC_Integral_c01_thorough.cfg"}
RULE = ("INDIRECT claim: pointwise equality with the Biot-Savart / Coulomb integrals is implied only to the extent the sampled integral laws, "
        "the far-field limit and B = mu0 H + J (C02) pin the field (uniqueness theorem); no integral is evaluated as an oracle. "
        "One non-trivial case = one distinct (law, '<class>|<switch surface>|<side>' family, coverage class, decade of relative size, kappa id|rnd) "
        "among the ACCEPTED instances enumerated by TLC (spec/MC_Integral.tla, Prop = C01)")


def run():
    rep = Report(PROP, "exploration")
    plan, events, rejects, infos = c14.execute(PROP, CFG[tier()], rep, "c01")
    c14.summarize(rep, PROP, plan, events, rejects, infos)
    rep.set("rule", RULE)
    laws = {}
    for e in events:
        laws[e["inst"]["law"]] = laws.get(e["inst"]["law"], 0) + 1
    rep.set("instances_per_law", laws)
    rep.set("switch_families", sorted({e["inst"]["fam"] for e in events if e["inst"]["law"] != "point"}))
    rep.assume("C01 is claimed only INDIRECTLY: the integrals themselves are not expressible in TLA+ and no numerical integrator is used as an oracle; "
               "pointwise equality is implied only to the extent the sampled integral laws (this check), B = mu0 H + J (C02) and the far-field limit pin the field")
    rep.assume("switch surfaces are those listed at Integral!Switch / Integral!Surf (read off the field_BH_*.py sources of the pinned tree); a value-dependent branch "
               "that is not listed there is not covered")
    rep.assume("TLC, SANY and the Json module are trusted; Gauss-Legendre quadrature (order 32 against 16) is the measuring instrument, instances with an own error "
               "estimate above 1e-8 are unmeasurable; far instances (> 10 sizes) use the documented large-distance tolerance 1e-5")
    rep.assume("far-field law: tolerance 1e-7 + (extent/rho)^2 for bodies centred at their position, 1e-7 + 2 extent/rho for CylinderSegment, Tetrahedron, Polyline "
               "(first multipole correction); closed forms: 2e-8")
    return rep.finish()


def replay(path):
    import json

    case = json.load(open(path))["case"]
    e = case["event"]
    if e["inst"]["law"] != "point":
        return c14.replay(path)
    from scipy.spatial.transform import Rotation as R

    from ..common import cjson, import_magpylib
    from ..drivers import integral as drv
    from ..lattice import Kappa

    magpy = import_magpylib()
    kd = e.get("kappa_desc")
    kap = Kappa() if e["kappa"] == "id" or not kd else Kappa(kd["lam"], R.from_quat(kd["G_quat"]), kd["t"])
    obj = drv.build_scene(magpy, e["inst"]["scene"], kap)
    ev = drv.measure_points(magpy, obj, [(e["tid"], e["inst"], e["der"])], kap)[0]
    print("instance", cjson(e["inst"]), "norm", e["der"]["norm"], "gross", e["der"]["gross"])
    print("re-measured", ev["obs"], ev["raw"])
    print("logged     ", e["obs"], e.get("raw"))
    return 0
