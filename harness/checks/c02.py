"""C02 - B = mu0*H + J everywhere; J and M report the body's polarization.

1. TLC model-checks the geometry library itself (spec/MC_Physics): rotation invariance of the classification,
   equivalence of representations, partitions, counts, coverage of special sets - the oracle must be trustworthy.
2. Binding C (law instances): every magnet class x lattice pose x kappa x in_out x batch composition is observed on
   the whole half-lattice box around the body through getB/getH/getJ/getM (object interface; magpylib.core for a
   sample); spec/TV_PhysJ.tla classifies every observer exactly and judges J, B - mu0*H - J, J - mu0*M.
3. Attribute law: after every assignment of polarization / magnetization (constructor and setter, 1e-12..1e12).
"""
import glob
import json
import multiprocessing as mp
import os

from .. import tlc
from ..common import MachineryError, tier, workdir
from ..drivers import physics as drv
from ..report import Report

CFG = {"quick": "MC_Physics_quick.cfg", "thorough": "MC_Physics_thorough.cfg"}


def where_of(clause, ctx):
    if len(ctx) == 8:
        cls, c, surf, inout, batch, iface, kd, dev = ctx
        return {"class": cls, "point": c, "surface": surf, "inout": inout, "batch": batch, "iface": iface,
                "kappa": "id" if kd == 100 else kd, "dev": dev}
    cls, c, via, attr, dec, dev, outcome, flt, seq = ctx
    return {"class": cls, "point": c, "via": via, "attr": attr, "mag_dec": dec, "dev": dev, "outcome": outcome, "filter": flt, "sequence": seq}


def find_obs(files, tids):
    want = set(tids)
    out = {}
    for p in files:
        for line in open(p):
            if not want:
                return out
            sc = json.loads(line)
            t0 = sc["obs"][0]["t"] if sc["obs"] else None
            if t0 is None or not any(t0 <= t < t0 + 10000 for t in want):
                continue
            for o in sc["obs"]:
                if o["t"] in want:
                    out[o["t"]] = {"job": sc["job"], "obs": o, "body": sc["body"] if sc["body"]["cls"] != "TriangularMesh" else {"cls": "TriangularMesh", "mk": sc["body"]["mk"]},
                                   "pose": sc["pose"]}
                    want.discard(o["t"])
    return out


def run():
    rep = Report("C02", "exploration")
    t = tier()
    # 1. the oracle itself
    res = tlc.run_tlc("MC_Physics", CFG[t], name="c02_mc")
    if res.get("violated"):
        raise MachineryError(f"MC_Physics violates {res['violated']}: the geometry library is inconsistent\n{res['out'][-3000:]}")
    tlc.require_ok(res)
    rep.set("states", res["distinct"])
    rep.set("transitions", res["generated"])
    rep.phase("model_check")
    # 2. + 3. law instances
    jobs = drv.plan(t)
    d = workdir("traces/c02")
    parts = drv.split_jobs(jobs, 16)
    args = [(p, os.path.join(d, f"s{i:02d}.ndjson")) for i, p in enumerate(parts)]
    with mp.Pool(len(args)) as pool:
        out = pool.map(drv.worker, args)
    nsc, nobs, nev = (sum(o[k] for o in out) for k in range(3))
    rep.phase("drive")
    files = sorted(glob.glob(os.path.join(d, "*.ndjson")))
    n, rejects, infos = tlc.validate("TV_PhysJ", "TV.cfg", files)
    rep.phase("validate")
    if n != nobs:
        raise MachineryError(f"validator saw {n} observations, the driver logged {nobs}")
    mach = [r for r in rejects if r[3] == "MACHINERY"]
    if mach:
        raise MachineryError(f"false premise in {len(mach)} law instances, e.g. {mach[0]}")
    cells, joint, assign = set(), set(), set()
    for inf in infos:
        if inf[1] == "cells":
            cells |= {tuple(c) for c in inf[2]}
        elif inf[1] == "joint":
            joint |= {tuple(c) for c in inf[2]}
        elif inf[1] == "assign":
            assign |= {tuple(c) for c in inf[2]}
    # every pair of different-but-similar meshes must have been observed where the two bodies differ, in both orders
    for a, b, _ in drv.TWINS:
        for x, y in ((a, b), (b, a)):
            pair = "+".join(n.split("_", 1)[1] for n in (x, y))
            if not any(j[0] == pair and j[1].startswith("joint") and {j[2], j[3]} == {"in", "out"} for j in joint):
                raise MachineryError(f"jointly evaluated meshes {pair}: no observer strictly inside one body and strictly outside the other")
    # the assignment sequences must have reached the library's warning, recorded and escalated
    if not any(a[3] == "warned" and a[4] == "default" for a in assign) or not any(a[3] == "raised" and a[4] == "error" for a in assign):
        raise MachineryError(f"attribute law: no assignment ended with a warning / with a warning raised as error: {sorted(assign)[:6]}")
    rep.set("joint_mesh_pairs", len({j[0] for j in joint}))
    rep.set("joint_classes", sorted({f"{j[0]}:{j[2]}/{j[3]}" for j in joint if j[1].startswith("joint")})[:60])
    rep.set("assignment_outcomes", sorted({f"{a[1]}:{a[2]}:{a[3]}:{a[4]}" for a in assign}))
    nontrivial = {c for c in cells}
    rep.set("evaluations", nev)
    rep.set("observations", nobs)
    rep.set("scenes", nsc)
    rep.set("distinct_nontrivial", len(nontrivial))
    rep.set("rule", "distinct (class, pose index, exact point class in/on/out, boundary stratum, in_out, kappa decade) cells computed by TLC from the logged scenes")
    rep.set("cells_on_boundary", len({c for c in cells if c[2] == "on"}))
    rep.set("classes", sorted({c[0] for c in cells}))
    rep.set("jobs", {k: sum(1 for j in jobs if j["kind"] == k) for k in ("field", "multi", "joint", "attr")})
    det = find_obs(files, [r[1] for r in rejects][:4000]) if rejects else {}
    for r in rejects:
        _, tid, clause, prop, ctx = r[:5]
        w = where_of(clause, ctx)
        what = f"{w['class']} {clause} at a point classified '{w['point']}'" + (f" ({w['surface']})" if w.get("surface", "-") != "-" else "") + \
               (f", in_out={w['inout']}, batch={w['batch']}, {w['iface']} interface, kappa={w['kappa']}" if "batch" in w else f", {w['attr']} assigned via {w['via']} at 1e{w['mag_dec']} (outcome {w['outcome']}, warning filter {w['filter']})") + \
               f", deviation 1e{w['dev'] - 12} of the gross scale"
        rep.reject(clause, w, what, det.get(tid, {"tid": tid}), prop=prop)
    # samples: a few accepted observations
    for line in open(files[0]):
        sc = json.loads(line)
        if sc["kind"] == "field" and sc["obs"]:
            o = sc["obs"][len(sc["obs"]) // 2]
            rep.sample({"class": sc["body"]["cls"], "pose": sc["pose"], "in_out": sc["inout"], "kappa_id": sc["kap"]["id"], "observer2": o["o"], "Jq": o["Jq"], "B": o["B"], "mu0H": o["H"], "J": o["J"]})
    rep.assume("TLC, SANY and the JSON module are trusted; harness.quant (rounding to 1e-12 of the gross scale) and the multiplication of H and M by magpylib.mu_0 in the driver are trusted measurement code")
    rep.assume("bodies are lattice bodies (doubled integer dimensions, CylinderSegment angles multiples of 45 degrees, TriangularMesh = convex or axis-aligned lattice polyhedra); generic bodies and poses are reached only through the random concretizations kappa")
    rep.assume("in_out = inside / outside is exercised only truthfully (all observers of the batch strictly inside / outside; premise re-checked by TLC)")
    rep.assume("non-finite outputs are not judged here (reported as C15:nonfinite nonconformance; C15 decides them)")
    return rep.finish()


def replay(path):
    from ..common import import_magpylib

    case = json.load(open(path))["case"]
    if "job" not in case:
        print("replay file carries no scene description:", case)
        return 2
    magpy = import_magpylib()
    job = case["job"]
    print("job", json.dumps(job))
    for sc in drv.run_job(magpy, job):
        for o in sc["obs"]:
            if o["t"] == case["obs"]["t"]:
                print("observer (doubled lattice)", o["o"], "body", sc["body"]["cls"], "pose", sc["pose"])
                for k in ("Jq", "B", "H", "J", "M", "P", "Mu"):
                    if k in o:
                        print(f"  {k:3s} now   ", o[k])
                        print(f"  {k:3s} logged", case["obs"].get(k))
    return 0
