"""C03 - Fields are covariant under rigid motion of the whole setup.

1. TLC model-checks spec/MC_Laws (LAWS_MODE=C03): behaviours RigidMove(g, t)* from a palette of asymmetric single-source
   configurations of all source classes (+ CustomSource, + a two-source scene), read through plain observer points or
   through a Sensor with its own pose path; g ranges over all 24 rotations of the cube, whole paths are moved.  In every
   state: the exact premise of the step (Premise), relative placement identical to the base configuration
   (LocalInvariant), rotations in the group, observers strictly off all surfaces.
2. Every distinct state (prev, act, cur) is instantiated as real magpylib objects under a random concretization kappa
   (generic rigid motion G, lattice unit 1e-9..1e9 m: all actual poses are generic floats), getB/getH/getJ are logged as
   q8 integers with one gross scale per observer and field.
   Freeze(m) steps decide the second sentence of the property ("pose honoured as local frame placed in the global frame"): the
   observation at path index m of a configuration whose paths have UNEQUAL lengths (sources of 1..5 steps with changing
   orientation, sensors of up to 5 steps) equals the observation of the static configuration in which every object stands at its
   pose number min(m, own length) - premise decided exactly by TLC (PoseAt).  The "Fine*" bases are also concretized by their
   small-angle image (path increments and the tilt between the sources of a group scaled by 1e-5 .. 1e-7: steps of 1e-3 .. 1e-5
   degrees), the canonical lattice frame against a generic frame.
   RigidMove steps with a `via` are a second REALISATION of the same abstract step: the objects built in the first frame are put
   into a Collection (flat; nested two levels deep with inner collections at other positions) and moved through it - rotate with
   anchor=None, rotate about anchor 0, position / orientation setters (static members only), move - same Covariance clause.
3. spec/TV_Laws re-checks the premise and judges obs2 = g.obs1 (signed permutation; identity for Sensor readings) with
   the tolerance of the distance class, Placement likewise, and for the small-angle images also the CHANGE of the field along
   the path (difference to step 1, two-limb values, tolerance 1e-9 of the gross scale: a frozen path is rejected); Reconcretize steps compare the same abstract configuration under two different
   generic G (law KappaInvariance: generic global rotations).
"""
import json

from ..common import tier
from ..drivers import laws as drv
from ..report import Report

PID = "C03"
CAP = {"quick": 4000, "thorough": 40000}


def run():
    rep = Report(PID, "exploration")
    drv.run_check(PID, rep, cap=CAP[tier()])
    rep.assume("TLC, SANY and the Json module are trusted; the driver only instantiates abstract configurations and quantizes what getB/getH/getJ return")
    rep.assume("relative placements of source and observer are lattice placements (Z^3 x 24 rotations, units 1/den); global poses and the unit are generic through the concretization kappa")
    rep.assume("distance class: near = within 10 sizes (Chebyshev distance from the bounding-box centre) of every source at every path index; tolerance 1e-8 of the gross scale near, 1e-5 far (DESIGN 3.4)")
    return rep.finish()


def replay(path):
    case = json.load(open(path))["case"]
    return drv.replay_case(case)
