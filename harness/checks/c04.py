"""C04 - see DESIGN.md section 5; decided by the FieldWrap engine (harness/checks/fwcommon.py)."""
from .fwcommon import observers_phase, replay_fw, run_fw
from ..common import tier


def run():
    rep = run_fw("C04", kappas=2 if tier() == "quick" else 6)
    observers_phase(rep, "C04")
    return rep.finish()


def replay(path):
    return replay_fw(path)
