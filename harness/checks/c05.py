"""C05 - see DESIGN.md section 5; decided by the FieldWrap engine (harness/checks/fwcommon.py)."""
from .fwcommon import batch_phase, replay_fw, run_fw
from ..common import tier


def run():
    rep = run_fw("C05", kappas=2 if tier() == "quick" else 6)
    batch_phase(rep, "C05")
    from ..drivers.system import system_phase
    system_phase(rep, "C05", "fw")
    return rep.finish()


def replay(path):
    return replay_fw(path)
