"""C06 - see DESIGN.md section 5; decided by the FieldWrap engine (harness/checks/fwcommon.py)."""
from .fwcommon import batch_phase, observers_phase, replay_fw, run_fw
from ..common import tier


def run():
    rep = run_fw("C06", kappas=2 if tier() == "quick" else 6)
    batch_phase(rep, "C06")
    observers_phase(rep, "C06")
    from ..repo_traces import validate_recorded
    validate_recorded(rep, "C06", "field")
    return rep.finish()


def replay(path):
    return replay_fw(path)
