"""C07 - All interfaces to the same computation return the same numbers.

1. TLC enumerates (MC_Functional) for every class every way of giving each parameter of the functional interface (one set / n sets)
   and checks the documented tiling rule on the model.
2. Binding A: every combination is executed through getX("Class", ...); TLC decides from the rule whether the call must succeed and
   how many instances it has, and compares every returned row with the object-oriented single-instance call (1e-8 of gross scale).
3. One configuration through every call form (top level, source method, sensor method, the three collection forms, sumup, squeeze,
   dataframe incl. its documented row order) against the canonical tensor (1e-12), and magpylib.core against the object interface.
"""
import glob
import json
import multiprocessing as mp
import os

from .. import tlc
from ..common import MachineryError, rng, tier, workdir
from ..drivers import functional as drv
from ..report import Report

CFG = {"quick": {"cfg": "MC_Functional_quick.cfg", "forms": 6, "core": 40}, "thorough": {"cfg": "MC_Functional_thorough.cfg", "forms": 40, "core": 400}}


def run():
    rep = Report("C07", "model_checking")
    c = CFG[tier()]
    res, states = tlc.dump_states("MC_Functional", c["cfg"], name="c07_mc")
    if res.get("violated"):
        raise MachineryError(f"MC_Functional violates {res['violated']}:\n{res['out'][-3000:]}")
    tlc.require_ok(res)
    rep.set("states", res["distinct"])
    rep.set("transitions", res["generated"])
    rep.set("exhaustive", True)
    combos = [(s["cls"], {k: {"multi": v["multi"], "n": v["n"]} for k, v in s["given"].items()}) for s in states]
    if len(combos) != res["distinct"]:
        raise MachineryError("dump incomplete")
    # the documented alternative `magnetization` instead of `polarization` (same rule; a handful of combinations per magnet class)
    for cls_, g in list(combos):
        if "polarization" in g and all((not v["multi"]) or v["n"] == 2 for v in g.values()) and g["observers"]["multi"]:
            g2 = {("magnetization" if k == "polarization" else k): v for k, v in g.items()}
            combos.append((cls_, g2))
    # in_out passed through the functional interface (Tetrahedron, TriangularMesh): same rule, both interfaces get the same in_out
    for cls_, g in list(combos):
        if cls_ in ("Tetrahedron", "TriangularMesh") and "polarization" in g and all((not v["multi"]) or v["n"] == 2 for v in g.values()) and g["observers"]["multi"] and g["observers"]["n"] == 2:
            for io in ("inside", "outside"):
                combos.append((cls_, g, io))
    rep.phase("model_check")
    d = workdir("traces/c07")
    r = rng("c07")
    r.shuffle(combos)
    nproc = 16
    per = (len(combos) + nproc - 1) // nproc
    with mp.Pool(16) as pool:
        n1 = sum(pool.map(drv.run_functional, [(combos[i * per:(i + 1) * per], os.path.join(d, f"f{i:02d}.ndjson"), i * 1_000_000, f"c07f{i}") for i in range(nproc) if combos[i * per:(i + 1) * per]]))
        n2 = sum(pool.map(drv.form_events, [(c["forms"], os.path.join(d, f"g{i:02d}.ndjson"), (100 + i) * 1_000_000, f"c07g{i}") for i in range(16)]))
        n3 = sum(pool.map(drv.core_events, [(c["core"], os.path.join(d, f"h{i:02d}.ndjson"), (200 + i) * 1_000_000, f"c07h{i}") for i in range(4)]))
    rep.phase("execute")
    files = sorted(glob.glob(os.path.join(d, "*.ndjson")))
    n, rej, _ = tlc.validate("TV_Functional", "TV.cfg", files)
    if n != n1 + n2 + n3:
        raise MachineryError(f"validator saw {n} events, harness logged {n1 + n2 + n3}")
    rep.phase("validate")
    rep.set("traces_validated_against_impl", n)
    rep.set("functional_combinations", n1)
    rep.set("call_form_events", n2)
    rep.set("core_events", n3)
    details = {}
    if rej:
        want = {r_[1] for r_ in rej}
        for p in files:
            for line in open(p):
                ev = json.loads(line)
                if ev["tid"] in want:
                    ev.pop("T", None)
                    details[ev["tid"]] = ev
    for r_ in rej:
        _, tid, clause, prop, ctx = r_[:5]
        ev = details.get(tid, {})
        oc = ctx[2] if ctx[2] in ("ok", "bad_input") else ("error" if ctx[2].startswith("exc:") else ctx[2])
        where = {"clause": clause, "kind": ctx[0], "what": ctx[1], "outcome": oc}
        what = f"{ctx[0]} {ctx[1]} field={ev.get('field')} given={ev.get('given')} outcome={ctx[2]} nrows={ev.get('nrows')}: {clause}"
        rep.reject(clause, where, what, ev, prop=prop)
    ev = json.loads(open(files[0]).readline())
    rep.sample({k: ev[k] for k in ("cls", "field", "given", "outcome", "nrows")})
    rep.assume("row-wise comparison with the object-oriented interface uses tolerance 1e-8 of the gross scale (inputs re-derived), call forms 1e-12")
    rep.assume("parameter values are seeded random valid sets; observers 3-5 units away from sources of unit size")
    return rep.finish()


def replay(path):
    case = json.load(open(path))["case"]
    print(json.dumps({k: v for k, v in case.items() if k not in ("T", "alt", "rows", "oo")}, indent=1))
    if case.get("kind") == "functional" and case.get("cls") in drv.make_oo.__code__.co_consts or True:
        from ..common import import_magpylib
        magpy = import_magpylib()
        if case.get("cls", "").startswith("core") or case.get("kind") != "functional":
            return 0
        ev = drv.functional_case(magpy, rng("replay"), case["cls"], case["given"], case.get("field") or "B", 0)
        print("now: outcome", ev["outcome"], "nrows", ev["nrows"])
    return 0
