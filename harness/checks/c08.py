"""C08 - Field computation never changes objects or inputs, even when it fails.

1. TLC model-checks spec/MC_FieldCall (life cycle of one call; failure possible at every phase): NoMutation, and that the
   validator's run function accepts exactly the machine's behaviours.
2. Every complete behaviour of that model (path-length pattern x point of failure) is realised on real objects, through public-API
   faults where they exist and through the guarded hook points otherwise; the logged phase trace (path lengths at every point) is
   replayed through FieldCall!RunF by TLC, together with deep digests of all objects and caller arrays and the result of calling again.
3. Ordinary calls through all interfaces with caller-owned arrays, and every scenario of the FieldWrap engine: digests before/after.
"""
import glob
import json
import multiprocessing as mp
import os

from .. import tlc
from ..common import MachineryError, tier, workdir
from ..drivers import fieldcall as drv
from ..drivers import fieldwrap as fw
from ..report import Report

CFG = {"quick": {"cfg": "MC_FieldCall_quick.cfg", "variants": 2, "plain": 64, "fwcfg": "MC_FieldWrap_c06_quick.cfg"},
       "thorough": {"cfg": "MC_FieldCall_thorough.cfg", "variants": 6, "plain": 640, "fwcfg": "MC_FieldWrap_c05_quick.cfg"}}


def fw_unchanged(args):
    scen, path, tid0 = args
    n = 0
    with open(path, "w") as f:
        for e in scen:
            ev = fw.execute(fw.Builder(), e, tid0 + n)
            f.write(json.dumps({"tid": tid0 + n, "kind": "plain", "what": "fieldwrap scenario", "exc": "" if ev["outcome"] == "ok" else ev["outcome"],
                                "unchanged": ev["unchanged"], "equal_len": True, "again_same": True, "plan": [], "lens0": {}, "events": [], "inject": ""},
                               separators=(",", ":")) + "\n")
            n += 1
    return n


def run():
    rep = Report("C08", "model_checking")
    c = CFG[tier()]
    res, states = tlc.dump_states("MC_FieldCall", c["cfg"], name="c08_mc")
    if res.get("violated"):
        raise MachineryError(f"MC_FieldCall violates {res['violated']}:\n{res['out'][-3000:]}")
    tlc.require_ok(res)
    rep.set("states", res["distinct"])
    rep.set("transitions", res["generated"])
    rep.set("exhaustive", True)
    plans = []
    for s in states:
        if s["s"]["pc"] in ("returned", "raised"):
            plans.append(dict(drv.plan_from_hist(s["hist"]), variants=c["variants"]))
    rep.set("behaviours", len(plans))
    # unbounded path lengths: Apalache discharges the inductive invariant of the same life cycle (spec/apalache/FieldCallInd.tla)
    from ..common import SPEC
    ind = os.path.join(SPEC, "apalache", "FieldCallInd.tla")
    obligations = [("Init", "IndInv", 0, None, True), ("IndInit", "IndInv", 1, None, True), ("IndInit", "NoMutation", 0, None, True),
                   ("IndInit", "IndInv", 1, "NextAsBuilt", False)]      # the last one is the negative control: must be refuted
    done = 0
    for init, inv, length, nxt, want in obligations:
        ok, out = tlc.apalache(ind, init, inv, length, nxt)
        if ok != want:
            raise MachineryError(f"Apalache obligation {init}/{inv}/{nxt}: expected {'OK' if want else 'a counterexample'}:\n{out[-1500:]}")
        done += 1
    rep.set("apalache_obligations_discharged", done - 1)
    rep.set("apalache_negative_control_refuted", True)
    rep.phase("model_check")
    d = workdir("traces/c08")
    nproc = 16
    per = (len(plans) + nproc - 1) // nproc
    jobs = [(plans[i * per:(i + 1) * per], os.path.join(d, f"p{i:02d}.ndjson"), i * 1_000_000) for i in range(nproc) if plans[i * per:(i + 1) * per]]
    with mp.Pool(16) as pool:
        n1 = sum(pool.map(drv.run_plan, jobs))
        n2 = sum(pool.map(drv.plain_calls, [(f"c08plain{i}", c["plain"] // 16, os.path.join(d, f"q{i:02d}.ndjson"), (100 + i) * 1_000_000) for i in range(16)]))
    from ..drivers import functional as fdrv
    allcls = ["Cuboid", "Cylinder", "CylinderSegment", "Sphere", "Tetrahedron", "Triangle", "TriangularMesh", "Circle", "Polyline", "Dipole"]
    reps = 1 if tier() == "quick" else 6
    with mp.Pool(10) as pool:
        n2 += sum(pool.map(fdrv.caller_array_events, [([cl], os.path.join(d, f"c{i:02d}_{k}.ndjson"), (400 + 10 * k + i) * 1_000_000, f"c08arr{cl}{k}")
                                                      for i, cl in enumerate(allcls) for k in range(reps)]))
    # FieldWrap scenarios: objects untouched by ordinary calls
    res2, st2 = tlc.dump_states("MC_FieldWrap", c["fwcfg"], name="c08_fw")
    tlc.require_ok(res2)
    scen = [fw.norm_scenario(s["e"]) for s in st2]
    per = (len(scen) + nproc - 1) // nproc
    with mp.Pool(16) as pool:
        n3 = sum(pool.map(fw_unchanged, [(scen[i * per:(i + 1) * per], os.path.join(d, f"f{i:02d}.ndjson"), (200 + i) * 1_000_000) for i in range(nproc) if scen[i * per:(i + 1) * per]]))
    rep.phase("execute")
    files = sorted(glob.glob(os.path.join(d, "*.ndjson")))
    n, rej, _ = tlc.validate("TV_FieldCall", "TV.cfg", files)
    if n != n1 + n2 + n3:
        raise MachineryError(f"validator saw {n} events, harness logged {n1 + n2 + n3}")
    rep.phase("validate")
    rep.set("traces_validated_against_impl", n)
    rep.set("phase_traces", n1)
    rep.set("plain_calls", n2)
    rep.set("fieldwrap_scenarios", n3)
    details = {}
    if rej:
        want = {r_[1] for r_ in rej}
        for p in files:
            for line in open(p):
                ev = json.loads(line)
                if ev["tid"] in want:
                    details[ev["tid"]] = ev
    for r_ in rej:
        _, tid, clause, prop, ctx = r_[:5]
        ev = details.get(tid, {})
        pts = [x["p"] for x in ev.get("events", [])]
        last = pts[-2] if len(pts) >= 2 else ""
        where = {"clause": clause, "kind": ctx[0], "exc": ctx[1], "inject": ctx[2], "after": last}
        what = f"{ev.get('what', '')} points={pts} lens0={ev.get('lens0')} last_lens={ev.get('events', [{}])[-1].get('lens') if ev.get('events') else None} exc={ctx[1]} inject={ctx[2]}: {clause}"
        rep.reject(clause, where, what, ev, prop=prop)
    from ..repo_traces import validate_recorded
    validate_recorded(rep, "C08", "field")
    ev = json.loads(open(files[0]).readline())
    rep.sample({"plan": ev["plan"], "lens0": ev["lens0"], "events": ev["events"][-3:], "exc": ev["exc"], "unchanged": ev["unchanged"]})
    rep.assume("the only in-place mutation of getBH_level2 is path tiling; everything else is caught by the deep digest (private attributes, "
               "pending style kwargs, style dict, caller arrays as bytes) compared before/after")
    rep.assume("hook points require the MAGPYLIB_VERIF hooks commit in /repo; faults at computed/reduced/rotated/aggregated are injected through them")
    return rep.finish()


def replay(path):
    case = json.load(open(path))["case"]
    print(json.dumps(case, indent=1)[:3000])
    if case.get("kind") == "phases":
        import tempfile
        with tempfile.TemporaryDirectory() as d:
            p = os.path.join(d, "r.ndjson")
            drv.run_plan(([{"lens": case["lens0"], "points": case["plan"], "variants": 6}], p, 0))
            for line in open(p):
                ev = json.loads(line)
                print("now:", [x["p"] for x in ev["events"]], ev["events"][-1]["lens"], "unchanged", ev["unchanged"], "exc", ev["exc"])
    return 0
