"""C09 - move/rotate and the pose setters follow the documented path semantics.

1. TLAPS proves the padding arithmetic (spec/Pad_proof.tla over spec/PadArith.tla, the operators Path.tla uses).
2. TLC model-checks spec/MC_Path: operational transcription == documented index semantics (DeclAgrees), equal
   lengths, setters, touched-entry counts, for all bounded inputs and all sequences up to the depth bound.
3. Binding A: every transition of that state graph is executed on a real object, each rotation through every
   rotate_from_* form, plus malformed calls (must be rejected without effect); TV_Path.tla judges every step.
   The same replay runs under random concretizations kappa (generic rigid motion, length unit 1e-9..1e9).
4. Binding B: seeded random histories (<= 40 operations, arbitrary lattice values, longer paths).
"""
import glob
import json
import multiprocessing as mp
import os

from .. import tlaval, tlc
from ..common import SPEC, MachineryError, rng, tier, workdir
from ..drivers import paths as drv
from ..report import Report

CFG = {"quick": {"cfg": "MC_Path_quick.cfg", "kappas": 2, "kappa_states": 120, "hist": 48, "hist_len": 40},
       "thorough": {"cfg": "MC_Path_thorough.cfg", "kappas": 8, "kappa_states": 400, "hist": 400, "hist_len": 40}}
KIDS1 = {"o": []}


def parse_calls(out):
    for v in tlaval.parse_many(out):
        if isinstance(v, list) and v and v[0] == "CALLS":
            return [drv.tla_call(c) for c in v[1]]
    raise MachineryError("MC module did not print its call domain")


def random_history(args):
    salt, kids, nsteps, path, tid0, kappa = args
    r = rng(salt)
    k = drv.Kappa.random(r) if kappa else None
    w = drv.PathWorld(kids, k)
    names = list(kids)
    from ..lattice import ROTS

    def vec():
        return [r.randint(-3, 3) for _ in range(3)]

    def rot():
        return ROTS[r.randrange(24)].tolist()
    n0 = r.randint(1, 4)
    st = {"kids": kids, "path": {n: {"pos": [vec() for _ in range(n0)], "ori": [rot() for _ in range(n0)]} for n in names}}
    n = 0
    with open(path, "w") as f:
        for _ in range(nsteps):
            o = r.choice(names)
            L = len(st["path"][o]["pos"])
            start = r.choice([{"auto": True, "v": 0}, {"auto": False, "v": 0}, {"auto": False, "v": r.randint(-L - 2, L + 2)}])
            kind = r.choice(["move", "move", "rotate", "rotate", "rotate", "setpos", "setori", "reset", "bad"])
            c = {"op": kind, "o": o, "inp": {"scalar": True, "v": [[0, 0, 0]]}, "anc": {"kind": "none", "scalar": True, "v": []}, "start": start, "bad": ""}
            if kind == "move":
                m = r.randint(0, 4)
                c["inp"] = {"scalar": m == 0, "v": [vec() for _ in range(max(m, 1))]}
            elif kind == "rotate":
                m = r.randint(0, 4)
                c["inp"] = {"scalar": m == 0, "v": [rot() for _ in range(max(m, 1))]}
                a = r.randint(0, 3)
                if a == 1:
                    c["anc"] = {"kind": "vec", "scalar": True, "v": [[0, 0, 0]]}
                elif a == 2:
                    c["anc"] = {"kind": "vec", "scalar": True, "v": [vec()]}
                elif a == 3:
                    c["anc"] = {"kind": "vec", "scalar": False, "v": [vec() for _ in range(r.randint(1, 4))]}
            elif kind == "setpos":
                c["inp"] = {"scalar": False, "v": [vec() for _ in range(r.randint(1, 4))]}
            elif kind == "setori":
                c["inp"] = {"scalar": False, "v": [rot() for _ in range(r.randint(1, 4))]}
            elif kind == "bad":
                c["bad"] = r.choice(drv.BAD_CALLS)
            rec = drv.step(w, st, c, tid0 + n, all_forms=(r.random() < 0.3))
            if rec is None:
                continue
            f.write(json.dumps({"pre": st, "steps": [rec]}, separators=(",", ":")) + "\n")
            n += 1
            post = rec["post"]
            if any("off" in p for p in post["path"].values()) or max(len(p["pos"]) for p in post["path"].values()) > 12:
                break
            st = post
    return n


def run_binding(rep, pid, module, cfg, kids_for_state, c, tag):
    """MC + replay of all transitions (+kappa) for a Path-family module. Returns (files, counts)."""
    res, states = tlc.dump_states(module, cfg, name=f"{pid}_mc")
    if res.get("violated"):
        raise MachineryError(f"{module} violates {res['violated']}:\n{res['out'][-3000:]}")
    tlc.require_ok(res)
    calls = parse_calls(res["out"])
    rep.set("states", res["distinct"])
    rep.set("transitions", res["generated"])
    rep.set("mc_depth", res.get("depth"))
    rep.phase("model_check")
    return res, states, calls


def run():
    rep = Report("C09", "model_checking")
    c = CFG[tier()]
    # 1. proof
    rc, proved, failed, out = tlc.tlapm(os.path.join(SPEC, "Pad_proof.tla"))
    import re
    m = re.search(r"@!!count:(\d+)", out)
    nobl = int(m.group(1)) if m else 0
    if nobl == 0 or proved < nobl or failed:
        raise MachineryError(f"TLAPS proof of Pad_proof.tla incomplete: {proved}/{nobl} proved, {failed} failed\n{out[-1500:]}")
    rep.set("proof_obligations", nobl)
    rep.set("proof_discharged", proved)
    rep.phase("tlaps")
    # 2. model check
    res, states, calls = run_binding(rep, "c09", "MC_Path", c["cfg"], None, c, "A")
    sts = [{"kids": KIDS1, "path": {"o": drv.tla_path(s["path"])}} for s in states]
    # 3. binding A
    d = workdir("traces/c09_A")
    nproc = 16
    jobs = []
    per = (len(sts) + nproc - 1) // nproc
    for i in range(nproc):
        chunk = sts[i * per:(i + 1) * per]
        if chunk:
            jobs.append((chunk, calls, KIDS1, "", os.path.join(d, f"a{i:02d}.ndjson"), i * 10_000_000, True))
    r = rng("c09kappa")
    for k in range(c["kappas"]):
        chunk = r.sample(sts, min(c["kappa_states"], len(sts)))
        jobs.append((chunk, calls, KIDS1, f"c09k{k}", os.path.join(d, f"k{k:02d}.ndjson"), (100 + k) * 10_000_000, False))
    with mp.Pool(16) as pool:
        results = pool.map(drv.replay_states, jobs)
    n_id = sum(x[0] for x in results[:len(jobs) - c["kappas"]])
    n_bad = len(sts) * len(drv.BAD_CALLS)
    ninit = res["generated"] - res["distinct"] * len(calls)
    if n_id - n_bad != len(sts) * len(calls) or not 1 <= ninit <= 16:
        raise MachineryError(f"call domain mismatch: harness executed {n_id - n_bad} well-formed steps from {len(sts)} states x {len(calls)} calls, TLC generated {res['generated']} states")
    nexec = sum(x[1] for x in results)
    rep.phase("replay_A")
    filesA = sorted(glob.glob(os.path.join(d, "*.ndjson")))
    nA, rejA, _ = tlc.validate("TV_Path", "TV.cfg", filesA)
    if nA != sum(x[0] for x in results):
        raise MachineryError(f"validator saw {nA} steps, harness logged {sum(x[0] for x in results)}")
    rep.phase("validate_A")
    # 4. binding B
    d2 = workdir("traces/c09_B")
    jobs = [(f"c09B{i}", KIDS1, c["hist_len"], os.path.join(d2, f"b{i:03d}.ndjson"), 500_000_000 + i * 100_000, i % 3 == 2) for i in range(c["hist"])]
    with mp.Pool(16) as pool:
        nB_logged = sum(pool.map(random_history, jobs))
    filesB = merge(sorted(glob.glob(os.path.join(d2, "b*.ndjson"))), d2)
    nB, rejB, _ = tlc.validate("TV_Path", "TV.cfg", filesB)
    if nB != nB_logged:
        raise MachineryError(f"validator saw {nB} history steps, harness logged {nB_logged}")
    rep.phase("binding_B")
    rep.set("traces_validated_against_impl", nA + nB)
    rep.set("steps_binding_A", nA)
    rep.set("steps_binding_B", nB)
    rep.set("api_executions", nexec)
    rep.set("malformed_calls", n_bad)
    report_rejects(rep, rejA + rejB, filesA + filesB, "C09")
    from ..repo_traces import validate_recorded
    validate_recorded(rep, "C09", "path")
    e = json.loads(open(filesA[0]).readline())
    for s in e["steps"][:2] + e["steps"][-1:]:
        rep.sample({"pre": e["pre"]["path"], "call": s["call"], "outcome": s["outcome"], "post": s["post"]["path"]})
    rep.assume("TLAPS (SMT backend), TLC, SANY, Json module trusted; abstract state read from _position/_orientation and rounded to the lattice after undoing kappa (off-lattice results are logged as an impossible marker)")
    rep.assume("input palettes bounded (vector inputs <= %s entries, |start| <= bound, depth bound); values beyond the palette are sampled by binding B" % c["cfg"])
    return rep.finish()


def merge(files, d, n=16):
    out = []
    for i in range(n):
        p = os.path.join(d, f"m{i:02d}.ndjson")
        with open(p, "w") as f:
            for q in files[i::n]:
                f.write(open(q).read())
        if os.path.getsize(p):
            out.append(p)
        else:
            os.remove(p)
    return out


def find_steps(files, tids):
    out = {}
    tids = set(tids)
    for p in files:
        for line in open(p):
            e = json.loads(line)
            for s in e["steps"]:
                if s["tid"] in tids:
                    out[s["tid"]] = {"pre": e["pre"], "step": s, "kappa": e.get("kappa")}
    return out


def report_rejects(rep, rej, files, pid):
    details = find_steps(files, [r[1] for r in rej]) if rej else {}
    for r in rej:
        _, tid, clause, prop, ctx = r[:5]
        det = details.get(tid, {})
        call = det.get("step", {}).get("call", {})
        where = {"op": ctx[0], "outcome": ctx[1], "bad": call.get("bad", ""), "kappa": "id" if not det.get("kappa") else "random"}
        what = f"{ctx[0]} on {call.get('o')} inp={call.get('inp')} anc={call.get('anc')} start={call.get('start')} bad={call.get('bad')} -> {ctx[1]}: {clause}"
        rep.reject(clause, where, what, det, prop=prop)


def replay(path):
    case = json.load(open(path))["case"]
    pre, s = case["pre"], case["step"]
    k = None
    if case.get("kappa"):
        from scipy.spatial.transform import Rotation as R
        kd = case["kappa"]
        k = drv.Kappa(kd["lam"], R.from_quat(kd["G_quat"]), kd["t"])
    w = drv.PathWorld(pre["kids"], k)
    rec = drv.step(w, pre, s["call"], 0)
    print("call", s["call"])
    print("outcome now", rec["outcome"], "logged", s["outcome"])
    print("post now   ", json.dumps(rec["post"]["path"]))
    print("post logged", json.dumps(s["post"]["path"]))
    print("alts now", rec["alts"])
    return 0
