"""C10 - Operations on a Collection keep every child's pose relative to it.

1. TLC model-checks spec/MC_Compound (tree shapes C[a], C[a,b], C[D[a]], C[a,D[b,E[c]]]; every operation on every
   object; depth-bounded sequences): RelPose, Frame, Own, KeepLen.
2. Binding A: transitions of that state graph (all from the initial states, a seeded sample of the deeper ones in the
   quick tier, all in the thorough tier) are executed on real nested collections whose leaves are tagged custom sources
   and sensors; TV_Path.tla judges own path (C09 semantics), frame, relative poses and the invariance of coll.getB()
   seen by the collection's own sensors. Also under random concretizations kappa.
3. Binding B: random histories on the four shapes incl. members of different lengths (premise of C10 false: only the
   frame condition and exact transcription apply).
"""
import glob
import json
import multiprocessing as mp
import os

from .. import tlc
from ..common import MachineryError, rng, tier, workdir
from ..drivers import paths as drv
from ..report import Report
from . import c09

CFG = {"quick": {"cfgs": ["MC_Compound_quick.cfg", "MC_Compound_quick4.cfg"], "sample": 120, "kappas": 2, "kappa_states": 12, "hist": 48, "hist_len": 25},
       "thorough": {"cfgs": ["MC_Compound_thorough.cfg", "MC_Compound_thorough4.cfg"], "sample": 1200, "kappas": 6, "kappa_states": 40, "hist": 400, "hist_len": 40}}
ROLES = {"b": "src", "c": "sens", "f": "src"}
SHAPES = [{"A": ["b"], "b": []}, {"A": ["b", "c"], "b": [], "c": []}, {"A": ["D"], "D": ["b"], "b": []},
          {"A": ["b", "D"], "b": [], "D": ["c", "E"], "c": [], "E": ["f"], "f": []}]


def st_from_tla(v):
    return {"kids": {k: list(x) for k, x in v["kids"].items()}, "path": {k: drv.tla_path(p) for k, p in v["path"].items()}}


def hist_job(args):
    i, nsteps, path = args
    r = rng(f"c10shape{i}")
    kids = SHAPES[i % 4]
    return c09.random_history((f"c10B{i}", kids, nsteps, path, 500_000_000 + i * 100_000, i % 3 == 2))


def run():
    rep = Report("C10", "model_checking")
    c = CFG[tier()]
    all_states, calls = [], None
    tot_states = tot_trans = 0
    init_states = []
    for cfg in c["cfgs"]:
        res, states = tlc.dump_states("MC_Compound", cfg, name="c10_mc_" + cfg.replace(".", "_"))
        if res.get("violated"):
            raise MachineryError(f"MC_Compound/{cfg} violates {res['violated']}:\n{res['out'][-3000:]}")
        tlc.require_ok(res)
        calls = c09.parse_calls(res["out"])
        tot_states += res["distinct"]
        tot_trans += res["generated"]
        for s in states:
            st = st_from_tla(s["st"])
            (init_states if s["last"].get("op") == "init" else all_states).append(st)
    rep.set("states", tot_states)
    rep.set("transitions", tot_trans)
    rep.phase("model_check")
    r = rng("c10sample")
    deeper = all_states if len(all_states) <= c["sample"] else r.sample(all_states, c["sample"])
    sts = init_states + deeper
    rep.set("replayed_states", len(sts))
    rep.set("replay_exhaustive", len(deeper) == len(all_states))
    d = workdir("traces/c10_A")
    opts = {"all_targets": True, "field": True, "roles": ROLES, "ref_calls": True}
    nproc = 16
    jobs = []
    r.shuffle(sts)
    per = (len(sts) + nproc - 1) // nproc
    for i in range(nproc):
        chunk = sts[i * per:(i + 1) * per]
        if chunk:
            jobs.append((chunk, calls, None, "", os.path.join(d, f"a{i:02d}.ndjson"), i * 10_000_000, False, False, opts))
    for k in range(c["kappas"]):
        chunk = r.sample(sts, min(c["kappa_states"], len(sts)))
        jobs.append((chunk, calls, None, f"c10k{k}", os.path.join(d, f"k{k:02d}.ndjson"), (100 + k) * 10_000_000, False, False, opts))
    with mp.Pool(16) as pool:
        results = pool.map(drv.replay_states, jobs)
    n_id = sum(x[0] for x in results[:len(jobs) - c["kappas"]])
    expect = sum(len(st["kids"]) * (len(calls) + 4 * len(st["kids"])) for st in sts)      # palette calls + state-dependent (reference) calls
    if n_id != expect:
        raise MachineryError(f"harness executed {n_id} steps, expected {expect} (= objects x calls over the replayed states)")
    rep.phase("replay_A")
    filesA = sorted(glob.glob(os.path.join(d, "*.ndjson")))
    nA, rejA, _ = tlc.validate("TV_Path", "TV.cfg", filesA)
    if nA != sum(x[0] for x in results):
        raise MachineryError(f"validator saw {nA} steps, harness logged {sum(x[0] for x in results)}")
    rep.phase("validate_A")
    d2 = workdir("traces/c10_B")
    jobs = [(i, c["hist_len"], os.path.join(d2, f"b{i:03d}.ndjson")) for i in range(c["hist"])]
    with mp.Pool(16) as pool:
        nB_logged = sum(pool.map(hist_job, jobs))
    filesB = c09.merge(sorted(glob.glob(os.path.join(d2, "b*.ndjson"))), d2)
    nB, rejB, _ = tlc.validate("TV_Path", "TV.cfg", filesB)
    if nB != nB_logged:
        raise MachineryError(f"validator saw {nB} history steps, harness logged {nB_logged}")
    rep.phase("binding_B")
    rep.set("traces_validated_against_impl", nA + nB)
    rep.set("steps_binding_A", nA)
    rep.set("steps_binding_B", nB)
    nfield = 0
    for p in filesA:
        for line in open(p):
            nfield += line.count('"has":true')
    rep.set("internal_field_observations", nfield)
    c09.report_rejects(rep, rejA + rejB, filesA + filesB, "C10")
    from ..drivers.system import system_phase
    system_phase(rep, "C10", "path")
    e = json.loads(open(filesA[0]).readline())
    for s in e["steps"][:2]:
        rep.sample({"kids": e["pre"]["kids"], "pre": e["pre"]["path"], "call": s["call"], "post": s["post"]["path"], "field": s["field"]})
    rep.assume("TLC, SANY, Json module trusted; abstract state read from _position/_orientation, rounded to the lattice after undoing kappa")
    rep.assume("tree shapes, input palettes and depth bounded; other trees/values sampled by binding B")
    return rep.finish()


def replay(path):
    case = json.load(open(path))["case"]
    pre, s = case["pre"], case["step"]
    k = None
    if case.get("kappa"):
        from scipy.spatial.transform import Rotation as R
        kd = case["kappa"]
        k = drv.Kappa(kd["lam"], R.from_quat(kd["G_quat"]), kd["t"])
    w = drv.PathWorld(pre["kids"], k, roles=ROLES)
    rec = drv.step(w, pre, s["call"], 0, field=True)
    print("call", s["call"])
    print("outcome now", rec["outcome"], "logged", s["outcome"])
    print("post now   ", json.dumps(rec["post"]["path"]))
    print("post logged", json.dumps(s["post"]["path"]))
    print("field now", rec["field"])
    return 0
