"""C11 - The collection tree stays a consistent forest under any history.

1. TLC model-checks spec/MC_Tree (all histories over a fixed universe, to the fixpoint): ForestInv, AllViewsOK, Frame.
2. Binding A: every transition of that state graph (every dumped state x every call of the domain) is executed on
   real magpylib objects put into that state; TV_Tree.tla judges each step with the same operators.
3. Binding B: long random histories over a larger universe, same validator.
"""
import glob
import json
import multiprocessing as mp
import os

from .. import tlc
from ..common import MachineryError, tier, workdir
from ..drivers import tree as drv
from ..report import Report

CFG = {
    "quick": {"cfg": "MC_Tree_quick.cfg", "colls": ["C1", "C2", "C3"], "srcs": ["S1"], "sens": ["X1"], "max_args": 2, "with_bad": True,
              "hist": 32, "hist_len": 400},
    "thorough": {"cfg": "MC_Tree_thorough.cfg", "colls": ["C1", "C2", "C3"], "srcs": ["S1", "S2"], "sens": ["X1"], "max_args": 2, "with_bad": True,
                 "hist": 64, "hist_len": 1500},
}
BIG = {"colls": ["C1", "C2", "C3", "C4", "C5"], "srcs": ["S1", "S2", "S3", "S4"], "sens": ["X1", "X2", "X3"]}


def find_steps(files, tids):
    out = {}
    tids = set(tids)
    for p in files:
        for line in open(p):
            e = json.loads(line)
            for s in e["steps"]:
                if s["tid"] in tids:
                    out[s["tid"]] = {"pre": e["pre"], "step": s}
    return out


def run():
    rep = Report("C11", "model_checking")
    c = CFG[tier()]
    # 1. model checking + state dump
    res, states = tlc.dump_states("MC_Tree", c["cfg"], name="c11_mc")
    if res.get("violated"):
        # the requirement view itself breaks the property: the specification is wrong (machinery), not the code
        raise MachineryError(f"MC_Tree violates {res['violated']}:\n{res['out'][-3000:]}")
    tlc.require_ok(res)
    rep.set("states", res["distinct"])
    rep.set("transitions", res["generated"])
    rep.set("exhaustive", True)
    rep.set("mc_depth", res.get("depth"))
    rep.phase("model_check")
    sts = [drv.st_from_tla(s["st"]) for s in states]
    if len(sts) != res["distinct"]:
        raise MachineryError(f"dump has {len(sts)} states, TLC reports {res['distinct']}")
    # 2. binding A
    d = workdir("traces/c11_A")
    nproc = 16
    per = (len(sts) + nproc - 1) // nproc
    jobs = []
    for i in range(nproc):
        chunk = sts[i * per:(i + 1) * per]
        if chunk:
            jobs.append((chunk, c, os.path.join(d, f"a{i:02d}.ndjson"), i * 10_000_000))
    with mp.Pool(len(jobs)) as pool:
        results = pool.map(drv.replay_states, jobs)
    nsteps = sum(r[0] for r in results)
    outcomes = {}
    for _, oc in results:
        for k, v in oc.items():
            outcomes[f"{k[0]}:{k[1]}"] = outcomes.get(f"{k[0]}:{k[1]}", 0) + v
    if nsteps != res["generated"] - 1:
        raise MachineryError(f"call domain mismatch: harness executed {nsteps} steps, TLC generated {res['generated'] - 1} transitions")
    rep.phase("replay_A")
    filesA = sorted(glob.glob(os.path.join(d, "*.ndjson")))
    nA, rejA, _ = tlc.validate("TV_Tree", "TV.cfg", filesA)
    if nA != nsteps:
        raise MachineryError(f"validator saw {nA} steps, harness logged {nsteps}")
    rep.phase("validate_A")
    # 3. binding B
    d2 = workdir("traces/c11_B")
    jobs = [(f"c11B{i}", BIG, c["hist_len"], os.path.join(d2, f"b{i:02d}.ndjson"), 500_000_000 + i * 1_000_000) for i in range(c["hist"])]
    with mp.Pool(16) as pool:
        nB_logged = sum(pool.map(drv.random_history, jobs))
    filesB = sorted(glob.glob(os.path.join(d2, "*.ndjson")))
    # merge into 16 shards for fewer JVM starts
    merged = []
    for i in range(16):
        p = os.path.join(d2, f"m{i:02d}.ndjson")
        with open(p, "w") as f:
            for q in filesB[i::16]:
                f.write(open(q).read())
        if os.path.getsize(p):
            merged.append(p)
    nB, rejB, _ = tlc.validate("TV_Tree", "TV.cfg", merged)
    if nB != nB_logged:
        raise MachineryError(f"validator saw {nB} history steps, harness logged {nB_logged}")
    rep.phase("binding_B")
    rep.set("traces_validated_against_impl", nA + nB)
    rep.set("steps_binding_A", nA)
    rep.set("steps_binding_B", nB)
    rep.set("outcomes_binding_A", outcomes)
    rej = rejA + rejB
    from ..repo_traces import validate_recorded
    validate_recorded(rep, "C11", "tree")
    from ..drivers.system import system_phase
    system_phase(rep, "C11", "tree")
    details = find_steps(filesA + filesB, [r[1] for r in rej]) if rej else {}
    for r in rej:
        _, tid, clause, prop, ctx = r[:5]
        det = details.get(tid, {})
        call = det.get("step", {}).get("call", {})
        where = {"op": ctx[0], "outcome": ctx[1], "binding": "A" if tid < 500_000_000 else "B"}
        what = f"{ctx[0]}({','.join(map(str, call.get('args', [])))}) on {call.get('self')} ov={call.get('ov')} -> {ctx[1]}: {clause}"
        rep.reject(clause, where, what, det, prop=prop)
    # samples: a few accepted steps
    for p in filesA[:1]:
        e = json.loads(open(p).readline())
        for s in e["steps"][:3]:
            rep.sample({"pre_children": e["pre"]["children"], "call": s["call"], "outcome": s["outcome"], "post_children": s["post"]["children"]})
    rep.assume("TLC, SANY and the JSON module are trusted; the abstract state is read from private attributes _parent/_children/_sources/_sensors/_collections and the public *_all properties")
    rep.assume("universe bounded: %d collections, %d sources, %d sensors, argument lists <= %d; histories over larger universes are sampled (binding B)" % (len(c["colls"]), len(c["srcs"]), len(c["sens"]), c["max_args"]))
    return rep.finish()


def replay(path):
    case = json.load(open(path))["case"]
    pre, step = case["pre"], case["step"]
    kinds = pre["kind"]
    w = drv.World([n for n, k in kinds.items() if k == "C"], [n for n, k in kinds.items() if k == "S"], [n for n, k in kinds.items() if k == "X"])
    w.set_state(pre)
    oc = w.apply(step["call"])
    print("call", step["call"], "outcome", oc)
    print("post", json.dumps(w.project()))
    print("logged post", json.dumps(step["post"]))
    return 0
