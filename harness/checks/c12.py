"""C12 - Results are invariant under the choice of length unit.

1. TLC model-checks spec/MC_Laws (LAWS_MODE=C12): Rescale(k) / ScaleExc(a, m) behaviours from one base configuration per
   source class, the TriangularMesh variants (flipped faces, tetrahedron, two parts, open; built through the constructor,
   from_triangles, from_mesh, from_ConvexHull, to_TriangleCollection) and scenes of SEVERAL magnets evaluated in one field
   call (two different meshes with the same number of faces, mesh next to cuboid, cuboid next to mesh), with observer classes
   deep_in / face_in / face_out / edge / edge_ext / close / gen / far / in_one whose labels are verified exactly (LabelsOK;
   in_one = strictly inside exactly one body at local coordinates that lie outside the shape of every other body).
2. Every transition is instantiated at lattice unit 10^k m - one half of the plan - or m * 10^k m with a generic mantissa m
   (coordinates that are not round numbers of metres), with the same generic rigid motion G for both sides, and
   getB/getH/getJ, the J-pattern (inside/outside) and the mesh status flags / reoriented faces are logged.
3. spec/TV_Laws judges: decade shift of the observation = exponent table (magnets 0, currents -1, dipoles -3, J 0) * k,
   resp. = a for the excitation; mantissas equal within the tolerance of the distance class; inside/outside pattern and
   mesh status identical before and after.
"""
import json

from ..common import tier
from ..drivers import laws as drv
from ..report import Report

PID = "C12"
CAP = {"quick": 4000, "thorough": 40000}


def run():
    rep = Report(PID, "exploration")
    drv.run_check(PID, rep, cap=CAP[tier()])
    rep.assume("TLC, SANY and the Json module are trusted; the driver only instantiates abstract configurations and quantizes what getB/getH/getJ return")
    rep.assume("relative placements of source and observer are lattice placements (Z^3 x 24 rotations, units 1/den); global poses and the unit are generic through the concretization kappa")
    rep.assume("distance class: near = within 10 sizes (Chebyshev distance from the bounding-box centre) of every source at every path index; tolerance 1e-8 of the gross scale near, 1e-5 far (DESIGN 3.4)")
    return rep.finish()


def replay(path):
    case = json.load(open(path))["case"]
    return drv.replay_case(case)
