"""C13 - A body gives the same field however it is represented or subdivided.

1. TLC model-checks spec/MC_Laws (LAWS_MODE=C13): behaviours of Split (Cuboid at lattice planes), SplitSeg
   (CylinderSegment in r / phi / z), Convert (Cuboid -> 12-face TriangularMesh / from_ConvexHull / 5 or 6 Tetrahedra /
   12 Triangle sheets; TriangularMesh -> to_TriangleCollection / from_triangles / from_mesh; Cylinder -> full
   CylinderSegment; Sphere -> Dipole; Circle -> inscribed N-gon), Merge, and representations WITH A HISTORY: Convert
   "MeshLate" (the mesh is built un-normalised with inverted faces, the live object is used / inspected / checked, normalised
   by reorient_faces() and only then compared with the Cuboid) and Op (use / check / reorient the live object of a mesh).  In every state the exact premise holds:
   parts have the polarization and pose of the whole, pairwise disjoint interiors, exactly its volume (integer
   determinants, separating-axis test, chart boxes), observers strictly off all surfaces and cut planes; the total
   volume is conserved along the behaviour and an interior point is inside exactly one part.
   Two base configurations carry observers exactly ON the straight extensions of all 12 edges and on extensions of face planes
   of the cuboid (outside the body, on no cut): these are instantiated on the lattice itself (no global rotation, unit 2^e m).
   THIN plates (aspect 1:1000 along each axis, 1:5000) are cut into halves and slabs, converted to mesh / hull / sheets and cut by
   their diagonal plane into two prism meshes whose face lists start with the slanted face ("Prisms"; premise: two closed outward
   convex meshes in the box on different sides of that plane with exactly its volume); observers at distances of the large extent.
2. Every transition is instantiated under a random concretization kappa (every other one on the exact lattice); per-source getB/getH are logged as two-limb
   fixed-point numbers (1e-12 of the gross scale per observer and field).
3. spec/TV_Laws re-checks the premise and judges Sum(before) = Sum(after) for the fields the law claims (H only for
   Triangle sheets), and the 1/N^2 rate law for the polygon.
"""
import json

from ..common import tier
from ..drivers import laws as drv
from ..report import Report

PID = "C13"
CAP = {"quick": 4000, "thorough": 10000}


def run():
    rep = Report(PID, "exploration")
    drv.run_check(PID, rep, cap=CAP[tier()])
    rep.assume("TLC, SANY and the Json module are trusted; the driver only instantiates abstract configurations and quantizes what getB/getH/getJ return")
    rep.assume("relative placements of source and observer are lattice placements (Z^3 x 24 rotations, units 1/den); global poses and the unit are generic through the concretization kappa")
    rep.assume("distance class: near = within 10 sizes (Chebyshev distance from the bounding-box centre) of every source at every path index; tolerance 1e-8 of the gross scale near, 1e-5 far (DESIGN 3.4)")
    return rep.finish()


def replay(path):
    case = json.load(open(path))["case"]
    return drv.replay_case(case)
