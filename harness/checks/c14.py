"""C14 - Returned fields obey the integral laws of magnetostatics.

1. TLC model-checks spec/MC_Integral (Prop = "C14"): enumerates closed chart cells (flux law) and closed loops (circulation
   law) around / inside / across every magnet class, Dipole, Circle, closed Polyline and collections, checks every premise
   exactly and checks the linking-number library (invariance under joint rigid motion, antisymmetry, far loops, additivity).
2. The dumped states are the plan: harness/drivers/integral.py measures flux of getB and circulation of getH by
   Gauss-Legendre quadrature between the breakpoints supplied by the specification, under kappa = id and random kappa.
3. TV_Integral.tla re-checks each premise, recomputes the breakpoints and the expected value (0 resp. Sum I*Lk amperes) and
   judges |measured - expected| <= 1e-7 of the gross scale.
"""
import json
import multiprocessing as mp
import os

from .. import tlc
from ..common import MachineryError, cjson, tier, workdir
from ..drivers import integral as drv
from ..report import Report

PROP = "C14"
CFG = {"quick": "MC_Integral_c14_quick.cfg", "thorough": "MC_Integral_c14_thorough.cfg"}
RULE = ("one non-trivial case = one distinct (law, family, per-source coverage class [free|inside|cut|encloses resp. linked|near|away], "
        "decade of cell size / source size, kappa id|rnd) among the ACCEPTED measured instances; the instances themselves are "
        "enumerated by TLC (spec/MC_Integral.tla)")


def size_decade(inst):
    import math

    def ext(b):
        return max(1, max(b))

    sc = []
    for s in inst["scene"]:
        if s["dim"]:
            sc.append(max(abs(d) for d in s["dim"][:3]))
        elif s["verts"]:
            sc.append(max(max(abs(c) for c in v) for v in s["verts"]))
    body = max(sc) if sc else 1
    if inst["law"] == "point":
        return int(math.floor(math.log10(inst["pt"]["rho"] / body) + 0.5))
    if inst["law"] == "flux":
        lin = {"cyl": (0, 2), "sph": (0,)}.get(inst["ch"]["type"], (0, 1, 2))
        cell = max(inst["hi"][k] - inst["lo"][k] for k in lin)
    else:
        lin = {"cyl": (0, 2), "sph": (0,)}.get(inst["ch"]["type"], (0, 1, 2))
        cell = max([abs(a[k] - b[k]) for a, b in inst["edges"] for k in lin] + [1])
    return int(math.floor(math.log10(cell / body) + 0.5))


def touches_axis(inst):
    """does the cell / loop contain points of the chart axis r = 0 (cylindrical and spherical charts)?"""
    if inst["ch"]["type"] not in ("cyl", "sph"):
        return False
    if inst["law"] == "flux":
        return inst["lo"][0] == 0
    return any(a[0] == 0 or b[0] == 0 for a, b in inst["edges"])


def validate_named(files, tag):
    """tlc.validate with per-check TLC work directories: C14 and C01 share the validator module TV_Integral, so the default
    directory name (derived from the module name only) would collide when both checks run at the same time."""
    import concurrent.futures as cf

    from .. import tlaval

    def one(args):
        i, f = args
        res = tlc.run_tlc("TV_Integral", "TV.cfg", name=f"tv_{tag}_{i}", workers=1, xmx="3g", env={"TRACE_FILE": f})
        vals = tlaval.parse_many(res["out"])
        summ = [v for v in vals if isinstance(v, list) and v and v[0] == "validated"]
        if not summ:
            raise MachineryError(f"validator TV_Integral produced no summary for {f}:\n{res['out'][-3000:]}")
        rej = [v for v in vals if isinstance(v, list) and v and v[0] == "REJECT"]
        if summ[0][3] != len(rej):
            raise MachineryError(f"validator TV_Integral: summary says {summ[0][3]} rejected but {len(rej)} REJECT lines parsed")
        return summ[0][1], rej, [v for v in vals if isinstance(v, list) and v and v[0] == "INFO"]

    n, rejects, infos = 0, [], []
    with cf.ThreadPoolExecutor(max_workers=16) as ex:
        for k, r, i in ex.map(one, list(enumerate(files))):
            n += k
            rejects += r
            infos += i
    return n, rejects, infos


def execute(prop, cfg, rep, dump_name, extra_events=None):
    """shared by C14 and C01: model check + dump, measure, validate. Returns (plan, events, rejects, infos)."""
    res, states = tlc.dump_states("MC_Integral", cfg, name=dump_name)
    if res.get("violated"):
        raise MachineryError(f"MC_Integral violates {res['violated']} (the specification's own library is inconsistent):\n{res['out'][-3000:]}")
    tlc.require_ok(res)
    if len(states) != res["distinct"]:
        raise MachineryError(f"dump has {len(states)} states, TLC reports {res['distinct']}")
    rep.set("mc_states", res["distinct"])
    rep.set("mc_transitions", res["generated"])
    rep.set("mc_invariants", "PremiseInv, LkInv, FarInv, SplitInv, DerivedInv")
    rep.phase("model_check")
    plan = drv.plan_from_states(states)
    jobs = drv.make_jobs(prop, plan, tier(), rnd_every=4 if tier() == "quick" else 1)   # thorough: every scene also under a random kappa
    import concurrent.futures as cf

    try:  # a killed worker (e.g. out of memory) must fail the run, not hang it
        with cf.ProcessPoolExecutor(max_workers=min(16, len(jobs)), mp_context=mp.get_context("fork")) as pool:
            events = [e for evs in pool.map(drv.run_job, jobs, chunksize=1) for e in evs]
    except cf.process.BrokenProcessPool as ex:
        raise MachineryError(f"a measurement worker died: {ex}") from ex
    rep.phase("measure")
    events.sort(key=lambda e: e["tid"])
    tv = [drv.tv_event(e) for e in events] + list(extra_events or [])
    files = tlc.shard_events(tv, dump_name, nshards=16)
    n, rejects, infos = validate_named(files, dump_name)
    if n != len(tv):
        raise MachineryError(f"validator saw {n} instances, harness logged {len(tv)}")
    rep.phase("validate")
    return plan, events, rejects, infos


def summarize(rep, prop, plan, events, rejects, infos):
    byid = {e["tid"]: e for e in events}
    bad = {r[1] for r in rejects}
    unme = {i[2] for i in infos if len(i) > 2 and i[1] == "unmeasurable"}
    mach = [r for r in rejects if r[3] == "machinery"]
    if mach:
        e = byid.get(mach[0][1], {})
        raise MachineryError(f"{len(mach)} instance(s) with a false premise / wrong derived data, e.g. {mach[0][:4]} {cjson(e.get('inst'))[:600]}")
    nontrivial = set()
    worst = {"flux": 0.0, "circ": 0.0}
    per_fam = {}
    for e in events:
        tid = e["tid"]
        if tid in bad or tid in unme:
            continue
        p = plan[tid % 1_000_000]
        key = (e["inst"]["law"], e["inst"]["fam"], tuple(p["cls"]), size_decade(e["inst"]), e["kappa"])
        nontrivial.add(key)
        per_fam[f"{e['inst']['law']}:{e['inst']['fam']}"] = per_fam.get(f"{e['inst']['law']}:{e['inst']['fam']}", 0) + 1
        if e["inst"]["law"] in worst and p["hist"].get("lk0", 0) == 0 and e["raw"].get("gross"):
            worst[e["inst"]["law"]] = max(worst[e["inst"]["law"]], abs(e["raw"]["v32"]) / e["raw"]["gross"])
    rep.set("evaluations", len(events))
    rep.set("field_points_evaluated", int(sum(e.get("nodes", 0) for e in events)))
    rep.set("distinct_nontrivial", len(nontrivial))
    rep.set("rule", RULE)
    rep.set("unmeasurable", len(unme))
    rep.set("unmeasurable_rough", sum(1 for i in infos if len(i) > 4 and i[4] == "Rough"))
    rep.set("accepted_per_family", per_fam)
    rep.set("linked_loops_measured", sum(1 for e in events if e["inst"]["law"] == "circ" and plan[e["tid"] % 1_000_000]["hist"].get("lk0", 0) != 0))
    rep.set("worst_accepted_residual_of_gross", {k: float(f"{v:.3g}") for k, v in worst.items()})
    if len(unme) > 0.1 * max(1, len(events)):
        raise MachineryError(f"{len(unme)} of {len(events)} instances unmeasurable: the plan is badly conditioned")
    for r in rejects:
        _, tid, clause, prop_r, ctx = r[:5]
        e = byid[tid]
        p = plan[tid % 1_000_000]
        inst = e["inst"]
        where = {"law": inst["law"], "family": inst["fam"], "classes": "+".join(s["cls"] for s in inst["scene"]),
                 "coverage": "+".join(p["cls"]), "size_decade": size_decade(inst), "touches_axis": touches_axis(inst), "refined": e.get("sub", 0) > 1}
        if "|" in inst["fam"]:  # C01 branch-coverage family: "<class>|<switch surface>|<side>"
            c, surf, side = inst["fam"].split("|")
            where.update({"class": c, "switch_surface": surf, "side": side})
            if inst["law"] == "point":
                where.update({"field": inst["pt"]["field"], "on_axis": sum(1 for a, b in zip(inst["pt"]["obs"], inst["scene"][0]["p"]) if a != b) == 1})
        raw = e.get("raw", {})
        geom = ("cell " + str(inst["lo"]) + ".." + str(inst["hi"]) if inst["law"] == "flux" else "loop " + cjson(inst["edges"])[:120] if inst["law"] == "circ"
                else f"{inst['pt']['field']} at {inst['pt']['obs']} (rho={inst['pt']['rho']}) q8={e.get('obs')} w/gross={raw.get('w_over_gross')}")
        what = (f"{clause}: {inst['law']} over {geom} "
                f"in {inst['ch']['type']} chart of {where['classes']} ({where['coverage']}), kappa={e['kappa']}: measured/gross={raw.get('v32', 0) / raw['gross'] if raw.get('gross') else raw}, "
                f"q12={e['meas']['q']} qerr12={e['qerr']} amp={e['amp']}")
        rep.reject(clause, where, what, {"event": {k: v for k, v in e.items()}}, prop=prop_r)
    for e in events:
        if e["tid"] not in bad and e["tid"] not in unme and len(rep.cov["samples"]) < 6 and e["tid"] % 97 == 0:
            rep.sample({"law": e["inst"]["law"], "family": e["inst"]["fam"], "chart": e["inst"]["ch"]["type"], "cell": [e["inst"]["lo"], e["inst"]["hi"]],
                        "edges": e["inst"]["edges"][:2], "breaks": e["der"]["brk"], "kappa": e["kappa"], "measured_q12": e["meas"]["q"], "qerr12": e["qerr"],
                        "amp_q12": e["amp"]["q"], "lk_times_I_by_TLA": plan[e["tid"] % 1_000_000]["hist"].get("lk0")})


def run():
    rep = Report(PROP, "exploration")
    plan, events, rejects, infos = execute(PROP, CFG[tier()], rep, "c14")
    summarize(rep, PROP, plan, events, rejects, infos)
    rep.assume("TLC, SANY and the Json module are trusted; Gauss-Legendre quadrature (order 32, error estimated against order 16, composite x3 when "
               "needed) is the measuring instrument: instances whose own error estimate exceeds 1e-8 of the gross scale are unmeasurable, not violations")
    rep.assume("cells and loops are enumerated (not all closed surfaces): coordinate boxes / coordinate polygons of charts adapted to the bodies, lattice poses "
               "(24 rotations x translations for the Cartesian loop family), sizes 1e-2..1e2 of the source; generic poses and units enter through random kappa "
               "(triangle-based classes: lattice unit 1e-3..1e3 m, others 1e-9..1e9 m)")
    rep.assume("cells that touch a body are at most 4 body sizes large and no thinner than 1:8 (conditioning of the fixed-order rule); larger cells enclose the body or lie in free space")
    return rep.finish()


def replay(path):
    case = json.load(open(path))["case"]
    e = case["event"]
    from ..common import import_magpylib
    from ..lattice import Kappa
    from scipy.spatial.transform import Rotation as R

    magpy = import_magpylib()
    kd = e.get("kappa_desc")
    kap = Kappa() if e["kappa"] == "id" or not kd else Kappa(kd["lam"], R.from_quat(kd["G_quat"]), kd["t"])
    if e["inst"]["law"] not in ("flux", "circ"):
        print("replay of point-law instances: see c01.replay")
        return 0
    ev = drv.measure_group(magpy, e["inst"]["scene"], [(e["tid"], e["inst"], e["der"])], kap)[0]
    print("instance", cjson(e["inst"]))
    print("breakpoints", cjson(e["der"]))
    print("re-measured", ev["raw"], "q12", ev["meas"], "qerr12", ev["qerr"], "amp", ev["amp"])
    print("logged     ", e.get("raw"), "q12", e["meas"], "qerr12", e["qerr"], "amp", e["amp"])
    return 0
