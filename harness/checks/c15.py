"""C15 - Every finite input yields a finite field in bounded time.

1. TLC model-checks spec/MC_Physics (shared with C02): the special sets / singular-point marking are rotation
   invariant, singular points are exactly vertices / the dipole position, the scan bodies reach every special set.
2. Binding C: every source of the catalogue is evaluated on the whole half-lattice box around it - exactly on each
   point, +-1/+-4 ulp per coordinate, +-1/+-4 ulp of the body size, 1e-12/1e-9/1e-6 sizes beside it - and at far points
   m*10^k (k <= 12), for lattice units 1e-9..1e9, lattice poses and generic rigid motions, zero excitation and
   zero-size sources, through getB/getH/getJ/getM and magpylib.core, each call under a watchdog.
   Degenerate-but-accepted geometries (Cuboid with 1-3 vanishing sides, Cylinder d = 0 / h = 0, CylinderSegment r1 = r2 /
   h = 0 / phi1 = phi2, Sphere and Circle of diameter 0, Polyline segment with coinciding ends; Triangle / Tetrahedron
   with coinciding or collinear / coplanar vertices under C17) are given through the FUNCTIONAL interface and
   magpylib.core (the constructors reject them), each in one call with a regular row of the same class (rows
   alternating), on the half-lattice box around the degenerate sheet / line / point, exact and +-1, +-4 ulp.
   spec/TV_Finite.tla accepts a non-finite value only at Physics!Singular points, checks the documented shapes,
   and rejects exceptions and timeouts.  It also reports which special sets were reached; a special set of
   Physics!SpecialNames that was not reached is a machinery error.
"""
import glob
import json
import multiprocessing as mp
import os

from .. import tlc
from ..common import MachineryError, tier, workdir
from ..drivers import finite as drv
from ..report import Report

CFG = {"quick": "MC_Physics_quick.cfg", "thorough": "MC_Physics_thorough.cfg"}


def where_of(ctx):
    cls, locus, fdir, k, fb, kb, iface, scale, exc0, gen, detail, name = ctx
    return {"class": cls, "source": name, "set": locus, "dir": fdir, "decade": k, "fields": "".join(sorted(fb)), "variants": "+".join(sorted(kb)), "iface": iface,
            "unit": "1" if scale == 100 else scale, "zero_excitation": exc0, "generic_motion": gen, "detail": detail}


def find_pts(files, tids):
    want = set(tids)
    out = {}
    for p in files:
        for line in open(p):
            sc = json.loads(line)
            if not any(sc["t0"] <= t < sc["t0"] + 10000 for t in want):
                continue
            hit = [q for q in sc["pts"] if q["t"] in want]
            for q in hit:
                out[q["t"]] = {"job": sc["job"], "pt": q}
            if sc["t0"] in want or any(sc["t0"] < t < sc["t0"] + 100 for t in want):
                for t in [t for t in want if sc["t0"] <= t < sc["t0"] + 100]:
                    out[t] = {"job": sc["job"], "outcome": sc["outcome"], "exc": sc["exc"], "shapes": sc["shapes"]}
    return out


def run():
    rep = Report("C15", "exploration")
    t = tier()
    res = tlc.run_tlc("MC_Physics", CFG[t], name="c15_mc")
    if res.get("violated"):
        raise MachineryError(f"MC_Physics violates {res['violated']}: the geometry library is inconsistent\n{res['out'][-3000:]}")
    tlc.require_ok(res)
    rep.set("states", res["distinct"])
    rep.set("transitions", res["generated"])
    rep.phase("model_check")
    jobs = drv.plan(t)
    d = workdir("traces/c15")
    jobs_sorted = sorted(jobs, key=drv.job_cost, reverse=True)
    shards = [open(os.path.join(d, f"s{i:02d}.ndjson"), "w") for i in range(16)]
    size = [0] * 16
    nsc = npts = nev = 0
    cpus, cpu_s = {}, 0.0
    with mp.Pool(16, maxtasksperchild=40) as pool:
        it = pool.imap_unordered(drv.worker, jobs_sorted, chunksize=1)
        for _ in range(len(jobs_sorted)):
            try:
                line, a, b, c, cc, cs = it.next(timeout=900 if t == "quick" else 3600)
            except mp.TimeoutError as ex:
                raise MachineryError("a driver process did not return (a call that the watchdog signal cannot interrupt)") from ex
            cpu_s += cs
            if line is None:
                continue
            k = size.index(min(size))
            shards[k].write(line + "\n")
            size[k] += len(line)
            nsc, npts, nev = nsc + a, npts + b, nev + c
            cpus[cc] = cpus.get(cc, 0) + 1
    for f in shards:
        f.close()
    for i in range(16):
        if size[i] == 0:
            os.remove(os.path.join(d, f"s{i:02d}.ndjson"))
    rep.set("driver_cpu_s", round(cpu_s))
    rep.phase("drive")
    files = sorted(glob.glob(os.path.join(d, "*.ndjson")))
    n, rejects, infos = tlc.validate("TV_Finite", "TV.cfg", files)
    rep.phase("validate")
    if n != npts:
        raise MachineryError(f"validator saw {n} point events, the driver logged {npts}")
    mach = [r for r in rejects if r[3] == "MACHINERY"]
    if mach:
        raise MachineryError(f"false premise in {len(mach)} instances, e.g. {mach[0]}")
    cover, needed, degen = set(), set(), set()
    for inf in infos:
        if inf[1] == "degenerate":
            degen |= {tuple(c) for c in inf[2]}
        elif inf[1] == "cover":
            cover |= {tuple(c) for c in inf[2]}
        elif inf[1] == "needed":
            needed |= {tuple(c) for c in inf[2]}
    reached = {(c[0], c[1]) for c in cover if c[1] != "far"}
    missing = sorted(needed - reached)
    if missing:
        raise MachineryError(f"special sets of Physics!SpecialNames not reached by the scan: {missing}")
    # every degenerate-but-accepted geometry of the functional interface must have been observed on its own special sets
    unreached = sorted(set(drv.FCAT) - {c[0] for c in degen})
    if unreached:
        raise MachineryError(f"degenerate geometries whose special sets were not reached: {unreached}")
    rep.set("degenerate_geometries", len(drv.FCAT))
    rep.set("degenerate_special_sets_reached", len(degen))
    rep.set("evaluations", nev)
    rep.set("point_events", npts)
    rep.set("scenes", nsc)
    rep.set("distinct_nontrivial", len(cover))
    rep.set("rule", "distinct (class, special set of Physics!Sets reached exactly) cells plus (class, far direction class, distance decade) cells, computed by TLC from the logged scenes; every name of Physics!SpecialNames must be reached")
    rep.set("special_sets_reached", len(reached))
    rep.set("far_cells", len({c for c in cover if c[1] == "far"}))
    rep.set("cpu_time_class_of_slowest_call_per_scene", cpus)
    rep.set("scene_kinds", {f"{a}/{b}": sum(1 for j in jobs if j["kind"] == a and j["iface"] == b) for a in ("scan", "far", "fscan") for b in ("object", "core", "functional") if any(j["kind"] == a and j["iface"] == b for j in jobs)})
    det = find_pts(files, [r[1] for r in rejects][:3000]) if rejects else {}
    for r in rejects:
        _, tid, clause, prop, ctx = r[:5]
        w = where_of(ctx)
        what = f"{w['class']} {clause}" + (f" {w['detail']}" if w["detail"] else "") + f" [{w['iface']} interface, lattice unit 1e{0 if w['unit'] == '1' else w['unit']} m" + \
            (", generic rigid motion" if w["generic_motion"] else "") + (", zero excitation" if w["zero_excitation"] else "") + "]" + \
            (f" at far points ({w['dir']}, 1e{w['decade']} lattice units)" if w["set"] == "far" else f" at special set '{w['set']}' (variants {w['variants']})" if clause == "nonfinite" else "") + \
            (f", fields {w['fields']}" if w["fields"] else "")
        rep.reject(clause, w, what, det.get(tid, {"tid": tid}), prop=prop)
    for line in open(files[0]):
        sc = json.loads(line)
        if sc["pts"]:
            q = sc["pts"][len(sc["pts"]) // 2]
            rep.sample({"class": sc["body"]["cls"], "kind": sc["kind"], "iface": sc["iface"], "scale": sc["scale"], "point": q.get("o", q.get("m")), "finite_masks": q["f"][:6], "variant_kinds": sc["vk"][:6]})
    rep.assume("termination is OBSERVED under a watchdog (CPU-time interval timer per call: 2 s quick / 10 s thorough for a whole-box call, then 0.25 s per observer to locate the call that does not return), not proved: the convergence loops of cel/cel_iter/el3 are data-dependent numerics outside TLA+")
    rep.assume("TLC, SANY and the JSON module are trusted; np.isfinite and np.shape in the driver are trusted measurement code")
    rep.assume("documented singular points = Physics!Singular: dipole position (dipole_Hfield docstring), vertices of Triangle / Tetrahedron / TriangularMesh (triangle_Bfield docstring); degenerate Triangle (collinear) and Tetrahedron (coplanar) are not valid bodies per the documentation and are judged under C17")
    rep.assume("observers are lattice points (and their ulp / eps / near variants, rotated and scaled images); other observers are not explored")
    return rep.finish()


def replay(path):
    from ..common import import_magpylib

    case = json.load(open(path))["case"]
    if "job" not in case:
        print("replay file carries no scene description:", case)
        return 2
    magpy = import_magpylib()
    sc, _ = drv.run_job(magpy, case["job"])
    print("job", json.dumps(case["job"]))
    if isinstance(sc, list):   # functional-interface job: scene of the degenerate rows and scene of the regular rows
        t = case.get("pt", {}).get("t", 0)
        sc = next((x for x in sc if x["t0"] <= t < x["t0"] + 10000), sc[0])
    print("outcome", sc["outcome"], sc["exc"], "cpu", sc["cpu"], "fields", sc["fields"])
    if "pt" in case:
        for q in sc["pts"]:
            if q["t"] == case["pt"]["t"]:
                print("point", q.get("o", q.get("m")), q.get("k", ""), "finite masks now   ", q["f"])
                print("                       finite masks logged", case["pt"]["f"])
                print("variant kinds", sc["vk"])
    else:
        print("shapes", sc["shapes"])
    return 0
