"""C16 - TriangularMesh status checks are right and orientation is normalised.

1. TLC model-checks spec/MC_Mesh: sequences of the mesh transformations (permute faces, renumber vertices, flip,
   rewind, delete faces, duplicate at a distance, pierce with a second part, pairs of lattice boxes) from the base
   meshes; the invariants establish that the ground truth of Mesh.tla is trustworthy (see MC_Mesh.tla).
2. Every distinct state of that run is built as a real magpylib TriangularMesh (kappa = id and random concretizations),
   plus seeded random variants, a sweep over all 19 decades of the lattice unit, two-mesh field calls and the
   warn/raise modes.  TV_Mesh.tla computes Open / Disconnected / SelfIntersecting / Outward from the logged input and
   compares the fields of every closed variant with those of the base mesh.
"""
import glob
import json
import multiprocessing as mp
import os

import numpy as np

from .. import tlc
from ..common import MachineryError, rng, tier, workdir
from ..drivers import mesh as drv
from ..report import Report

CFG = {
    "quick": {"cfg": "MC_Mesh_quick.cfg", "rand_variants": 24, "rand_derived": 1, "all_flips": [], "late_every": 5, "all_kappas_small": True, "kappas_per_state": 1, "rand_aniso": 4,
              "kappas": [("rand", "c16k1", -9, -5), ("rand", "c16k2", -5, 9)], "sweep_variants": 1},
    "thorough": {"cfg": "MC_Mesh_thorough.cfg", "rand_variants": 300, "rand_derived": 4, "all_flips": ["prism", "octa", "box"], "late_every": 3, "all_kappas_small": False, "kappas_per_state": 2, "rand_aniso": 40,
                 "kappas": [("rand", f"c16k{i}", lo, hi) for i, (lo, hi) in
                            enumerate([(-9, -7), (-7, -5), (-5, -3), (-3, -1), (-1, 1), (1, 3), (3, 6), (6, 9)])],
                 "sweep_variants": 4},
}
DECADES = list(range(-9, 10))
NPROC = 16


def mesh_key(m):
    return (m["base"], m["kind"], json.dumps(m["verts"]), json.dumps(m["faces"]))


def plan_jobs(sts, observers, c, histories):
    """The list of jobs for the workers and the kappa specification.  Kappa index 0 = id, then the random kappas of the
    tier, then one kappa per decade 1e-9 .. 1e9."""
    kspec = [("id",)] + list(c["kappas"]) + [("decade", d, f"c16dec{d}") for d in DECADES]
    nk = len(c["kappas"])
    k_rand = list(range(1, 1 + nk))
    k_dec = {d: 1 + nk + i for i, d in enumerate(DECADES)}
    uniq, seen = [], set()
    for s in sts:
        k = mesh_key(s)
        if k not in seen and s["kind"] != "pairbase":
            seen.add(k)
            uniq.append(s)
    bases = {s["base"]: s for s in sts if s["op"] == "init" and s["kind"] == "closed" and s["fam"] == "std"}
    refs = {drv.bkey(s): s for s in sts if s["op"] == "init" and s["kind"] == "closed"}      # every reference body, stretched ones too
    jobs = []
    tid = [0]

    def add(*j):
        tid[0] += 1
        jobs.append((j[0], tid[0]) + tuple(j[1:]))

    r = rng("c16plan")
    # (a) every TLC state at kappa = id and under at least one random kappa (base and derived meshes, and in the quick
    #     tier the box/prism/octahedron variants, under all of them; the mass of the others is dealt out among the kappas)
    for i, s in enumerate(uniq):
        add("mesh", s, 0, "ctor", "mc")
        everywhere = s["op"] == "init" or (s["fam"] == "std" and (
            (s["op"] in ("delete", "dup", "inter") and (c["all_kappas_small"] or s["base"] != "tetra"))
            or (c["all_kappas_small"] and s["base"] in ("box", "prism", "octa"))))
        for ki in (k_rand if everywhere else [k_rand[(i + t) % nk] for t in range(c["kappas_per_state"])]):
            add("mesh", s, ki, "ctor", "mc")
        if i % c["late_every"] == 0:
            add("mesh", s, 0, "late", "mc")
    # (b) seeded random variants (python applies PermuteFaces/RenumberVertices/FlipFaces/RewindCyclic to TLC states)
    for b, s in bases.items():
        if b == "tetra":
            continue
        for _ in range(c["rand_variants"]):
            v = drv.random_variant(s, r)
            add("mesh", v, 0, "ctor", "py")
            add("mesh", v, r.choice(k_rand), "ctor", "py")
    for s in uniq:
        if s["fam"] == "std" and s["kind"] in ("open", "dup", "inter", "pair") and (s["base"] != "tetra" or r.random() < 0.1):
            for _ in range(c["rand_derived"]):
                v = drv.random_variant(s, r, flips=s["kind"] != "open")
                add("mesh", v, 0, "ctor", "py")
                add("mesh", v, r.choice(k_rand), "ctor", "py")
    # (b1) random variants of the flat bodies, alternately as one part and as two parts (any face may come first, any winding)
    flat_dup = {}
    for s in uniq:
        if s["fam"] == "aniso" and s["kind"] == "dup" and s["n"] == 0:
            flat_dup.setdefault(drv.bkey(s), s)
    for k, s in sorted(refs.items()):
        if s["fam"] == "aniso" and max(s["stretch"]) >= 400:
            two = flat_dup.get(k)
            for t in range(c["rand_aniso"]):
                v = drv.random_variant(two if (two is not None and t % 2) else s, r)
                add("mesh", v, 0, "ctor", "py")
                add("mesh", v, r.choice(k_rand), "ctor", "py")
    # (b2) the faces scipy's ConvexHull gives for the vertices of the convex bodies (what from_ConvexHull passes on):
    #      arbitrary winding, for box and prism also another triangulation of the quads (then no field law: not the same faces)
    for b, s in bases.items():
        if b == "lshape":
            continue
        for ki in [0] + k_rand:
            add("mesh", drv.hull_variant(s, same_faces=b in ("tetra", "octa")), ki, "ctor", "py")
    # (c) all 2^n flip patterns of the smaller bodies
    for b in c["all_flips"]:
        s = bases[b]
        nf = len(s["faces"])
        for mask in range(1, 2 ** nf):
            add("mesh", {**drv.flip_faces(s, {i for i in range(nf) if mask >> i & 1}), "op": "py_flips"}, 0, "ctor", "py")
    # (d) sweep over the decades of the lattice unit
    first_of = {}
    for s in uniq:
        if s["fam"] == "std":
            first_of.setdefault((s["base"], s["kind"]), s)
    pair_classes = {}
    for s in uniq:
        if s["kind"] == "pair":
            pair_classes.setdefault(s["pair_class"], s)
    for d in DECADES:
        ki = k_dec[d]
        for b, s in bases.items():
            nf = len(s["faces"])
            sweep = [s, {**drv.flip_faces(s, {0}), "op": "py_flip_first"}, {**drv.flip_faces(s, set(range(nf))), "op": "py_flip_all"},
                     {**drv.flip_faces(s, {nf - 1}), "op": "py_flip_last"}]
            sweep += [drv.random_variant(s, r) for _ in range(c["sweep_variants"])]
            for k in ("open", "dup", "inter"):
                if (b, k) in first_of:
                    sweep.append(first_of[(b, k)])
            for v in sweep:
                add("mesh", v, ki, "ctor", "sweep")
        for s in pair_classes.values():
            add("mesh", s, ki, "ctor", "sweep")
    # (e) two different meshes in one field call against the single calls
    combos = [("tetra", "box", (8, 0, 0)), ("box", "lshape", (0, 0, 6)), ("octa", "prism", (6, 6, 0)), ("tetra", "tetra", (5, 0, 0)), ("lshape", "tetra", (-6, 0, 0))]
    for a, b, shift in combos:
        if a not in bases or b not in bases:
            continue
        mA = drv.random_variant(bases[a], r, flips=False)
        mB = drv.random_variant(bases[b], r, flips=False)
        ptsA = observers[a]["pts"]
        ptsB = [[p[0] + drv.OBS_DEN * shift[0], p[1] + drv.OBS_DEN * shift[1], p[2] + drv.OBS_DEN * shift[2]] for p in observers[b]["pts"]]
        pts = ptsA + ptsB
        for ki in [0] + k_rand:
            for x, y, lab in ((mA, mB, "AB"), (mB, mA, "BA")):
                sh = shift if lab == "AB" else tuple(-t for t in shift)
                pp = pts if lab == "AB" else [[p[0] - drv.OBS_DEN * shift[0], p[1] - drv.OBS_DEN * shift[1], p[2] - drv.OBS_DEN * shift[2]] for p in pts]
                add("call2", x, y, sh, ki, pp, f"{a}+{b}:{lab}:all")
                add("call2", x, y, sh, ki, pp[:2], f"{a}+{b}:{lab}:two")
                for p in pp:
                    add("call2", x, y, sh, ki, [p], f"{a}+{b}:{lab}:one")
    # (g) object histories "use, then normalise, then use" (enumerated by TLC: MC_Mesh!LifeHistories) on objects built without
    #     normalisation from variants with flipped faces
    flipped = {}
    for s in uniq:
        if s["kind"] == "closed" and s["op"] == "flip" and (s["fam"] == "std" or max(s["stretch"]) >= 400):
            flipped.setdefault((s["fam"], drv.bkey(s)), []).append(s)
    for key in sorted(flipped):
        cand = flipped[key]
        picks = [cand[0], cand[len(cand) // 2], cand[-1]] if key[0] == "std" else [cand[len(cand) // 2]]
        heavy = len(picks[0]["faces"]) > 12
        for v in picks[:1] if heavy else picks:
            for hi, h in enumerate(histories):
                if heavy and hi % 8:
                    continue
                add("life", v, 0 if hi % 2 == 0 else k_rand[hi % nk], h)
    # (f) what the modes "warn" and "raise" report
    for (b, k), s in first_of.items():
        for mode in ("warn", "raise"):
            add("mode", s, mode)
    return kspec, refs, jobs


def annotate_pairs(sts):
    """Tag the box pairs with the class the interval arithmetic of the *construction arguments* gives - used only to pick
    one representative per class for the decade sweep (never for a verdict)."""
    for s in sts:
        if s["kind"] != "pair":
            continue
        v = np.array(s["verts"])
        a, b = v[:8], v[8:]
        lo1, hi1, lo2, hi2 = a.min(0), a.max(0), b.min(0), b.max(0)
        op = bool(np.all(np.maximum(lo1, lo2) < np.minimum(hi1, hi2)))
        cl = bool(np.all(np.maximum(lo1, lo2) <= np.minimum(hi1, hi2)))
        nested = bool(np.all((lo2 <= lo1) & (hi1 <= hi2)) or np.all((lo1 <= lo2) & (hi2 <= hi1)))
        s["pair_class"] = "apart" if not cl else "contact" if not op else "nested" if nested else "pen:" + str(sorted((hi2 - lo2).tolist()))


def find_events(files, tids):
    tids = set(tids)
    out = {}
    for p in files:
        for line in open(p):
            # cheap pre-filter before parsing
            e = None
            i = line.find('"tid":')
            j = line.find(",", i)
            try:
                t = int(line[i + 6:j])
            except ValueError:
                e = json.loads(line)
                t = e["tid"]
            if t in tids:
                out[t] = e or json.loads(line)
    return out


def where_of(ev, clause, ctx):
    w = {"type": ev["type"], "decade": ev["decade"]}
    if ev["type"] == "mesh":
        w.update({"kind": ev["kind"], "base": ev["base"], "path": ev["path"], "aspect": max(ev.get("stretch", [1]))})
        if clause in ("status_open", "status_disconnected"):
            w["reported"] = ctx[1]
        elif clause.startswith("status_selfintersecting"):
            w["reported"] = ctx[1]
            w["crossing"] = ctx[2]
        elif clause == "not_outward":
            w["input"] = ctx[1]
        elif clause in ("field_variant_mismatch", "field_scale_mismatch"):
            w["region"] = ctx[0]
            w["field"] = ctx[1]
    elif ev["type"] == "life":
        w.update({"base": ev["base"], "aspect": max(ev.get("stretch", [1])), "view": ctx[1] if len(ctx) > 1 else ""})
    elif ev["type"] == "call2":
        if clause == "batch_mismatch":
            w.update({"nobs": ctx[0], "field": ctx[1], "rows": ctx[2]})
    elif ev["type"] == "mode":
        w.update({"kind": ev["kind"], "base": ev["base"], "mode": ev["mode"]})
    return w


def run():
    rep = Report("C16", "model_checking")
    c = CFG[tier()]
    # ---- 1. model checking + state dump
    res, states = tlc.dump_states("MC_Mesh", c["cfg"], name=f"c16_mc_{tier()}")
    if res.get("violated"):
        raise MachineryError(f"MC_Mesh violates {res['violated']} - the ground truth of the specification is inconsistent:\n{res['out'][-3000:]}")
    tlc.require_ok(res)
    rep.set("states", res["distinct"])
    rep.set("transitions", res["generated"])
    rep.set("mc_depth", res.get("depth"))
    rep.phase("model_check")
    sts = drv.states_from_dump(states)
    sts.sort(key=lambda s: (s["fam"], s["base"], s["stretch"], s["kind"], s["n"], s["op"] != "init", s["verts"], s["faces"]))   # the dump order depends on thread timing
    if len(sts) != res["distinct"]:
        raise MachineryError(f"dump has {len(sts)} states, TLC reports {res['distinct']}")
    observers = drv.observers_from_output(res["out"])
    annotate_pairs(sts)
    kinds = {}
    for s in sts:
        kk = f"{s['base']}:{s['kind']}" if s["fam"] == "std" else f"flat 1:{max(s['stretch'])} {s['base']}:{s['kind']}"
        kinds[kk] = kinds.get(kk, 0) + 1
    rep.set("mc_states_by_base_kind", kinds)
    histories = drv.histories_from_output(res["out"])
    if not histories:
        raise MachineryError("MC_Mesh printed no object histories")
    rep.set("object_histories", len(histories))
    kspec, bases, jobs = plan_jobs(sts, observers, c, histories)
    missing = [s["base"] for s in bases.values() if s["base"] not in observers]
    if missing or not bases:
        raise MachineryError(f"no observers printed by MC_Mesh for {missing}")
    rep.phase("plan")
    # ---- 2. drive the implementation
    d = workdir(f"traces/c16_{tier()}")       # per tier, so that a quick and a thorough run do not wipe each other's traces
    r = rng("c16shuffle")
    order = list(range(len(jobs)))
    r.shuffle(order)                     # balance the shards
    chunks = [[jobs[i] for i in order[k::NPROC]] for k in range(NPROC)]
    args = [(bases, observers, kspec, ch, os.path.join(d, f"shard{k:02d}.ndjson")) for k, ch in enumerate(chunks) if ch]
    with mp.Pool(len(args)) as pool:
        n_logged = sum(pool.map(drv.run_jobs, args))
    if n_logged != len(jobs):
        raise MachineryError(f"{len(jobs)} jobs planned, {n_logged} events logged")
    rep.phase("drive")
    files = sorted(glob.glob(os.path.join(d, "*.ndjson")))
    # ---- 3. validate
    n, rej, _ = tlc.validate("TV_Mesh", "TV.cfg", files)
    if n != n_logged:
        raise MachineryError(f"validator saw {n} events, harness logged {n_logged}")
    rep.phase("validate")
    rep.set("traces_validated_against_impl", n)
    by_type, by_src = {}, {}
    for j in jobs:
        by_type[j[0]] = by_type.get(j[0], 0) + 1
        if j[0] == "mesh":
            by_src[j[5]] = by_src.get(j[5], 0) + 1
    rep.set("events_by_type", by_type)
    rep.set("mesh_events_by_source", by_src)
    rep.set("states_built_as_real_meshes", sum(1 for j in jobs if j[0] == "mesh" and j[5] == "mc" and j[3] == 0 and j[4] == "ctor"))
    rep.set("kappas", [k if k[0] != "decade" else ("decade", k[1]) for k in kspec])
    details = find_events(files, [x[1] for x in rej]) if rej else {}
    by_decade = {}
    for x in rej:
        _, tid_, clause, prop, ctx = x[:5]
        ev = details.get(tid_)
        if prop == "machinery" or ev is None:
            raise MachineryError(f"validator rejected the premise of event {tid_}: {clause} {ctx} {json.dumps(ev)[:600] if ev else ''}")
        w = where_of(ev, clause, ctx)
        key = f"{prop}:{clause}"
        by_decade.setdefault(key, {})
        by_decade[key][str(ev["decade"])] = by_decade[key].get(str(ev["decade"]), 0) + 1
        what = f"{ev['type']} {ev.get('base', ev.get('label'))}/{ev.get('kind', '')} lattice unit 1e{ev['decade']} m stretch {ev.get('stretch', '')}: {clause} {ctx}"
        rep.reject(clause, w, what, {"event": ev}, prop=prop)
    rep.set("rejected_by_clause_and_decade", by_decade)
    with open(os.path.join(d, "rejects.json"), "w") as f:      # for triage: every rejected event with its verdict
        json.dump([{"tid": x[1], "clause": x[2], "property": x[3], "context": x[4], "where": where_of(details[x[1]], x[2], x[4])} for x in rej], f)
    for p in files[:1]:
        with open(p) as f:
            for _ in range(3):
                e = json.loads(f.readline())
                rep.sample({k: e[k] for k in ("type", "kind", "base", "decade", "faces_in", "faces_out", "open", "disc", "selfint") if k in e})
    rep.assume("TLC, SANY and the JSON module are trusted; the lattice projection of the stored vertices and the 1e-8 fixed-point logging of fields are done in python")
    rep.assume("self-intersection ground truth is the exact closed triangle/triangle predicate of Mesh.tla; for contacts without transversal crossing it is "
               "demanded only for pairs of lattice boxes whose interpenetration the interval predicate proves")
    rep.assume("flat bodies: tetrahedron, prism, octahedron, hexagonal prism stretched by diag(k,k,1), diag(k,1,k), diag(1,k,k), k up to 10^4; their ground truth is "
               "evaluated on the mesh with the stretch divided out exactly (invariance under the stretch model-checked for k <= 10)")
    rep.assume("object histories: built with reorient_faces='skip', at most LifeMaxPre uses/checks in any order, reorient_faces(), then use; a use = getB + getH + obj.mesh")
    rep.assume("all variants of the tetrahedron are enumerated; larger meshes: TLC palette of permutations, single/double flips, seeded random variants; "
               "cyclic rewinding of tetrahedron faces only through random variants of the larger meshes (TetraRewind = FALSE)")
    rep.assume("field law compared at the %d..%d observers per body declared in Mesh.tla (classified exactly by MC_Mesh), tolerance 1e-8 of gross scale" %
               (min(len(o["pts"]) for o in observers.values() if o["pts"]), max(len(o["pts"]) for o in observers.values())))
    return rep.finish()


def replay(path):
    case = json.load(open(path))["case"]
    ev = case["event"]
    kap = drv.kappa_from_json(ev["kap"]) if "kap" in ev else None
    print("event", ev["type"], ev.get("base"), ev.get("kind"), "decade", ev["decade"])
    if ev["type"] == "mesh":
        msh = {"verts": ev["verts_in"], "faces": ev["faces_in"], "kind": ev["kind"], "base": ev["base"], "stretch": ev.get("stretch", [1, 1, 1])}
        m, st = drv.build(msh, kap, ev["path"])
        print("lattice unit", kap.lam, "status open/disconnected/selfintersecting now:", st, " logged:", (ev["open"], ev["disc"], ev["selfint"]))
        print("faces in ", ev["faces_in"])
        print("faces out", (np.asarray(m.faces) + 1).tolist(), " logged:", ev["faces_out"])
        if ev["field"]["has"]:
            B, H = drv.fields(m, kap, ev["field"]["obs"])
            print("B at observers (lattice frame):", B.tolist())
    elif ev["type"] == "life":
        msh = {"verts": ev["verts_in"], "faces": ev["faces_in"], "kind": ev["kind"], "base": ev["base"], "stretch": ev["stretch"]}
        ref = {"verts": [list(v) for v in ev["verts_in"]], "faces": ev["faces_in"], "kind": "closed", "base": ev["base"], "stretch": ev["stretch"]}
        d = drv.Driver({drv.bkey(msh): ref}, {ev["base"]: {"pts": [[p[k] // ev["stretch"][k] for k in range(3)] for p in ev["obs"]]}},
                       [(kap, {"unit": ev["unit"], "decade": ev["decade"], "kap": ev["kap"]})])
        e2 = d.life_event(ev["tid"], msh, 0, ev["hist"])
        for s0, s1 in zip(ev["steps"], e2["steps"]):
            print(s1["op"], "faces", s1["faces"], "mesh array", s1["faces_mesh"], "(logged mesh array", s0["faces_mesh"], ")")
    elif ev["type"] == "call2":
        d = drv.Driver({}, {}, [(kap, {"unit": ev["unit"], "decade": ev["decade"], "kap": ev["kap"]})])
        e2 = d.call2(ev["tid"], {**ev["A"], "kind": "closed"}, {**ev["B"], "kind": "closed"}, ev["shift"], 0, ev["obs"], ev["label"])
        print("joint B q8:", e2["Bj"]["q"], "\nsingle B q8:", e2["Bs"]["q"])
    else:
        d = drv.Driver({}, {}, [])
        print(d.mode_event(ev["tid"], {"verts": ev["verts"], "faces": ev["faces_in"], "kind": ev["kind"], "base": ev["base"]}, ev["mode"]))
    return 0
