"""C17 - Malformed inputs are rejected at assignment, valid ones stored faithfully.

1. TLC model-checks spec/MC_Inputs: the documented format table Inputs!Decide is total and deterministic over the
   cross product (class, attribute) x value-descriptor grammar, every accepting row yields a stored format that
   satisfies the independently stated read-back format, and the one-slot state machine under constructor / setter
   assignments keeps StoredInv / PairInv and the action properties RejectUnchanged / AcceptStores.
2. Binding A: for every triple TLC enumerates, concrete values are built and tried through the constructor and
   through the setter of real magpylib objects; spec/TV_Inputs.tla judges every trial with the same Decide.
   Mutated copies (extent +-1, rank +-1, entry -> str / None) of values the implementation accepted are added.
"""
import json
import multiprocessing as mp
import os

from .. import tlaval, tlc
from ..common import MachineryError, tier, workdir
from ..drivers import inputs as drv
from ..report import Report

CFG = {
    "quick": {"cfg": "MC_Inputs_quick.cfg", "k": 2, "mut_cap": 60, "every_axis": False},
    "thorough": {"cfg": "MC_Inputs_thorough.cfg", "k": 5, "mut_cap": 400, "every_axis": True},
}


def grammar_from_tlc(out):
    vals = tlaval.parse_many(out)
    got = {v[0]: v for v in vals if isinstance(v, list) and v and v[0] in ("GRAMMAR", "DESCS", "PAIRS")}
    if set(got) != {"GRAMMAR", "DESCS", "PAIRS"}:
        raise MachineryError("MC_Inputs did not print its grammar")
    descs = [{"kind": d["kind"], "shape": [int(x) for x in d["shape"]], "entries": d["entries"], "geom": d["geom"], "ints": bool(d["ints"])} for d in got["DESCS"][1]]
    pairs = sorted((p[0], p[1]) for p in got["PAIRS"][1])
    _, ndesc, npairs, ntriples = got["GRAMMAR"]
    if len(descs) != ndesc or len(pairs) != npairs or len({drv.dkey(d) for d in descs}) != ndesc:
        raise MachineryError(f"grammar dump has {len(descs)} descriptors / {len(pairs)} slots, TLC counted {ndesc} / {npairs}")
    return sorted(descs, key=drv.dkey), pairs, ntriples


def shape_class(shape):
    return "scalar" if not shape else f"rank{len(shape)}/last{shape[-1]}"


def load_events(files_by_pidx, tids):
    out = {}
    want = {}
    for t in tids:
        want.setdefault(t // 1_000_000, set()).add(t)
    for pidx, ts in want.items():
        for line in open(files_by_pidx[pidx]):
            # cheap prefix test before parsing
            tid = int(line[7:line.index(",")])
            if tid in ts:
                out[tid] = json.loads(line)
    return out


def run():
    rep = Report("C17", "model_checking")
    c = CFG[tier()]
    # 1. model checking; the grammar (descriptors, slots) is taken from TLC's own enumeration
    res = tlc.run_tlc("MC_Inputs", c["cfg"], name="c17_mc")
    if res.get("violated"):
        raise MachineryError(f"MC_Inputs violates {res['violated']}:\n{res['out'][-3000:]}")
    tlc.require_ok(res)
    descs, pairs, ntriples = grammar_from_tlc(res["out"])
    rep.set("states", res["distinct"])
    rep.set("transitions", res["generated"])
    rep.set("exhaustive", True)
    rep.set("descriptors", len(descs))
    rep.set("slots", len(pairs))
    rep.set("triples", ntriples)
    rep.phase("model_check")
    # 2. binding A
    d = workdir("traces/c17_A")
    files = {i: os.path.join(d, f"p{i:02d}_{cl}_{at}.ndjson") for i, (cl, at) in enumerate(pairs)}
    jobs = [(i, cl, at, descs, c["k"], c["mut_cap"], c["every_axis"], files[i], None) for i, (cl, at) in enumerate(pairs)]
    # the slowest slots (pixel: most accepted values) first
    jobs.sort(key=lambda j: (j[2] != "pixel", j[1] != "TriangularMesh"))
    with mp.Pool(16) as pool:
        results = pool.map(drv.run_pair, jobs, chunksize=1)
    n_events = sum(r[0] for r in results)
    n_mut = sum(r[1] for r in results)
    if n_events - n_mut != ntriples * c["k"]:
        raise MachineryError(f"harness executed {n_events - n_mut} grammar events, TLC enumerates {ntriples} triples x {c['k']} instances")
    outcomes = {}
    for r in results:
        for k, v in r[2].items():
            outcomes[k] = outcomes.get(k, 0) + v
    rep.phase("drive")
    # merge into 16 balanced shards
    sd = workdir("traces/c17_shards")
    shards = [open(os.path.join(sd, f"s{i:02d}.ndjson"), "w") for i in range(16)]
    j = 0
    for i in sorted(files):
        for line in open(files[i]):
            shards[j % 16].write(line)
            j += 1
    for f in shards:
        f.close()
    n_val, rejects, _ = tlc.validate("TV_Inputs", "TV.cfg", [f.name for f in shards if os.path.getsize(f.name)])
    if n_val != n_events:
        raise MachineryError(f"validator saw {n_val} events, harness logged {n_events}")
    rep.phase("validate")
    rep.set("traces_validated_against_impl", n_val)
    rep.set("trials", sum(v * (1 if k.endswith("/na") else 2) for k, v in outcomes.items()))
    rep.set("mutated_copies", n_mut)
    rep.set("outcomes_ctor/setter", outcomes)
    rep.set("clauses_rejected", len(rejects))
    evs = load_events(files, {r[1] for r in rejects}) if rejects else {}
    for r in sorted(rejects, key=lambda r: (r[1], r[2])):
        _, tid, clause, prop, ctx = r[:5]
        e = evs[tid]
        cl, at, via, outcome, kind, entries, geom, later = ctx
        where = {"cls": cl, "attr": at, "via": via, "outcome": outcome, "kind": kind, "entries": entries, "geom": geom,
                 "shape": shape_class(e["d"]["shape"]), "later": later}
        what = f"{cl}.{at} <- {kind}{tuple(e['d']['shape'])}[{entries},{geom}] as {e['form']} via {via}: {outcome}, later={later}: {clause}"
        rep.reject(clause, where, what, {"pair": [cl, at], "tid": tid, "event": e}, prop=prop)
    # samples: a few accepted events
    n = 0
    for line in open(files[0]):
        e = json.loads(line)
        if e["ctor"]["oclass"] == "ok" and n < 3:
            rep.sample({k: e[k] for k in ("cls", "attr", "d", "form", "ctor", "set", "agree")})
            n += 1
    rep.assume("TLC, SANY and the JSON module are trusted; the abstraction describe() (value -> descriptor) and the measurements "
               "(read-back, np.shares_memory, digest of vars(obj)) are Python code; every generated value is checked to abstract to its descriptor")
    rep.assume("documented formats are transcribed by hand from the class docstrings into spec/Inputs.tla; rows the documentation is silent "
               "about carry doc=FALSE and only produce NONCONFORMANCE lines")
    rep.assume("grammar bounded by the extents of the TLC config; values are NaN-free; TriangularMesh objects used as baseline for "
               "position/orientation/polarization/magnetization trials are built with the mesh checks skipped")
    return rep.finish()


def replay(path):
    case = json.load(open(path))["case"]
    cl, at = case["pair"]
    c = CFG[tier()]
    res = tlc.run_tlc("MC_Inputs", c["cfg"], name="c17_mc_replay")
    tlc.require_ok(res)
    descs, pairs, _ = grammar_from_tlc(res["out"])
    i = pairs.index((cl, at))
    d = workdir("traces/c17_replay")
    _, _, _, found = drv.run_pair((i, cl, at, descs, c["k"], c["mut_cap"], c["every_axis"], os.path.join(d, "r.ndjson"), case["tid"]))
    if not found:
        print("event not reproduced (other tier or seed?)")
        return 2
    ev, value = found
    print("value  :", value)
    print("now    :", json.dumps({k: ev[k] for k in ("d", "ctor", "set", "agree", "pair")}))
    print("logged :", json.dumps({k: case["event"][k] for k in ("d", "ctor", "set", "agree", "pair")}))
    return 0
