"""C18 - copy() yields an equal, fully independent, parentless object.

1. TLC model-checks spec/MC_Heap (abstract heap: objects own cells; copy / in-place mutation / assignment / lazy style /
   tree edits over the tree C1[S1, C2[X1]] with spare ids for copies and copies of copies; the keyword values of copy() live
   in cells of a caller-owned ARGUMENT node that the caller keeps, reuses and may change): NoAliasInv, ForestHeapInv and the
   step property C18Step = all requirement clauses of the property on observations (NoSharing, CopyParentless,
   CopySubtreeForest, OriginalUntouched, ArgumentsUntouched / ArgumentsNotAliased, EqualProjection, OverridesOnlyCopy, label
   iteration, Independence).
   The same model with a counter-design constant (a slot copied by reference, parent kept, the copy referring to the caller's
   argument cell, an extra style keyword merged into the caller's style template) must be REFUTED by TLC - this guards against
   a specification that cannot see the defect.
2. Binding A: every object class (also with geometry/excitation not set) and tree shape x parent x lazy-style state x copy
   keyword form (every attribute with a value and, where None is documented, with None; style as label / underscore / nested
   dictionary / dictionary together with underscore keywords of the same branch; values in caller-owned arrays, lists, dicts) on
   real objects; observations (public projection incl. every style leaf of original and copy, alias graph over all reachable
   buffers/containers incl. the caller's argument containers, tree links, fields) before/after copy(), after a SECOND copy()
   made with the same argument containers, and after every mutation of a vocabulary applied alternately to both sides and to
   the caller's containers; TV_Heap.tla judges each step with the same clauses.
"""
import glob
import json
import multiprocessing as mp
import os
import re
import concurrent.futures as cf

from .. import tlc
from ..common import MachineryError, SPEC, tier, workdir
from ..drivers import heap as drv
from ..report import Report

COUNTER_DESIGNS = [
    ("alias_args_style", {"AliasArgs": '{"_style"}'}),
    ("merge_into_template", {"MergeInPlace": "TRUE"}),
    ("eager_parent", {"EagerParent": "TRUE"}),
    ("shallow_position", {"ShallowSlots": '{"_position"}'}),
    ("shallow_style", {"ShallowSlots": '{"_style"}'}),
    ("shallow_children", {"ShallowSlots": '{"_children"}'}),
    ("keep_parent", {"KeepParent": "TRUE"}),
]


def variant_cfg(base, name, subst, drop_invariants=False):
    """a configuration derived from spec/<base> with some constants replaced (written under .work)"""
    txt = open(os.path.join(SPEC, base)).read()
    for k, v in subst.items():
        txt, n = re.subn(rf"^ {k} = .*$", f" {k} = {v}", txt, flags=re.M)
        if n != 1:
            raise MachineryError(f"constant {k} not found in {base}")
    if drop_invariants:
        txt = "\n".join(l for l in txt.splitlines() if not l.startswith("INVARIANT")) + "\n"
    d = workdir("cfg/c18", clean=False)
    p = os.path.join(d, name + ".cfg")
    with open(p, "w") as f:
        f.write(txt)
    return p


def model_check(rep):
    t = tier()
    runs = []
    if t == "quick":
        runs.append(("main", "MC_Heap_quick.cfg", {}, 8))
        runs.append(("deep", "MC_Heap_quick.cfg", {"StyleModes": '{"pending"}', "MaxLevel": "4", "MaxEdits": "0"}, 8))
    else:
        runs.append(("fixpoint", "MC_Heap_thorough.cfg", {}, 8))
        runs.append(("deep", "MC_Heap_quick.cfg", {"MaxLevel": "4", "MaxOvr": "1"}, 8))
    jobs = {}
    with cf.ThreadPoolExecutor(max_workers=8) as ex:
        for name, base, subst, workers in runs:
            cfg = variant_cfg(base, f"{t}_{name}", subst) if subst else base
            jobs[name] = ex.submit(tlc.run_tlc, "MC_Heap", cfg, name=f"c18_{name}", workers=workers, timeout=3000)
        for name, subst in COUNTER_DESIGNS:
            cfg = variant_cfg("MC_Heap_quick.cfg", f"counter_{name}", dict(subst, MaxLevel="3", NSpare="4"), drop_invariants=True)
            jobs["counter_" + name] = ex.submit(tlc.run_tlc, "MC_Heap", cfg, name=f"c18_counter_{name}", workers=2, timeout=1200)
        res = {k: f.result() for k, f in jobs.items()}
    states = trans = 0
    mc = {}
    for name, _, _, _ in runs:
        r = res[name]
        if r.get("violated"):
            raise MachineryError(f"MC_Heap ({name}) violates {r['violated']}: the specified design itself breaks a clause\n{r['out'][-3000:]}")
        tlc.require_ok(r, name)
        states += r["distinct"]
        trans += r["generated"]
        mc[name] = {"distinct": r["distinct"], "generated": r["generated"], "depth": r.get("depth")}
    refuted = {}
    for name, _ in COUNTER_DESIGNS:
        r = res["counter_" + name]
        if not r.get("violated"):
            raise MachineryError(f"counter-design {name} was not refuted by TLC: the specification cannot see this defect\n{r['out'][-1500:]}")
        refuted[name] = r["violated"]
    rep.set("states", states)
    rep.set("transitions", trans)
    rep.set("mc_runs", mc)
    rep.set("exhaustive", t == "thorough")
    rep.set("counter_designs_refuted", refuted)


def find_events(files, tids):
    """scenario (and step) of each rejected tid"""
    out = {}
    tids = set(tids)
    for p in files:
        for line in open(p):
            e = json.loads(line)
            if e["tid"] in tids:
                out[e["tid"]] = {"sc": e["sc"], "tid": e["tid"], "phase": "copy", "outcome": e["outcome"]}
            if e.get("has2") and e["copy2"]["tid"] in tids:
                out[e["copy2"]["tid"]] = {"sc": e["sc"], "tid": e["copy2"]["tid"], "phase": "copy2", "outcome": e["copy2"]["outcome"]}
            for s in e["steps"]:
                if s["tid"] in tids:
                    out[s["tid"]] = {"sc": e["sc"], "tid": s["tid"], "phase": "step", "op": s["op"], "target": s["target"],
                                     "side": s["side"], "outcome": s["outcome"], "step_index": s["tid"] - e["tid"]}
    return out


def run():
    rep = Report("C18", "model_checking")
    t = tier()
    # 1. model checking in the background while the real objects are driven
    with cf.ThreadPoolExecutor(max_workers=1) as bg:
        mcjob = bg.submit(model_check, rep)
        # 2. binding
        scs = drv.scenarios(t)
        for sc in EDGE_SCENARIOS:
            scs.append(sc)
        d = workdir("traces/c18")
        nsh = 16
        # interleave so that the heavy tree scenarios are spread over the shards
        order = sorted(range(len(scs)), key=lambda i: (not scs[i]["mutate"], scs[i]["subject"] not in drv.TREES, i))
        jobs = []
        for i in range(nsh):
            sl = [scs[j] for j in order[i::nsh]]
            jobs.append((sl, os.path.join(d, f"s{i:02d}.ndjson"), (i + 1) * 10_000_000, t))
        with mp.Pool(nsh) as pool:
            results = pool.map(drv.worker, jobs)
        n_sc = sum(r[0] for r in results)
        n_steps = sum(r[1] for r in results)
        rep.phase("drive")
        files = sorted(glob.glob(os.path.join(d, "*.ndjson")))
        n, rej, infos = tlc.validate("TV_Heap", "TV.cfg", files, xmx="3g")
        rep.phase("validate")
        mcjob.result()
        rep.phase("model_check_wait")
    if n != n_sc + n_steps:
        raise MachineryError(f"validator saw {n} steps, harness logged {n_sc}+{n_steps}")
    # a mutation of the vocabulary that shows nothing on its own side proves nothing: the vocabulary is broken
    ineff = [i for i in infos if i[1] == "ineffective"]
    rep.set("ineffective_mutations", len(ineff))
    if ineff:
        byop = {}
        for i in ineff:
            byop[f"{i[3]}:{i[6]}"] = byop.get(f"{i[3]}:{i[6]}", 0) + 1
        rep.set("ineffective_by_op", byop)
    if len(ineff) > 0.02 * max(1, n_steps):
        raise MachineryError(f"{len(ineff)} of {n_steps} mutations had no visible effect or raised, e.g. {ineff[:5]}")
    rep.set("traces_validated_against_impl", n)
    rep.set("copy_events", n_sc)
    rep.set("mutation_steps", n_steps)
    rep.set("classes", len(drv.CLASSES))
    rep.set("tree_shapes", len(drv.TREES))
    rep.set("copy_keyword_forms", len({s["kwtag"] for s in scs}))
    details = find_events(files, [r[1] for r in rej]) if rej else {}
    for r in rej:
        _, tid, clause, prop, ctx = r[:5]
        det = details.get(tid, {})
        sc = det.get("sc", {})
        if ctx[0] in ("copy", "copy2"):
            where = {"phase": ctx[0], "subject": ctx[1], "kw": ctx[2], "mode": ctx[3], "parent": sc.get("parent"), "label": sc.get("label"),
                     "outcome": "ok" if det.get("outcome") == "ok" else "raise"}
            what = f"{ctx[1]}.copy({ctx[2]}) style={ctx[3]} parent={sc.get('parent')} label={sc.get('label')!r} -> {det.get('outcome')}: {clause}"
        else:
            where = {"phase": "step", "op": ctx[0], "subject": ctx[1], "side": ctx[3], "kw": sc.get("kwtag"), "mode": sc.get("mode")}
            what = f"after {ctx[1]}.copy({sc.get('kwtag')}): {ctx[0]} on {ctx[2]} ({ctx[3]} side): {clause}"
        rep.reject(clause, where, what, det, prop=prop)
    for p in files[:1]:
        e = json.loads(open(p).readline())
        rep.sample({"scenario": e["sc"], "outcome": e["outcome"], "ren": e["ren"], "label": [e["pre"]["lab"][e["root"]]["text"],
                    e["post"]["lab"].get(e["ren"].get(e["root"], ""), {}).get("text")], "cells_of_copy": len(e["post"]["refs"].get("c0", {}))})
        for s in e["steps"][:3]:
            rep.sample({"op": s["op"], "target": s["target"], "others": s["others"], "outcome": s["outcome"]})
    rep.assume("TLC, SANY and the JSON module are trusted; the alias graph is read by walking __dict__ (numpy buffers compared with np.shares_memory, "
               "containers, Rotation and style objects by identity) - state kept outside instance dictionaries (class attributes, module globals) is not seen")
    rep.assume("public projection = every public property of the class + effective style + digest of private leaves; values are compared as digests (sha1)")
    rep.assume("the caller's keyword values are a node of the observed heap (ARGS): copy() must leave it unchanged (C18: overrides belong to the copy only); "
               "aliasing between a copy and the caller's containers is reported as non-conformance only (the property speaks of the original)")
    rep.assume("MC universe: base tree C1[S1,C2[X1]] + spare ids; cell contents abstract and hidden from the state fingerprint (data independence); "
               "quick tier is depth-bounded, thorough reaches the fixpoint for 2 spare ids")
    return rep.finish()


# additional single scenarios outside the regular product (label edge cases of the iteration rule)
EDGE_SCENARIOS = [
    {"subject": "Cuboid", "parent": False, "mode": "init", "label": "z99", "kwtag": "none", "mutate": False},
    {"subject": "Sensor", "parent": True, "mode": "pending", "label": "007", "kwtag": "none", "mutate": False},
    {"subject": "Collection", "parent": False, "mode": "init", "label": "__", "kwtag": "none", "mutate": False},
    # the empty string is a valid label
    {"subject": "Cuboid", "parent": False, "mode": "init", "label": "", "kwtag": "none", "mutate": False},
    {"subject": "Sensor", "parent": True, "mode": "pending", "label": "", "kwtag": "position", "mutate": False},
    {"subject": "C[a]", "parent": False, "mode": "init", "label": "", "kwtag": "none", "mutate": False},
    # a subject holding something that cannot be duplicated: copy() may fail but must not damage the original tree
    {"subject": "CustomSource!", "parent": False, "mode": "none", "label": None, "kwtag": "none", "mutate": False},
    {"subject": "CustomSource!", "parent": True, "mode": "init", "label": "src", "kwtag": "none", "mutate": False},
    {"subject": "C[a!]", "parent": True, "mode": "none", "label": None, "kwtag": "position", "mutate": False},
    {"subject": "C[a!]", "parent": False, "mode": "pending", "label": "col", "kwtag": "none", "mutate": False},
]


def replay(path):
    case = json.load(open(path))["case"]
    sc = dict(case["sc"])
    if sc.get("label") == "<None>":
        sc["label"] = None
    print("scenario", sc)
    ev, k = drv.run_scenario(sc, 0, tier())
    print("copy outcome", ev["outcome"], "ren", ev["ren"], "kwargs_intact", ev["kwargs_intact"])
    pre, post = ev["pre"], ev["post"]
    if case.get("phase") == "copy2" and ev.get("has2"):
        pre, post = ev["copy2"]["pre"], ev["copy2"]["post"]
        print("second copy() with the same argument containers:", ev["copy2"]["outcome"], ev["copy2"]["ren"])
        lv = ev["copy2"]["leaves"]
        print("  style leaves of the second copy differing from the original:", {k: (lv["pre"].get(k), v) for k, v in lv["post"].items() if lv["pre"].get(k) != v})
        ev = dict(ev, ren=ev["copy2"]["ren"])
    if "ARGS" in pre["pub"] and pre["pub"]["ARGS"] != post["pub"].get("ARGS"):
        print("  the caller's keyword containers were changed by copy():", {k: (v, post["pub"]["ARGS"].get(k)) for k, v in pre["pub"]["ARGS"].items() if post["pub"]["ARGS"].get(k) != v})
    if case.get("phase") in ("copy", "copy2"):
        for o, c in ev["ren"].items():
            diff = {a: (pre["pub"][o].get(a), post["pub"][c].get(a)) for a in pre["pub"][o] if pre["pub"][o].get(a) != post["pub"][c].get(a)}
            print(f"  {o} -> {c}: differing public digests {diff}; label {pre['lab'][o]['text']!r} -> {post['lab'][c]['text']!r}; parent of copy {post['parent'][c]}")
            oc = {v: p for p, v in post["refs"][o].items()}
            shared = {p: oc[v] for p, v in post["refs"][c].items() if v in oc}
            print(f"  shared cells {shared}")
        for o in pre["kind"]:
            if pre["pub"][o] != post["pub"][o] or pre["parent"][o] != post["parent"][o]:
                print(f"  original {o} changed by copy()")
    else:
        i = case["step_index"]
        s = ev["steps"][i - 1]
        prev = post if i == 1 else ev["steps"][i - 2]["obs"]
        print("step", s["op"], "on", s["target"], "outcome", s["outcome"])
        for o in s["others"]:
            if o in prev["kind"] and (prev["pub"][o] != s["obs"]["pub"][o] or prev["parent"][o] != s["obs"]["parent"][o]
                                      or prev["children"].get(o) != s["obs"]["children"].get(o) or prev["lab"][o] != s["obs"]["lab"][o]):
                diff = {a: (prev["pub"][o].get(a), s["obs"]["pub"][o].get(a)) for a in prev["pub"][o] if prev["pub"][o].get(a) != s["obs"]["pub"][o].get(a)}
                print(f"  object {o} of the other side changed: {diff}")
    return 0
