"""C19 - show() draws each object where it is and does not alter it.

1. TLC model-checks spec/MC_Show: enumerates the scenarios (class x pose path x frames selector x unit x backend x where the
   selector is given x decorations), checks the internal consistency of the prediction (displayed indices non-empty and inside
   the path, lattice poses, predicted cuboid corners on the predicted surface) and that Show is a stuttering step; the
   dumped scenario states are the scenario list executed on real objects (spec -> code).
2. Binding: every scenario group (all object classes in one show() call) under kappa = identity and random concretizations,
   backends plotly and matplotlib, plus structural scenarios (collections, nesting, compound motion, animation, subplots in
   both notations, style keywords, hidden path, pending constructor styles, markers/zoom, unchecked mesh, extra model3d).
   Logged: per object and frame the generic traces produced for it inside show(), the figure returned (read in the unit
   announced on its axes), digests of objects/defaults/caller inputs before and after.  TV_Show.tla judges placement
   (corner sets, vertex sequences, surface predicates and extents in integer arithmetic, anchors, path lines), the
   announced unit, figure = model, and non-mutation.
"""
import glob
import json
import multiprocessing as mp
import os

from .. import tlc
from ..common import MachineryError, tier, workdir
from ..drivers import show as drv
from ..report import Report


def jobs_for(groups, t):
    jobs = []
    nk = 2 if t == "quick" else 6
    for key in sorted(groups):
        backend, decor, unit = key[3], key[5], key[2]
        for kidx in range(nk):
            if t == "quick" and kidx == 1 and backend == "matplotlib" and decor == "default":
                continue
            jobs.append(("group", key, groups[key], kidx))
    for name in drv.STRUCT:
        for kidx in range(nk):
            jobs.append(("struct", name, kidx, "plotly"))
        if not name.startswith("animation"):
            jobs.append(("struct", name, 0, "matplotlib"))
    return jobs


def run():
    rep = Report("C19", "exploration")
    t = tier()
    cfg = "MC_Show_quick.cfg" if t == "quick" else "MC_Show_thorough.cfg"
    res, states = tlc.dump_states("MC_Show", cfg, name="c19_mc", workers=4)
    if res.get("violated"):
        raise MachineryError(f"MC_Show violates {res['violated']}: the prediction is inconsistent\n{res['out'][-3000:]}")
    tlc.require_ok(res)
    rep.set("mc_states", res["distinct"])
    rep.phase("model_check")
    groups = drv.groups_from_dump(states)
    nsc = sum(len(v) for v in groups.values())
    if nsc * 2 != res["distinct"]:
        raise MachineryError(f"dump has {nsc} scenarios, TLC reports {res['distinct']} states (two per scenario)")
    jobs = jobs_for(groups, t)
    d = workdir("traces/c19")
    nsh = 16
    # heavy jobs (matplotlib, animation) spread round-robin
    order = sorted(range(len(jobs)), key=lambda i: (0 if (jobs[i][0] == "group" and jobs[i][1][3] == "matplotlib") or jobs[i][-1] == "matplotlib" else 1, i))
    shards = [([jobs[j] for j in order[i::nsh]], os.path.join(d, f"s{i:02d}.ndjson"), (i + 1) * 1_000_000) for i in range(nsh)]
    with mp.Pool(nsh) as pool:
        nev = sum(pool.map(drv.worker, shards))
    rep.phase("drive")
    files = sorted(f for f in glob.glob(os.path.join(d, "*.ndjson")) if os.path.getsize(f))
    n, rej, _ = tlc.validate("TV_Show", "TV.cfg", files, xmx="4g")
    rep.phase("validate")
    # what was validated: distinct (class, pose path, frames selector, unit, backend) with a non-trivial placement
    distinct = set()
    nobj = 0
    nframes = 0
    evs = 0
    bad = {r[1] for r in rej}
    for f in files:
        for line in open(f):
            e = json.loads(line)
            evs += 1
            if e["outcome"] != "ok":
                continue
            for fr in e["frames"]:
                nframes += 1
                for name, o in e["objs"].items():
                    nobj += 1
                    if fr["gen"].get(name) and e["tid"] not in bad:
                        distinct.add((o["cls"], json.dumps(o["path"]), json.dumps(o["sel"]) if not e["anim"] else f"anim{fr['ind']}", e["unit_ann"], e["backend"]))
    if evs != nev:
        raise MachineryError(f"{evs} events read back, {nev} written")
    if n != nobj + evs:
        raise MachineryError(f"validator judged {n} items, the log holds {nobj} object-frames + {evs} events")
    rep.set("evaluations", n)
    rep.set("show_calls", len(jobs))
    rep.set("subplot_events", evs)
    rep.set("object_frames", nobj)
    rep.set("distinct_nontrivial", len(distinct))
    rep.set("rule", "distinct (object class, lattice pose path, frames selector or animation index, announced unit, backend) whose traces were "
                    "produced by show() and accepted by TV_Show (placement of the body on every displayed index, path line, figure = model, unit, non-mutation)")
    rep.set("scenarios_from_tlc", nsc)
    details = {}
    if rej:
        want = {r[1] for r in rej}
        for f in files:
            for line in open(f):
                e = json.loads(line)
                if e["tid"] in want:
                    details[e["tid"]] = {"job": e["job"], "desc": e["desc"], "backend": e["backend"], "rc": e["rc"], "outcome": e["outcome"]}
    for r in rej:
        _, tid, clause, prop, ctx = r[:5]
        det = details.get(tid, {})
        desc = det.get("desc", {})
        where = {"clause_on": ctx[0] if clause not in ("UnitAnnounced",) else "unit", "backend": det.get("backend"), "scenario": desc.get("kind"),
                 "name": desc.get("path"), "sel": desc.get("sel"), "decor": desc.get("decor")}
        if clause == "ObjectsUnchanged":
            where["attrs"] = ",".join(sorted(ctx[1])) if isinstance(ctx[1], list) else str(ctx[1])
        what = f"show({det.get('backend')}) scenario {desc.get('kind')}:{desc.get('path')} sel={desc.get('sel')} unit={desc.get('unit')} kappa={desc.get('kappa')}: {clause} {ctx}"
        rep.reject(clause, where, what, det, prop=prop)
    for f in files[:1]:
        e = json.loads(open(f).readline())
        o = next(iter(e["objs"].items()))
        rep.sample({"desc": e["desc"], "backend": e["backend"], "unit_announced": e["unit_ann"], "object": o[0], "path": o[1]["path"], "sel": o[1]["sel"],
                    "traces": [(tr["type"], tr["mode"], [len(s) for s in tr["segs"]]) for tr in e["frames"][0]["gen"].get(o[0], [])]})
    rep.assume("TLC, SANY and the JSON module are trusted; the figure is read in SI: a coordinate c on an axis titled 'x (mm)' stands for c*1e-3 m "
               "(the exponent used is cross-checked against the unit table of Show.tla)")
    rep.assume("object <-> trace association is taken from inside show() (return value of traces_generic.get_traces_3D, recorded by a wrapper outside the "
               "repository); the returned figure is then required to contain exactly those points. matplotlib data are read from Poly3DCollection._faces, "
               "Line3D.get_data_3d, Path3DCollection._offsets3d; the pyvista backend is not exercised")
    rep.assume("coordinates are quantized to 1/1000 lattice unit, tolerance 2 quanta; curved bodies: every vertex on the surface and extent >= 97 % of the radius; "
               "sensor/dipole/custom-source glyphs and decorations: anchor only")
    return rep.finish()


def replay(path):
    case = json.load(open(path))["case"]
    job = case["job"]
    if job[0] == "group":
        cfg = "MC_Show_quick.cfg" if tier() == "quick" else "MC_Show_thorough.cfg"
        _, states = tlc.dump_states("MC_Show", cfg, name="c19_mc_replay", workers=2)
        groups = drv.groups_from_dump(states)
        evs = drv.run_group(0, tuple(job[1]), groups[tuple(job[1])], job[2])
    else:
        evs = drv.structural(0, job[1], job[2], job[3])
    for e in evs:
        print("event", e["desc"], "backend", e["backend"], "rc", e["rc"], "outcome", e["outcome"], "unit", e["unit_req"], "->", e["unit_ann"])
        for n, o in e["objs"].items():
            for fr in e["frames"]:
                print(f"  {n} ({o['cls']}) frame {fr['ind']}: traces", [(t["type"], t["mode"], [len(s) for s in t["segs"]]) for t in fr["gen"].get(n, [])])
        if e["judge_nm"]:
            for n in e["pre"]["pub"]:
                diff = {a: (v, e["post"]["pub"][n].get(a)) for a, v in e["pre"]["pub"][n].items() if e["post"]["pub"][n].get(a) != v}
                if diff:
                    print(f"  object {n} changed by show(): {diff}")
            print("  defaults changed:", e["pre"]["defaults"] != e["post"]["defaults"], " caller inputs changed:", e["pre"]["caller"] != e["post"]["caller"])
    return 0
