"""C20 - Style settings resolve by precedence and never leak.

1. TLC model-checks spec/MC_Style (all histories of assignments to objects and defaults, resets, copies,
   Collection.set_children_styles calls, rejected assignments and show calls over small universes, to the fixpoint):
   Precedence, Tracking, ResolveLocal, LastWinsAndFrame, RejectedNoChange, InvalidRejected, ResetRestores,
   CopyIndependent, KidsFrame, KidsMembers.
2. Binding: the abstract behaviours are instantiated on EVERY real style leaf (catalogue read from as_dict of one
   object per style class and of magpylib.defaults.display.style; typed value table from the validators) through
   every notation; each step is executed on real objects, the abstract state and the style resolved by the display
   code are observed, and TV_Style.tla judges every step with the operators of Style.tla.
"""
import glob
import json
import multiprocessing as mp
import os
import threading

from .. import tlc
from ..common import MachineryError, tier, workdir
from ..drivers import style as drv
from ..report import Report

CFG = {"quick": ["MC_Style_quick.cfg", "MC_Style_quick_kids.cfg"], "thorough": ["MC_Style_thorough.cfg", "MC_Style_thorough_kids.cfg"]}


def _worker_init():
    drv.Env.get()


def find_steps(files_by_idx, tids):
    """tid -> {case header, step, descriptors}"""
    out = {}
    want = {}
    for t in tids:
        want.setdefault(t // drv.TID_STRIDE, set()).add(t)
    for idx, ts in want.items():
        p = files_by_idx.get(idx)
        if not p:
            continue
        for line in open(p):
            e = json.loads(line)
            for k, s in enumerate(e["steps"]):
                if s["tid"] in ts:
                    hdr = {k2: v for k2, v in e.items() if k2 not in ("steps", "init")}
                    out[s["tid"]] = {"header": hdr, "index": k, "pre": e["init"] if k == 0 else e["steps"][k - 1]["post"], "step": s}
    return out


def run():
    rep = Report("C20", "model_checking")
    t = tier()
    # 1. model checking (runs while the driver works)
    mc = {}

    def do_mc():
        # two universes: objects a, b, c (assignments, defaults, resets, copies, show) and the collection tree k = [a, k2], k2 = [b]
        # (set_children_styles interleaved with all of them; thorough: with the copy partner c as well)
        try:
            mc["res"] = [tlc.run_tlc("MC_Style", cfg, name=f"c20_mc{i}", workers=8) for i, cfg in enumerate(CFG[t])]
        except Exception as ex:  # pylint: disable=broad-except
            mc["err"] = ex

    th = threading.Thread(target=do_mc)
    th.start()
    # 2. drive the implementation: one task per (style class, real leaf)
    env = drv.Env.get()
    cat = env.catalogue()
    todo, skipped = drv.tasks(env)
    # debugging aid (off by default): VERIF_C20_FILTER="Cuboid,Sensor:pixel.size" restricts the run to some classes / leaves
    flt = [x for x in os.environ.get("VERIF_C20_FILTER", "").split(",") if x]
    if flt:
        todo = [(c, l) for c, l in todo if c in flt or f"{c}:{l}" in flt]
        rep.set("filtered", flt)
    d = workdir("traces/c20")
    jobs = [(i, cls, leaf, t, os.path.join(d, f"t{i:04d}.ndjson")) for i, (cls, leaf) in enumerate(todo)]
    # longest tasks first (deep leaves have more notations)
    jobs.sort(key=lambda j: -len(j[2].split(".")) - (2 if j[1] == "TriangularMesh" else 0))
    stats = {"cases": 0, "steps": 0, "ops": {}, "notations": {}, "real_shows": 0, "render_errors": 0}
    def_leaves = set()
    with mp.Pool(16, initializer=_worker_init) as pool:
        for idx, cls, leaf, st in pool.imap_unordered(drv.run_task, jobs, chunksize=1):
            for k in ("cases", "steps", "real_shows", "render_errors"):
                stats[k] += st[k]
            for k in ("ops", "notations"):
                for a, b in st[k].items():
                    stats[k][a] = stats[k].get(a, 0) + b
            def_leaves |= st["def_leaves"]
    rep.phase("drive")
    th.join()
    if "err" in mc:
        raise mc["err"]
    for res in mc["res"]:
        if res.get("violated"):
            raise MachineryError(f"MC_Style/{res['cfg']} violates {res['violated']} (the requirement view is inconsistent):\n{res['out'][-3000:]}")
        tlc.require_ok(res)
    rep.set("states", sum(r["distinct"] for r in mc["res"]))
    rep.set("transitions", sum(r["generated"] for r in mc["res"]))
    rep.set("mc_universes", {r["cfg"]: {"states": r["distinct"], "transitions": r["generated"], "depth": r.get("depth")} for r in mc["res"]})
    rep.set("exhaustive", True)
    rep.phase("model_check_join")
    # 3. validate: 16 shards
    files = sorted(glob.glob(os.path.join(d, "t*.ndjson")))
    files_by_idx = {int(os.path.basename(p)[1:5]): p for p in files}
    sizes = sorted(((os.path.getsize(p), p) for p in files), reverse=True)
    shards = [[] for _ in range(16)]
    load = [0] * 16
    for sz, p in sizes:
        i = load.index(min(load))
        shards[i].append(p)
        load[i] += sz
    merged = []
    for i, ps in enumerate(shards):
        if not ps:
            continue
        q = os.path.join(d, f"shard{i:02d}.ndjson")
        with open(q, "w") as f:
            for p in ps:
                f.write(open(p).read())
        merged.append(q)
    n, rej, _ = tlc.validate("TV_Style", "TV.cfg", merged)
    if n != stats["steps"]:
        raise MachineryError(f"validator saw {n} steps, driver logged {stats['steps']}")
    rep.phase("validate")
    # coverage of the catalogue, measured
    nleaf_obj = {cls: len(v) for cls, v in cat["obj"].items()}
    ndef_cat = sum(len(v) for v in cat["fam"].values())
    missing_def = sorted(f"{f}.{leaf}" for f, v in cat["fam"].items() for leaf in v if f"{f}.{leaf}" not in def_leaves
                         and drv.leaf_type(leaf.split(".")) is not None)
    missing_ops = {"SetObj", "SetObjs", "SetDef", "Reset", "Copy", "Show", "SetKids"} - set(stats["ops"])
    if missing_ops:
        raise MachineryError(f"actions of MC_Style never instantiated on the implementation: {sorted(missing_ops)}")
    if missing_def and not flt:
        raise MachineryError(f"default leaves never assigned by any case: {missing_def[:10]}")
    rep.set("traces_validated_against_impl", n)
    rep.set("cases", stats["cases"])
    rep.set("object_leaves_instantiated", len(todo))
    rep.set("object_leaves_by_class", nleaf_obj)
    rep.set("default_leaves_in_catalogue", ndef_cat)
    rep.set("default_leaves_assigned", len(def_leaves))
    rep.set("alias_names", {"objects": sum(len(v) for v in cat["objalias"].values()), "defaults": sum(len(v) for v in cat["famalias"].values())})
    rep.set("leaves_skipped", len(skipped))
    rep.set("leaves_skipped_reasons", [f"{c}.{l}: {why}" for c, l, why in skipped])
    types = [(c, l, drv.leaf_type(l.split("."))) for c, l in todo]
    rep.set("substeps_not_applicable", {
        "assign None (the setter does not store None: model3d.showdefault asserts bool, model3d.data turns None into [])": sum(1 for _, _, t_ in types if not t_["none_ok"]),
        "invalid value (the label setter accepts any object via str())": sum(1 for _, _, t_ in types if t_["bad"] is None),
        "object-side notations (the markers object is created inside show(); only defaults and show keywords reach it)": sum(1 for c, _, _ in types if c == "Markers")})
    rep.set("value_kinds", sorted({t_["kind"] for _, _, t_ in types}))
    rep.set("steps_by_op", stats["ops"])
    rep.set("steps_by_notation", stats["notations"])
    rep.set("shows_through_magpylib_show", stats["real_shows"])
    rep.set("shows_whose_drawing_failed_after_resolution", stats["render_errors"])
    details = find_steps(files_by_idx, [r[1] for r in rej]) if rej else {}
    for r in rej:
        _, tid, clause, prop, ctx = r[:5]
        op, notation, outcome, cls, leaf, tgt, notrestored = ctx
        det = details.get(tid, {})
        s = det.get("step", {})
        # a failed reset is reported once per family that was not restored
        fams = sorted(notrestored) if (op == "Reset" and clause == "ResetRestores") else [tgt if op == "SetDef" else ""]
        for fam in fams:
            where = {"cls": cls, "leaf": leaf, "op": op, "notation": notation, "outcome": outcome, "family": fam}
            arg = f"{s.get('asg')}, recursive={s.get('rec')}" if op == "SetKids" else f"{s.get('tgts')}, {s.get('l')}, {s.get('v')}" if op == "SetObjs" else f"{s.get('l', '')}, {s.get('v', '')}"
            what = (f"{cls}.{leaf}: {op}({tgt or s.get('src', '')}, {arg}) via {notation} -> {outcome}"
                    f"{' ' + s.get('exc', '') if s.get('exc') else ''}{' family ' + fam if fam else ''}: {clause}")
            rep.reject(clause, where, what, det, prop=prop)
    # samples
    e = json.loads(open(files[0]).readline())
    for s in e["steps"][:2]:
        rep.sample({"cls": e["cls"], "leaf": e["leaf"], "op": s["op"], "notation": s["notation"], "v": s["v"], "outcome": s["outcome"],
                    "post_o": s["post"]["objVal"]["o"], "resolved": s["res"]})
    rep.assume("TLC, SANY and the JSON module are trusted; the abstract state is read through the public style properties (same reading as "
               "as_dict(flatten=True), cross-checked against as_dict once per case); real values are mapped to abstract ids injectively")
    rep.assume("the resolved style is the object returned by get_style as called from display/traces_utility.py (hook on the imported name); "
               "most resolutions call get_flatten_objects_properties_recursive directly with the keywords prepared as show() does, "
               "a sample per leaf goes through magpylib.show(backend='plotly', return_fig=True)")
    rep.assume("family chains are Style!ClassChain (documentation); one object per style class stands for the classes sharing that style class "
               "(Cuboid for all homogeneous magnets, Circle for currents); attribute assignment of a dictionary at an intermediate level is "
               "given the current sibling values so that it denotes a one-leaf change; copy(style_..=) is not driven; set_children_styles runs on the fixed "
               "tree k = [o, k2], k2 = [x], k3 = [w] (tree edits are C11's)")
    return rep.finish()


def replay(path):
    case = json.load(open(path))["case"]
    hdr = case["header"]
    leaf = hdr["leaf_dotted"]
    ev = drv.run_sequence(hdr["cls"], leaf, hdr.get("label", ""), hdr["descr"], 0, 0)
    print(f"class {hdr['cls']} leaf {leaf} sibling {ev['mleaf']} sequence {hdr.get('label')}")
    print("init", json.dumps(ev["init"]["objVal"]))
    for k, s in enumerate(ev["steps"]):
        mark = "  <-- rejected step" if k == case["index"] else ""
        print(f"[{k}] {s['op']} tgt={s['tgt']} l={s['l']} v={s['v']} kw={s['kw']['l']} via {s['notation']} -> {s['outcome']} {s['exc']}{mark}")
        print("     objVal", json.dumps(s["post"]["objVal"]))
        print("     def   ", json.dumps({f: v for f, v in s["post"]["def"].items() if v != ev["def0"][f] or f in ("base",)}), "res", json.dumps(s["res"]))
    return 0
