"""Shared engine of C04 / C05 / C06: TLC enumerates call scenarios (MC_FieldWrap with a per-check cfg) and checks the
definition of the result tensor; every scenario is executed on real objects with tagged sources (also under random
concretizations kappa) and TV_FieldWrap.tla judges the complete output tensor and its shape."""
import glob
import json
import multiprocessing as mp
import os

from .. import tlc
from ..common import MachineryError, rng, tier, workdir
from ..drivers import fieldwrap as drv
from ..report import Report


def run_fw(pid, kappas, extra=None):
    rep = Report(pid, "model_checking")
    cfg = f"MC_FieldWrap_{pid.lower()}_{tier()}.cfg"
    res, states = tlc.dump_states("MC_FieldWrap", cfg, name=f"{pid.lower()}_mc")
    if res.get("violated"):
        raise MachineryError(f"MC_FieldWrap/{cfg} violates {res['violated']}:\n{res['out'][-3000:]}")
    tlc.require_ok(res)
    rep.set("states", res["distinct"])
    rep.set("transitions", res["generated"])
    rep.set("exhaustive", True)
    rep.phase("model_check")
    scen = [drv.norm_scenario(s["e"]) for s in states]
    if len(scen) != res["distinct"]:
        raise MachineryError(f"dump has {len(scen)} scenarios, TLC reports {res['distinct']}")
    d = workdir(f"traces/{pid.lower()}_A")
    r = rng(pid + "shuffle")
    r.shuffle(scen)
    nproc = 16
    per = (len(scen) + nproc - 1) // nproc
    jobs = []
    for i in range(nproc):
        chunk = scen[i * per:(i + 1) * per]
        if chunk:
            jobs.append((chunk, os.path.join(d, f"a{i:02d}.ndjson"), i * 1_000_000, ""))
    for k in range(kappas):
        chunk = scen[k::max(1, kappas)][: max(50, len(scen) // (2 * max(1, kappas)))]
        jobs.append((chunk, os.path.join(d, f"k{k:02d}.ndjson"), (100 + k) * 1_000_000, f"{pid}k{k}"))
    with mp.Pool(16) as pool:
        counts = pool.map(drv.run_scenarios, jobs)
    rep.phase("execute")
    files = sorted(glob.glob(os.path.join(d, "*.ndjson")))
    n, rej, _ = tlc.validate("TV_FieldWrap", "TV.cfg", files)
    if n != sum(counts):
        raise MachineryError(f"validator saw {n} events, harness logged {sum(counts)}")
    rep.phase("validate")
    rep.set("traces_validated_against_impl", n)
    rep.set("scenarios", len(scen))
    rep.set("events_identity_kappa", sum(counts[:len(jobs) - kappas]))
    rep.set("events_random_kappa", sum(counts[len(jobs) - kappas:]))
    details = {}
    if rej:
        want = {r_[1] for r_ in rej}
        for p in files:
            for line in open(p):
                ev = json.loads(line)
                if ev["tid"] in want:
                    details[ev["tid"]] = ev
    for r_ in rej:
        _, tid, clause, prop, ctx = r_[:5]
        ev = details.get(tid, {})
        e = ev.get("call", {})
        where = {"clause": clause, "form": ctx[0], "outcome": ctx[1], "agg": e.get("agg"), "sumup": e.get("sumup"), "kappa": "random" if ev.get("kappa") else "id"}
        what = (f"{e.get('field')} nsrc={len(e.get('sources', []))} sensors={[s['id'] for s in e.get('sensors', [])]} agg={e.get('agg')} sumup={e.get('sumup')} "
                f"squeeze={e.get('squeeze')} form={ctx[0]} -> {ctx[1]} shape={ev.get('shape')}: {clause}")
        rep.reject(clause, where, what, ev, prop=(pid if prop == "FW" else prop))
    ev = json.loads(open(files[0]).readline())
    rep.sample({"call": {k: ev["call"][k] for k in ("field", "sumup", "squeeze", "agg")}, "sources": ev["call"]["sources"][:2],
                "sensors": [s["id"] for s in ev["call"]["sensors"]], "shape": ev["shape"], "out_first": ev["out"][0][0][0][0] if ev["out"] else None})
    rep.assume("TLC, SANY, Json trusted; sources are CustomSource objects with integer-valued tagged field functions (the index algebra of "
               "getBH_level2 is class independent); values compared exactly after rounding (|x - round(x)| < 1e-6 else an impossible marker)")
    if extra:
        extra(rep)
    return rep


def observers_phase(rep, pid):
    """The grammar of the `observers` argument (spec/Observers.tla): every way of writing it enumerated by MC_Observers is executed."""
    from ..drivers import observers as odrv
    cfg = f"MC_Observers_{tier()}.cfg"
    res, states = tlc.dump_states("MC_Observers", cfg, name=f"{pid.lower()}_obs")
    if res.get("violated"):
        raise MachineryError(f"MC_Observers/{cfg} violates {res['violated']}:\n{res['out'][-3000:]}")
    tlc.require_ok(res)
    scen = [odrv.norm_state(s) for s in states]
    if len(scen) != res["distinct"]:
        raise MachineryError(f"dump has {len(scen)} observer scenarios, TLC reports {res['distinct']}")
    d = workdir(f"traces/{pid.lower()}_obs")
    per = (len(scen) + 15) // 16
    jobs = [(scen[i * per:(i + 1) * per], os.path.join(d, f"o{i:02d}.ndjson"), 700_000_000 + i * 1_000_000, "") for i in range(16) if scen[i * per:(i + 1) * per]]
    jobs += [(scen[k::2], os.path.join(d, f"k{k:02d}.ndjson"), 750_000_000 + k * 1_000_000, f"{pid}obs{k}") for k in range(2)]
    with mp.Pool(16) as pool:
        counts = pool.map(odrv.run, jobs)
    files = sorted(glob.glob(os.path.join(d, "*.ndjson")))
    n, rej, _ = tlc.validate("TV_Observers", "TV.cfg", files)
    if n != sum(counts):
        raise MachineryError(f"observers validator saw {n} events, harness logged {sum(counts)}")
    rep.set("observer_argument_scenarios", len(scen))
    rep.set("observer_argument_events", n)
    rep.set("traces_validated_against_impl", rep.cov.get("traces_validated_against_impl", 0) + n)
    details = {}
    if rej:
        want = {r_[1] for r_ in rej}
        for p in files:
            for line in open(p):
                ev = json.loads(line)
                if ev["tid"] in want:
                    details[ev["tid"]] = ev
    for r_ in rej:
        _, tid, clause, prop, ctx = r_[:5]
        ev = details.get(tid, {})
        c = ev.get("c", {})
        where = {"clause": clause, "observers": ev.get("what"), "outcome": ctx[1], "agg": c.get("agg"), "kappa": "random" if ev.get("kappa") else "id"}
        what = f"observers={ev.get('what')} {c.get('field')} nsrc={len(c.get('sources', []))} agg={c.get('agg')} sumup={c.get('sumup')} squeeze={c.get('squeeze')} -> {ctx[1]} shape={ev.get('shape')}: {clause}"
        rep.reject("Obs" + clause, where, what, ev, prop=(pid if prop == "FW" else prop))
    rep.phase("observers_grammar")


def batch_phase(rep, pid):
    """Law instances on REAL source classes (spec/Batch.tla): element independence (C06), linearity and superposition (C05)."""
    from ..drivers import batch as bdrv
    cfg = f"MC_Batch_{tier()}.cfg"
    res, states = tlc.dump_states("MC_Batch", cfg, name=f"{pid.lower()}_batch_mc")
    tlc.require_ok(res)
    plan = [{"kind": s["kind"], "arr": list(s["arr"]), "lin": list(s["lin"])} for s in states]
    d = workdir(f"traces/{pid.lower()}_batch")
    rng(pid + "b").shuffle(plan)
    nproc = 16
    per = (len(plan) + nproc - 1) // nproc
    with mp.Pool(16) as pool:
        counts = pool.map(bdrv.batch_events, [(plan[i * per:(i + 1) * per], os.path.join(d, f"b{i:02d}.ndjson"), (300 + i) * 1_000_000, "") for i in range(nproc) if plan[i * per:(i + 1) * per]])
    files = sorted(glob.glob(os.path.join(d, "*.ndjson")))
    n, rej, _ = tlc.validate("TV_Batch", "TV.cfg", files)
    if n != sum(counts):
        raise MachineryError(f"batch validator saw {n} events, harness logged {sum(counts)}")
    rep.set("real_class_law_instances", n)
    rep.set("real_class_plan_states", res["distinct"])
    rep.add("traces_validated_against_impl", n)
    details = {}
    if rej:
        want = {r_[1] for r_ in rej}
        for p in files:
            for line in open(p):
                ev = json.loads(line)
                if ev["tid"] in want:
                    details[ev["tid"]] = {k: v for k, v in ev.items() if k not in ("T", "single", "whole", "parts", "obs", "obs1", "obs2")}
    for r_ in rej:
        _, tid, clause, prop, ctx = r_[:5]
        ev = details.get(tid, {})
        where = {"clause": clause, "kind": ctx[0], "field": ctx[1], "what": ctx[2]}
        if ctx[0] == "batch":
            l = ctx[3][0]
            arr = ev.get("arr", [])
            names = ctx[2].split("+")
            where["what"] = names[l - 1] if 0 < l <= len(names) else ctx[2]
            where["position"] = "last" if l == len(names) and l > 1 else ("first" if l == 1 and len(names) > 1 else ("alone" if len(names) == 1 else "middle"))
            where["pixel"] = ctx[3][3]
            where["neighbour"] = names[l - 2] if l > 1 else ""
        what = f"{ctx[0]} {ctx[2]} field={ctx[1]} first bad element (l,m,k,p)={ctx[3]}: {clause}"
        rep.reject(clause, where, what, ev, prop=prop)
    rep.phase("real_class_laws")


def replay_fw(path):
    case = json.load(open(path))["case"]
    from scipy.spatial.transform import Rotation as R
    k = None
    if case.get("kappa"):
        kd = case["kappa"]
        k = drv.Kappa(kd["lam"], R.from_quat(kd["G_quat"]), kd["t"])
    ev = drv.execute(drv.Builder(k), case["call"], 0, form=case.get("form", "top") if case.get("form") != "positions" else "top")
    print("shape now", ev["shape"], "logged", case.get("shape"))
    print("out now   ", json.dumps(ev["out"])[:600])
    print("out logged", json.dumps(case.get("out"))[:600])
    return 0
