"""Shared settings and helpers for all checks (paths, seed/tier, lattice group, concretization)."""
import json
import os
import random
import shutil
import sys
import time

VERIF = os.path.dirname(os.path.dirname(os.path.abspath(__file__)))
REPO = os.environ.get("VERIF_REPO", "/repo")
SPEC = os.path.join(VERIF, "spec")
WORK = os.path.join(VERIF, ".work")
# runs against a scratch copy of the repository (seeded-change experiments) must not overwrite the evidence of the real tree
_SCRATCH = os.path.abspath(REPO) != "/repo"
EVID = os.path.join(WORK, "scratch_evidence") if _SCRATCH else os.path.join(VERIF, "evidence")
REPLAYS = os.path.join(WORK, "scratch_replays") if _SCRATCH else os.path.join(VERIF, "replays")
PY = "/venv/bin/python"

# hooks inside the repository are enabled for every check
os.environ["MAGPYLIB_VERIF"] = "1"
os.environ.setdefault("PYTHONHASHSEED", "0")
os.environ.setdefault("MPLBACKEND", "Agg")


def tier():
    t = os.environ.get("VERIF_TIER", "quick")
    return t if t in ("quick", "thorough") else "quick"


def seed():
    try:
        return int(os.environ.get("VERIF_SEED", "20261001"))
    except ValueError:
        return 20261001


def rng(salt=""):
    return random.Random(f"{seed()}:{salt}")


def workdir(name, clean=True):
    if _SCRATCH and not name.startswith("scratch/"):
        name = os.path.join("scratch", os.environ.get("VERIF_RUN_ID", "0"), name)
    d = os.path.join(WORK, name)
    if clean and os.path.isdir(d):
        shutil.rmtree(d, ignore_errors=True)
    os.makedirs(d, exist_ok=True)
    return d


def import_magpylib():
    """Import magpylib from the current /repo working tree (never from a stale copy)."""
    if REPO not in sys.path:
        sys.path.insert(0, REPO)
    import warnings

    warnings.simplefilter("ignore")
    import magpylib

    src = os.path.dirname(os.path.abspath(magpylib.__file__))
    if not src.startswith(os.path.abspath(REPO)):
        raise RuntimeError(f"magpylib imported from {src}, expected {REPO}")
    return magpylib


class Timer:
    def __init__(self):
        self.t0 = time.time()

    def s(self):
        return round(time.time() - self.t0, 2)


def write_ndjson(path, events):
    with open(path, "w") as f:
        for e in events:
            f.write(json.dumps(e, separators=(",", ":")) + "\n")


def cjson(x):
    return json.dumps(x, sort_keys=True, separators=(",", ":"))


class MachineryError(Exception):
    """Failure of the verification machinery itself (exit status 2, never a VIOLATION)."""
