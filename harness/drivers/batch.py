"""Law instances for real source classes in vectorised calls (spec/Batch.tla): element independence (C06),
linearity in the excitation and superposition (C05). The arrangement of each call comes from TLC (MC_Batch)."""
import json

import numpy as np
from scipy.spatial.transform import Rotation as R

from ..common import import_magpylib, rng
from .. import quant
from .functional import CUBE_F, CUBE_V, TET_F, TET_V

CEL_BASED = {"Cylinder", "Circle", "CylinderSegment"}
PYR_F = np.array([[0, 2, 1], [0, 3, 2], [0, 1, 4], [1, 2, 4], [2, 3, 4], [3, 0, 4]])          # base (two facets, listed first), then the four sides


def PYR_V(apex_z):
    return np.array([[-0.6, -0.6, -0.3], [0.6, -0.6, -0.3], [0.6, 0.6, -0.3], [-0.6, 0.6, -0.3], [0.0, 0.0, apex_z]])


def palette(magpy, r):
    """16 real sources, ids 1..16 (classes must agree with MC_Batch!ClassOf). All sit around the origin so that the
    shared observers include points inside most bodies; paths of length 1..3 with generic orientations."""
    u = lambda a, b: r.uniform(a, b)

    def pose(n):
        q = np.array([[r.gauss(0, 1) for _ in range(4)] for _ in range(n)])
        q /= np.linalg.norm(q, axis=1)[:, None]
        # small rotations/offsets so the common inside points stay inside
        rv = R.from_quat(q).as_rotvec() * 0.08
        pos = np.array([[u(-0.04, 0.04) for _ in range(3)] for _ in range(n)])
        return {"position": pos if n > 1 else pos[0], "orientation": R.from_rotvec(rv) if n > 1 else R.from_rotvec(rv[0])}
    m = magpy
    oct_v = np.array([[1, 0, 0], [-1, 0, 0], [0, 1, 0], [0, -1, 0], [0, 0, 1], [0, 0, -1]], dtype=float) * 0.9
    oct_f = np.array([[0, 2, 4], [2, 1, 4], [1, 3, 4], [3, 0, 4], [2, 0, 5], [1, 2, 5], [3, 1, 5], [0, 3, 5]])
    pal = {
        1: m.magnet.TriangularMesh(vertices=(CUBE_V - 0.5) * 1.2, faces=CUBE_F, polarization=(0.1, -0.3, 0.2), **pose(2)),
        2: m.magnet.TriangularMesh(vertices=oct_v, faces=oct_f, polarization=(0.3, 0.1, -0.2), **pose(1)),
        3: m.current.Polyline(vertices=[(-1, -1, 0.3), (1, -1, 0.3), (1, 1, 0.3), (-1, 1, 0.3), (-1, -1, 0.3)], current=1.2, **pose(3)),
        4: m.current.Polyline(vertices=[(0, 0, -1), (0.2, 0.1, 1.0)], current=-0.7, **pose(1)),
        5: m.magnet.CylinderSegment(dimension=(0.2, 1.0, 1.0, -60, 200), polarization=(0.1, 0.4, -0.3), **pose(1)),
        6: m.magnet.CylinderSegment(dimension=(0.0, 0.8, 0.6, -170, 100), polarization=(0.2, -0.1, 0.3), **pose(2)),
        7: m.magnet.Cuboid(dimension=(1.0, 1.2, 0.8), polarization=(0.1, 0.2, 0.3), **pose(3)),
        8: m.magnet.Cylinder(dimension=(1.2, 0.9), polarization=(0.3, -0.2, 0.5), **pose(1)),
        9: m.magnet.Sphere(diameter=1.1, polarization=(0.2, 0.1, -0.4), **pose(2)),
        10: m.magnet.Tetrahedron(vertices=(TET_V - 0.25) * 1.6, polarization=(0.3, 0.3, 0.1), **pose(1)),
        11: m.misc.Triangle(vertices=[(-1, -1, 0.45), (1.2, -1, 0.45), (0, 1.3, 0.45)], polarization=(0.2, 0.2, 0.2), **pose(1)),
        12: m.current.Circle(diameter=1.7, current=1.3, **pose(3)),
        13: m.misc.Dipole(moment=(0.3, 0.1, 0.5), position=(0.6, 0.7, -0.8)),
        16: m.current.Polyline(vertices=[(-0.8, 0.2, -0.3), (0.9, 0.1, -0.3), (0.7, 1.1, 0.2), (-0.9, 0.8, 0.4), (-0.8, 0.2, -0.3)], current=-2.1, **pose(2)),
        15: m.magnet.TriangularMesh(vertices=(CUBE_V - 0.5) * np.array([2.0, 1.2, 0.8]), faces=CUBE_F, polarization=(-0.2, 0.25, 0.1), **pose(1)),
        14: m.magnet.Tetrahedron(vertices=[(-0.6, -0.5, -0.4), (0.9, -0.4, -0.5), (0.0, 0.8, -0.4), (0.1, 0.0, 0.9)], polarization=(-0.2, 0.1, 0.4), **pose(2)),
        # two pyramids on the SAME base (same face count, identical leading facets), different height and polarization
        17: m.magnet.TriangularMesh(vertices=PYR_V(0.0), faces=PYR_F, polarization=(0.2, -0.1, 0.3), position=(0, 0, 0)),
        18: m.magnet.TriangularMesh(vertices=PYR_V(0.9), faces=PYR_F, polarization=(-0.1, 0.3, 0.2), position=(0, 0, 0)),
    }
    return pal


# a point strictly inside palette entry i but outside most others (local = global: static copies at the first pose, tiny offsets)
INSIDE = {17: (0.1, 0.05, -0.2), 18: (0.05, 0.1, 0.4), 15: (0.8, 0.1, 0.1), 1: (0.5, 0.45, 0.5), 2: (0.1, 0.05, 0.6), 5: (0.5, 0.2, 0.02), 6: (0.1, 0.2, 0.1), 7: (0.4, 0.5, 0.3), 8: (0.3, 0.3, 0.3), 9: (0.2, 0.2, 0.3),
          10: (0.05, 0.05, 0.05), 14: (0.1, 0.0, 0.0)}


# a point exactly ON the surface of palette entry i (identity pose)
SURFACE = {5: (1.0, 0.0, 0.0), 6: (0.8, 0.0, 0.0), 7: (0.5, 0.1, 0.1), 8: (0.6, 0.0, 0.1), 9: (0.55, 0.0, 0.0)}


# further observer rows for the batch-size variant: generic points outside the bodies (>= 10 rows switch the vectorised special functions)
ROWS = np.array([[1.9, 0.3, 0.2], [-1.7, 0.4, 0.6], [0.2, 2.1, -0.3], [0.3, -1.8, 0.5], [0.4, 0.2, 1.9], [1.1, 1.3, 1.2], [-1.2, 1.1, -1.4], [2.5, -2.0, 0.1],
                 [0.1, 0.2, -2.2], [-2.4, -0.3, 0.3], [1.5, -1.6, -1.1]])


def scaled(magpy, src, s):
    """the same source in a length unit s times smaller/larger (static, first pose): geometry and position scale, excitation stays"""
    m = magpy
    pos = np.atleast_2d(src._position)[0] * s
    kw = {"position": pos, "orientation": src._orientation[0]}
    n = type(src).__name__
    if n == "TriangularMesh":
        return m.magnet.TriangularMesh(vertices=src.vertices * s, faces=src.faces, polarization=src.polarization, **kw)
    if n in ("Cuboid", "Cylinder"):
        return getattr(m.magnet, n)(dimension=np.array(src.dimension) * s, polarization=src.polarization, **kw)
    if n == "CylinderSegment":
        d = np.array(src.dimension, dtype=float) * np.array([s, s, s, 1, 1])
        return m.magnet.CylinderSegment(dimension=d, polarization=src.polarization, **kw)
    if n == "Sphere":
        return m.magnet.Sphere(diameter=src.diameter * s, polarization=src.polarization, **kw)
    if n == "Tetrahedron":
        return m.magnet.Tetrahedron(vertices=src.vertices * s, polarization=src.polarization, **kw)
    if n == "Triangle":
        return m.misc.Triangle(vertices=src.vertices * s, polarization=src.polarization, **kw)
    if n == "Circle":
        return m.current.Circle(diameter=src.diameter * s, current=src.current, **kw)
    if n == "Polyline":
        return m.current.Polyline(vertices=src.vertices * s, current=src.current, **kw)
    return m.misc.Dipole(moment=src.moment, **kw)


# length units of the smallest-case variants (a body of 1e-9 m is an ordinary input)
UNITS = {"inside": 1.0, "surface": 1.0, "surface-rows": 1.0, "inside-nm": 1e-9, "inside-km": 1e3}


def sensors_for(magpy):
    # pixels: strictly inside most bodies, inside the open cylinder segment, near faces, outside, far
    pix = np.array([[0.1, 0.05, 0.08], [0.5, 0.2, 0.02], [0.3, -0.35, 0.2], [1.6, 0.4, 0.3], [-2.0, 3.0, 1.5], [8.0, -6.0, 7.0],
                    [0.4, 0.5, 0.5], [0.85, 0.1, -0.1]])
    s1 = magpy.Sensor(pixel=pix)
    s2 = magpy.Sensor(pixel=pix * np.array([1, -1, 1]) + 0.01, position=[(0.02, 0.0, 0.0), (0.0, 0.03, 0.01)],
                      orientation=R.from_rotvec([(0, 0, 0.05), (0.04, 0, 0)]))
    return [s1, s2]


def batch_events(args):
    plan, path, tid0, salt = args
    magpy = import_magpylib()
    r = rng("batch-palette")            # one palette for all workers
    pal = palette(magpy, r)
    sens = sensors_for(magpy)
    n = 0
    singles = {}

    def single(i, k, field):
        key = (i, k, field)
        if key not in singles:
            fn = getattr(magpy, "get" + field)
            singles[key] = np.asarray(fn(pal[i], sens[k], squeeze=False), dtype=float)[0, :, 0]      # (M, P, 3)
        return singles[key]
    with open(path, "w") as f:
        for j, st in enumerate(plan):
            if st["kind"] == "batch1":
                arr = list(st["arr"])
                classes = {type(pal[i]).__name__ for i in arr}
                variants = [("inside", {i: pal[i].copy(position=np.atleast_2d(pal[i]._position)[0], orientation=pal[i]._orientation[0]) for i in set(arr)},
                             np.array(INSIDE.get(arr[-1], (0.31, 0.27, 0.22))))]
                pin = np.array(INSIDE.get(arr[-1], (0.31, 0.27, 0.22)))
                for vname in ("inside-nm", "inside-km"):
                    variants.append((vname, {i: scaled(magpy, pal[i], UNITS[vname]) for i in set(arr)}, pin * UNITS[vname]))
                if arr[-1] in SURFACE or arr[0] in SURFACE:
                    key = arr[-1] if arr[-1] in SURFACE else arr[0]
                    variants.append(("surface", {i: pal[i].copy(position=(0, 0, 0), orientation=None) for i in set(arr)}, np.array(SURFACE[key])))
                    # the same surface point as ONE row of a call with >= 10 rows, against row-by-row calls (value must not depend on batch size)
                    variants.append(("surface-rows", variants[-1][1], np.concatenate([np.array([SURFACE[key]]), ROWS])))
                for vname, stat, pt in variants:
                  srcs = [stat[i] for i in arr]
                  for field in "BHJM":
                      fn = getattr(magpy, "get" + field)
                      T = np.asarray(fn(srcs, pt, squeeze=False), dtype=float)                              # (L, 1, 1, 1, 3) / (L, 1, 1, P, 3)
                      if pt.ndim == 1:
                          sg = [[np.asarray(fn(stat[i], pt, squeeze=False), dtype=float)[0, :, 0]] for i in arr]
                      else:
                          sg = [[np.stack([np.asarray(fn(stat[i], q, squeeze=False), dtype=float)[0, :, 0, 0] for q in pt], axis=1)] for i in arr]
                      s = quant.gross(T, *[x for row in sg for x in row])
                      finT, finS = bool(np.isfinite(T).all()), all(bool(np.isfinite(x).all()) for row in sg for x in row)
                      ev = {"tid": tid0 + n, "kind": "batch", "what": "+".join(type(pal[i]).__name__ for i in arr), "arr": arr, "field": field,
                            "T": quant.q12(T, s), "single": [[quant.q12(x, s) for x in row] for row in sg],
                            "same": not (classes & CEL_BASED), "fin": finT and finS, "finT": finT, "finS": finS, "raised": False, "smallest": True, "obs": vname}
                      f.write(json.dumps(ev, separators=(",", ":")) + "\n")
                      n += 1
            elif st["kind"] == "batch":
                arr = list(st["arr"])
                field0 = "BHJM"[(j + len(arr)) % 4]
                same_class = len(arr) > 1 and len({type(pal[i]).__name__ for i in arr}) == 1
                # several sources of ONE class are one vectorised group: always also B and H (superposition is judged on those)
                fields = [field0] + ([x for x in "BH" if x != field0] if same_class else [])
                for field in fields:
                    fn = getattr(magpy, "get" + field)
                    srcs = [pal[i] for i in arr]
                    sg = [[single(i, k, field) for k in range(len(sens))] for i in arr]          # the single calls come first: they must succeed
                    classes = {type(pal[i]).__name__ for i in arr}
                    try:
                        T = np.asarray(fn(srcs, sens, squeeze=False), dtype=float)                           # (L, M, K, P, 3)
                        raised = ""
                    except Exception as e:      # noqa: BLE001 - a valid call that fails only in this composition is an observation
                        T, raised = np.zeros((0,)), f"{type(e).__name__}: {e}"[:120]
                    s = quant.gross(T, *[x for row in sg for x in row])
                    finT, finS = bool(np.isfinite(T).all()), all(bool(np.isfinite(x).all()) for row in sg for x in row)
                    ev = {"tid": tid0 + n, "kind": "batch", "what": "+".join(type(pal[i]).__name__ for i in arr) + (" " + raised if raised else ""), "arr": arr, "field": field,
                          "T": quant.q12(T, s), "single": [[quant.q12(x, s) for x in row] for row in sg],
                          "same": not (classes & CEL_BASED), "fin": finT and finS, "finT": finT, "finS": finS, "raised": bool(raised)}
                    f.write(json.dumps(ev, separators=(",", ":")) + "\n")
                    n += 1
                    if raised:
                        continue
                    # superposition (C05): the summed-up call and the collection equal the sum of the SINGLE-source calls
                    if len(arr) > 1 and field in "BH":
                        Mx = T.shape[1]

                        def alone(i):
                            a = np.asarray(fn(pal[i], sens, squeeze=False), dtype=float)[0]           # (M_i, K, P, 3); shorter paths are static beyond their end
                            if a.shape[0] < Mx:
                                a = np.concatenate([a, np.repeat(a[-1:], Mx - a.shape[0], axis=0)])
                            return a.reshape(-1, 3)
                        whole = np.asarray(fn(srcs, sens, sumup=True, squeeze=False), dtype=float).reshape(-1, 3)
                        parts = [alone(i) for i in arr]
                        s2 = quant.gross(whole, *parts)
                        ev = {"tid": tid0 + n, "kind": "super", "what": "sumup:" + "+".join(type(pal[i]).__name__ for i in arr), "field": field, "whole": quant.q12(whole, s2),
                              "parts": [quant.q12(p, s2) for p in parts], "fin": bool(np.isfinite(whole).all())}
                        f.write(json.dumps(ev, separators=(",", ":")) + "\n")
                        n += 1
                        if len(set(arr)) == len(arr):
                            coll = magpy.Collection(*[pal[i].copy() for i in arr])
                            wc = np.asarray(fn(coll, sens, squeeze=False), dtype=float).reshape(-1, 3)
                            ev = {"tid": tid0 + n, "kind": "super", "what": "collection:" + "+".join(type(pal[i]).__name__ for i in arr), "field": field, "whole": quant.q12(wc, s2),
                                  "parts": [quant.q12(p, s2) for p in parts], "fin": bool(np.isfinite(wc).all())}
                            f.write(json.dumps(ev, separators=(",", ":")) + "\n")
                            n += 1
            elif st["kind"] == "homog":
                i = st["arr"][0]
                dec = st["lin"][0]
                src = pal[i].copy()
                rr = rng(f"hom{i}")
                e1 = np.array([rr.uniform(0.2, 1) * rr.choice((-1, 1)) for _ in range(3)])
                k = float(f"1e{dec}")
                for field in ("B", "H"):
                    fn = getattr(magpy, "get" + field)
                    obs = []
                    for e in (e1, k * e1):
                        if hasattr(src, "polarization"):
                            src.polarization = e
                        elif hasattr(src, "current"):
                            src.current = float(e[0])
                        else:
                            src.moment = e
                        obs.append(np.asarray(fn(src, sens[0], squeeze=False), dtype=float).reshape(-1, 3))
                    s = quant.gross(obs[0])
                    ev = {"tid": tid0 + n, "kind": "homog", "what": f"{type(src).__name__} x 1e{dec}", "cls": type(src).__name__, "field": field, "dec": dec,
                          "obs": quant.q12(obs[0], s), "obsd": quant.q12(obs[1], s * k), "fin": bool(all(np.isfinite(o).all() for o in obs))}
                    f.write(json.dumps(ev, separators=(",", ":")) + "\n")
                    n += 1
            else:
                i = st["arr"][0]
                a, b = st["lin"]
                src = pal[i].copy()
                rr = rng(f"lin{i}{a}{b}")
                e1 = np.array([rr.uniform(-1, 1) for _ in range(3)])
                e2 = np.array([rr.uniform(-1, 1) for _ in range(3)])
                for field in ("B", "H"):
                    fn = getattr(magpy, "get" + field)
                    obs = []
                    for e in (a * e1 + b * e2, e1, e2):
                        if hasattr(src, "polarization"):
                            if (a + b) % 2:
                                src.magnetization = e * 1e6
                            else:
                                src.polarization = e
                        elif hasattr(src, "current"):
                            src.current = float(e[0])
                        else:
                            src.moment = e
                        obs.append(np.asarray(fn(src, sens[0], squeeze=False), dtype=float).reshape(-1, 3))
                    # gross scale of the law: |a| |obs1| + |b| |obs2|
                    s = max(quant.gross(obs[0]), abs(a) * quant.gross(obs[1]) + abs(b) * quant.gross(obs[2]))
                    ev = {"tid": tid0 + n, "kind": "linear", "what": type(src).__name__, "cls": type(src).__name__, "field": field, "a": a, "b": b,
                          "obs": quant.q12(obs[0], s), "obs1": quant.q12(obs[1], s), "obs2": quant.q12(obs[2], s), "fin": bool(all(np.isfinite(o).all() for o in obs))}
                    f.write(json.dumps(ev, separators=(",", ":")) + "\n")
                    n += 1
    return n
