"""C08: field computation never changes objects or inputs, even when it fails.

Every behaviour of spec/MC_FieldCall (path-length pattern x point of failure) is realised on real objects:
 - failures reachable through the public API (missing dimension/excitation, invalid pixel_agg / output, incompatible pixel
   shapes, CustomSource without field_func, custom field functions that raise / return None / return a wrong shape on their
   i-th invocation, unsupported field) and
 - failures injected at the named hook points of getBH_level2 (MAGPYLIB_VERIF hooks) for the phases no input can make fail.
The phase sequence with the path lengths at every point is logged and judged by TV_FieldCall.tla (FieldCall!RunF), together with a deep
before/after digest of every object and caller array and the outcome of calling again."""
import json

import numpy as np

from ..common import import_magpylib, rng
from . import fieldwrap as fw

PHASES = ["checked", "tiled", "group", "computed", "reduced", "rotated", "aggregated", "untiled"]


class Injected(RuntimeError):
    pass


def plan_from_hist(hist):
    """TLC behaviour (sequence of events) -> plan: initial lens, list of points, failing point info."""
    pts = [h["p"] for h in hist]
    lens = dict(hist[0]["lens"])
    return {"lens": lens, "points": pts}


def realise(plan, variant, magpy):
    """Build objects and call arguments that make the real code follow `plan` (same points, same failure point)."""
    pts = plan["points"]
    lens = plan["lens"]
    fail_after = None           # the last point reached before 'raise'
    if pts[-1] == "raise":
        fail_after = pts[-2]
    ngroups_done = pts.count("group")
    r = rng(f"fc{variant}")
    state = {"calls": 0}

    def mkpath(n):
        return np.array([[i + 1, 2 * i, -i] for i in range(n)], dtype=float)

    def ff_factory(tag, fail_on=None, mode=None):
        def ff(field, observers):
            if fail_on is not None and observers.shape[0] > 2:      # (validation at assignment uses 2 observers)
                state["calls"] += 1
                if mode == "raise":
                    raise Injected("custom field function fails")
                if mode == "none":
                    return None
                if mode == "shape":
                    return np.zeros((len(observers) + 1, 3))
            return np.ones((len(observers), 3)) * tag
        return ff

    kw = {"sumup": bool(variant % 2), "squeeze": bool((variant // 2) % 2), "pixel_agg": None, "output": "ndarray"}
    inject = None
    # two groups: o1 -> custom source A, o2 -> custom source B (other function object), o3 -> sensor
    modeA = modeB = None
    if fail_after == "group":
        mode = ["raise", "none", "shape"][variant % 3]
        if ngroups_done == 1:
            modeA = mode
        else:
            modeB = mode
    from scipy.spatial.transform import Rotation as R

    def mkori(n):
        # generic (non-lattice) orientations: their quaternions are NOT fixed points of re-normalisation
        q = np.array([[r.gauss(0, 1) for _ in range(4)] for _ in range(n)])
        return R.from_quat(q / np.linalg.norm(q, axis=1)[:, None])
    A = magpy.misc.CustomSource(field_func=ff_factory(1, fail_on=1 if modeA else None, mode=modeA), position=mkpath(lens["o1"]), orientation=mkori(lens["o1"]))
    B = magpy.misc.CustomSource(field_func=ff_factory(2, fail_on=1 if modeB else None, mode=modeB), position=mkpath(lens["o2"]) + 5, orientation=mkori(lens["o2"]))
    pix = np.array([[1.0, 2.0, 3.0], [0.5, -1.0, 2.0], [3.0, 3.0, 1.0]])
    S = magpy.Sensor(pixel=pix.copy(), position=mkpath(lens["o3"]) - 3, orientation=mkori(lens["o3"]))
    sources = [A, B]
    sensors = [S]
    extra = []
    arrays = [pix]
    if fail_after == "call":
        kind = variant % 5
        if kind == 0:
            kw["pixel_agg"] = "bogus_reduction"
        elif kind == 1:
            c = magpy.magnet.Cuboid(polarization=(1, 2, 3), position=mkpath(2))     # dimension missing
            sources = [A, c, B]
            extra.append(c)
        elif kind == 2:
            c = magpy.magnet.Cylinder(dimension=(1, 2), position=mkpath(3))          # excitation missing
            sources = [A, B, c]
            extra.append(c)
        elif kind == 3:
            S2 = magpy.Sensor(pixel=np.zeros((2, 2, 3)), position=mkpath(2))         # incompatible pixel shapes
            sensors = [S, S2]
            extra.append(S2)
        else:
            sources = [A, "not a source", B]
    elif fail_after == "checked":
        inject = "checked"
    elif fail_after == "tiled":
        if variant % 2 == 0:
            N = magpy.misc.CustomSource(position=mkpath(1))                         # field_func is None (public API)
            sources = [A, B, N]
            extra.append(N)
        else:
            inject = "tiled"
    elif fail_after in ("computed", "reduced", "rotated", "aggregated"):
        inject = fail_after
    elif fail_after == "untiled":
        kw["output"] = "bogus_output"
    names = {"o1": A, "o2": B, "o3": S}
    return sources, sensors, kw, inject, names, extra, arrays


def run_plan(args):
    plans, path, tid0 = args
    magpy = import_magpylib()
    from magpylib._src import _verif_hooks as hooks
    n = 0
    with open(path, "w") as f:
        for pi, plan in enumerate(plans):
            for variant in range(plan.get("variants", 2)):
                sources, sensors, kw, inject, names, extra, arrays = realise(plan, variant + 2 * pi, magpy)
                inv = {id(o): k for k, o in names.items()}
                evs = []

                def lens_now():
                    return {k: int(len(o._position)) for k, o in names.items()}

                def ok_lengths():
                    return all(len(o._position) == len(o._orientation) for o in list(names.values()) + extra)

                def tracer(name, info, _evs=evs, _inject=inject):
                    _evs.append({"p": name, "lens": lens_now()})
                    if _inject == name and (name != "group"):
                        raise Injected(f"fault injected at {name}")
                everything = list(names.values()) + extra
                pre = fw.snapshot(everything, arrays)
                hooks.tracer = tracer
                evs.append({"p": "call", "lens": lens_now()})
                exc = ""
                out1 = None
                try:
                    out1 = magpy.getB(sources, sensors, **kw)
                    evs.append({"p": "return", "lens": lens_now()})
                except Exception as ex:  # pylint: disable=broad-except
                    exc = type(ex).__name__
                    evs.append({"p": "raise", "lens": lens_now()})
                finally:
                    hooks.tracer = None
                post = fw.snapshot(everything, arrays)
                # calling again (without hooks): identical result / same exception class (not for injected faults)
                again_same = True
                if inject is None:
                    exc2 = ""
                    out2 = None
                    try:
                        out2 = magpy.getB(sources, sensors, **kw)
                    except Exception as ex:  # pylint: disable=broad-except
                        exc2 = type(ex).__name__
                    again_same = (exc2 == exc) and (out1 is None or (out2 is not None and np.array_equal(np.asarray(out1), np.asarray(out2))))
                post2 = fw.snapshot(everything, arrays)
                f.write(json.dumps({"tid": tid0 + n, "kind": "phases", "plan": plan["points"], "lens0": plan["lens"], "events": evs, "exc": exc,
                                    "inject": inject or "", "unchanged": pre == post and pre == post2, "equal_len": ok_lengths(),
                                    "again_same": bool(again_same)}, separators=(",", ":")) + "\n")
                n += 1
    return n


# ------------------------------------------------------------ plain calls: caller arrays and objects of ordinary calls
def plain_calls(args):
    """Ordinary successful and failing calls through all interfaces with caller-owned arrays; digest before/after."""
    salt, count, path, tid0 = args
    magpy = import_magpylib()
    r = rng(salt)
    n = 0

    def vec(k=3):
        return np.array([r.uniform(0.5, 2.0) for _ in range(k)])
    with open(path, "w") as f:
        for i in range(count):
            kind = i % 8
            arrays = []
            objs = []
            what = ""
            exc = ""
            try:
                if kind == 0:       # functional interface with caller arrays
                    obs = np.array([[r.uniform(-3, 3) for _ in range(3)] for _ in range(4)])
                    dim = np.array([vec(), vec(), vec(), vec()])
                    pol = np.array([vec(), vec(), vec(), vec()])
                    pos = np.array([vec(), vec(), vec(), vec()])
                    arrays = [obs, dim, pol, pos]
                    what = "getB('Cuboid', obs, dimension=, polarization=, position=)"
                    call = lambda: magpy.getB("Cuboid", obs, dimension=dim, polarization=pol, position=pos)
                elif kind == 1:     # core functions
                    obs = np.array([[r.uniform(-3, 3) for _ in range(3)] for _ in range(5)])
                    vert = np.array([[[0, 0, 0], [1, 0, 0], [0, 1, 0], [0, 0, 1.0]]] * 5) + 0.1
                    pol = np.array([vec() for _ in range(5)])
                    arrays = [obs, vert, pol]
                    what = "core.triangle_Bfield"
                    call = lambda: magpy.core.triangle_Bfield(observers=obs, vertices=vert[:, :3, :], polarizations=pol)
                elif kind == 2:
                    obs = np.array([[r.uniform(-3, 3) for _ in range(3)] for _ in range(5)])
                    dim = np.array([vec() for _ in range(5)])
                    pol = np.array([vec() for _ in range(5)])
                    arrays = [obs, dim, pol]
                    what = "core.magnet_cuboid_Bfield"
                    call = lambda: magpy.core.magnet_cuboid_Bfield(observers=obs, dimensions=dim, polarizations=pol)
                elif kind == 3:     # object interface: observers array, object attribute arrays
                    obs = np.array([[[r.uniform(-3, 3) for _ in range(3)] for _ in range(2)] for _ in range(2)])
                    from scipy.spatial.transform import Rotation as R
                    src = magpy.magnet.Cylinder(dimension=(1, 2), polarization=(0.1, 0.2, 0.3), position=np.array([[0, 0, 0], [1, 0, 0.0]]),
                                                orientation=R.from_rotvec([(0.1, 0.2, 0.3), (0.3, -0.1, 0.2)]))
                    arrays = [obs]
                    objs = [src]
                    what = "src.getH(array)"
                    call = lambda: src.getH(obs)
                elif kind == 4:     # collection with internal sensor, sensor has longer path
                    from scipy.spatial.transform import Rotation as R
                    s1 = magpy.magnet.Sphere(diameter=1, polarization=(1, 2, 3), orientation=R.from_rotvec((r.uniform(-1, 1), r.uniform(-1, 1), r.uniform(-1, 1))))
                    s2 = magpy.current.Circle(diameter=2, current=1.5, position=np.array([[0, 0, 1], [0, 0, 2.0]]))
                    sens = magpy.Sensor(pixel=np.array([[0.1, 0.2, 0.3], [1, 1, 1.0]]), position=np.array([[2, 0, 0], [2, 1, 0], [2, 2, 0.0]]))
                    coll = magpy.Collection(s1, s2, sens)
                    objs = [s1, s2, sens, coll]
                    what = "coll.getB() internal sensor"
                    call = lambda: coll.getB()
                elif kind == 5:     # sensor method with several sources, dataframe output
                    s1 = magpy.magnet.Cuboid(dimension=(1, 2, 3), polarization=(1, 2, 3), position=np.array([[0, 0, 0], [1, 1, 1.0]]))
                    s2 = magpy.misc.Dipole(moment=(1, 2, 3), position=(3, 3, 3))
                    sens = magpy.Sensor(position=(0, 0, 4))
                    objs = [s1, s2, sens]
                    what = "sens.getH(s1, s2, output=dataframe)"
                    call = lambda: sens.getH(s1, s2, output="dataframe").to_numpy()[:, 4:].astype(float)
                elif kind == 6:     # failing functional call: incompatible lengths
                    obs = np.array([[1.0, 2, 3], [2, 3, 4]])
                    dim = np.array([vec(), vec(), vec()])
                    pol = np.array([vec(), vec(), vec()])
                    arrays = [obs, dim, pol]
                    what = "getB('Cuboid') incompatible lengths"
                    call = lambda: magpy.getB("Cuboid", obs, dimension=dim, polarization=pol)
                else:               # triangular mesh (tetrahedron-based core reorders vertices internally)
                    obs = np.array([[r.uniform(2, 3) for _ in range(3)] for _ in range(3)])
                    verts = np.array([[0, 0, 0], [1, 0, 0], [0, 1, 0], [0, 0, 1.0]])
                    faces = np.array([[0, 2, 1], [0, 1, 3], [1, 2, 3], [0, 3, 2]])
                    mesh = magpy.magnet.TriangularMesh(vertices=verts, faces=faces, polarization=(1, 2, 3))
                    tet = magpy.magnet.Tetrahedron(vertices=verts, polarization=(1, 2, 3))
                    arrays = [obs, verts, faces]
                    objs = [mesh, tet]
                    what = "getB([mesh, tet], obs)"
                    call = lambda: magpy.getB([mesh, tet], obs)
                pre = fw.snapshot(objs, arrays)
                out1 = None
                try:
                    out1 = np.asarray(call())
                except Exception as ex:  # pylint: disable=broad-except
                    exc = type(ex).__name__
                post = fw.snapshot(objs, arrays)
                exc2 = ""
                out2 = None
                try:
                    out2 = np.asarray(call())
                except Exception as ex:  # pylint: disable=broad-except
                    exc2 = type(ex).__name__
                again = (exc == exc2) and (out1 is None or (out2 is not None and np.array_equal(out1, out2, equal_nan=True)))
                if kind != 6 and exc:
                    raise RuntimeError(f"harness call {what} failed: {exc}")
                f.write(json.dumps({"tid": tid0 + n, "kind": "plain", "what": what, "exc": exc, "unchanged": pre == post, "equal_len": True,
                                    "again_same": bool(again), "plan": [], "lens0": {}, "events": [], "inject": ""}, separators=(",", ":")) + "\n")
                n += 1
            except Exception as ex:  # construction failed: machinery problem, log so the validator flags it
                f.write(json.dumps({"tid": tid0 + n, "kind": "broken", "what": what + ":" + type(ex).__name__, "exc": "", "unchanged": True, "equal_len": True,
                                    "again_same": True, "plan": [], "lens0": {}, "events": [], "inject": ""}, separators=(",", ":")) + "\n")
                n += 1
    return n
