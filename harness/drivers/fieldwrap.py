"""Binding of spec/FieldWrap.tla: scenarios enumerated by TLC (MC_FieldWrap) are built as real objects with tagged
CustomSources and executed through getB/getH; the full output tensor is logged for TV_FieldWrap.tla.
Also the non-mutation observations of C08 (deep snapshot of every involved object and caller array before/after)."""
import json

import numpy as np

from ..common import import_magpylib, rng
from ..lattice import Kappa, mat_to_rot

FC = {"B": 1, "H": 2, "J": 3, "M": 4}
OFF = 999999


def norm_scenario(e):
    """TLC value (tlaval) -> JSON-able call record (tuples -> lists)."""
    def path(p):
        return {"pos": [list(x) for x in p["pos"]], "ori": [[list(r) for r in m] for m in p["ori"]]}

    def node(n):
        if n["kind"] == "leaf":
            return {"kind": "leaf", "id": n["id"], "tag": n["tag"], "path": path(n["path"])}
        if n["kind"] == "coll":
            return {"kind": "coll", "kids": [node(k) for k in n["kids"]]}
        return {"kind": "sens"}
    return {"field": e["field"], "sumup": e["sumup"], "squeeze": e["squeeze"], "agg": e["agg"],
            "sources": [node(n) for n in e["sources"]],
            "sensors": [{"id": s["id"], "path": path(s["path"]), "left": s["left"], "pix": [list(p) for p in s["pix"]],
                         "pixshape": list(s["pixshape"]), "pk": s["pk"]} for s in e["sensors"]]}


class Builder:
    """Real objects for one scenario, under a concretization kappa."""

    def __init__(self, kappa=None):
        self.magpy = import_magpylib()
        self.k = kappa or Kappa()
        self._ff = {}

    def tagged(self, tag):
        """one function OBJECT per tag, so that equal tags land in one field_func group of getBH_level2"""
        if tag not in self._ff:
            lam = self.k.lam

            def ff(field, observers, _tag=tag, _lam=lam):
                r = np.rint(observers / _lam)
                c = FC[field] * 100 + _tag * 1000
                return np.stack([c + r[:, 0] + 2 * r[:, 1], c + r[:, 1] * r[:, 2] + 7, c + r[:, 2] - r[:, 0]], axis=1)
            self._ff[tag] = ff
        return self._ff[tag]

    def pose(self, path):
        pos = self.k.pos(np.array(path["pos"], dtype=float))
        return {"position": pos if len(pos) > 1 else pos[0], "orientation": self.k.rot(path["ori"])}

    def build(self, e):
        m = self.magpy
        leaves = {}
        everything = []

        def node(n):
            if n["kind"] == "leaf":
                if n["id"] not in leaves:
                    leaves[n["id"]] = m.misc.CustomSource(field_func=self.tagged(n["tag"]), **self.pose(n["path"]))
                    everything.append(leaves[n["id"]])
                return leaves[n["id"]]
            if n["kind"] == "coll":
                c = m.Collection(*[node(x) for x in n["kids"]])
                everything.append(c)
                return c
            s = m.Sensor()
            everything.append(s)
            return s
        sources = [node(n) for n in e["sources"]]
        sens = {}
        sensors = []
        for s in e["sensors"]:
            if s["id"] not in sens:
                if s["pk"] == "none":
                    pix = None
                elif s["pk"] == "vec":
                    pix = self.k.lam * np.array(s["pix"][0], dtype=float)
                else:
                    pix = self.k.lam * np.array(s["pix"], dtype=float).reshape(*s["pixshape"], 3)
                sens[s["id"]] = m.Sensor(pixel=pix, handedness="left" if s["left"] else "right", **self.pose(s["path"]))
                everything.append(sens[s["id"]])
            sensors.append(sens[s["id"]])
        return sources, sensors, everything


def den_for(agg, n):
    return {"mean": n, "median": 2, "var": n * n}.get(agg, 1)


def canonical(out, e):
    """Reshape the returned array to [l][m][k][j][3] for logging (the SHAPE itself is judged separately by the spec)."""
    L = 1 if e["sumup"] else len(e["sources"])
    K = len(e["sensors"])
    npix = [len(s["pix"]) for s in e["sensors"]]
    agg = e["agg"] != "none"
    J = 1 if agg else npix[0]
    tot = out.size
    if tot % (3 * L * K * J) != 0:
        return None, None
    Mx = tot // (3 * L * K * J)
    try:
        a = np.asarray(out, dtype=float).reshape(L, Mx, K, J, 3)
    except ValueError:
        return None, None
    dens = [den_for(e["agg"], n) for n in npix] if agg else [1] * K
    a = a * np.array(dens, dtype=float)[None, None, :, None, None]
    r = np.rint(a)
    bad = np.abs(a - r) > 1e-6 * np.maximum(1.0, np.abs(a))
    r = np.where(bad, OFF, r)
    return r.astype(np.int64).tolist(), dens


def style_digest(o):
    """Effective style VALUES of an object without touching it (the style object is created lazily on first access, which
    is not a change of any style value): evaluated on deep copies of the private style state."""
    import copy
    try:
        st = copy.deepcopy(getattr(o, "_style", None))
        kw = copy.deepcopy(getattr(o, "_style_kwargs", {}) or {})
        if st is None:
            st = o._style_class()
        if kw:
            st.update(kw)
        return json.dumps(st.as_dict(), sort_keys=True, default=str)
    except Exception as ex:  # pylint: disable=broad-except
        return "style-error:" + type(ex).__name__


def snapshot(objs, arrays):
    """Deep digest of every involved object (C08): paths, geometry/excitation attributes, pixel, parent/children, style."""
    out = []
    for o in objs:
        d = {"cls": type(o).__name__, "pos": np.array(o._position).tobytes().hex(), "ori": o._orientation.as_quat().tobytes().hex(),
             "npos": len(o._position), "nori": len(o._orientation), "parent": id(o._parent) if o._parent is not None else 0}
        for attr in ("_dimension", "_diameter", "_vertices", "_faces", "_polarization", "_magnetization", "_current", "_moment", "_pixel", "_handedness"):
            if hasattr(o, attr):
                v = getattr(o, attr)
                d[attr] = None if v is None else (np.asarray(v).tobytes().hex() + str(np.asarray(v).shape))
        if hasattr(o, "_children"):
            d["children"] = [id(x) for x in o._children]
            d["caches"] = [[id(x) for x in getattr(o, a)] for a in ("_sources", "_sensors", "_collections")]
        d["style"] = style_digest(o)
        d["ff"] = id(getattr(o, "_field_func", None))
        out.append(d)
    return out, [None if a is None else (np.asarray(a).tobytes().hex() + str(np.asarray(a).shape)) for a in arrays]


def ints(a):
    """array -> nested lists of exact integers (an impossible marker where the value is not an integer)"""
    a = np.asarray(a, dtype=float)
    r = np.rint(a)
    bad = ~np.isfinite(a) | (np.abs(a - r) > 1e-6 * np.maximum(1.0, np.abs(a)))
    return np.where(bad, OFF, r).astype(np.int64).tolist()


def stage_record(b, e, got):
    """The arrays the code held at the named points of getBH_level2 (hooks), for spec/FieldAlgo.tla:
    computed / reduced in the GLOBAL frame (the concretization's rotation is undone), rotated / aggregated in the sensor frames."""
    if set(got) != {"computed", "reduced", "rotated", "aggregated"}:
        return {"has": False, "computed": [], "reduced": [], "rotated": [], "aggregated": []}
    st = {"has": True}
    for name in ("computed", "reduced"):
        a = got[name]
        st[name] = ints(b.k.unvec(a.reshape(-1, 3)).reshape(a.shape))
    st["rotated"] = ints(got["rotated"])
    can, _ = canonical(got["aggregated"], dict(e, sumup=False))
    if can is None:
        return {"has": False, "computed": [], "reduced": [], "rotated": [], "aggregated": []}
    st["aggregated"] = can
    return st


def execute(b, e, tid, form="top"):
    """Run one scenario; returns the event for TV_FieldWrap (and the C08 observations)."""
    sources, sensors, everything = b.build(e)
    m = b.magpy
    from magpylib._src import _verif_hooks as hooks
    got = {}

    def tracer(name, info, _got=got):
        if "B" in info and name in ("computed", "reduced", "rotated", "aggregated"):
            _got[name] = np.array(info["B"], dtype=float, copy=True)
    fn = {"B": m.getB, "H": m.getH, "J": m.getJ, "M": m.getM}[e["field"]]
    pre, _ = snapshot(everything, [])
    ev = {"tid": tid, "call": e, "form": form, "outcome": "ok", "shape": [], "den": [1] * len(e["sensors"]), "out": [], "ok_reshape": False}
    try:
        src_arg = sources if len(sources) > 1 or form in ("list", "obs_coll", "obs_nested") else sources[0]
        obs_arg = sensors if len(sensors) > 1 or form == "list" else sensors[0]
        if form in ("obs_coll", "obs_nested") and len({id(x) for x in sensors}) == len(sensors):
            # observers given as a Collection of the sensors (nested: the tail in a sub-collection): same sensors in depth-first order
            if form == "obs_nested" and len(sensors) > 1:
                obs_arg = m.Collection(sensors[0], m.Collection(*sensors[1:]))
            else:
                obs_arg = m.Collection(*sensors)
            everything = everything + [obs_arg]
        hooks.tracer = tracer
        try:
            out = fn(src_arg, obs_arg, sumup=e["sumup"], squeeze=e["squeeze"], pixel_agg=None if e["agg"] == "none" else e["agg"])
        finally:
            hooks.tracer = None
        ev["shape"] = [int(x) for x in np.shape(out)]
        can, dens = canonical(np.asarray(out), e)
        if can is not None:
            ev["out"], ev["den"], ev["ok_reshape"] = can, dens, True
    except m._src.exceptions.MagpylibBadUserInput:
        ev["outcome"] = "raise"
    except Exception as ex:  # pylint: disable=broad-except
        ev["outcome"] = "exc:" + type(ex).__name__
    post, _ = snapshot(everything, [])
    ev["unchanged"] = (pre == post)
    ev["stages"] = stage_record(b, e, got) if ev["outcome"] == "ok" else stage_record(b, e, {})
    return ev


def run_scenarios(args):
    scen, path, tid0, kappa_salt = args
    k = Kappa.random(rng(kappa_salt)) if kappa_salt else None
    n = 0
    with open(path, "w") as f:
        for i, e in enumerate(scen):
            b = Builder(k)
            ev = execute(b, e, tid0 + n, form=("top", "list", "obs_coll", "obs_nested")[i % 4])
            ev["kappa"] = k.describe() if k else {}
            f.write(json.dumps(ev, separators=(",", ":")) + "\n")
            n += 1
            # C04: the same sensors given as explicit global pixel positions (static sensors of one pixel shape only)
            if all(len(s["path"]["pos"]) == 1 for s in e["sensors"]) and e["agg"] == "none" and k is None:
                pts = []
                for s in e["sensors"]:
                    R0 = np.array(s["path"]["ori"][0])
                    p0 = np.array(s["path"]["pos"][0])
                    pts += [(R0 @ np.array(px) + p0).tolist() for px in s["pix"]]
                e2 = dict(e, sensors=[{"id": "pos", "path": {"pos": [[0, 0, 0]], "ori": [[[1, 0, 0], [0, 1, 0], [0, 0, 1]]]}, "left": False,
                                       "pix": pts, "pixshape": [len(pts)], "pk": "arr"}])
                sources, _, everything = b.build(e2)
                fn = {"B": b.magpy.getB, "H": b.magpy.getH}[e["field"]]
                ev2 = {"tid": tid0 + n, "call": e2, "form": "positions", "outcome": "ok", "shape": [], "den": [1], "out": [], "ok_reshape": False, "kappa": {}}
                try:
                    out = fn(sources if len(sources) > 1 else sources[0], np.array(pts, dtype=float), sumup=e["sumup"], squeeze=e["squeeze"])
                    ev2["shape"] = [int(x) for x in np.shape(out)]
                    can, dens = canonical(np.asarray(out), e2)
                    if can is not None:
                        ev2["out"], ev2["den"], ev2["ok_reshape"] = can, dens, True
                except Exception as ex:  # pylint: disable=broad-except
                    ev2["outcome"] = "exc:" + type(ex).__name__
                ev2["unchanged"] = True
                ev2["stages"] = stage_record(b, e2, {})
                f.write(json.dumps(ev2, separators=(",", ":")) + "\n")
                n += 1
    return n
