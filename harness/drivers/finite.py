"""Binding of spec/Physics.tla (special sets, singular points) to the real field functions for C15.

Every source of the catalogue is observed on the whole half-lattice box around it - exactly on every point, a few
ulp beside it (per coordinate), a few ulp of the body size beside it (matters for coordinates that are 0) and at
1e-12, 1e-9, 1e-6 sizes - through getB/getH/getJ/getM and the magpylib.core functions, and at far points m*10^k.
Each call runs under a watchdog (CPU-time interval timer of the worker process).  Logged: finite flags per component, shapes,
exception class, CPU time class.  Which points may be non-finite is decided by spec/TV_Finite.tla (Physics!Singular).
"""
import itertools
import json
import math
import signal
import time

import numpy as np

from ..common import import_magpylib, rng
from ..lattice import ROTS, Kappa
from . import physics as ph

POL = ph.POL


# ------------------------------------------------------------------------------------------------ catalogue
def catalogue():
    cat = {}

    def add(name, body, lo, hi, valid=True):
        cat[name] = {"name": name, "body": body, "lo": [int(v) for v in lo], "hi": [int(v) for v in hi], "valid": valid}

    for n in ("Cuboid_4_4_8", "Cylinder_4_4", "Sphere_4", "CylinderSegment_2_4_4_0_2", "CylinderSegment_0_4_4_m1_3", "CylinderSegment_2_4_2_0_8",
              "Tetrahedron_1", "TriangularMesh_boxax", "TriangularMesh_L", "Triangle_1", "Circle_4", "Dipole_1"):
        e = ph.CAT[n]
        add(n, e["body"], e["lo"], e["hi"])
    # the r/r0 = 0.05 switch of the diametral cylinder field: d2 = 40 puts it on the half-lattice; scanned near the axis only
    add("Cylinder_40_4", {"cls": "Cylinder", "d2": 40, "h2": 4}, [-2, -2, -2], [2, 2, 2])
    # zero-size sources that the input checks accept
    add("Sphere_0", {"cls": "Sphere", "d2": 0}, [0, 0, 0], [0, 0, 0])
    add("Circle_0", {"cls": "Circle", "d2": 0}, [0, 0, 0], [0, 0, 0])
    # polyline with a zero-length segment
    add("Polyline_z", {"cls": "Polyline", "v2": [[-2, 0, 0], [2, 0, 0], [2, 2, 0], [2, 2, 0], [2, 2, 4]]}, [-2, 0, 0], [2, 2, 4])
    # degenerate inputs that are accepted but are not valid bodies per the documentation (judged under C17)
    add("Triangle_collinear", {"cls": "Triangle", "v2": [[0, 0, 0], [2, 0, 0], [4, 0, 0]]}, [0, 0, 0], [4, 0, 0], valid=False)
    add("Tetrahedron_coplanar", {"cls": "Tetrahedron", "v2": [[0, 0, 0], [4, 0, 0], [0, 4, 0], [4, 4, 0]]}, [0, 0, 0], [4, 4, 0], valid=False)
    return cat


CAT = catalogue()
FAR_M = [(1, 0, 0), (-1, 0, 0), (0, 1, 0), (0, 0, 1), (0, 0, -1), (1, 1, 0), (1, -1, 0), (1, 0, 1), (0, 1, 1), (1, 1, 1), (-1, 1, 1), (1, 2, 0), (2, 0, 1),
         (1, 2, 3), (3, -1, 2)]


class Watchdog(Exception):
    pass


def _alarm(signum, frame):
    raise Watchdog()


def guarded(fn, limit):
    """run fn() under a watchdog on the CPU time of this process (independent of the load of the machine: a call that
    does not terminate burns CPU); returns (value, cpu seconds)"""
    signal.signal(signal.SIGVTALRM, _alarm)
    signal.setitimer(signal.ITIMER_VIRTUAL, limit)
    t = time.process_time()
    try:
        v = fn()
    finally:
        signal.setitimer(signal.ITIMER_VIRTUAL, 0)
    return v, time.process_time() - t


POINT_LIMIT = 0.25  # CPU seconds for one observer alone (a normal single call costs ~10 ms)


def masks_guarded(evaluate, Q, limit, excs, aux=None):
    """finite masks of all observers Q in one call.  If the call hits the watchdog or raises, every observer is
    evaluated alone under a short watchdog so that the offending ones are located: mask -1 = does not return,
    -2 = raises (class names collected in excs).  Returns (masks, cpu of the whole-box call).
    aux: optional per-row data (index array) handed to evaluate together with the rows of Q."""
    if aux is not None:
        ev0 = evaluate
        idx = np.arange(len(Q))

        def evaluate(X):  # X carries the row numbers in a 4th column
            return ev0(X[:, :3], aux[X[:, 3].astype(int)])
        Q = np.c_[Q, idx]
    try:
        arrs, t = guarded(lambda: evaluate(Q), limit)
        return finite_mask(arrs), t
    except Watchdog:
        t = limit
        excs.add("<watchdog>")
    except Exception:  # pylint: disable=broad-except
        t = 0.0
    out = np.zeros(len(Q), dtype=np.int64)
    for i in range(len(Q)):
        try:
            arrs, _ = guarded(lambda i=i: evaluate(Q[i:i + 1]), POINT_LIMIT)
            out[i] = finite_mask(arrs)[0]
        except Watchdog:
            out[i] = -1
        except Exception as ex:  # pylint: disable=broad-except
            out[i] = -2
            excs.add(type(ex).__name__)
    if not ((out == -1) | (out == -2)).any():
        # every observer alone is fine: the whole-box call itself is what fails
        out[:] = -1 if t else -2
    return out, t


# ------------------------------------------------------------------------------------------------ variants
def variants(P, size, which):
    """list of (kind, observers) for the exact points P (n,3): per-coordinate offsets.
    which: "exact" | "ulp" | "eps" | "near" (each includes the exact points)"""
    out = [("exact", P)]
    if which == "ulp":
        for i in range(3):
            for s in (-4, -1, 1, 4):
                Q = P.copy()
                col = Q[:, i]
                for _ in range(abs(s)):
                    col = np.nextafter(col, np.inf if s > 0 else -np.inf)
                Q[:, i] = col
                out.append(("ulp", Q))
    elif which == "eps":
        eps = 2.0 ** -52 * size
        for i in range(3):
            for s in (-4, -1, 1, 4):
                Q = P.copy()
                Q[:, i] += s * eps
                out.append(("eps", Q))
    elif which == "near":
        for i in range(3):
            for mag in (1e-12, 1e-9, 1e-6):
                Q = P.copy()
                Q[:, i] += mag * size
                out.append(("near", Q))
    return out


def finite_mask(arrs):
    """arrs: list of (n,k<=3) arrays (one per field) -> int mask per point (bit 3i+j set = component j of field i finite)"""
    n = len(arrs[0])
    m = np.zeros(n, dtype=np.int64)
    for i, a in enumerate(arrs):
        a = np.asarray(a, dtype=float).reshape(n, -1)
        for j in range(3):
            ok = np.isfinite(a[:, j]) if j < a.shape[1] else np.ones(n, dtype=bool)
            m += ok.astype(np.int64) << (3 * i + j)
    return m


# ------------------------------------------------------------------------------------------------ core functions
def core_call(magpy, entry, src, lam, m):
    """returns (field names, function obs(n,3 local) -> list of arrays) for the class of the entry, or None"""
    core = magpy.core
    b = entry["body"]
    cls = b["cls"]
    pol1 = np.array(POL, dtype=float) * m

    def tile(v, n):
        return np.tile(np.asarray(v, dtype=float), (n, 1))

    if cls == "Cuboid":
        return ["B"], lambda o: [core.magnet_cuboid_Bfield(observers=o, dimensions=tile(src.dimension, len(o)), polarizations=tile(pol1, len(o)))]
    if cls == "Sphere":
        return ["B"], lambda o: [core.magnet_sphere_Bfield(observers=o, diameters=np.full(len(o), float(src.diameter)), polarizations=tile(pol1, len(o)))]
    if cls == "Cylinder":
        d, h = src.dimension

        def f(o):
            r = np.sqrt(o[:, 0] ** 2 + o[:, 1] ** 2) / (d / 2)
            phi = np.arctan2(o[:, 1], o[:, 0])
            z = o[:, 2] / (d / 2)
            z0 = np.full(len(o), h / d)
            return [np.asarray(core.magnet_cylinder_axial_Bfield(z0=z0, r=r, z=z)).T, np.asarray(core.magnet_cylinder_diametral_Hfield(z0=z0, r=r, z=z, phi=phi)).T]
        return ["Bax", "Hdia"], f
    if cls == "CylinderSegment":
        r1, r2, h, p1, p2 = src.dimension

        def f(o):
            n = len(o)
            oc = np.c_[np.sqrt(o[:, 0] ** 2 + o[:, 1] ** 2), np.arctan2(o[:, 1], o[:, 0]), o[:, 2]]
            dim = tile([r1, r2, np.deg2rad(p1), np.deg2rad(p2), -h / 2, h / 2], n)
            mag = tile([m * math.sqrt(14) / magpy.mu_0, math.atan2(2, 1), math.atan2(math.sqrt(5), 3)], n)
            return [core.magnet_cylinder_segment_Hfield(observers=oc, dimensions=dim, magnetizations=mag)]
        return ["H"], f
    if cls == "Circle":
        def f(o):
            n = len(o)
            return [np.asarray(core.current_circle_Hfield(r0=np.full(n, src.diameter / 2), r=np.sqrt(o[:, 0] ** 2 + o[:, 1] ** 2), z=o[:, 2].copy(), i0=np.full(n, float(m)))).T]
        return ["H"], f
    if cls == "Polyline":
        v = np.asarray(src.vertices, dtype=float)

        def f(o):
            n = len(o)
            # (a zero-length segment is a degenerate input of the bare core function; the Polyline object filters it out)
            return [sum(core.current_polyline_Hfield(observers=o, segments_start=tile(v[i], n), segments_end=tile(v[i + 1], n), currents=np.full(n, float(m)))
                        for i in range(len(v) - 1) if not np.array_equal(v[i], v[i + 1]))]
        return ["H"], f
    if cls == "Dipole":
        return ["H"], lambda o: [core.dipole_Hfield(observers=o, moments=tile(pol1, len(o)))]
    if cls in ("Triangle", "Tetrahedron", "TriangularMesh"):
        if cls == "Triangle":
            faces = [np.asarray(src.vertices, dtype=float)]
        elif cls == "Tetrahedron":
            faces = [np.asarray(t, dtype=float) / 2 * lam for t in ph.tetra_mesh(b["v2"])]
        else:
            faces = list(np.asarray(src.mesh, dtype=float))

        def f(o):
            n = len(o)
            return [sum(core.triangle_Bfield(observers=o, vertices=np.tile(t, (n, 1, 1)), polarizations=tile(pol1, n)) for t in faces)]
        return ["B"], f
    return None


# ------------------------------------------------------------------------------------------------ functional interface
# Degenerate-but-accepted geometries: the object constructors reject vanishing sizes, the functional interface
# (magpylib.getB("Cuboid", observers, dimension=...)) and magpylib.core do not.  Every degenerate body is evaluated in ONE
# call together with a regular body of its class, rows alternating (row 2i: degenerate body, row 2i+1: regular body, both
# at observer i), so that per-row special-case masks are exercised; observers = half-lattice box around the DEGENERATE
# body (its sheet / line / point, rim and extensions), exact and +-1, +-4 ulp per coordinate.
def fcatalogue():
    cat = {}

    def add(name, body, partner, valid=True):
        P = np.array(body.get("v2", [[0, 0, 0]])).reshape(-1, 3)
        if body["cls"] == "Cuboid":
            hi = [math.ceil(v / 2) for v in body["dim2"]]
        elif body["cls"] == "Cylinder":
            hi = [math.ceil(body["d2"] / 2)] * 2 + [math.ceil(body["h2"] / 2)]
        elif body["cls"] == "CylinderSegment":
            hi = [body["r22"]] * 2 + [math.ceil(body["h2"] / 2)]
        elif body["cls"] in ("Sphere", "Circle"):
            hi = [math.ceil(body["d2"] / 2)] * 3 if body["cls"] == "Sphere" else [math.ceil(body["d2"] / 2)] * 2 + [0]
        else:
            hi = None
        lo = [-v for v in hi] if hi is not None else P.min(axis=0).tolist()
        hi = hi if hi is not None else P.max(axis=0).tolist()
        cat[name] = {"name": name, "body": body, "partner": partner, "lo": [int(v) for v in lo], "hi": [int(v) for v in hi], "valid": valid}

    reg = {"Cuboid": {"cls": "Cuboid", "dim2": [4, 4, 8]}, "Cylinder": {"cls": "Cylinder", "d2": 4, "h2": 4},
           "CylinderSegment": {"cls": "CylinderSegment", "r12": 2, "r22": 4, "h2": 4, "p1": 0, "p2": 2}, "Sphere": {"cls": "Sphere", "d2": 4},
           "Circle": {"cls": "Circle", "d2": 4}, "Polyline": {"cls": "Polyline", "v2": [[-2, 0, 0], [2, 0, 0]]},
           "Triangle": {"cls": "Triangle", "v2": [[0, 0, 0], [4, 0, 0], [0, 4, 0]]},
           "Tetrahedron": {"cls": "Tetrahedron", "v2": [list(v) for v in ph.T1]}}
    for d in [(0, 4, 4), (4, 0, 4), (4, 4, 0), (0, 0, 4), (4, 0, 0), (0, 4, 0), (0, 0, 0)]:
        add("F_Cuboid_%d_%d_%d" % d, {"cls": "Cuboid", "dim2": list(d)}, reg["Cuboid"])
    for d, h in [(0, 4), (4, 0), (0, 0)]:
        add(f"F_Cylinder_{d}_{h}", {"cls": "Cylinder", "d2": d, "h2": h}, reg["Cylinder"])
    for r1, r2, h, p1, p2 in [(4, 4, 4, 0, 2), (2, 4, 0, 0, 2), (2, 4, 4, 1, 1), (0, 0, 4, 0, 2), (4, 4, 0, 2, 2)]:
        add(f"F_CylinderSegment_{r1}_{r2}_{h}_{p1}_{p2}", {"cls": "CylinderSegment", "r12": r1, "r22": r2, "h2": h, "p1": p1, "p2": p2}, reg["CylinderSegment"])
    add("F_Sphere_0", {"cls": "Sphere", "d2": 0}, reg["Sphere"])
    add("F_Circle_0", {"cls": "Circle", "d2": 0}, reg["Circle"])
    add("F_Polyline_point0", {"cls": "Polyline", "v2": [[0, 0, 0], [0, 0, 0]]}, reg["Polyline"])
    add("F_Polyline_point2", {"cls": "Polyline", "v2": [[2, 0, 0], [2, 0, 0]]}, reg["Polyline"])
    # zero area / zero volume: accepted by the functional interface, but no bodies per the documentation (judged under C17)
    add("F_Triangle_2same", {"cls": "Triangle", "v2": [[0, 0, 0], [0, 0, 0], [4, 0, 0]]}, reg["Triangle"], valid=False)
    add("F_Triangle_3same", {"cls": "Triangle", "v2": [[0, 0, 0], [0, 0, 0], [0, 0, 0]]}, reg["Triangle"], valid=False)
    add("F_Triangle_collinear", {"cls": "Triangle", "v2": [[0, 0, 0], [2, 0, 0], [4, 0, 0]]}, reg["Triangle"], valid=False)
    add("F_Tetrahedron_2same", {"cls": "Tetrahedron", "v2": [[0, 0, 0], [0, 0, 0], [4, 0, 0], [0, 4, 0]]}, reg["Tetrahedron"], valid=False)
    add("F_Tetrahedron_coplanar", {"cls": "Tetrahedron", "v2": [[0, 0, 0], [4, 0, 0], [0, 4, 0], [4, 4, 0]]}, reg["Tetrahedron"], valid=False)
    return cat


FCAT = fcatalogue()


def geometry_row(b, lam):
    """the geometry argument of one body record in lattice units * lam (tuple of arrays, one per functional argument)"""
    cls = b["cls"]
    if cls == "Cuboid":
        return (np.array(b["dim2"], dtype=float) / 2 * lam,)
    if cls == "Cylinder":
        return (np.array([b["d2"], b["h2"]], dtype=float) / 2 * lam,)
    if cls == "CylinderSegment":
        return (np.array([b["r12"] / 2 * lam, b["r22"] / 2 * lam, b["h2"] / 2 * lam, 45.0 * b["p1"], 45.0 * b["p2"]]),)
    if cls in ("Sphere", "Circle"):
        return (np.array(b["d2"] / 2 * lam),)
    v = np.array(b["v2"], dtype=float) / 2 * lam
    if cls == "Polyline":
        return (v[0], v[1])
    return (v,)


def functional_eval(magpy, cls, rows2, lam, m, iface):
    """rows2 = [geometry_row(degenerate), geometry_row(regular)]; returns (field names, evaluate(obs, kind) -> list of arrays)
    where kind[i] in {0, 1} selects the body of row i; None if the class has no such core function"""
    pol1 = np.array(POL, dtype=float) * m
    narg = len(rows2[0])
    stack = [np.array([rows2[0][a], rows2[1][a]]) for a in range(narg)]   # (2, ...) per argument

    def geo(kind):
        return [st[kind] for st in stack]

    if iface == "functional":
        exc = {"current": float(m)} if cls in ("Circle", "Polyline") else {"polarization": pol1}
        names = {"Cuboid": ("dimension",), "Cylinder": ("dimension",), "CylinderSegment": ("dimension",), "Sphere": ("diameter",), "Circle": ("diameter",),
                 "Polyline": ("segment_start", "segment_end"), "Triangle": ("vertices",), "Tetrahedron": ("vertices",)}[cls]

        def ev(o, kind):
            kw = dict(zip(names, geo(kind)))
            return [getattr(magpy, "get" + f)(cls, o, **kw, **exc) for f in "BHJM"]
        return ["B", "H", "J", "M"], ev
    core = magpy.core

    def tile(v, n):
        return np.tile(np.asarray(v, dtype=float), (n, 1))
    if cls == "Cuboid":
        return ["B"], lambda o, k: [core.magnet_cuboid_Bfield(observers=o, dimensions=geo(k)[0], polarizations=tile(pol1, len(o)))]
    if cls == "Sphere":
        return ["B"], lambda o, k: [core.magnet_sphere_Bfield(observers=o, diameters=geo(k)[0], polarizations=tile(pol1, len(o)))]
    if cls == "Circle":
        return ["H"], lambda o, k: [np.asarray(core.current_circle_Hfield(r0=geo(k)[0] / 2, r=np.sqrt(o[:, 0] ** 2 + o[:, 1] ** 2), z=o[:, 2].copy(), i0=np.full(len(o), float(m)))).T]
    if cls == "Polyline":
        return ["H"], lambda o, k: [core.current_polyline_Hfield(observers=o, segments_start=geo(k)[0], segments_end=geo(k)[1], currents=np.full(len(o), float(m)))]
    if cls == "Triangle":
        return ["B"], lambda o, k: [core.triangle_Bfield(observers=o, vertices=geo(k)[0], polarizations=tile(pol1, len(o)))]
    if cls == "CylinderSegment":
        def f(o, k):
            d = geo(k)[0]
            oc = np.c_[np.sqrt(o[:, 0] ** 2 + o[:, 1] ** 2), np.arctan2(o[:, 1], o[:, 0]), o[:, 2]]
            dim = np.c_[d[:, 0], d[:, 1], np.deg2rad(d[:, 3]), np.deg2rad(d[:, 4]), -d[:, 2] / 2, d[:, 2] / 2]
            mag = tile([m * math.sqrt(14) / magpy.mu_0, math.atan2(2, 1), math.atan2(math.sqrt(5), 3)], len(o))
            return [core.magnet_cylinder_segment_Hfield(observers=oc, dimensions=dim, magnetizations=mag)]
        return ["H"], f
    return None   # Cylinder: the core functions are dimensionless (z0 = h/d): a vanishing diameter cannot be expressed; Tetrahedron: no core function


def run_fjob(magpy, job):
    """one mixed call per variant; returns ([scene of the degenerate rows, scene of the regular rows], #evaluations)"""
    entry = FCAT[job["body"]]
    lam = 1.0 if job["scale"] == 100 else 10.0 ** job["scale"]
    m = 1.0
    limit = job["limit"]
    cls = entry["body"]["cls"]
    ident = np.eye(3, dtype=int).tolist()
    scs = []
    for k, (b, valid, degen) in enumerate(((entry["body"], entry["valid"], True), (entry["partner"], True, False))):
        sid = job["sid"] * 2 + k
        scs.append({"sid": sid, "name": job["body"] if k == 0 else job["body"] + "+partner", "t0": sid * 10000, "kind": "scan", "body": b, "pose": {"R": ident, "p2": [0, 0, 0]},
                    "valid": valid, "degen": degen, "exc0": False, "scale": job["scale"], "gen": False, "iface": job["iface"], "fields": [], "vk": [], "outcome": "ok", "exc": "",
                    "cpu": "fast", "shapes": [], "pts": [], "wd": [], "job": job})
    fe = functional_eval(magpy, cls, [geometry_row(entry["body"], lam), geometry_row(entry["partner"], lam)], lam, m, job["iface"])
    if fe is None:
        return None, 0
    fields, ev = fe
    pts = ph.box_points(entry)
    n = len(pts)
    P = np.repeat(pts / 2.0 * lam, 2, axis=0)          # observer i twice: rows 2i (degenerate) and 2i+1 (regular)
    kind = np.tile([0, 1], n)
    size = lam * max(1.0, max(abs(v) for v in entry["lo"] + entry["hi"]) / 2)
    excs, masks, cpu, neval = set(), [], 0.0, 0
    try:
        for vkind, Q in variants(P, size, job["variants"]):
            excs.discard("<watchdog>")
            mk, t = masks_guarded(ev, Q, limit, excs, aux=kind)
            if "<watchdog>" in excs:
                for sc in scs:
                    sc["wd"].append(len(masks) + 1)
            cpu = max(cpu, t)
            masks.append(mk)
            neval += len(Q) * len(fields)
            for sc in scs:
                sc["vk"].append(vkind)
        masks = np.array(masks).T
        for k, sc in enumerate(scs):
            sc["fields"] = fields
            sc["pts"] = [{"t": sc["t0"] + i + 100, "o": [int(v) for v in pts[i]], "f": [int(v) for v in masks[2 * i + k]]} for i in range(n)]
        if job.get("shapes") and not (masks < 0).any():   # (a call that raises or hangs is already logged per row)
            shp = np.shape(guarded(lambda: ev(P, kind), limit)[0][0])
            scs[0]["shapes"].append({"n": 2 * n, "asvector": False, "squeeze": True, "core": True, "shape": [int(v) for v in shp]})
    except Watchdog:
        for sc in scs:
            sc["outcome"], sc["pts"] = "timeout", []
    except Exception as ex:  # pylint: disable=broad-except
        for sc in scs:
            sc["outcome"], sc["exc"], sc["pts"] = "exception", type(ex).__name__, []
    excs.discard("<watchdog>")
    for sc in scs:
        if excs and not sc["exc"]:
            sc["exc"] = "+".join(sorted(excs))
        sc["cpu"] = cpu_class(cpu)
    return scs, neval


# ------------------------------------------------------------------------------------------------ scenes
def kappa_of(job):
    if not job["gen"]:
        return Kappa() if job["scale"] == 100 else Kappa(10.0 ** job["scale"])
    r = rng("c15kap:" + job["salt"])
    q = np.array([r.gauss(0, 1) for _ in range(4)])
    q /= np.linalg.norm(q)
    from scipy.spatial.transform import Rotation as R

    lam = 1.0 if job["scale"] == 100 else 10.0 ** job["scale"]
    return Kappa(lam, R.from_quat(q), np.array([r.uniform(-3, 3) for _ in range(3)]) * lam)


def cpu_class(t):
    return "fast" if t < 1 else "slow" if t < 10 else "very-slow"


def run_job(magpy, job):
    if job["kind"] == "fscan":
        return run_fjob(magpy, job)
    entry = CAT[job["body"]]
    kap = kappa_of(job)
    m = 0.0 if job["exc0"] else 1.0
    limit = job["limit"]
    R = ROTS[job["ri"]].tolist()
    p2 = job["p2"]
    sc = {"sid": job["sid"], "name": job["body"], "t0": job["sid"] * 10000, "kind": job["kind"], "body": entry["body"], "pose": {"R": R, "p2": p2}, "valid": entry["valid"], "degen": False, "exc0": job["exc0"],
          "scale": job["scale"], "gen": job["gen"], "iface": job["iface"], "fields": ["B", "H", "J", "M"], "vk": [], "outcome": "ok", "exc": "", "cpu": "fast",
          "shapes": [], "pts": [], "wd": [], "job": job}
    neval = 0
    cpu = 0.0
    excs = set()
    try:
        try:
            src, body = guarded(lambda: ph.make_source(magpy, entry, kap.lam, m), limit)[0]
        except Exception as ex:  # pylint: disable=broad-except
            if not entry["valid"] and type(ex).__name__ == "MagpylibBadUserInput":
                return None, 0   # a degenerate input that is rejected at assignment: nothing to evaluate (C17 decides that)
            raise
        sc["body"] = body
        src.position = kap.pos(np.array(p2) / 2)
        src.orientation = kap.rot(np.array(R))
        size = kap.lam * max(1.0, max(abs(v) for v in entry["lo"] + entry["hi"]) / 2)
        if job["iface"] == "core":
            # (the bare formulas are not meant for zero-size sources: r0 = 0 divides by zero; the objects filter them)
            cc = None if entry["name"] in ("Circle_0", "Sphere_0") else core_call(magpy, entry, src, kap.lam, m)
            if cc is None:
                return None, 0
            sc["fields"], cf = cc

            def evaluate(o):
                return cf(o)
        else:
            def evaluate(o):
                return [getattr(src, "get" + f)(o) for f in "BHJM"]
        if job["kind"] == "scan":
            pts = ph.box_points(entry)
            o2 = ph.global_obs(R, p2, pts)
            P = kap.pos(o2 / 2)
            masks = []
            for kind, Q in variants(P, size, job["variants"]):
                excs.discard("<watchdog>")
                mk, t = masks_guarded(evaluate, Q, limit, excs)
                if "<watchdog>" in excs:   # the whole-box call of this variant did not return within the limit
                    sc["wd"].append(len(masks) + 1)
                cpu = max(cpu, t)
                masks.append(mk)
                sc["vk"].append(kind)
                neval += len(Q) * len(sc["fields"])
            masks = np.array(masks).T
            sc["pts"] = [{"t": sc["t0"] + i + 100, "o": [int(v) for v in o2[i]], "f": [int(v) for v in masks[i]]} for i in range(len(pts))]
            if job.get("shapes"):
                n = len(P)
                if job["iface"] == "object":
                    for asvec, sq, arg in ((True, True, P[0]), (False, True, P), (False, False, P), (False, True, P[:1])):
                        shp = np.shape(guarded(lambda: src.getB(arg, squeeze=sq), limit)[0])
                        sc["shapes"].append({"n": 1 if asvec else len(arg), "asvector": asvec, "squeeze": sq, "core": False, "shape": [int(v) for v in shp]})
                elif entry["body"]["cls"] not in ("Cylinder", "Circle"):   # these core functions document (3,n) / component tuples
                    shp = np.shape(evaluate(P)[0])
                    sc["shapes"].append({"n": n, "asvector": False, "squeeze": True, "core": True, "shape": [int(v) for v in shp]})
        else:  # far points m * 10^k lattice units in the local frame of the (identity) pose
            far = [(mm, k) for k in range(1, job["kmax"] + 1) for mm in FAR_M]
            P = np.array([np.array(mm, dtype=float) * 10.0 ** k for mm, k in far]) * kap.lam
            mask, t = masks_guarded(evaluate, P, limit, excs)
            if "<watchdog>" in excs:
                sc["wd"].append(1)
            cpu = max(cpu, t)
            sc["vk"] = ["exact"]
            neval += len(P) * len(sc["fields"])
            sc["pts"] = [{"t": sc["t0"] + i + 100, "m": list(far[i][0]), "k": far[i][1], "f": [int(mask[i])]} for i in range(len(far))]
    except Watchdog:
        sc["outcome"] = "timeout"
        sc["pts"] = []
    except Exception as ex:  # pylint: disable=broad-except
        sc["outcome"] = "exception"
        sc["exc"] = type(ex).__name__
        sc["pts"] = []
    excs.discard("<watchdog>")
    if excs and not sc["exc"]:
        sc["exc"] = "+".join(sorted(excs))
    sc["cpu"] = cpu_class(cpu)
    return sc, neval


def worker(job):
    """execute ONE job (scheduled dynamically: non-terminating calls make the cost of a scene unpredictable);
    returns (json line or None, #scenes, #point events, #field evaluations, cpu class, cpu seconds)"""
    magpy = import_magpylib()
    t0 = time.process_time()
    sc, ne = run_job(magpy, job)
    if sc is None:
        return None, 0, 0, 0, None, time.process_time() - t0
    scs = sc if isinstance(sc, list) else [sc]
    npts = sum(max(1, len(x["pts"])) if x["outcome"] != "ok" else len(x["pts"]) for x in scs)
    return "\n".join(json.dumps(x, separators=(",", ":")) for x in scs), len(scs), npts, ne, scs[0]["cpu"], time.process_time() - t0


def job_cost(j):
    e = (FCAT if j["kind"] == "fscan" else CAT)[j["body"]]
    npts = np.prod([e["hi"][i] - e["lo"][i] + 3 for i in range(3)]) * (2 if j["kind"] == "fscan" else 1) if j["kind"] != "far" else 180
    nv = {"ulp": 13, "eps": 13, "near": 10, "exact": 1}.get(j.get("variants", "exact"), 1)
    w = {"CylinderSegment": 8, "TriangularMesh": 4, "Tetrahedron": 2, "Circle": 20}.get(e["body"]["cls"], 1)
    return float(npts * nv * w)


def plan(tier):
    quick = tier == "quick"
    r = rng("c15plan")
    jobs = []
    sid = [0]
    limit = 2.0 if quick else 10.0   # CPU seconds per call (a normal whole-box call needs < 0.5 s)

    def new(**kw):
        sid[0] += 1
        jobs.append({"sid": sid[0], "limit": limit, "salt": f"{kw['body']}:{sid[0]}", **kw})

    scales = [-6, 6] if quick else [-9, -6, -3, 3, 6, 9]
    gens = [100, -8, 7] if quick else [100, -9, -6, -3, 3, 6, 8]
    for bi, name in enumerate(CAT):
        base = {"body": name, "ri": 0, "p2": [0, 0, 0], "exc0": False, "gen": False, "scale": 100}
        # exact lattice, identity pose: all variants (one job per kind of variant), both interfaces, shape probes
        for iface in ("object", "core"):
            new(kind="scan", iface=iface, variants="ulp", shapes=True, **base)
            new(kind="scan", iface=iface, variants="eps", **base)
            new(kind="scan", iface=iface, variants="near", **base)
        new(kind="far", iface="object", kmax=12, **base)
        new(kind="far", iface="core", kmax=12, **base)
        # zero excitation
        new(kind="scan", iface="object", variants="ulp", **{**base, "exc0": True})
        if not quick:
            new(kind="scan", iface="core", variants="ulp", **{**base, "exc0": True})
        # other lattice units (pure scaling)
        for d in scales:
            new(kind="scan", iface="object", variants="ulp", **{**base, "scale": d})
            if not quick:
                new(kind="scan", iface="core", variants="ulp", **{**base, "scale": d})
            if not quick or d == scales[-1]:
                new(kind="far", iface="object", kmax=12, **{**base, "scale": d})
        # lattice poses (rotation + half-integer position), ulp offsets in the global frame
        for ri in (sorted({(7 * bi + 3) % 24, 13}) if quick else range(1, 24, 3)):
            new(kind="scan", iface="object", variants="ulp", **{**base, "ri": ri, "p2": [r.randint(-4, 4) for _ in range(3)]})
        # generic rigid motions: the lattice points are hit up to rounding
        for d in gens:
            new(kind="scan", iface="object", variants="exact", **{**base, "gen": True, "scale": d, "ri": (5 * bi + 1) % 24, "p2": [r.randint(-4, 4) for _ in range(3)]})
    # functional interface / core: degenerate-but-accepted geometries, each mixed with a regular row in one call
    for name in FCAT:
        base = {"body": name, "ri": 0, "p2": [0, 0, 0], "exc0": False, "gen": False}
        for iface in ("functional", "core"):
            new(kind="fscan", iface=iface, variants="ulp", shapes=True, scale=100, **base)
            if not quick:
                new(kind="fscan", iface=iface, variants="eps", scale=100, **base)
                new(kind="fscan", iface=iface, variants="near", scale=100, **base)
                for d in (-6, 6):
                    new(kind="fscan", iface=iface, variants="ulp", scale=d, **base)
    return jobs
