"""Binding of spec/Functional.tla (C07).

Part 1: every combination of 'one parameter set / n parameter sets' enumerated by TLC (MC_Functional) is executed through the
        functional interface getX("Class", observers, **params); each returned row is logged next to the result of the
        object-oriented single-instance call for that row (two observations; the comparison is done in TLA+).
Part 2: one physical configuration through every call form; each form's output is logged next to the canonical tensor.
"""
import json

import numpy as np
from scipy.spatial.transform import Rotation as R

from ..common import import_magpylib, rng
from .. import quant

CUBE_V = np.array([[0, 0, 0], [1, 0, 0], [1, 1, 0], [0, 1, 0], [0, 0, 1], [1, 0, 1], [1, 1, 1], [0, 1, 1]], dtype=float)
CUBE_F = np.array([[0, 2, 1], [0, 3, 2], [4, 5, 6], [4, 6, 7], [0, 1, 5], [0, 5, 4], [1, 2, 6], [1, 6, 5], [2, 3, 7], [2, 7, 6], [3, 0, 4], [3, 4, 7]])
TET_V = np.array([[0, 0, 0], [1, 0, 0], [0, 1, 0], [0, 0, 1]], dtype=float)
TET_F = np.array([[0, 2, 1], [0, 1, 3], [1, 2, 3], [0, 3, 2]])


def gen_param(r, cls, name, i):
    """one valid parameter set (instance i) for class/parameter"""
    u = lambda a, b: r.uniform(a, b)
    if name == "polarization":
        return np.array([u(-1, 1), u(-1, 1), u(0.2, 1)])
    if name == "magnetization":
        return np.array([u(-1, 1), u(-1, 1), u(0.2, 1)]) * 8e5
    if name == "moment":
        return np.array([u(-1, 1), u(-1, 1), u(0.2, 1)])
    if name == "current":
        return u(0.5, 2.0)
    if name == "diameter":
        return u(0.5, 1.5)
    if name == "dimension":
        if cls == "Cuboid":
            return np.array([u(0.5, 1.5), u(0.5, 1.5), u(0.5, 1.5)])
        if cls == "Cylinder":
            return np.array([u(0.5, 1.5), u(0.5, 1.5)])
        r1 = u(0.2, 0.6)
        p1 = u(-90, 90)
        return np.array([r1, r1 + u(0.3, 0.8), u(0.5, 1.5), p1, p1 + u(40, 200)])
    if name == "vertices":
        if cls == "Tetrahedron":
            v = TET_V * u(0.6, 1.4) + np.array([[u(-0.1, 0.1) for _ in range(3)] for _ in range(4)])
            order = [0, 1, 2, 3]
            r.shuffle(order)            # both handednesses (the core reorders left-handed vertex sets)
            return v[order]
        return np.array([[u(-1, 1) for _ in range(3)] for _ in range(3)]) + np.array([[0, 0, 0], [1.5, 0, 0], [0, 1.5, 0]])
    if name == "mesh":
        if i % 2 == 0:
            return (TET_V * u(0.6, 1.4))[TET_F]
        return (CUBE_V * u(0.6, 1.2))[CUBE_F]
    if name in ("segment_start", "segment_end"):
        return np.array([u(-1, 1), u(-1, 1), u(-1, 1)])
    if name == "position":
        return np.array([u(-1, 1), u(-1, 1), u(-1, 1)])
    if name == "orientation":
        q = np.array([r.gauss(0, 1) for _ in range(4)])
        return q / np.linalg.norm(q)
    if name == "observers":
        return np.array([u(3, 5), u(3, 5), u(3, 5)]) * r.choice([1, -1])
    raise ValueError(name)


def make_oo(magpy, cls, ps):
    """object-oriented source for one instance; ps: name -> value"""
    pose = {"position": ps["position"], "orientation": R.from_quat(ps["orientation"])}
    if "magnetization" in ps:            # documented alternative to polarization
        ps = dict(ps)
        exc = {"magnetization": ps.pop("magnetization")}
        src = make_oo(magpy, cls, dict(ps, polarization=(0, 0, 1)))
        src.magnetization = exc["magnetization"]
        return src
    if cls in ("Cuboid", "Cylinder", "CylinderSegment"):
        return getattr(magpy.magnet, cls)(dimension=ps["dimension"], polarization=ps["polarization"], **pose)
    if cls == "Sphere":
        return magpy.magnet.Sphere(diameter=ps["diameter"], polarization=ps["polarization"], **pose)
    if cls == "Tetrahedron":
        return magpy.magnet.Tetrahedron(vertices=ps["vertices"], polarization=ps["polarization"], **pose)
    if cls == "Triangle":
        return magpy.misc.Triangle(vertices=ps["vertices"], polarization=ps["polarization"], **pose)
    if cls == "TriangularMesh":
        tri = np.asarray(ps["mesh"], dtype=float)
        verts = tri.reshape(-1, 3)
        faces = np.arange(len(verts)).reshape(-1, 3)
        return magpy.magnet.TriangularMesh(vertices=verts, faces=faces, polarization=ps["polarization"], reorient_faces=False,
                                           check_open="ignore", check_disconnected="ignore", check_selfintersecting="ignore", **pose)
    if cls == "Circle":
        return magpy.current.Circle(diameter=ps["diameter"], current=ps["current"], **pose)
    if cls == "Polyline":
        return magpy.current.Polyline(vertices=[ps["segment_start"], ps["segment_end"]], current=ps["current"], **pose)
    if cls == "Dipole":
        return magpy.misc.Dipole(moment=ps["moment"], **pose)
    raise ValueError(cls)


def functional_case(magpy, r, cls, given, field, tid, in_out=None):
    from magpylib._src.exceptions import MagpylibBadUserInput
    sets = {}
    io = {} if in_out is None else {"in_out": in_out}
    for p, g in given.items():
        k = g["n"] if g["multi"] else 1
        sets[p] = [gen_param(r, cls, p, i) for i in range(k)]
    if in_out is not None:
        # observers strictly inside the body for the odd instances (truthful or not, both interfaces receive the same in_out)
        nobs = len(sets["observers"])
        for i in range(nobs):
            if i % 2 == 1 or nobs == 1:
                pos = sets["position"][i if len(sets["position"]) > 1 else 0]
                ori = R.from_quat(sets["orientation"][i if len(sets["orientation"]) > 1 else 0])
                sets["observers"][i] = pos + ori.apply(np.array([0.12, 0.1, 0.08]))
    kwargs = {}
    for p, g in given.items():
        vals = sets[p]
        if g["multi"]:
            if p == "mesh" and len({v.shape for v in vals}) > 1:
                arr = [v for v in vals]        # ragged: different numbers of faces
            else:
                arr = np.array(vals)
        else:
            arr = np.array(vals[0]) if not np.isscalar(vals[0]) else vals[0]
        if p == "orientation":
            arr = R.from_quat(np.array(vals)) if g["multi"] else R.from_quat(vals[0])
        kwargs[p] = arr
    obs = kwargs.pop("observers")
    fn = {"B": magpy.getB, "H": magpy.getH, "J": magpy.getJ, "M": magpy.getM}[field]
    ev = {"tid": tid, "kind": "functional", "what": cls + ("" if in_out is None else ":in_out=" + in_out), "cls": cls, "field": field, "given": given, "outcome": "ok",
          "nrows": 0, "rows": [], "oo": [], "fin": True}
    out = None
    try:
        out = np.asarray(fn(cls, obs, squeeze=False, **io, **kwargs), dtype=float)
    except MagpylibBadUserInput:
        ev["outcome"] = "bad_input"
    except Exception as ex:  # pylint: disable=broad-except
        ev["outcome"] = "exc:" + type(ex).__name__
    # expected instance count is decided in TLA+; here only: how many rows came back, and the OO value for each returned row
    if out is not None:
        out = out.reshape(-1, 3)
        n = len(out)
        ev["nrows"] = n
        oo = []
        try:
            for i in range(n):
                ps = {p: sets[p][i if (given[p]["multi"] and given[p]["n"] > 1 and i < len(sets[p])) else 0] for p in given}
                src = make_oo(magpy, cls, ps)
                f2 = {"B": src.getB, "H": src.getH, "J": src.getJ, "M": src.getM}[field]
                oo.append(np.asarray(f2(ps["observers"], **io), dtype=float))
            oo = np.array(oo).reshape(-1, 3)
            s = quant.gross(out, oo)
            ev["fin"] = bool(np.isfinite(out).all() and np.isfinite(oo).all())
            ev["rows"] = quant.q12(out, s)
            ev["oo"] = quant.q12(oo, s)
        except Exception as ex:  # pylint: disable=broad-except
            ev["outcome"] = "oo_failed:" + type(ex).__name__
    return ev


def run_functional(args):
    combos, path, tid0, salt = args
    magpy = import_magpylib()
    r = rng(salt)
    n = 0
    with open(path, "w") as f:
        for i, combo in enumerate(combos):
            cls, given = combo[0], combo[1]
            ev = functional_case(magpy, r, cls, given, "BHBHJM"[i % 6], tid0 + n, in_out=(combo[2] if len(combo) > 2 else None))
            f.write(json.dumps(ev, separators=(",", ":")) + "\n")
            n += 1
    return n


# ------------------------------------------------------------------ Part 2: call forms
def scene(magpy, r, variant):
    """a physical configuration: 2-3 real sources of different classes with paths, 1-2 sensors with pixels"""
    u = lambda a, b: r.uniform(a, b)

    def path(n):
        return np.array([[u(-1, 1), u(-1, 1), u(-1, 1)] for _ in range(n)])

    def rots(n):
        q = np.array([[r.gauss(0, 1) for _ in range(4)] for _ in range(n)])
        return R.from_quat(q / np.linalg.norm(q, axis=1)[:, None])
    mk = [
        lambda n: magpy.magnet.Cuboid(dimension=(0.5, 0.7, 0.9), polarization=(0.1, 0.2, 0.3), position=path(n), orientation=rots(n)),
        lambda n: magpy.magnet.Cylinder(dimension=(0.8, 0.6), polarization=(0.3, -0.2, 0.5), position=path(n), orientation=rots(n)),
        lambda n: magpy.magnet.CylinderSegment(dimension=(0.2, 0.6, 0.5, 10, 200), polarization=(0.1, 0.4, -0.3), position=path(n), orientation=rots(n)),
        lambda n: magpy.magnet.Sphere(diameter=0.7, polarization=(0.2, 0.1, -0.4), position=path(n), orientation=rots(n)),
        lambda n: magpy.magnet.Tetrahedron(vertices=TET_V * 0.8, polarization=(0.3, 0.3, 0.1), position=path(n), orientation=rots(n)),
        lambda n: magpy.magnet.TriangularMesh(vertices=CUBE_V * 0.6, faces=CUBE_F, polarization=(0.1, -0.3, 0.2), position=path(n), orientation=rots(n)),
        lambda n: magpy.misc.Triangle(vertices=[(0, 0, 0), (0.7, 0, 0), (0, 0.7, 0.2)], polarization=(0.2, 0.2, 0.2), position=path(n), orientation=rots(n)),
        lambda n: magpy.current.Circle(diameter=0.9, current=1.3, position=path(n), orientation=rots(n)),
        lambda n: magpy.current.Polyline(vertices=[(0, 0, 0), (0.5, 0, 0), (0.5, 0.5, 0.1), (0, 0, 0)], current=0.8, position=path(n), orientation=rots(n)),
        lambda n: magpy.misc.Dipole(moment=(0.3, 0.1, 0.5), position=path(n), orientation=rots(n)),
    ]
    # a second object of every class with the SAME array sizes (vertex / face counts) but other geometry and excitation:
    # several sources of one class are evaluated in one vectorised group, per-object evaluation must agree with it
    mk2 = [
        lambda n: magpy.magnet.Cuboid(dimension=(0.9, 0.4, 0.6), polarization=(-0.3, 0.1, 0.2), position=path(n), orientation=rots(n)),
        lambda n: magpy.magnet.Cylinder(dimension=(0.5, 0.9), polarization=(-0.1, 0.4, 0.2), position=path(n), orientation=rots(n)),
        lambda n: magpy.magnet.CylinderSegment(dimension=(0.1, 0.7, 0.4, -120, 45), polarization=(0.3, -0.2, 0.2), position=path(n), orientation=rots(n)),
        lambda n: magpy.magnet.Sphere(diameter=0.5, polarization=(-0.3, 0.2, 0.1), position=path(n), orientation=rots(n)),
        lambda n: magpy.magnet.Tetrahedron(vertices=TET_V * np.array([0.5, 0.9, 0.7]), polarization=(-0.2, 0.1, 0.4), position=path(n), orientation=rots(n)),
        lambda n: magpy.magnet.TriangularMesh(vertices=CUBE_V * np.array([0.9, 0.5, 0.4]), faces=CUBE_F, polarization=(-0.2, 0.2, 0.3), position=path(n), orientation=rots(n)),
        lambda n: magpy.misc.Triangle(vertices=[(0.1, 0, 0), (0.5, 0.2, 0), (0, 0.6, -0.2)], polarization=(-0.1, 0.3, 0.2), position=path(n), orientation=rots(n)),
        lambda n: magpy.current.Circle(diameter=0.6, current=-2.1, position=path(n), orientation=rots(n)),
        lambda n: magpy.current.Polyline(vertices=[(0.1, 0, 0), (0.4, 0.3, 0), (-0.2, 0.5, 0.2), (0.1, 0, 0)], current=-1.7, position=path(n), orientation=rots(n)),
        lambda n: magpy.misc.Dipole(moment=(-0.2, 0.4, 0.1), position=path(n), orientation=rots(n)),
    ]
    nsrc = 2 + variant % 2
    lens = [1 + (variant + j) % 3 for j in range(nsrc)]
    if variant % 3 == 2:
        i = (variant // 3) % len(mk)
        sources = [mk[i](lens[0]), mk2[i](lens[1])] + ([mk[(i + 4) % len(mk)](lens[2])] if nsrc == 3 else [])
    else:
        sources = [mk[(variant + 3 * j) % len(mk)](lens[j]) for j in range(nsrc)]
    nsens = 1 + (variant // 2) % 2
    sensors = []
    for k in range(nsens):
        pix = np.array([[u(-0.2, 0.2), u(-0.2, 0.2), u(-0.2, 0.2)] for _ in range(2)])
        n = 1 + (variant + k) % 3
        sensors.append(magpy.Sensor(pixel=pix, position=path(n) + np.array([3.0, 3.0, 3.0]), orientation=rots(n),
                                    handedness="left" if (variant + k) % 5 == 0 else "right"))
    return sources, sensors


OPTION_SETS = [{}, {}, {"in_out": "inside"}, {}, {"pixel_agg": "max"}, {"pixel_agg": "mean"}, {"in_out": "outside", "pixel_agg": "mean"}, {}, {"in_out": "inside", "pixel_agg": "min"}]


def mesh_source(magpy, r, n):
    pos = np.array([[r.uniform(-1, 1) for _ in range(3)] for _ in range(n)])
    q = np.array([[r.gauss(0, 1) for _ in range(4)] for _ in range(n)])
    return magpy.magnet.TriangularMesh(vertices=CUBE_V * np.array([0.7, 0.6, 0.5]), faces=CUBE_F, polarization=(0.2, -0.1, 0.3), position=pos,
                                       orientation=R.from_quat(q / np.linalg.norm(q, axis=1)[:, None]))


def nested(a):
    return np.asarray(a, dtype=float)


def form_events(args):
    nvar, path, tid0, salt = args
    magpy = import_magpylib()
    r = rng(salt)
    n = 0
    TOL_SAME, TOL_RE = 2, 10000
    with open(path, "w") as f:
        base = max(0, tid0 // 1_000_000 - 100) * nvar          # every worker covers its own range of variants
        for variant in range(base, base + nvar):
            sources, sensors = scene(magpy, r, variant)
            # the OPTIONS of a computation are part of it: every interface, given the same non-default pixel_agg / in_out, returns the same
            # numbers (option sets rotate over the variants; with in_out one source is a TriangularMesh - the sensors lie outside every body,
            # so a forced "inside" differs from the automatic classification and an interface that drops the option is seen)
            opts = OPTION_SETS[variant % len(OPTION_SETS)]
            if "in_out" in opts:
                sources[variant % len(sources)] = mesh_source(magpy, r, 1 + variant % 3)
            fields_here = ("B", "H", "J", "M")[: 2 + variant % 3] if not opts else (("J", "B", "M", "H") if "in_out" in opts else ("B", "H"))[: 2 + variant % 2]
            tag = "".join(f":{k_}={v_}" for k_, v_ in sorted(opts.items()))
            for field in fields_here:
                top0 = {"B": magpy.getB, "H": magpy.getH, "J": magpy.getJ, "M": magpy.getM}[field]
                meth = "get" + field
                top = lambda *a, _t=top0, **k: _t(*a, **{**opts, **k})
                om = lambda o_, *a, **k: getattr(o_, meth)(*a, **{**opts, **k})           # the method form of object o_ with the same options
                T = np.asarray(top(sources, sensors, squeeze=False), dtype=float)        # (L, M, K, P, 3)
                L, Mx, K, P, _ = T.shape
                alts = []
                alts.append(("top_squeeze", 0, 0, lambda: top(sources, sensors), TOL_SAME))
                alts.append(("sumup", 0, 0, lambda: top(sources, sensors, sumup=True, squeeze=False), TOL_SAME))
                # options by POSITION in the documented order (sources, observers, sumup, squeeze, pixel_agg, output, in_out)
                alts.append(("sumup_positional", 0, 0, lambda: top0(sources, sensors, True, False, opts.get("pixel_agg"), "ndarray", opts.get("in_out", "auto")), TOL_SAME))
                alts.append(("top_positional", 0, 0, lambda: top0(sources, sensors, False, True, opts.get("pixel_agg"), "ndarray", opts.get("in_out", "auto")), TOL_SAME))
                for l in range(L):
                    alts.append(("src_method", l + 1, 0, (lambda l=l: om(sources[l], *sensors, squeeze=False)), TOL_SAME))
                for k in range(K):
                    alts.append(("sens_method", 0, k + 1, (lambda k=k: om(sensors[k], *sources, squeeze=False)), TOL_SAME))
                for k in range(K):
                    alts.append(("sens_method_sumup", 0, k + 1, (lambda k=k: om(sensors[k], *sources, sumup=True, squeeze=False)), TOL_SAME))
                # a Collection is ONE source: its methods take no in_out, and its aggregated field is agg(sum), which equals the sum of the
                # aggregated fields of its members only for a linear aggregation - the collection forms are the same computation for
                # pixel_agg in {None, mean} without in_out
                if "in_out" not in opts and opts.get("pixel_agg") in (None, "mean"):
                    alts.append(("coll_src", 0, 0, lambda: _coll(magpy, sources, meth, sensors, opts), TOL_SAME))
                    alts.append(("coll_both", 0, 0, lambda: _coll(magpy, sources + sensors, meth, [], opts), TOL_SAME))
                    alts.append(("coll_sens", 0, 0, lambda: _coll(magpy, sensors, meth, sources, opts), TOL_SAME))
                if "pixel_agg" not in opts:             # with an aggregation the pixel column of the dataframe is not an index
                    alts.append(("dataframe", 0, 0, lambda: top(sources, sensors, output="dataframe"), TOL_SAME))
                s = quant.gross(T, np.sum(T, axis=0))
                Tq = quant.q12(T, s)
                for form, l, k, call, tol in alts:
                    ev = {"tid": tid0 + n, "kind": "form", "what": form + tag, "form": form, "field": field, "l": max(l, 1), "k": max(k, 1), "T": Tq, "alt": [], "index": [], "outcome": "ok", "tol": tol, "malt": int(Mx)}
                    try:
                        out = call()
                        if form == "dataframe":
                            df = out
                            lab_s = {f"{o}": i + 1 for i, o in enumerate(sources)}      # labels are derived from the objects, not from the row order
                            lab_k = {f"{o}": i + 1 for i, o in enumerate(sensors)}
                            ev["index"] = [[lab_s[a], int(b), lab_k[c], int(d)] for a, b, c, d in zip(df["source"], df["path"], df["sensor"], df["pixel"])]
                            out = df[[field + c for c in "xyz"]].to_numpy()
                        flat = np.asarray(out, dtype=float).reshape(-1)
                        ev["alt"] = quant.q12(flat, s)
                        if form == "src_method":
                            ev["malt"] = int(np.asarray(out).shape[1])
                        elif form in ("sens_method", "sens_method_sumup"):
                            ev["malt"] = int(np.asarray(out).shape[1])
                    except Exception as ex:  # pylint: disable=broad-except
                        ev["outcome"] = "exc:" + type(ex).__name__
                    f.write(json.dumps(ev, separators=(",", ":")) + "\n")
                    n += 1
            # restore parents (collections were temporary)
    return n


def _coll(magpy, members, meth, inputs, opts=None):
    c = magpy.Collection(*members, override_parent=True)
    try:
        return getattr(c, meth)(*inputs, squeeze=False, **(opts or {}))
    finally:
        for m_ in list(c.children):
            c.remove(m_)


def core_events(args):
    """magpylib.core functions against the object-oriented interface (source at the origin, unit orientation)."""
    count, path, tid0, salt = args
    magpy = import_magpylib()
    r = rng(salt)
    n = 0
    mu0 = magpy.mu_0
    with open(path, "w") as f:
        for i in range(count):
            kind = i % 5
            N = 1 + i % 4
            obs = np.array([gen_param(r, "", "observers", j) for j in range(N)])
            given = {"observers": {"multi": True, "n": N}, "p1": {"multi": True, "n": N}, "p2": {"multi": True, "n": N}}
            try:
                if kind == 0:
                    dim = np.array([gen_param(r, "Cuboid", "dimension", j) for j in range(N)]); pol = np.array([gen_param(r, "", "polarization", j) for j in range(N)])
                    out = magpy.core.magnet_cuboid_Bfield(observers=obs, dimensions=dim, polarizations=pol)
                    oo = [magpy.magnet.Cuboid(dimension=dim[j], polarization=pol[j]).getB(obs[j]) for j in range(N)]
                    what = "core.magnet_cuboid_Bfield"
                elif kind == 1:
                    dia = np.array([gen_param(r, "", "diameter", j) for j in range(N)]); pol = np.array([gen_param(r, "", "polarization", j) for j in range(N)])
                    out = magpy.core.magnet_sphere_Bfield(observers=obs, diameters=dia, polarizations=pol)
                    oo = [magpy.magnet.Sphere(diameter=dia[j], polarization=pol[j]).getB(obs[j]) for j in range(N)]
                    what = "core.magnet_sphere_Bfield"
                elif kind == 2:
                    mom = np.array([gen_param(r, "", "moment", j) for j in range(N)])
                    out = magpy.core.dipole_Hfield(observers=obs, moments=mom)
                    oo = [magpy.misc.Dipole(moment=mom[j]).getH(obs[j]) for j in range(N)]
                    what = "core.dipole_Hfield"
                elif kind == 3:
                    a = np.array([gen_param(r, "", "segment_start", j) for j in range(N)]); b = np.array([gen_param(r, "", "segment_end", j) for j in range(N)])
                    cur = np.array([gen_param(r, "", "current", j) for j in range(N)])
                    out = magpy.core.current_polyline_Hfield(observers=obs, segments_start=a, segments_end=b, currents=cur)
                    oo = [magpy.current.Polyline(vertices=[a[j], b[j]], current=cur[j]).getH(obs[j]) for j in range(N)]
                    what = "core.current_polyline_Hfield"
                else:
                    v = np.array([gen_param(r, "Triangle", "vertices", j) for j in range(N)]); pol = np.array([gen_param(r, "", "polarization", j) for j in range(N)])
                    out = magpy.core.triangle_Bfield(observers=obs, vertices=v, polarizations=pol)
                    oo = [magpy.misc.Triangle(vertices=v[j], polarization=pol[j]).getB(obs[j]) for j in range(N)]
                    what = "core.triangle_Bfield"
                if i % 7 == 3:
                    # cylinder segment core function (cylindrical coordinates, angles in rad, magnetization in spherical coordinates)
                    full = i % 2 == 0
                    dims, obs_c, mags, oo = [], [], [], []
                    for j in range(N):
                        r1 = r.uniform(0.2, 0.6) if j % 2 == 0 else 0.0
                        r2 = r1 + r.uniform(0.3, 0.8)
                        h = r.uniform(0.5, 1.5)
                        p1 = 0.0 if full else r.uniform(-90, 90)
                        p2 = 360.0 if full else p1 + r.uniform(40, 200)
                        pol_ = gen_param(r, "", "polarization", j)
                        o = obs[j]
                        dims.append([r1, r2, np.deg2rad(p1), np.deg2rad(p2), -h / 2, h / 2])
                        obs_c.append([np.hypot(o[0], o[1]), np.arctan2(o[1], o[0]), o[2]])
                        mm = np.linalg.norm(pol_) / mu0
                        mags.append([mm, np.arctan2(pol_[1], pol_[0]), np.arctan2(np.hypot(pol_[0], pol_[1]), pol_[2])])
                        oo.append(magpy.magnet.CylinderSegment(dimension=(r1, r2, h, p1, p2), polarization=pol_).getH(o))
                    Hc = np.asarray(magpy.core.magnet_cylinder_segment_Hfield(observers=np.array(obs_c), dimensions=np.array(dims), magnetizations=np.array(mags)))
                    ph = np.array(obs_c)[:, 1]
                    out = np.stack([Hc[:, 0] * np.cos(ph) - Hc[:, 1] * np.sin(ph), Hc[:, 0] * np.sin(ph) + Hc[:, 1] * np.cos(ph), Hc[:, 2]], axis=1)
                    what = "core.magnet_cylinder_segment_Hfield" + (":full" if full else "")
                out = np.asarray(out, dtype=float).reshape(-1, 3)
                oo = np.asarray(oo, dtype=float).reshape(-1, 3)
                s_ = quant.gross(out, oo)
                ev = {"tid": tid0 + n, "kind": "functional", "what": what, "cls": what, "field": "", "given": given, "outcome": "ok", "nrows": len(out),
                      "rows": quant.q12(out, s_), "oo": quant.q12(oo, s_), "fin": bool(np.isfinite(out).all() and np.isfinite(oo).all())}
            except Exception as ex:  # pylint: disable=broad-except
                ev = {"tid": tid0 + n, "kind": "functional", "what": "core", "cls": "core", "field": "", "given": given, "outcome": "exc:" + type(ex).__name__, "nrows": 0, "rows": [], "oo": [], "fin": True}
            f.write(json.dumps(ev, separators=(",", ":")) + "\n")
            n += 1
    return n


def caller_array_events(args):
    """C08: every class through the functional interface with caller-owned float64 arrays for EVERY parameter
    (incl. the documented `magnetization` alternative); byte digest of each array before/after, and the call repeated."""
    classes, path, tid0, salt = args
    magpy = import_magpylib()
    r = rng(salt)
    n = 0
    with open(path, "w") as f:
        for cls in classes:
            names = {"Cuboid": ["dimension", "polarization"], "Cylinder": ["dimension", "polarization"], "CylinderSegment": ["dimension", "polarization"],
                     "Sphere": ["diameter", "polarization"], "Tetrahedron": ["vertices", "polarization"], "Triangle": ["vertices", "polarization"],
                     "TriangularMesh": ["mesh", "polarization"], "Circle": ["diameter", "current"], "Polyline": ["segment_start", "segment_end", "current"],
                     "Dipole": ["moment"]}[cls]
            for N in (1, 2, 3):
                for use_magn in ((False, True) if "polarization" in names else (False,)):
                    for field in "BHJM":
                        ps = {}
                        for p in names + ["position", "observers"]:
                            key = "magnetization" if (p == "polarization" and use_magn) else p
                            vals = [gen_param(r, cls, key, 0 if p == "mesh" else i) for i in range(N)]
                            ps[key] = np.array(vals, dtype=float) if N > 1 else np.array(vals[0], dtype=float)
                        ori = R.from_quat(np.array([gen_param(r, cls, "orientation", i) for i in range(N)])) if N > 1 else R.from_quat(gen_param(r, cls, "orientation", 0))
                        obs = ps.pop("observers")
                        arrays = [obs] + [ps[k] for k in sorted(ps)]
                        pre = [a.tobytes() for a in arrays]
                        fn = getattr(magpy, "get" + field)
                        exc = exc2 = ""
                        o1 = o2 = None
                        try:
                            o1 = np.asarray(fn(cls, obs, orientation=ori, **ps))
                        except Exception as ex:  # pylint: disable=broad-except
                            exc = type(ex).__name__
                        post = [a.tobytes() for a in arrays]
                        try:
                            o2 = np.asarray(fn(cls, obs, orientation=ori, **ps))
                        except Exception as ex:  # pylint: disable=broad-except
                            exc2 = type(ex).__name__
                        again = exc == exc2 and (o1 is None or (o2 is not None and np.array_equal(o1, o2, equal_nan=True)))
                        changed = [k for k, a, b in zip(["observers"] + sorted(ps), pre, post) if a != b]
                        f.write(json.dumps({"tid": tid0 + n, "kind": "plain", "what": f"functional {cls} N={N} {'magnetization' if use_magn else ''} changed={changed}", "exc": exc,
                                            "unchanged": not changed, "equal_len": True, "again_same": bool(again), "plan": [], "lens0": {}, "events": [], "inject": ""},
                                           separators=(",", ":")) + "\n")
                        n += 1
    return n
