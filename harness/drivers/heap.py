"""Binding of spec/Heap.tla to the real objects: copy() and everything that can be done afterwards.

For every subject (each object class, and collection trees C[a], C[a,b], C[D[a]], C[a,D[b,E[c]]]), with and without a
parent, with the style un-initialised / pending as constructor kwargs / initialised, and every copy keyword, the driver
  1. observes all objects (public projection + alias graph),
  2. calls subject.copy(**kw), observes again (original side and copy side),
  3. applies a vocabulary of mutations alternately to one object of the original side and of the copy side and
     observes after every one.
Nothing is judged here: observations are logged and TV_Heap.tla decides (operators of Heap.tla).

Observation of a set of named objects (`ob` in Heap.tla):
  kind/parent/children/srcs/sens/colls   tree links by name (unknown objects: "ghost")
  refs[o][path] = cell id      every mutable cell reachable from o.__dict__ without crossing to another magpylib object:
                               numpy buffers (partitioned by np.shares_memory), lists, dicts, sets, Rotation objects,
                               style objects and any other instance; two paths get the same id iff they are the same cell
  pub[o][attr] = digest        every public property of the class + the effective style (label excluded) + a digest of
                               the private leaves (laziness of the style excluded)
  lab[o]                       the label, decomposed for the iteration rule
"""
import copy as _copy
import hashlib
import json
import re
import types

import numpy as np
from scipy.spatial.transform import Rotation as R

from ..common import import_magpylib, rng
from ..lattice import RZ90, RX90, mat_to_rot
from .. import quant

NONE = "None"
_magpy = None


def magpy():
    global _magpy
    if _magpy is None:
        _magpy = import_magpylib()
    return _magpy


def _base_classes():
    magpy()   # makes sure the package comes from the repository under test
    from magpylib._src.obj_classes.class_BaseGeo import BaseGeo
    from magpylib._src.defaults.defaults_utility import MagicProperties
    from magpylib._src.obj_classes.class_Collection import Collection
    from magpylib._src.obj_classes.class_BaseExcitations import BaseSource
    from magpylib._src.obj_classes.class_Sensor import Sensor
    return BaseGeo, MagicProperties, Collection, BaseSource, Sensor


# ------------------------------------------------------------------------------------------ digests
def dg(s):
    return hashlib.sha1(s.encode()).hexdigest()[:10]


def canon(v):
    """canonical text of a value (the same function for inputs given to the code and values read back)"""
    if isinstance(v, R):
        # lattice orientations are read as their exact integer matrices (projection of DESIGN 3.1); others bitwise
        m = np.atleast_3d(v.as_matrix()) if v.as_matrix().ndim == 3 else v.as_matrix()[None]
        r = np.rint(m)
        if np.abs(m - r).max() < 1e-9:
            return "Rm" + repr(r.astype(int).tolist())
        return "Rq" + canon(np.atleast_2d(v.as_quat()))
    if isinstance(v, np.ndarray):
        return f"A{v.dtype.str}{list(v.shape)}" + hashlib.sha1(np.ascontiguousarray(v).tobytes()).hexdigest()[:12]
    if isinstance(v, (list, tuple)):
        return ("L" if isinstance(v, list) else "T") + "[" + ",".join(canon(x) for x in v) + "]"
    if isinstance(v, dict):
        return "D{" + ",".join(f"{k!r}:{canon(x)}" for k, x in v.items()) + "}"
    if isinstance(v, (types.FunctionType, types.BuiltinFunctionType, types.MethodType)):
        return f"F<{getattr(v, '__qualname__', '?')}@{id(getattr(v, '__func__', v)):x}>"
    if isinstance(v, float):
        return "f" + v.hex()
    if isinstance(v, (str, int, bool, type(None), complex, bytes)):
        return repr(v)
    if hasattr(v, "_position") and hasattr(v, "_parent"):
        return f"OBJ<{type(v).__name__}@{id(v):x}>"      # a magpylib object inside a container: its identity
    if hasattr(v, "as_dict"):
        return "S" + canon(v.as_dict())
    return f"O<{type(v).__name__}>" + canon(getattr(v, "__dict__", {}))


def canon_num(v):
    """numeric attribute as the setter stores it: float array"""
    return canon(np.array(v, dtype=float))


# ------------------------------------------------------------------------------------------ heap traversal
_SKIP_TYPES = (types.ModuleType, types.FunctionType, types.BuiltinFunctionType, types.MethodType, type)
_LEAF_TYPES = (str, int, float, bool, type(None), complex, bytes, np.generic)


class Cells:
    """mutable cells reachable from one object, with their access paths"""

    def __init__(self):
        self.items = []    # (path, python object)
        self.leaves = []   # (path, text)
        self.links = []    # (path, magpylib object)

    def walk(self, x, path, BaseGeo, seen):
        if isinstance(x, _LEAF_TYPES):
            self.leaves.append((path, canon(x)))
            return
        if isinstance(x, _SKIP_TYPES):
            self.leaves.append((path, canon(x) if not isinstance(x, (types.ModuleType, type)) else f"M<{getattr(x, '__name__', '?')}>"))
            return
        if isinstance(x, BaseGeo):
            self.links.append((path, x))
            return
        if isinstance(x, tuple):
            for i, y in enumerate(x):
                self.walk(y, f"{path}[{i}]", BaseGeo, seen)
            self.leaves.append((path + "#", f"tuple{len(x)}"))
            return
        if id(x) in seen:
            # the same cell reached a second time from this object: record the extra path (an alias inside the object)
            self.items.append((path, x))
            return
        seen.add(id(x))
        self.items.append((path, x))
        if isinstance(x, np.ndarray):
            if x.dtype == object:
                for i, y in enumerate(x.ravel().tolist()):
                    self.walk(y, f"{path}[{i}]", BaseGeo, seen)
            else:
                self.leaves.append((path + "#", canon(x)))
            return
        if isinstance(x, dict):
            for k, y in x.items():
                self.walk(y, f"{path}[{k!r}]", BaseGeo, seen)
            self.leaves.append((path + "#", f"dict{list(map(repr, x.keys()))}"))
            return
        if isinstance(x, (list, set, frozenset)):
            seq = list(x) if isinstance(x, list) else sorted(x, key=repr)
            for i, y in enumerate(seq):
                self.walk(y, f"{path}[{i}]", BaseGeo, seen)
            self.leaves.append((path + "#", f"{type(x).__name__}{len(seq)}"))
            return
        d = getattr(x, "__dict__", None)
        if d is not None:
            for k, y in d.items():
                self.walk(y, f"{path}.{k}", BaseGeo, seen)
            return
        slots = getattr(type(x), "__slots__", ())
        for k in slots:
            if hasattr(x, k):
                self.walk(getattr(x, k), f"{path}.{k}", BaseGeo, seen)
        if not slots:
            self.leaves.append((path + "#", f"opaque<{type(x).__name__}>"))


def cells_of(obj):
    BaseGeo = _base_classes()[0]
    c = Cells()
    seen = set()
    for k, v in obj.__dict__.items():
        c.walk(v, k, BaseGeo, seen)
    return c


class CellIds:
    """partition of python objects into cells: numpy arrays by shared memory, everything else by identity"""

    def __init__(self):
        self.by_id = {}
        self.arrays = []   # (array, cell id)
        self.n = 0

    def get(self, x):
        if isinstance(x, np.ndarray) and x.dtype != object:
            for a, cid in self.arrays:
                if a is x or np.shares_memory(a, x):
                    return cid
            self.n += 1
            cid = f"k{self.n}"
            self.arrays.append((x, cid))
            return cid
        i = id(x)
        if i not in self.by_id:
            self.n += 1
            self.by_id[i] = (f"k{self.n}", x)   # keep x alive so that the id stays unique
        return self.by_id[i][0]


# ------------------------------------------------------------------------------------------ label
def label_parts(label):
    """decomposition of a label for the iteration rule (pure re-representation: stem + trailing digit run)"""
    if label is None:
        return {"none": True, "stem": "", "num": 0, "width": 0, "text": "", "us": False}
    m = re.search(r"\d+$", label)
    if m is None or len(m.group()) > 8:
        return {"none": False, "stem": label, "num": 0, "width": 0, "text": label, "us": label.endswith("_")}
    return {"none": False, "stem": label[:m.start()], "num": int(m.group()), "width": len(m.group()), "text": label, "us": False}


# ------------------------------------------------------------------------------------------ observation
_PUB_SKIP = {"style", "parent", "children", "children_all", "sources", "sources_all", "sensors", "sensors_all",
             "collections", "collections_all"}
_pub_cache = {}


def public_props(cls):
    if cls not in _pub_cache:
        _pub_cache[cls] = sorted(n for n in dir(cls) if not n.startswith("_") and n not in _PUB_SKIP
                                 and isinstance(getattr(cls, n, None), property))
    return _pub_cache[cls]


def style_state(obj):
    if getattr(obj, "_style", None) is not None:
        return "init"
    return "pending" if obj._style_kwargs else "none"


def effective_style(obj):
    """the style the object shows, read without touching the object: an initialised style is read directly; a lazy one
    is materialised on a detached duplicate (links to other objects cut)"""
    if getattr(obj, "_style", None) is not None and not obj._style_kwargs:
        return obj._style
    BaseGeo = _base_classes()[0]
    memo = {}
    for k, v in obj.__dict__.items():
        if isinstance(v, BaseGeo):
            memo[id(v)] = None
        elif isinstance(v, list):
            for y in v:
                if isinstance(y, BaseGeo):
                    memo[id(y)] = None
    return _copy.deepcopy(obj, memo).style


class World:
    """named objects; observation of all of them"""

    def __init__(self):
        self.obj = {}
        self.BaseGeo, self.Magic, self.Collection, self.BaseSource, self.Sensor = _base_classes()
        self.extra_pub = {}   # name -> [style leaf paths] logged individually (override targets)
        self.args = {}        # name -> {keyword: value}: caller-owned argument nodes (kind "A")

    def style_leaves(self, n):
        """every leaf of the effective style of object n (label excluded), digested"""
        try:
            flat = effective_style(self.obj[n]).as_dict(flatten=True, separator=".")
        except Exception as ex:  # pylint: disable=broad-except
            return {"<raise>": type(ex).__name__}
        flat.pop("label", None)
        return {k: dg(canon(v)) for k, v in flat.items()}

    def name(self, o):
        if o is None:
            return NONE
        for n, x in self.obj.items():
            if x is o:
                return n
        return "ghost"

    def kind(self, o):
        return "C" if isinstance(o, self.Collection) else "X" if isinstance(o, self.Sensor) else "S"

    def observe(self, detail=False, compact=False):
        ids = CellIds()
        ob = {"kind": {}, "cls": {}, "parent": {}, "children": {}, "srcs": {}, "sens": {}, "colls": {}, "refs": {}, "pub": {},
              "lab": {}, "sty": {}}
        det = {}
        for n, o in self.obj.items():
            ob["kind"][n] = self.kind(o)
            ob["cls"][n] = type(o).__name__
            ob["parent"][n] = self.name(o._parent)
            if isinstance(o, self.Collection):
                ob["children"][n] = [self.name(x) for x in o._children]
                ob["srcs"][n] = [self.name(x) for x in o._sources]
                ob["sens"][n] = [self.name(x) for x in o._sensors]
                ob["colls"][n] = [self.name(x) for x in o._collections]
            c = cells_of(o)
            ob["refs"][n] = [ids.get(x) for p, x in c.items] if compact else {p: ids.get(x) for p, x in c.items}
            ob["sty"][n] = style_state(o)
            pub = {}
            for a in public_props(type(o)):
                try:
                    pub[a] = canon(getattr(o, a))
                except Exception as ex:  # pylint: disable=broad-except
                    pub[a] = f"raise:{type(ex).__name__}"
            try:
                st = effective_style(o)
                flat = st.as_dict(flatten=True, separator=".")
                label = flat.pop("label", None)
                pub["style"] = canon(flat)
                for leaf in self.extra_pub.get(n, ()):
                    pub["style." + leaf] = canon(flat.get(leaf, "<absent>"))
                ob["lab"][n] = label_parts(label)
            except Exception as ex:  # pylint: disable=broad-except
                pub["style"] = f"raise:{type(ex).__name__}"
                ob["lab"][n] = label_parts(f"raise:{type(ex).__name__}")
            # private leaves; the lazily created style, its pending kwargs and links to other objects (observed as tree
            # links by name) are not part of it
            priv = [(p, t) for p, t in c.leaves if not p.startswith(("_style", "_parent", "_children", "_sources", "_sensors", "_collections"))]
            pub["__dict__"] = canon(sorted(priv))
            if detail:
                det[n] = {"pub": dict(pub), "leaves": sorted(c.leaves)}
            ob["pub"][n] = {k: dg(v) for k, v in pub.items()}
        # caller-owned argument nodes: the containers given to copy() as keyword values are cells of the caller
        for n, kw in self.args.items():
            ob["kind"][n] = "A"
            ob["cls"][n] = "Args"
            ob["parent"][n] = NONE
            c = Cells()
            seen = set()
            for k, v in kw.items():
                c.walk(v, k, self.BaseGeo, seen)
            ob["refs"][n] = [ids.get(x) for p, x in c.items] if compact else {p: ids.get(x) for p, x in c.items}
            ob["sty"][n] = "none"
            ob["lab"][n] = label_parts(None)
            pub = {k: canon(v) for k, v in kw.items()}
            pub["__dict__"] = canon(sorted(c.leaves))
            ob["pub"][n] = {k: dg(v) for k, v in pub.items()}
        if detail:
            return ob, det
        return ob


# ------------------------------------------------------------------------------------------ subjects
CLASSES = ["Cuboid", "Cylinder", "CylinderSegment", "Sphere", "Tetrahedron", "TriangularMesh", "Circle", "Polyline", "Dipole",
           "Triangle", "CustomSource", "Sensor", "Collection"]
TREES = ["C[a]", "C[a,b]", "C[D[a]]", "C[a,D[b,E[c]]]"]

TETRA = [(0, 0, 0), (2, 0, 0), (0, 2, 0), (0, 0, 2)]
TETRA_F = [(0, 2, 1), (0, 1, 3), (0, 3, 2), (1, 2, 3)]


def tagged_field(field, observers):
    """an integer-valued field of a CustomSource"""
    o = np.asarray(observers, dtype=float)
    return np.stack([2 * o[:, 0] + 1, o[:, 1] - o[:, 2], 3 + 0 * o[:, 0]], axis=1) * (1.0 if field == "B" else 2.0)


def tagged_field2(field, observers):
    o = np.asarray(observers, dtype=float)
    return np.stack([o[:, 2], 5 + 0 * o[:, 0], o[:, 0]], axis=1) * (1.0 if field == "B" else 2.0)


def geometry(cls):
    """constructor arguments of a class on the lattice (without pose and style)"""
    return {
        "Cuboid": {"dimension": (2, 4, 6), "polarization": (1, 2, 3)},
        "Cylinder": {"dimension": (2, 4), "polarization": (1, 2, 3)},
        "CylinderSegment": {"dimension": (1, 2, 4, 0, 90), "polarization": (1, 2, 3)},
        "Sphere": {"diameter": 2, "polarization": (1, 2, 3)},
        "Tetrahedron": {"vertices": TETRA, "polarization": (1, 2, 3)},
        "TriangularMesh": {"vertices": TETRA, "faces": TETRA_F, "polarization": (1, 2, 3)},
        "Circle": {"diameter": 2, "current": 3},
        "Polyline": {"vertices": [(0, 0, 0), (1, 0, 0), (1, 1, 0)], "current": 3},
        "Dipole": {"moment": (1, 2, 3)},
        "Triangle": {"vertices": [(0, 0, 0), (2, 0, 0), (0, 2, 0)], "polarization": (1, 2, 3)},
        "CustomSource": {"field_func": tagged_field},
        "Sensor": {"pixel": [(0, 0, 0), (1, 0, 0)], "handedness": "right"},
        "Collection": {},
    }[cls]


def ctor(cls):
    m = magpy()
    for mod in (m.magnet, m.current, m.misc, m):
        if hasattr(mod, cls):
            return getattr(mod, cls)
    raise KeyError(cls)


# attribute overrides / assignments per class: (keyword, new value); numeric values are lattice values
def attr_values(cls):
    return {
        "Cuboid": [("dimension", (4, 2, 2)), ("polarization", (3, 0, 1)), ("magnetization", (4000, 0, 8000))],
        "Cylinder": [("dimension", (4, 2)), ("polarization", (3, 0, 1)), ("magnetization", (4000, 0, 8000))],
        "CylinderSegment": [("dimension", (2, 3, 2, 90, 270)), ("polarization", (3, 0, 1))],
        "Sphere": [("diameter", 4), ("polarization", (3, 0, 1)), ("magnetization", (4000, 0, 8000))],
        "Tetrahedron": [("vertices", [(0, 0, 0), (4, 0, 0), (0, 2, 0), (0, 0, 2)]), ("polarization", (3, 0, 1))],
        "TriangularMesh": [("polarization", (3, 0, 1)), ("magnetization", (4000, 0, 8000))],
        "Circle": [("diameter", 4), ("current", 5)],
        "Polyline": [("vertices", [(0, 0, 0), (0, 2, 0), (2, 2, 0), (2, 2, 2)]), ("current", 5)],
        "Dipole": [("moment", (3, 0, 1))],
        "Triangle": [("vertices", [(0, 0, 0), (4, 0, 0), (0, 0, 2)]), ("polarization", (3, 0, 1))],
        "CustomSource": [("field_func", tagged_field2)],
        "Sensor": [("pixel", [(0, 0, 1), (0, 1, 0), (1, 0, 0)]), ("handedness", "left")],
        "Collection": [],
    }[cls]


LABELS = [None, "obj", "obj_07", "a9", "x_", "b_099"]
STYLE_INIT = {"color": "red", "opacity": 0.5, "path": {"frames": [0, 1]}}


def style_ctor_kwargs(label):
    kw = {"style_color": "red", "style_opacity": 0.5, "style_path_frames": [0, 1]}
    if label is not None:
        kw["style_label"] = label
    return kw


class _Resource:
    """stands for a user object that cannot be duplicated (an open solver, a lock)"""

    def __init__(self):
        import threading
        self.lock = threading.Lock()


def _field_with_resource(field, observers, solver=None):
    return tagged_field(field, observers)


UNSET = ["Cuboid?", "Cylinder?", "CylinderSegment?", "Sphere?", "Tetrahedron?", "TriangularMesh?", "Circle?", "Polyline?", "Dipole?",
         "Triangle?", "CustomSource?", "Sensor?"]

# attributes for which None is a documented value ("not set"; orientation=None: unit orientation)
NONE_ATTRS = {
    "Cuboid": ["dimension", "polarization", "magnetization"], "Cylinder": ["dimension", "polarization", "magnetization"],
    "CylinderSegment": ["dimension", "polarization", "magnetization"], "Sphere": ["diameter", "polarization", "magnetization"],
    "Tetrahedron": ["vertices", "polarization", "magnetization"], "TriangularMesh": ["polarization", "magnetization"],
    "Circle": ["diameter", "current"], "Polyline": ["vertices", "current"], "Dipole": ["moment"],
    "Triangle": ["vertices", "polarization", "magnetization"], "CustomSource": ["field_func"], "Sensor": ["pixel"], "Collection": [],
}


def make(cls, mode, label, pose=0):
    """one object of class `cls` with a two-step lattice path; style per `mode`; `Class?` = geometry and excitation not set"""
    if cls.endswith("?"):
        base = cls[:-1]
        kw = {"position": [(1, 2, 3), (2, 2, 3)], "orientation": mat_to_rot([np.eye(3), RZ90])}
        if base == "TriangularMesh":
            kw.update(vertices=TETRA, faces=TETRA_F)
        if mode == "pending":
            kw.update(style_ctor_kwargs(label))
        o = ctor(base)(**kw)
        if mode == "init":
            o.style.update(STYLE_INIT)
            if label is not None:
                o.style.label = label
        return o
    if cls == "CustomSource!":
        import functools
        o = make("CustomSource", mode, label, pose)
        o.field_func = functools.partial(_field_with_resource, solver=_Resource())
        return o
    poses = [([(1, 2, 3), (2, 2, 3)], [np.eye(3), RZ90]), ([(0, 1, 0)], [RX90]), ([(3, 0, 1), (3, 1, 1), (3, 2, 1)], [RZ90, RZ90, RX90])]
    pos, ori = poses[pose % len(poses)]
    kw = dict(geometry(cls))
    kw["position"] = pos
    kw["orientation"] = mat_to_rot(ori)
    if mode == "pending":
        kw.update(style_ctor_kwargs(label))
    o = ctor(cls)(**kw)
    if mode == "init":
        o.style.update(STYLE_INIT)
        if label is not None:
            o.style.label = label
        if cls != "Collection":
            o.style.model3d.add_trace({"backend": "generic", "constructor": "scatter3d",
                                       "kwargs": {"x": np.array([0.0, 1.0]), "y": np.array([0.0, 0.0]), "z": np.array([0.0, 2.0])}})
    return o


def build_subject(w, subject, mode, label):
    """creates the subject (an object or a tree) in world `w`; names o0.. in DFS preorder; returns root name"""
    m = magpy()
    if subject in CLASSES or subject == "CustomSource!" or subject in UNSET:
        w.obj["o0"] = make(subject, mode, label)
        return "o0"
    if subject == "C[a!]":
        c = make("Collection", mode, label)
        a = make("CustomSource!", mode, None if label is None else "a_1", pose=1)
        c.add(a)
        w.obj["o0"], w.obj["o1"] = c, a
        return "o0"
    leafcls = {"a": "Cuboid", "b": "Sensor", "c": "Circle"}
    pos = [0]

    def parse(s, i):
        # grammar: Node := Upper '[' Node (',' Node)* ']' | lower
        ch = s[i]
        if ch.islower():
            return ("leaf", ch, []), i + 1
        assert s[i + 1] == "["
        kids = []
        i += 2
        while True:
            k, i = parse(s, i)
            kids.append(k)
            if s[i] == ",":
                i += 1
                continue
            assert s[i] == "]"
            return ("coll", ch, kids), i + 1

    tree, _ = parse(subject, 0)
    counter = [0]

    def build(node, depth):
        n = f"o{counter[0]}"
        counter[0] += 1
        kindn, ch, kids = node
        lab = label if depth == 0 else (None if label is None else f"{ch}_{depth}")
        if kindn == "leaf":
            o = make(leafcls[ch], mode, lab, pose=counter[0])
            w.obj[n] = o
            return o
        o = make("Collection", mode, lab, pose=counter[0])
        w.obj[n] = o
        for k in kids:
            o.add(build(k, depth + 1))
        return o

    build(tree, 0)
    # order names in DFS preorder (already) and return root
    return "o0"


def with_parent(w, root):
    m = magpy()
    q = m.Sensor(position=(5, 5, 5))
    p = m.Collection(q, w.obj[root], position=(1, 0, 0))
    w.obj["P"] = p
    w.obj["Q"] = q


# ------------------------------------------------------------------------------------------ copy keywords
def _attr_val(k, v):
    if v is None:
        return canon(None)
    if k in ("field_func", "handedness"):
        return canon(v)
    if k in ("diameter", "current"):
        return canon(float(v))
    return canon_num(v)


def copy_keywords(cls, tier):
    """list of (tag, kwargs, entries, reuse) where entries describe what each keyword is expected to set:
       {"kw", "family": path|attr|style|label, "attr": public attribute that must show it, "val": canonical text,
        "leaf": style leaf addressed ("" otherwise), "isnone": the value given is None}
       reuse: keywords whose (container) values the caller hands to a SECOND copy() afterwards.
       Numeric values are given in mutable containers of the caller (arrays, lists) wherever the API takes array_like."""
    def E(kw, family, attr, val, isnone=False, call=0):
        # call: 0 = holds for every copy() made with this keyword, 1 = only for the first call (all keywords), 2 = only for
        # the second call (the reused container keywords alone)
        return {"kw": kw, "family": family, "attr": attr, "val": val, "leaf": attr[6:] if family == "style" else "", "isnone": isnone, "call": call}

    out = [("none", {}, [], [])]
    p1 = np.array([4.0, 5.0, 6.0])
    p2 = [[4, 5, 6], [5, 5, 6], [6, 5, 6]]
    out.append(("position", {"position": p1}, [E("position", "path", "position", canon_num(p1))], ["position"]))
    out.append(("position_path", {"position": p2}, [E("position", "path", "position", canon_num(p2))], []))
    r1 = mat_to_rot(RX90)
    out.append(("orientation", {"orientation": r1}, [E("orientation", "path", "orientation", canon(r1))], []))
    out.append(("orientation=None", {"orientation": None}, [E("orientation", "path", "orientation", canon(R.identity()), True)], []))
    for k, v in attr_values(cls):
        vv = [list(x) for x in v] if k in ("vertices", "pixel") else list(v) if isinstance(v, tuple) else v
        out.append((k, {k: vv}, [E(k, "attr", k, _attr_val(k, v))], []))
    for k in NONE_ATTRS[cls]:
        out.append((f"{k}=None", {k: None}, [E(k, "attr", k, canon(None), True)], []))
    out.append(("style_label", {"style_label": "renamed"}, [E("style_label", "label", "label", "renamed")], []))
    out.append(("style_label=None", {"style_label": None}, [E("style_label", "label", "label", "", True)], []))
    out.append(("style=None", {"style": None}, [], []))
    out.append(("style_color", {"style_color": "blue"}, [E("style_color", "style", "style.color", canon("blue"))], []))
    out.append(("style_dict", {"style": {"opacity": 0.25, "path": {"numbering": True}}},
                [E("style", "style", "style.opacity", canon(0.25)), E("style", "style", "style.path.numbering", canon(True))], ["style"]))
    out.append(("style_dict_plus", {"style": {"opacity": 0.25}, "style_color": "blue"},
                [E("style", "style", "style.opacity", canon(0.25)), E("style_color", "style", "style.color", canon("blue"))], ["style"]))
    # a (nested) style dictionary TOGETHER with underscore keywords that fall into a branch the dictionary already holds
    out.append(("style_branch", {"style": {"path": {"show": False}, "color": "red"}, "style_path_line_width": 7},
                [E("style", "style", "style.path.show", canon(False)), E("style", "style", "style.color", canon("red")),
                 E("style_path_line_width", "style", "style.path.line.width", canon(7))], ["style"]))
    out.append(("style_branch_deep", {"style": {"path": {"line": {"style": "dashed"}, "marker": {"symbol": "x"}}},
                                      "style_path_line_width": 3, "style_path_marker_size": 5},
                [E("style", "style", "style.path.line.style", canon("dashed")), E("style", "style", "style.path.marker.symbol", canon("x")),
                 E("style_path_line_width", "style", "style.path.line.width", canon(3)),
                 E("style_path_marker_size", "style", "style.path.marker.size", canon(5))], ["style"]))
    out.append(("style_nested", {"style_path_line_width": 3}, [E("style_path_line_width", "style", "style.path.line.width", canon(3))], []))
    # the copy joins a collection: "@N" = a collection of the caller, "@P" = the original's own parent (else the caller's)
    out.append(("parent_new", {"parent": "@N"}, [E("parent", "parent", "parent", "N0")], []))
    out.append(("parent_same", {"parent": "@P", "style_label": "sibling"}, [E("parent", "parent", "parent", "@P"), E("style_label", "label", "label", "sibling")], []))
    # REJECTED calls (tag rej_*): a valid keyword followed by an invalid one, and the reverse order
    av0 = attr_values(cls)
    bad_attr = av0[-1][0] if len(av0) > 1 else "orientation"
    ok_kw = {av0[0][0]: av0[0][1]} if av0 else {"position": [1, 1, 1]}
    out.append(("rej_parent_position", {"parent": "@N", "position": "bad"}, [], []))
    out.append(("rej_position_parent", {"position": "bad", "parent": "@N"}, [], []))
    out.append(("rej_parentP_orientation", {"parent": "@P", "orientation": "bad"}, [], []))
    out.append(("rej_attr_badattr", {**ok_kw, bad_attr: "bad"}, [], []))
    out.append(("rej_badattr_attr", {bad_attr: "bad", **ok_kw}, [], []))
    out.append(("rej_label_position", {"style_label": "x", "style": {"color": "red"}, "position": "bad"}, [], []))
    out.append(("rej_parent_style", {"parent": "@N", "position": [1, 2, 3], "style_nosuchproperty": 1}, [], []))
    combo = {"position": [4, 5, 6], "style_label": "both", "style_opacity": 0.75, "style": {"path": {"frames": [0]}, "opacity": 0.5}}
    ent = [E("position", "path", "position", canon_num(p1)), E("style_label", "label", "label", "both"),
           E("style_opacity", "style", "style.opacity", canon(0.75), call=1), E("style", "style", "style.opacity", canon(0.5), call=2),
           E("style", "style", "style.path.frames", canon((0,)))]
    av = attr_values(cls)
    if av:
        k, v = av[0]
        combo[k] = [list(x) for x in v] if k in ("vertices", "pixel") else list(v) if isinstance(v, tuple) else v
        ent.append(E(k, "attr", k, _attr_val(k, v)))
    out.append(("combo", combo, ent, ["style", "position"]))
    return out


def entries_for(entries, keys, call):
    """the entries a copy() made with the keywords `keys` is expected to show (call 1: all keywords; call 2: the reused ones)"""
    return [e for e in entries if e["kw"] in keys and e["call"] in (0, call)]


# ------------------------------------------------------------------------------------------ field observation
OBSERVERS = [(7, 1, 2), (-3, 4, 5), (1, -6, 2)]


def field_of(w, names):
    """B seen from / produced by the subtree given by `names` (root first); None if nothing can be computed"""
    m = magpy()
    root = w.obj[names[0]]
    try:
        if isinstance(root, w.Collection):
            srcs = [w.obj[n] for n in names if isinstance(w.obj[n], w.BaseSource)]
            sens = [w.obj[n] for n in names if isinstance(w.obj[n], w.Sensor)]
            parts = []
            if srcs:
                parts.append(np.asarray(m.getB(srcs, OBSERVERS, sumup=True)).ravel())
            if sens:
                ref = m.misc.Dipole(moment=(1, 2, 3), position=(9, 9, 9))
                parts.append(np.asarray(m.getB(ref, sens)).ravel())
            return np.concatenate(parts) if parts else None
        if isinstance(root, w.Sensor):
            ref = m.misc.Dipole(moment=(1, 2, 3), position=(9, 9, 9))
            return np.asarray(ref.getB(root)).ravel()
        return np.asarray(root.getB(OBSERVERS)).ravel()
    except Exception as ex:  # pylint: disable=broad-except
        return f"raise:{type(ex).__name__}"


# ------------------------------------------------------------------------------------------ mutations
def mutation_vocabulary(w, target, side_tag, tier):
    """list of (op name, callable, expect_effect) for one target object; callables act on the real object"""
    m = magpy()
    o = w.obj[target]
    cls = type(o).__name__
    ops = []

    def setter(attr, val):
        return lambda: setattr(o, attr, val)

    ops.append(("set:position", setter("position", [(7, 7, 7), (8, 7, 7)]), True))
    ops.append(("set:orientation", setter("orientation", mat_to_rot([RX90, RZ90])), True))
    for k, v in attr_values(cls):
        ops.append((f"set:{k}", setter(k, v), True))

    # in-place mutation of whatever the public getters hand out
    def inplace(attr):
        def f():
            a = getattr(o, attr)
            if isinstance(a, np.ndarray) and a.size and a.flags.writeable and a.dtype.kind == "f":
                a += 1.0
            elif isinstance(a, np.ndarray) and a.size and a.flags.writeable and a.dtype.kind in "iu":
                a.flat[0] = (a.flat[0] + 1) % max(2, int(a.max()) + 1)
            elif isinstance(a, R) and len(np.atleast_2d(a.as_quat())) > 1:
                try:
                    a[0] = R.from_euler("y", 90, degrees=True)
                except TypeError:
                    pass
            elif isinstance(a, list):
                a.reverse()
        return f
    for a in public_props(type(o)):
        ops.append((f"inplace:{a}", inplace(a), False))
    if isinstance(o, w.Collection):
        ops.append(("inplace:children", lambda: o.children.reverse(), False))

    ops.append(("move", lambda: o.move((1, 0, 2)), True))
    ops.append(("move_path", lambda: o.move([(1, 0, 0), (2, 0, 0), (3, 0, 0)], start=1), True))
    ops.append(("rotate", lambda: o.rotate_from_angax(90, "z", anchor=(1, 1, 0)), True))
    ops.append(("rotate_rotvec", lambda: o.rotate_from_rotvec((0, 90, 0), degrees=True, start=0), True))

    # style
    ops.append(("style:color", lambda: setattr(o.style, "color", "green"), True))
    ops.append(("style:label", lambda: setattr(o.style, "label", f"relabel_{side_tag}"), True))
    ops.append(("style:nested", lambda: setattr(o.style.path.line, "width", 11), True))
    ops.append(("style:update", lambda: o.style.update(opacity=0.125, path_marker_size=9), True))
    ops.append(("style:assign", lambda: setattr(o, "style", {"description": {"text": "txt"}}), True))
    ops.append(("style:add_trace", lambda: o.style.model3d.add_trace(
        {"backend": "generic", "constructor": "scatter3d", "kwargs": {"x": np.array([1.0, 2.0]), "y": np.array([1.0, 2.0]), "z": np.array([1.0, 2.0])}}), True))

    def trace_inplace():
        d = o.style.model3d.data
        if not d:
            o.style.model3d.add_trace({"backend": "generic", "constructor": "scatter3d",
                                       "kwargs": {"x": np.array([3.0, 4.0]), "y": np.array([3.0, 4.0]), "z": np.array([3.0, 4.0])}})
            d = o.style.model3d.data
        d[0].kwargs["x"][0] += 5.0
        d[0].kwargs["new"] = 1
    ops.append(("style:trace_inplace", trace_inplace, True))
    ops.append(("style:frames_list", lambda: setattr(o.style.path, "frames", [1, 0]), True))

    if isinstance(o, w.Collection):
        def add_new():
            n = f"n{len([k for k in w.obj if k.startswith('n')])}"
            w.obj[n] = m.Sensor(position=(2, 2, 2))
            o.add(w.obj[n])
        ops.append(("add", add_new, True))
        ops.append(("set_children_styles", lambda: o.set_children_styles(opacity=(int(target[1:]) + 1) / 64 + (0.5 if side_tag == "c" else 0.0)) if o.children else None, bool(o.children)))
        ops.append(("remove_first", lambda: o.remove(o.children[0]) if o.children else None, bool(o.children)))

        def children_set():
            n = f"n{len([k for k in w.obj if k.startswith('n')])}"
            w.obj[n] = m.misc.Dipole(moment=(1, 0, 0))
            o.children = [w.obj[n]] + list(o.children)
        ops.append(("children=", children_set, True))
    ops.append(("reset_path", lambda: o.reset_path(), True))

    def new_parent():
        n = f"n{len([k for k in w.obj if k.startswith('n')])}"
        w.obj[n] = m.Collection()
        o.parent = w.obj[n]
    ops.append(("parent=new", new_parent, True))
    ops.append(("parent=None", lambda: setattr(o, "parent", None), True))
    ops.append(("copy_again", lambda: o.copy(position=(9, 9, 9), style_label="again"), False))
    if tier == "quick":
        # the vocabulary is the same in both tiers; quick only drops the duplicates of a kind
        drop = {"move_path", "rotate_rotvec", "style:frames_list"}
        ops = [x for x in ops if x[0] not in drop]

    # in-place mutations first: they write through whatever buffer the object holds at that moment, so that a buffer shared
    # with the other side is still shared when they run; assignments (which rebind) afterwards
    def prio(op):
        n = op[0]
        if n.startswith("inplace:"):
            return 0
        if n in ("style:nested", "style:trace_inplace", "style:color", "style:label"):
            return 1
        return 2
    ops = sorted(ops, key=prio)
    return ops


# ------------------------------------------------------------------------------------------ one scenario
def sides(w):
    orig = [n for n in w.obj if n[0] in "oPQ"]
    cop = [n for n in w.obj if n[0] == "c"]
    return orig, cop


def _field_record(f0, fo, fc, outcome):
    fld = {"have": False, "q0": [], "qo": [], "qc": [], "fin": True}
    mismatch = False
    if isinstance(fo, np.ndarray) and isinstance(fc, np.ndarray) and isinstance(f0, np.ndarray) and fo.shape == fc.shape == f0.shape:
        s = quant.gross(fo, fc, f0)
        fld = {"have": True, "q0": quant.q8(f0, s), "qo": quant.q8(fo, s), "qc": quant.q8(fc, s),
               "fin": bool(np.isfinite(fo).all() and np.isfinite(fc).all() and np.isfinite(f0).all())}
    elif isinstance(fo, str) or isinstance(fc, str):
        # the field cannot be computed (geometry/excitation not set): the two sides must fail alike
        mismatch = (fo != fc) if (isinstance(fo, str) and isinstance(fc, str)) else False
    elif (fo is None) != (fc is None):
        mismatch = True
    return fld, bool(mismatch and outcome == "ok")


def do_copy(w, root, kwargs, entries, prefix, sc_log, tid):
    """one copy() call on w.obj[root]; the objects of the copy get names <prefix>0.. ; returns the copy record (for CopyVerdict)"""
    sub = [n for n in w.obj if n.startswith("o")]
    f0 = field_of(w, sub)     # before the observation: a failing field call formats the object and thereby creates its style
    pre = w.observe()
    leaves_pre = w.style_leaves(root)
    snapshot = canon(kwargs)
    entries = [dict(e, text=e["val"], val=(e["val"] if e["family"] in ("label", "parent") else dg(e["val"]))) for e in entries]
    rec = {"tid": tid, "sc": sc_log, "root": root, "cls": type(w.obj[root]).__name__, "pre": pre, "entries": entries}
    try:
        c = w.obj[root].copy(**kwargs)
        outcome = "ok"
    except Exception as ex:  # pylint: disable=broad-except
        c = None
        outcome = "exc:" + type(ex).__name__
    rec["outcome"] = outcome
    rec["kwargs_intact"] = canon(kwargs) == snapshot
    ren = {}
    if c is not None:
        # name the objects of the copy by walking both trees in parallel (by position in the children lists)
        def walk(o, cc):
            on = w.name(o)
            cn = prefix + on[1:]
            w.obj[cn] = cc
            ren[on] = cn
            if isinstance(o, w.Collection) and isinstance(cc, w.Collection):
                for i, ch in enumerate(o._children):
                    if i < len(cc._children) and w.name(cc._children[i]) == "ghost":
                        walk(ch, cc._children[i])
        walk(w.obj[root], c)
        w.extra_pub[ren[root]] = w.extra_pub.get(root, [])
    rec["ren"] = ren
    rec["same_object"] = c is w.obj[root]
    rec["post"] = w.observe()
    rec["leaves"] = {"pre": leaves_pre, "post": w.style_leaves(ren[root]) if ren else leaves_pre, "orig_post": w.style_leaves(root)}
    fo, fc = field_of(w, sub), (field_of(w, [ren[n] for n in sub if n in ren]) if ren else None)
    rec["field"], rec["field_mismatch"] = _field_record(f0, fo, fc, outcome)
    return rec, c


def mutate_args(kw):
    """the caller changes, in place, every container it handed to copy(); returns the number of containers changed"""
    n = 0

    def rec(v):
        nonlocal n
        if isinstance(v, np.ndarray) and v.size and v.dtype.kind == "f":
            v += 1.0
            n += 1
        elif isinstance(v, dict):
            for x in list(v.values()):
                rec(x)
            v["opacity"] = 0.03125
            n += 1
        elif isinstance(v, list):
            for x in v:
                rec(x)
            if v and isinstance(v[0], (int, float)):
                v[0] = v[0] + 1
                n += 1
    for v in kw.values():
        rec(v)
    return n


def run_scenario(sc, tid0, tier, detail=False):
    """sc = {subject, parent, mode, label, kwtag, mutate}; returns the event (one JSON line) and the number of judged steps"""
    w = World()
    root = build_subject(w, sc["subject"], sc["mode"], sc["label"])
    if sc["parent"]:
        with_parent(w, root)
    cls = type(w.obj[root]).__name__
    tag, kwargs, entries, reuse = [k for k in copy_keywords(cls, tier) if k[0] == sc["kwtag"]][0]
    w.extra_pub[root] = [e["leaf"] for e in entries if e["family"] == "style"]
    if "parent" in kwargs:
        # the collection the copy is to join is part of the observed heap
        if kwargs["parent"] == "@P" and "P" in w.obj:
            pname = "P"
        else:
            pname = "N0"
            w.obj[pname] = magpy().Collection(magpy().Sensor(position=(8, 8, 8)), position=(0, 3, 0))
            w.obj["N1"] = w.obj[pname].children[0]
        kwargs = {k: (w.obj[pname] if k == "parent" else v) for k, v in kwargs.items()}
        entries = [dict(e, val=pname) if e["family"] == "parent" else e for e in entries]
    if kwargs:
        w.args["ARGS"] = kwargs          # the caller's keyword values: a node of the heap
    sc_log = dict(sc, label="<None>" if sc["label"] is None else sc["label"], uncopyable="!" in sc["subject"], expect_raise=sc["kwtag"].startswith("rej_"))
    ev, c = do_copy(w, root, kwargs, entries_for(entries, set(kwargs), 1), "c", sc_log, tid0)
    ren = ev["ren"]
    ev["has2"] = False
    ev["copy2"] = {}
    nj = 0
    if reuse and c is not None:
        # the caller makes a second copy with the SAME container objects (style template, array), nothing else
        kw2 = {k: kwargs[k] for k in reuse}
        rec2, _ = do_copy(w, root, kw2, entries_for(entries, set(reuse), 2), "d", sc_log, tid0 + 9000)
        ev["has2"], ev["copy2"] = True, rec2
        nj += 1
    steps = []
    if sc["mutate"] and c is not None:
        k = 0
        orig_targets = [n for n in w.obj if n.startswith("o")]
        copy_targets = [ren[n] for n in orig_targets if n in ren]
        plan = []
        for t_o, t_c in zip(orig_targets, copy_targets):
            vo = mutation_vocabulary(w, t_o, "o", tier)
            vc = mutation_vocabulary(w, t_c, "c", tier)
            for (a, b) in zip(vo, vc):
                plan.append((t_o, a))
                plan.append((t_c, b))
        if kwargs:
            plan.append(("ARGS", ("args:inplace", lambda: mutate_args(kwargs), bool(mutate_args(_copy.deepcopy(kwargs))))))
        for target, (opname, fn, expect) in plan:
            o_side, c_side = sides(w)
            d_side = [n for n in w.obj if n[0] == "d"]
            on_orig = target[0] == "o"
            if target == "ARGS":
                others, mine_all, side = o_side + c_side + d_side, ["ARGS"], "args"
            else:
                others = (c_side if on_orig else o_side) + d_side
                if opname == "copy_again":
                    others = o_side + c_side + d_side
                mine_all, side = (o_side if on_orig else c_side), ("orig" if on_orig else "copy")
            others = [n for n in others if not n.startswith("n")]
            try:
                fn()
                oc = "ok"
            except Exception as ex:  # pylint: disable=broad-except
                oc = "exc:" + type(ex).__name__
            k += 1
            obs = w.observe(compact=True)
            mine = [n for n in mine_all if n in obs["kind"]]
            steps.append({"tid": tid0 + k, "op": opname, "target": target, "side": side, "others": others,
                          "args": ["ARGS"] if (kwargs and target != "ARGS") else [],
                          "mine": mine, "expect": bool(expect), "outcome": oc, "obs": obs})
    ev["steps"] = steps
    return ev, len(steps) + nj


def scenarios(tier):
    """the scenario list (deterministic)"""
    out = []
    li = 0
    for subject in CLASSES + TREES:
        cls = subject if subject in CLASSES else "Collection"
        tags = [k[0] for k in copy_keywords(cls, tier)]
        for parent in (False, True):
            for mode in ("none", "pending", "init"):
                for tag in tags:
                    label = None if mode == "none" else LABELS[li % len(LABELS)]
                    li += 1
                    mutate = tag in ("none", "position") if tier == "quick" else tag in ("none", "position", "style_branch", "combo")
                    if tier == "quick" and subject in TREES and tag == "position" and mode != "pending":
                        mutate = False
                    out.append({"subject": subject, "parent": parent, "mode": mode, "label": label, "kwtag": tag, "mutate": mutate})
    # originals whose geometry / excitation is NOT set (None): plain copy and every attribute keyword with a real value
    for subject in UNSET:
        cls = subject[:-1]
        tags = ["none", "position"] + [k for k, _ in attr_values(cls)] + [f"{k}=None" for k in NONE_ATTRS[cls]][:1]
        for mode, parent in (("none", False), ("init", True)):
            for tag in tags:
                label = None if mode == "none" else LABELS[li % len(LABELS)]
                li += 1
                out.append({"subject": subject, "parent": parent, "mode": mode, "label": label, "kwtag": tag, "mutate": False})
    return out


def worker(args):
    """execute a slice of the scenario list; one ndjson shard"""
    scs, path, tid0, tier = args
    n_steps = 0
    with open(path, "w") as f:
        for i, sc in enumerate(scs):
            ev, k = run_scenario(sc, tid0 + i * 10000, tier)
            n_steps += k
            f.write(json.dumps(ev, separators=(",", ":")) + "\n")
    return len(scs), n_steps
