"""Binding of spec/Inputs.tla to the real constructors and attribute setters (property C17).

For every (class, attribute) and every value descriptor enumerated by TLC (MC_Inputs!Descs) a CONCRETE Python value
of that descriptor is built (several instances, different container forms) and tried (a) through the constructor and
(b) through the setter on a valid existing object.  Only measurements are logged; spec/TV_Inputs.tla decides.

`describe(value)` is the abstraction function (concrete value -> descriptor of Inputs.tla); every generated value is
checked to abstract to the descriptor it was generated for (machinery self-check), mutated copies are described by it.
"""
import copy
import hashlib
import json
import numbers

import numpy as np

from ..common import MachineryError, import_magpylib, rng

OBS = (2.3, -1.7, 3.1)
TETRA_V = [(0.0, 0.0, 0.0), (1.0, 0.0, 0.0), (0.0, 1.0, 0.0), (0.0, 0.0, 1.0)]
TETRA_F = [(0, 1, 2), (0, 1, 3), (0, 2, 3), (1, 2, 3)]
GEOM_SHAPES = {(5,), (4, 3), (3, 3)}
MESH_SKIP = {"check_open": "skip", "check_disconnected": "skip", "check_selfintersecting": "skip", "reorient_faces": "skip"}
_ctx = {}


def ctx():
    """magpylib, exception classes and Rotation (imported once per process)."""
    if not _ctx:
        m = import_magpylib()
        from magpylib._src import exceptions as ex
        from scipy.spatial.transform import Rotation

        _ctx.update(m=m, Bad=ex.MagpylibBadUserInput, Missing=ex.MagpylibMissingInput, R=Rotation,
                    lib=tuple(v for v in vars(ex).values() if isinstance(v, type) and issubclass(v, Exception)),
                    cls={"Cuboid": m.magnet.Cuboid, "Cylinder": m.magnet.Cylinder, "CylinderSegment": m.magnet.CylinderSegment,
                         "Sphere": m.magnet.Sphere, "Tetrahedron": m.magnet.Tetrahedron, "TriangularMesh": m.magnet.TriangularMesh,
                         "Triangle": m.misc.Triangle, "Circle": m.current.Circle, "Polyline": m.current.Polyline,
                         "Dipole": m.misc.Dipole, "CustomSource": m.misc.CustomSource, "Sensor": m.Sensor,
                         "Collection": m.Collection})
    return _ctx


# ------------------------------------------------------------------------------------------ abstraction
def _sign_class(vals):
    neg = any(v < 0 for v in vals)
    pos = any(v > 0 for v in vals)
    zero = any(v == 0 for v in vals)
    if any(v != v for v in vals):
        return "nan"
    if neg:
        return "mixed" if pos else "neg"
    return "zero" if zero else "pos"


def _shape_leaves(x):
    """(shape, leaves) of a nested list/tuple/ndarray; shape None when not rectangular."""
    if isinstance(x, np.ndarray):
        if x.dtype == object:
            return _shape_leaves(x.tolist()) if x.ndim else ((), [x.item()])
        return tuple(int(s) for s in x.shape), list(x.ravel().tolist())
    if isinstance(x, (list, tuple)):
        if len(x) == 0:
            return (0,), []
        subs = [_shape_leaves(e) for e in x]
        if any(s[0] is None for s in subs) or any(s[0] != subs[0][0] for s in subs):
            return None, []
        return (len(x),) + subs[0][0], [leaf for s in subs for leaf in s[1]]
    return (), [x]


def geom_label(shape, a):
    a = np.asarray(a, dtype=float).reshape(shape)
    if shape == (5,):
        r1, r2, h, p1, p2 = a
        for lab, c in (("r1<0", r1 < 0), ("r1>r2", r1 > r2), ("r1=r2", r1 == r2), ("h<0", h < 0), ("h=0", h == 0),
                       ("phi1>phi2", p1 > p2), ("phi1=phi2", p1 == p2), ("dphi>360", p2 - p1 > 360)):
            if c:
                return lab
        return "ok"
    scale = max(1e-300, float(np.abs(a - a[0]).max()))
    if shape == (4, 3):
        return "coplanar" if abs(np.linalg.det((a[1:] - a[0]) / scale)) <= 1e-12 else "ok"
    if shape == (3, 3):
        return "collinear" if np.linalg.norm(np.cross(a[1] - a[0], a[2] - a[0])) / scale**2 <= 1e-12 else "ok"
    return "na"


def desc(kind, shape=(), entries="na", geom="na", ints=False):
    return {"kind": kind, "shape": list(shape), "entries": entries, "geom": geom, "ints": ints}


def describe(v, attr=None):
    """Concrete Python value -> descriptor of Inputs.tla (attr: index arrays of `faces` get the class "oob" when an index
    does not address one of the 4 vertices of the base mesh)."""
    R = ctx()["R"]
    if v is None:
        return desc("none")
    if isinstance(v, (bool, np.bool_)):
        return desc("bool", (), "pos" if v else "zero")
    if isinstance(v, (int, np.integer)):
        return desc("int", (), _sign_class([int(v)]))
    if isinstance(v, (float, np.floating)):
        return desc("float", (), _sign_class([float(v)]))
    if isinstance(v, complex):
        return desc("complex")
    if isinstance(v, str):
        return desc("str", (), v if v in ("right", "left") else "other")
    if isinstance(v, R):
        return desc("rotation", () if v.single else (len(v),))
    if callable(v):
        return desc("callable", (), getattr(v, "c17_B", "unknown"), getattr(v, "c17_H", "na"))
    if isinstance(v, (list, tuple, np.ndarray)):
        shape, leaves = _shape_leaves(v)
        if shape is None:
            return desc("ragged")
        if int(np.prod(shape)) == 0:
            return desc("array", shape, "empty")
        if any(isinstance(x, str) for x in leaves):
            return desc("array", shape, "str")
        if any(x is None for x in leaves):
            return desc("array", shape, "none")
        if not all(isinstance(x, numbers.Real) for x in leaves):
            return desc("array", shape, "obj")
        ints = all(float(x) == round(float(x)) for x in leaves if x == x and abs(x) != float("inf"))
        if attr == "faces" and ints and len(shape) == 2 and shape[1] == 3 and min(leaves) >= 0 and max(leaves) >= 4:
            return desc("array", shape, "oob", "na", True)
        if shape in GEOM_SHAPES:
            return desc("array", shape, "num", geom_label(shape, leaves), ints)
        return desc("array", shape, _sign_class(leaves), "na", ints)
    return desc("object")


# ------------------------------------------------------------------------------------------ concretization
def _numbers_of_class(r, n, cls_, ints):
    """n numbers of the given sign class."""
    def p():
        return r.randint(1, 9) if ints else round(r.uniform(0.2, 4.0), 6)

    if cls_ == "pos":
        return [p() for _ in range(n)]
    vals = [p() for _ in range(n)]
    idx = list(range(n))
    r.shuffle(idx)
    if cls_ == "zero":       # no negative, at least one zero
        for i in idx[:1 + (r.randint(0, n - 1) if r.random() < 0.3 else 0)]:
            vals[i] = 0 if ints else 0.0
        return vals
    if cls_ == "neg":        # at least one negative, none positive
        k = r.randint(1, n)
        for j, i in enumerate(idx):
            vals[i] = -vals[i] if j < k else (0 if ints else 0.0)
        return vals
    if cls_ == "mixed":      # at least one negative and one positive
        k = r.randint(1, n - 1)
        for j, i in enumerate(idx):
            if j < k:
                vals[i] = -vals[i]
            elif j > k and r.random() < 0.2:
                vals[i] = 0 if ints else 0.0
        return vals
    raise MachineryError(f"entry class {cls_}")


def _geom_values(r, shape, label, ints):
    if shape == (5,):
        u = (lambda a, b: r.randint(int(a), int(b))) if ints else (lambda a, b: round(r.uniform(a, b), 4))
        r1 = u(0, 2) if r.random() < 0.7 else 0
        r2 = r1 + u(1, 3)
        h = u(1, 3)
        p1 = u(-300, 200)
        p2 = p1 + u(1, 359)
        if label == "r1<0":
            r1 = -u(1, 2)
        elif label == "r1>r2":
            r1 = r2 + u(1, 2)
        elif label == "r1=r2":
            r1 = r2
        elif label == "h<0":
            h = -h
        elif label == "h=0":
            h = 0
        elif label == "phi1>phi2":
            p2 = p1 - u(1, 300)
        elif label == "phi1=phi2":
            p2 = p1
        elif label == "dphi>360":
            p2 = p1 + u(361, 700)
        return [r1, r2, h, p1, p2]
    # points with small integer coordinates: exact in floating point
    while True:
        if shape == (4, 3):
            if label == "coplanar":
                z = r.randint(-3, 3)
                pts = [[r.randint(-4, 4), r.randint(-4, 4), z] for _ in range(4)]
                if len({tuple(p) for p in pts}) < 4:
                    continue
            else:
                pts = [[r.randint(-4, 4) for _ in range(3)] for _ in range(4)]
        else:
            if label == "collinear":
                p0 = [r.randint(-3, 3) for _ in range(3)]
                d = [r.randint(-2, 2) for _ in range(3)]
                if not any(d):
                    continue
                pts = [p0, [a + b for a, b in zip(p0, d)], [a + 3 * b for a, b in zip(p0, d)]]
            else:
                pts = [[r.randint(-4, 4) for _ in range(3)] for _ in range(3)]
        if not ints:
            s = r.choice([1.0, 0.5, 0.25])      # exact scaling
            pts = [[c * s for c in p] for p in pts]
        if geom_label(shape, pts) == label:
            return [c for p in pts for c in p]


def _nest(flat, shape, seq):
    if not shape:
        return flat[0]
    if len(shape) == 1:
        return seq(flat)
    step = len(flat) // shape[0] if shape[0] else 0
    return seq(_nest(flat[i * step:(i + 1) * step], shape[1:], seq) for i in range(shape[0]))


CALL_ANS = ("none", "ok", "shape1", "shape2", "list", "raises")


def make_callable(ans_b, ans_h, r):
    """A field function described by its answer per field (Inputs.tla: entries = answer for B, geom = answer for H)."""
    c = round(r.uniform(0.5, 2.0), 3)

    def answer(kind, observers):
        obs = np.array(observers, dtype=float)
        if kind == "none":
            return None
        if kind == "ok":
            return obs * c
        if kind == "shape1":
            return obs[:, 0] * c
        if kind == "shape2":
            return obs[:, :2] * c
        if kind == "list":
            return (obs * c).tolist()
        raise ZeroDivisionError("user function fails")

    if ans_b == "badargs":
        def f(a, b):
            return np.array(b, dtype=float) * c
        ans_h = "na"
    elif ans_b in CALL_ANS and ans_h in CALL_ANS:
        def f(field, observers):
            return answer(ans_b if field == "B" else ans_h, observers)
    else:
        raise MachineryError(f"callable {ans_b}/{ans_h}")
    f.c17_B, f.c17_H = ans_b, ans_h
    return f


NUMERIC = ("pos", "zero", "neg", "mixed", "num", "empty")
FORMS_NUM = ["ndarray_f", "list", "tuple", "ndarray_i"]
FORMS_OBJ = ["list", "ndarray_o", "tuple"]


def concretize(cls, attr, d, k, r):
    """A concrete value of descriptor d (k-th instance: selects the container form). Returns (value, form)."""
    R = ctx()["R"]
    kind, shape, ent, geom = d["kind"], tuple(d["shape"]), d["entries"], d["geom"]
    if kind == "none":
        return None, "None"
    if kind == "bool":
        b = ent == "pos"
        return (np.bool_(b), "np.bool_") if k % 2 else (b, "bool")
    if kind in ("int", "float"):
        x = _numbers_of_class(r, 1, ent, kind == "int")[0]
        if kind == "int":
            return (np.int64(x), "np.int64") if k % 2 else (int(x), "int")
        return (np.float64(x), "np.float64") if k % 2 else (float(x), "float")
    if kind == "complex":
        return complex(r.randint(1, 3), r.randint(1, 3)), "complex"
    if kind == "str":
        return (ent if ent in ("right", "left") else r.choice(["up", "Right", " left", "", "x", "1", "1.5", " 2 ", "1e-3", "inf", "nan"])), "str"
    if kind == "rotation":
        if shape == ():
            return R.from_rotvec([r.uniform(-1, 1) for _ in range(3)]), "Rotation"
        if shape[0] == 0:
            return R.from_quat(np.zeros((0, 4))), "Rotation"
        return R.from_rotvec([[r.uniform(-1, 1) for _ in range(3)] for _ in range(shape[0])]), "Rotation"
    if kind == "callable":
        return make_callable(ent, geom, r), "function"
    if kind == "object":
        return (object(), "object") if k % 2 == 0 else ({"a": 1}, "dict")
    if kind == "ragged":
        return ([[1.0, 2.0, 3.0], [1.0, 2.0]], "list") if k % 2 == 0 else ([1.0, [2.0, 3.0]], "list")
    if kind != "array":
        raise MachineryError(f"cannot concretize {d}")
    n = int(np.prod(shape)) if shape else 1
    if ent == "empty":
        return np.zeros(shape), "ndarray_f"
    if ent in ("str", "none"):
        form = FORMS_OBJ[k % len(FORMS_OBJ)] if shape else "ndarray_o"
        flat = _numbers_of_class(r, n, "pos", False)
        flat[r.randrange(n)] = "x" if ent == "str" else None
        if form == "ndarray_o":
            a = np.empty(n, dtype=object)
            a[:] = flat
            return a.reshape(shape), form
        return _nest(flat, shape, list if form == "list" else tuple), form
    if attr == "faces":            # index arrays: the descriptor says whether the entries are integer-valued
        form = (FORMS_NUM[k % len(FORMS_NUM)] if d["ints"] else ("ndarray_f", "list")[k % 2]) if shape else ("ndarray_i" if d["ints"] else "ndarray_f")
        ints = d["ints"]
    else:
        form = FORMS_NUM[k % len(FORMS_NUM)] if shape else ("ndarray_f" if k % 2 == 0 else "ndarray_i")
        ints = form in ("ndarray_i", "tuple")
    faces = attr == "faces" and ints and len(shape) == 2 and shape[1] == 3 and ent in ("pos", "zero", "num", "oob")
    if faces:                      # valid indices into the four base vertices
        if ent == "oob":           # ... except one index that equals (or exceeds) the number of vertices
            rows = [list(TETRA_F[i % 4]) for i in range(shape[0])]
            rows[r.randrange(shape[0])][r.randrange(3)] = 4 if k % 2 == 0 else 4 + r.randrange(3)
        elif ent == "pos":
            rows = [r.sample([1, 2, 3], 3) for _ in range(shape[0])]
        else:
            rows = [list(TETRA_F[i % 4]) for i in range(shape[0])]
        flat = [c for row in rows for c in row]
    elif ent == "num":
        flat = _geom_values(r, shape, geom, ints)
    else:
        flat = _numbers_of_class(r, n, ent, ints)
    if form == "ndarray_f":
        return np.array(flat, dtype=float).reshape(shape), form
    if form == "ndarray_i":
        return np.array(flat, dtype=np.int64).reshape(shape), form
    return _nest(flat, shape, list if form == "list" else tuple), form


def clone(v):
    """An independent copy of the caller's value (so that constructor and setter trials do not interfere)."""
    if isinstance(v, np.ndarray):
        return v.copy()
    if isinstance(v, list):
        return copy.deepcopy(v)
    return v


# ------------------------------------------------------------------------------------------ objects
def base_kwargs(cls):
    good = make_callable("ok", "ok", rng("c17-base"))
    return {
        "Cuboid": {"dimension": (1.0, 2.0, 3.0), "polarization": (0.1, 0.2, 0.3)},
        "Cylinder": {"dimension": (1.0, 2.0), "polarization": (0.1, 0.2, 0.3)},
        "CylinderSegment": {"dimension": (1.0, 2.0, 1.0, 10.0, 100.0), "polarization": (0.1, 0.2, 0.3)},
        "Sphere": {"diameter": 1.5, "polarization": (0.1, 0.2, 0.3)},
        "Tetrahedron": {"vertices": TETRA_V, "polarization": (0.1, 0.2, 0.3)},
        # the mesh checks (16 ms per construction) are skipped where vertices / faces are not the slot under test
        "TriangularMesh": {"vertices": TETRA_V, "faces": TETRA_F, "polarization": (0.1, 0.2, 0.3), **MESH_SKIP},
        "Triangle": {"vertices": TETRA_V[:3], "polarization": (0.1, 0.2, 0.3)},
        "Circle": {"diameter": 1.5, "current": 2.0},
        "Polyline": {"vertices": [(0, 0, 0), (1, 0, 0), (1, 1, 0)], "current": 2.0},
        "Dipole": {"moment": (1.0, 2.0, 3.0)},
        "CustomSource": {"field_func": good},
        "Sensor": {},
        "Collection": {},
    }[cls]


def build(cls, kw):
    c = ctx()
    if cls == "Collection":
        return c["cls"][cls](c["m"].misc.Dipole(moment=(1.0, 2.0, 3.0), position=(0.5, 0.25, -0.5)), **kw)
    return c["cls"][cls](**kw)


def ctor_kwargs(cls, attr, value):
    kw = dict(base_kwargs(cls))
    if attr == "magnetization":
        kw.pop("polarization", None)
    if cls == "TriangularMesh" and attr in ("vertices", "faces"):
        for key in MESH_SKIP:
            kw.pop(key)
    if cls == "TriangularMesh" and attr == "faces":
        # documented: with reorient_faces the constructor flips inward facing triangles, i.e. rewrites `faces`
        kw["reorient_faces"] = "skip"
        try:    # an index equal to the number of vertices is tried with ALL body checks skipped (nothing but the index check can reject it)
            if isinstance(value, (list, tuple, np.ndarray)) and int(np.max(np.asarray(value, dtype=float))) == 4:
                kw.update(MESH_SKIP)
        except (TypeError, ValueError, OverflowError):
            pass
    if cls == "TriangularMesh" and attr == "vertices":
        # companion faces with indices inside the given vertex list whenever it has a first extent
        sh, _ = _shape_leaves(value) if isinstance(value, (list, tuple, np.ndarray)) else ((), [])
        n = sh[0] if sh else 0
        if 1 <= n < 4:
            kw["faces"] = [(0, min(1, n - 1), min(2, n - 1))]
    kw[attr] = value
    return kw


def _canon(x):
    R = ctx()["R"]
    if isinstance(x, np.ndarray):
        return ("nd", x.dtype.str, x.shape, hashlib.md5(np.ascontiguousarray(x).tobytes()).hexdigest())
    if isinstance(x, R):
        return ("rot", _canon(np.asarray(x.as_quat())))
    if x is None or isinstance(x, (bool, int, float, str)):
        return ("v", repr(x))
    if isinstance(x, (list, tuple)):
        return ("seq", [_canon(e) for e in x])
    if callable(x):
        return ("fn", id(x))
    if hasattr(x, "_position") and hasattr(x, "__dict__"):
        return ("obj", digest(x))
    return ("o", type(x).__name__)


def digest(obj):
    """Digest of all attributes of the object (children included, style and parent link excluded)."""
    items = [(k, _canon(v)) for k, v in sorted(vars(obj).items()) if k not in ("_style", "_style_kwargs", "_parent")]
    return hashlib.md5(repr(items).encode()).hexdigest()


def outcome_of(fn):
    c = ctx()
    try:
        return "ok", "", fn()
    except c["Bad"]:
        return "bad_input", "", None
    except c["Missing"]:
        return "missing", "", None
    except Exception as ex:  # pylint: disable=broad-except
        return "exc", type(ex).__name__, None


def later_of(cls, obj):
    """Outcome class of a subsequent field computation with the object: alone, and in one call together with a complete
    companion source placed before / after it (the worst outcome counts: the object must not fail internally in ANY call)."""
    c = ctx()
    m = c["m"]
    comp = m.magnet.Cuboid(dimension=(1, 1, 1), polarization=(0.1, 0.2, 0.3), position=(20.0, -30.0, 40.0))
    if cls == "Sensor":
        calls = [lambda: m.getB(comp, obj), lambda: m.getB(comp, [m.Sensor(position=(3.0, 2.0, 1.0)), obj])]
    elif cls == "Collection":
        calls = [lambda: m.getB(obj, OBS)]
    else:
        calls = [lambda: m.getB(obj, OBS), lambda: m.getB([comp, obj], OBS), lambda: m.getB([obj, comp], OBS)]
        if cls == "CustomSource":       # the function answers per field: the H-field is asked for as well
            calls += [lambda: m.getH(obj, OBS), lambda: m.getH([comp, obj], OBS)]
    rank = {"ok": 0, "magpylib": 1, "nonfinite": 2, "foreign": 3}
    worst, worst_exc = "ok", ""
    for call in calls:
        try:
            B = call()
            oc, exc = ("ok" if np.all(np.isfinite(np.asarray(B, dtype=float))) else "nonfinite"), ""
        except c["lib"]:
            oc, exc = "magpylib", ""
        except Exception as ex:  # pylint: disable=broad-except
            oc, exc = "foreign", type(ex).__name__
        if rank[oc] > rank[worst]:
            worst, worst_exc = oc, exc
    return worst, worst_exc


NA_RB = {"kind": "na", "shape": [], "dtype": "na"}


def readback(obj, attr):
    R = ctx()["R"]
    v = getattr(obj, attr)
    if v is None:
        return v, {"kind": "none", "shape": [], "dtype": "na"}
    if isinstance(v, np.ndarray):
        return v, {"kind": "array", "shape": [int(s) for s in v.shape], "dtype": v.dtype.kind}
    if isinstance(v, (bool, np.bool_)):
        return v, {"kind": "bool", "shape": [], "dtype": "b"}
    if isinstance(v, (float, np.floating)):
        return v, {"kind": "float", "shape": [], "dtype": "f"}
    if isinstance(v, (int, np.integer)):
        return v, {"kind": "float", "shape": [], "dtype": "i"}
    if isinstance(v, str):
        return v, {"kind": "str", "shape": [], "dtype": "na"}
    if isinstance(v, R):
        return v, {"kind": "rotation", "shape": [] if v.single else [len(v)], "dtype": "na"}
    if callable(v):
        return v, {"kind": "callable", "shape": [], "dtype": "na"}
    return v, {"kind": "object", "shape": [], "dtype": "na"}


def values_equal(rb, value, attr):
    """Read-back equals the caller's input (after the documented squeeze of a length-1 path; input None for
    `orientation` is the documented unit rotation; rotations are compared as rotations, angle < 1e-12 rad)."""
    R = ctx()["R"]
    try:
        if attr == "orientation":
            if not isinstance(rb, R):
                return False
            if value is None:
                return bool(rb.single and rb.magnitude() < 1e-12)
            n_rb = 1 if rb.single else len(rb)
            n_v = 1 if value.single else len(value)
            return n_rb == n_v and bool(np.all(np.atleast_1d((rb * value.inv()).magnitude()) < 1e-12))
        if value is None or rb is None:
            return value is None and rb is None
        if isinstance(rb, np.ndarray):
            a = np.asarray(value, dtype=float)
            return a.size == rb.size and bool(np.array_equal(rb, a.reshape(rb.shape)))
        if callable(rb):
            return rb is value
        return bool(rb == value)
    except Exception:  # pylint: disable=broad-except
        return False


def _first_leaf_poke(v):
    """Mutate the caller's value in place after the assignment; False if it is immutable."""
    if isinstance(v, np.ndarray) and v.size and v.dtype != object:
        v += 1
        return True
    if isinstance(v, list) and v:
        x = v
        while x and isinstance(x[0], list):
            x = x[0]
        if x and isinstance(x[0], (int, float)) and not isinstance(x[0], bool):
            x[0] = x[0] + 1
            return True
    return False


def measure(cls, obj, attr, value):
    rb, rbd = readback(obj, attr)
    equal = values_equal(rb, value, attr)
    alias = bool(isinstance(value, np.ndarray) and isinstance(rb, np.ndarray) and np.shares_memory(rb, value))
    mutvis = False
    if isinstance(rb, np.ndarray):
        before = rb.copy()
        if _first_leaf_poke(value):
            rb2 = getattr(obj, attr)
            mutvis = not (isinstance(rb2, np.ndarray) and rb2.shape == before.shape and np.array_equal(rb2, before))
    later, later_exc = later_of(cls, obj)
    return rb, {"rb": rbd, "equal": equal, "alias": alias, "mutvis": mutvis, "later": later, "later_exc": later_exc}


def blank(oclass="na", exc=""):
    return {"oclass": oclass, "exc": exc, "rb": dict(NA_RB), "equal": False, "alias": False, "mutvis": False,
            "unchanged": True, "later": "na", "later_exc": ""}


def rb_same(a, b, attr):
    R = ctx()["R"]
    if isinstance(a, np.ndarray) or isinstance(b, np.ndarray):
        return isinstance(a, np.ndarray) and isinstance(b, np.ndarray) and a.shape == b.shape and a.dtype == b.dtype and bool(np.array_equal(a, b, equal_nan=a.dtype.kind == "f"))
    if isinstance(a, R) or isinstance(b, R):
        if not (isinstance(a, R) and isinstance(b, R)) or a.single != b.single or (not a.single and len(a) != len(b)):
            return False
        return bool(np.all(np.atleast_1d((a * b.inv()).magnitude()) < 1e-12))
    if callable(a) or callable(b):
        return a is b
    return type(a) is type(b) and a == b


def trial(cls, attr, value, ctor_only):
    """Constructor trial and setter trial with independent copies of the same value."""
    out = {}
    # (a) constructor
    vc = clone(value)
    oc, exc, obj = outcome_of(lambda: build(cls, ctor_kwargs(cls, attr, vc)))
    t = blank(oc, exc)
    rb_c = None
    if oc == "ok":
        rb_c, m = measure(cls, obj, attr, vc)
        rb_c = rb_c.copy() if isinstance(rb_c, np.ndarray) else rb_c
        t.update(m)
    out["ctor"] = t
    pair = True
    # (b) setter on a valid, completed object
    if ctor_only:
        out["set"] = blank()
        out["agree"] = True
    else:
        vs = clone(value)
        tgt = build(cls, dict(base_kwargs(cls)))
        before = digest(tgt)
        oc2, exc2, _ = outcome_of(lambda: setattr(tgt, attr, vs))
        t2 = blank(oc2, exc2)
        t2["unchanged"] = digest(tgt) == before
        rb_s = None
        if oc2 == "ok":
            rb_s, m = measure(cls, tgt, attr, vs)
            t2.update(m)
        if hasattr(tgt, "polarization") and hasattr(tgt, "magnetization"):
            pair = (tgt.polarization is None) == (tgt.magnetization is None)
        out["set"] = t2
        out["agree"] = rb_same(rb_c, rb_s, attr) if (oc == "ok" and oc2 == "ok") else True
    out["pair"] = bool(pair)
    return out


# ------------------------------------------------------------------------------------------ mutated copies
def mutants(value, r, every_axis):
    """Mutated copies of an accepted array value: one extent +-1, one rank +-1, one entry -> str / None."""
    try:
        a = np.array(value, dtype=float)
    except Exception:  # pylint: disable=broad-except
        return []
    out = []
    fill = 1.0 if a.size and np.all(a == np.round(a)) else 0.75     # integer-valued arrays (indices) stay integer-valued
    axes = list(range(a.ndim)) if every_axis else ([r.randrange(a.ndim)] if a.ndim else [])
    for ax in axes:
        one = list(a.shape)
        one[ax] = 1
        out.append(("ext+1", np.concatenate([a, np.full(one, fill)], axis=ax)))
        if a.shape[ax]:
            out.append(("ext-1", np.delete(a, a.shape[ax] - 1, axis=ax)))
    out.append(("rank+1", a[None]))
    out.append(("rank+1", a[..., None]))
    if a.ndim and a.shape[0]:
        out.append(("rank-1", a[0].copy()))
        out.append(("rank-1", a.reshape(-1)) if a.ndim > 1 else ("rank-1", a[0].copy()))
    if a.size:
        for rep, nm in (("x", "entry->str"), (None, "entry->None")):
            o = np.empty(a.size, dtype=object)
            o[:] = a.ravel().tolist()
            o[r.randrange(a.size)] = rep
            out.append((nm, o.reshape(a.shape).tolist() if a.ndim else o.reshape(())))
    res = []
    for nm, m in out:
        form = "ndarray_f"
        if isinstance(m, np.ndarray) and m.dtype != object and m.ndim and r.random() < 0.5:
            m, form = m.tolist(), "list"
        elif isinstance(m, np.ndarray) and m.dtype == object:
            form = "ndarray_o"
        elif isinstance(m, list):
            form = "list"
        res.append((nm, m, form))
    return res


# ------------------------------------------------------------------------------------------ sweep of one slot
def relevant(attr, d):
    """Mirror of MC_Inputs!Relevant (cross-checked through the number of triples)."""
    forced = d["kind"] == "array" and d["entries"] == "zero" and int(np.prod(d["shape"])) == 1
    return (d["kind"] != "array" or d["geom"] in ("na", "ok") or attr in ("dimension", "vertices")) and (attr == "faces" or d["ints"] == forced) and (d["entries"] != "oob" or attr == "faces")


def dkey(d):
    return json.dumps(d, sort_keys=True, separators=(",", ":"))


def run_pair(args):
    """Worker: all descriptors x instances for one (class, attribute), then mutated copies. Writes one ndjson file."""
    pidx, cls, attr, descs, k_inst, mut_cap, every_axis, path, want_tid = args
    ctor_only = cls == "TriangularMesh" and attr in ("vertices", "faces")
    tid0 = pidx * 1_000_000
    n = 0
    stats = {}
    seeds = []
    found = None
    with open(path, "w") as f:
        def emit(d, value, form, src):
            nonlocal n, found
            res = trial(cls, attr, value, ctor_only)
            ev = {"tid": tid0 + n, "cls": cls, "attr": attr, "src": src, "form": form, "d": d, **res}
            f.write(json.dumps(ev, separators=(",", ":")) + "\n")
            key = f"{res['ctor']['oclass']}/{res['set']['oclass']}"
            stats[key] = stats.get(key, 0) + 1
            if want_tid is not None and ev["tid"] == want_tid:
                found = (ev, repr(value))
            n += 1
            return res

        for d in descs:
            if not relevant(attr, d):
                continue
            for k in range(k_inst):
                r = rng(f"c17:{cls}:{attr}:{dkey(d)}:{k}")
                for _ in range(50):     # e.g. a float instance that happens to be integer-valued is drawn again
                    value, form = concretize(cls, attr, d, k, r)
                    got = describe(value, attr)
                    dd = dict(d, ints=got["ints"]) if (attr != "faces" and d["kind"] == "array") else d
                    if got == dd:       # integer and float instances alternate outside index arrays (MC_Inputs!Relevant)
                        break
                else:
                    raise MachineryError(f"concretization of {d} for {cls}.{attr} abstracts to {got}")
                res = emit(dd, value, form, "grammar")
                if res["ctor"]["oclass"] == "ok" and d["kind"] == "array" and k == 0 and d["entries"] in NUMERIC:
                    seeds.append(value)
        # mutated copies of values the implementation accepted
        r = rng(f"c17mut:{cls}:{attr}")
        seen = set()
        nm = 0
        r.shuffle(seeds)
        for value in seeds:
            for name, mv, form in mutants(value, r, every_axis):
                d = describe(mv, attr)
                if d["kind"] == "array" and len(d["shape"]) > 6:
                    continue
                kk = dkey(d)
                if kk in seen or nm >= mut_cap:
                    continue
                seen.add(kk)
                emit(d, mv, form, "mut:" + name)
                nm += 1
    return n, nm, stats, found
