"""Measurement side of the integral laws (spec/Integral.tla): flux of B through closed chart cells and
circulation of H around closed chart loops, from magpylib.getB / getH by Gauss-Legendre quadrature.

The plan (instances with faces and breakpoints) comes from TLC (dump of spec/MC_Integral); this module only
builds the real magpylib objects under a concretization kappa, evaluates the field at the quadrature nodes
(all nodes of all instances that share a scene in ONE getB/getH call) and logs the two integrals, their gross
scale (integral of |integrand|) and their own error estimate (order 16 against order 32).  No expected value
is computed here; the verdict is TV_Integral.tla's.
"""
import math
import os

for _v in ("OMP_NUM_THREADS", "OPENBLAS_NUM_THREADS", "MKL_NUM_THREADS"):  # 16 worker processes: no nested thread pools
    os.environ.setdefault(_v, "1")

import numpy as np

from ..common import cjson, import_magpylib, rng
from ..lattice import Kappa
from ..quant import q8, q12

ANG = math.pi / 12.0  # one angular chart unit = 15 degrees
_GL = {}


def gl(n):
    if n not in _GL:
        x, w = np.polynomial.legendre.leggauss(n)
        _GL[n] = ((x + 1) / 2, w / 2)
    return _GL[n]


# ------------------------------------------------------------------ plan (TLC dump) -> plain python
def plain(v):
    """tlaval value -> json-able python (sets -> sorted lists)"""
    from ..tlaval import TlaSet

    if isinstance(v, TlaSet):
        return sorted((plain(x) for x in v), key=lambda y: cjson(y))
    if isinstance(v, list):
        return [plain(x) for x in v]
    if isinstance(v, dict):
        ks = list(v.keys())
        if ks and all(isinstance(k, int) for k in ks):
            return [plain(v[k]) for k in sorted(ks)]
        return {k: plain(x) for k, x in v.items()}
    return v


def plan_from_states(states):
    out = []
    for s in states:
        inst = plain(s["inst"])
        der = plain(s["der"])
        for k in ("faces", "ebrk"):
            if not isinstance(der.get(k), list):
                der[k] = []
        out.append({"inst": inst, "der": {"faces": der["faces"], "brk": [sorted(b) for b in der["brk"]], "ebrk": der["ebrk"],
                                          "norm": der.get("norm") if isinstance(der.get("norm"), list) else [], "gross": der.get("gross", 0)},
                    "cls": der.get("cls", []), "hist": plain(s.get("hist", {}))})
    out.sort(key=lambda p: cjson(p["inst"]))
    return out


# ------------------------------------------------------------------ charts
def chart_map(ch, U):
    """chart coordinates U (m,3) -> (X, J): Cartesian points in the chart frame and J[:, :, k] = dX/du_k"""
    U = np.asarray(U, dtype=float)
    m = len(U)
    J = np.zeros((m, 3, 3))
    t = ch["type"]
    if t == "cart":
        X = U.copy()
        J[:] = np.eye(3)
    elif t == "aff":
        E = np.array(ch["e"], dtype=float).T / float(ch["n"])  # columns e_k / n
        X = np.array(ch["o"], dtype=float)[None, :] + U @ E.T
        J[:] = E
    elif t == "cyl":
        r, f, z = U[:, 0], U[:, 1] * ANG, U[:, 2]
        c, s = np.cos(f), np.sin(f)
        X = np.stack([r * c, r * s, z], axis=1)
        J[:, 0, 0], J[:, 1, 0] = c, s
        J[:, 0, 1], J[:, 1, 1] = -r * s * ANG, r * c * ANG
        J[:, 2, 2] = 1.0
    elif t == "sph":
        r, th, f = U[:, 0], U[:, 1] * ANG, U[:, 2] * ANG
        st, ct, sf, cf = np.sin(th), np.cos(th), np.sin(f), np.cos(f)
        X = np.stack([r * st * cf, r * st * sf, r * ct], axis=1)
        J[:, 0, 0], J[:, 1, 0], J[:, 2, 0] = st * cf, st * sf, ct
        J[:, 0, 1], J[:, 1, 1], J[:, 2, 1] = r * ct * cf * ANG, r * ct * sf * ANG, -r * st * ANG
        J[:, 0, 2], J[:, 1, 2] = -r * st * sf * ANG, r * st * cf * ANG
    else:
        raise ValueError(t)
    return X, J


def frame_to_lattice(ch, X):
    return np.asarray(ch["p"], dtype=float)[None, :] + X @ np.array(ch["R"], dtype=float).T


# ------------------------------------------------------------------ scenes -> real objects
BOX_FACES = [(0, 2, 1), (1, 2, 3), (4, 5, 6), (5, 7, 6), (0, 1, 4), (1, 5, 4), (2, 6, 3), (3, 6, 7), (0, 4, 2), (2, 4, 6), (1, 3, 5), (3, 7, 5)]
TRI_BASED = {"Tetrahedron", "TriangularMesh", "Triangle"}


def union_box_mesh(verts):
    """closed, outward oriented triangle mesh of the union of the lattice boxes [verts[2i], verts[2i+1]] (non-convex orthogonal bodies).
    The union is cut by all box planes into grid cells; every cell face with free space behind it gives two triangles."""
    boxes = [(np.array(verts[i]), np.array(verts[i + 1])) for i in range(0, len(verts), 2)]
    cuts = [sorted({int(b[j][k]) for b in boxes for j in (0, 1)}) for k in range(3)]
    n = [len(c) - 1 for c in cuts]
    occ = np.zeros(n, dtype=bool)
    for i in range(n[0]):
        for j in range(n[1]):
            for k in range(n[2]):
                lo = np.array([cuts[0][i], cuts[1][j], cuts[2][k]])
                hi = np.array([cuts[0][i + 1], cuts[1][j + 1], cuts[2][k + 1]])
                occ[i, j, k] = any((b[0] <= lo).all() and (hi <= b[1]).all() for b in boxes)
    vid, V, F = {}, [], []

    def vert(p):
        if p not in vid:
            vid[p] = len(V)
            V.append(p)
        return vid[p]

    for idx in np.argwhere(occ):
        lo = [cuts[k][idx[k]] for k in range(3)]
        hi = [cuts[k][idx[k] + 1] for k in range(3)]
        for ax in range(3):
            a1, a2 = (ax + 1) % 3, (ax + 2) % 3
            for side in (0, 1):
                nb = idx.copy()
                nb[ax] += 1 if side else -1
                if 0 <= nb[ax] < n[ax] and occ[tuple(nb)]:
                    continue
                c = [0, 0, 0]
                c[ax] = hi[ax] if side else lo[ax]
                q = []
                for u, w in ((lo[a1], lo[a2]), (hi[a1], lo[a2]), (hi[a1], hi[a2]), (lo[a1], hi[a2])):  # counter-clockwise about +ax
                    c[a1], c[a2] = u, w
                    q.append(vert(tuple(c)))
                if not side:
                    q = q[::-1]
                F += [(q[0], q[1], q[2]), (q[0], q[2], q[3])]
    return np.array(V, dtype=float), np.array(F, dtype=int)


def build_source(magpy, s, kap):
    lam = kap.lam
    kw = {"position": kap.pos(s["p"]), "orientation": kap.rot(s["R"])}
    cls, dim, exc = s["cls"], s["dim"], [float(v) for v in s["exc"]]
    if cls == "Cuboid":
        return magpy.magnet.Cuboid(polarization=exc, dimension=[lam * d for d in dim], **kw)
    if cls == "Cylinder":
        return magpy.magnet.Cylinder(polarization=exc, dimension=[lam * dim[0], lam * dim[1]], **kw)
    if cls == "CylinderSegment":
        return magpy.magnet.CylinderSegment(polarization=exc, dimension=[lam * dim[0], lam * dim[1], lam * dim[2], 15.0 * dim[3], 15.0 * dim[4]], **kw)
    if cls == "Sphere":
        return magpy.magnet.Sphere(polarization=exc, diameter=lam * dim[0], **kw)
    if cls == "Tetrahedron":
        return magpy.magnet.Tetrahedron(polarization=exc, vertices=lam * np.array(s["verts"], dtype=float), **kw)
    if cls == "Triangle":
        return magpy.misc.Triangle(polarization=exc, vertices=lam * np.array(s["verts"], dtype=float), **kw)
    if cls == "TriangularMesh" and not dim:
        v, f = union_box_mesh(s["verts"])
        return magpy.magnet.TriangularMesh(polarization=exc, vertices=lam * v, faces=f, **kw)
    if cls == "TriangularMesh":
        h = np.array(dim, dtype=float) / 2
        v = np.array([[sx * h[0], sy * h[1], sz * h[2]] for sx in (-1, 1) for sy in (-1, 1) for sz in (-1, 1)]) * lam
        return magpy.magnet.TriangularMesh(polarization=exc, vertices=v, faces=np.array(BOX_FACES), **kw)
    if cls == "Dipole":
        return magpy.misc.Dipole(moment=exc, **kw)
    if cls == "Circle":
        return magpy.current.Circle(current=exc[0], diameter=lam * dim[0], **kw)
    if cls == "Polyline":
        return magpy.current.Polyline(current=exc[0], vertices=lam * np.array(s["verts"], dtype=float), **kw)
    raise ValueError(cls)


def build_scene(magpy, scene, kap):
    objs = [build_source(magpy, s, kap) for s in scene]
    return objs[0] if len(objs) == 1 else magpy.Collection(*objs)


def kappa_for(scene, r, generic=True):
    """random concretization; triangle-based classes stay within 1e-3..1e3 m per lattice unit (their absolute
    tolerances are the subject of C12 / finding S7, not of the integral laws)"""
    tri = any(s["cls"] in TRI_BASED for s in scene)
    return Kappa.random(r, decades=(-3, 3) if tri else (-9, 9), generic=generic)


# ------------------------------------------------------------------ quadrature nodes
def _pieces(lo, hi, brk, sub):
    pts = [float(lo)] + [float(b) for b in sorted(brk) if lo < b < hi] + [float(hi)]
    out = []
    for a, b in zip(pts[:-1], pts[1:]):
        for k in range(sub):
            out.append((a + (b - a) * k / sub, a + (b - a) * (k + 1) / sub))
    return out


def flux_nodes(inst, der, n, sub):
    """-> (U (m,3) chart coordinates, W (m,) weights, AX (m,) face axis, SG (m,) sign)"""
    lo, hi = inst["lo"], inst["hi"]
    t, w = gl(n)
    Us, Ws, AXs, SGs = [], [], [], []
    for ax, sgn, val in der["faces"]:
        k = ax - 1
        a1, a2 = (k + 1) % 3, (k + 2) % 3
        for u0, u1 in _pieces(lo[a1], hi[a1], der["brk"][a1], sub):
            for v0, v1 in _pieces(lo[a2], hi[a2], der["brk"][a2], sub):
                U = np.empty((n, n, 3))
                U[..., k] = float(val)
                U[..., a1] = (u0 + t * (u1 - u0))[:, None]
                U[..., a2] = (v0 + t * (v1 - v0))[None, :]
                Us.append(U.reshape(-1, 3))
                Ws.append((w[:, None] * w[None, :]).reshape(-1) * (u1 - u0) * (v1 - v0))
                AXs.append(np.full(n * n, k))
                SGs.append(np.full(n * n, float(sgn)))
    return np.concatenate(Us), np.concatenate(Ws), np.concatenate(AXs), np.concatenate(SGs)


def graded(level):
    """panels of [0,1]: one panel for level 0, else dyadically graded towards both ends down to 2**-level
    (material surfaces, switch surfaces and the nearest approach to wires sit at the ends of the pieces)"""
    if level <= 0:
        return [(0.0, 1.0)]
    left = [0.0] + [2.0 ** -k for k in range(level, 0, -1)]  # 0, 2^-L, ..., 1/2
    pts = left + [1.0 - x for x in reversed(left[:-1])]
    return list(zip(pts[:-1], pts[1:]))


def circ_nodes(inst, der, n, sub):
    """-> (U (m,3), W (m,), D (m,3) = b - a of the edge in chart coordinates); sub = grading level of every piece"""
    t, w = gl(n)
    # sub = 100 * u + L: every piece is cut into u equal parts (default 1), each graded to level L
    u, lev = max(1, sub // 100), (0 if sub % 100 <= 1 else sub % 100)
    g0 = np.array(graded(lev))
    g = np.concatenate([(g0 + k) / u for k in range(u)])  # (k,2) panels of the unit interval
    Us, Ws, Ds = [], [], []
    for (a, b), brk in zip(inst["edges"], der["ebrk"]):
        a, b = np.array(a, dtype=float), np.array(b, dtype=float)
        ts = np.array(sorted(set([0.0, 1.0] + [num / den for num, den in brk])))
        t0, t1 = ts[:-1, None], ts[1:, None]
        s0 = (t0 + (t1 - t0) * g[None, :, 0]).reshape(-1)  # all panels of all pieces of this edge
        s1 = (t0 + (t1 - t0) * g[None, :, 1]).reshape(-1)
        tt = (s0[:, None] + t[None, :] * (s1 - s0)[:, None]).reshape(-1)
        Us.append(a[None, :] + tt[:, None] * (b - a)[None, :])
        Ws.append((w[None, :] * (s1 - s0)[:, None]).reshape(-1))
        Ds.append(np.broadcast_to(b - a, (len(tt), 3)))
    return np.concatenate(Us), np.concatenate(Ws), np.concatenate(Ds)


def integrand(inst, der, n, sub):
    """chart-frame geometry of all nodes of one instance: lattice points P and the weighted vector G such that
    integral = sum_i F(P_i) . G_i (F = B resp. H expressed in the chart frame)"""
    ch = inst["ch"]
    if inst["law"] == "flux":
        U, W, AX, SG = flux_nodes(inst, der, n, sub)
        X, J = chart_map(ch, U)
        idx = np.arange(len(U))
        nrm = np.cross(J[idx, :, (AX + 1) % 3], J[idx, :, (AX + 2) % 3]) * SG[:, None]  # right-handed chart: outward
        G = nrm * W[:, None]
    else:
        U, W, D = circ_nodes(inst, der, n, sub)
        X, J = chart_map(ch, U)
        G = np.einsum("mik,mk->mi", J, D) * W[:, None]
    return X, G


# ------------------------------------------------------------------ measurement
QCAP = 2_000_000_000


def measure_points(magpy, obj, items, kap):
    """point laws: the returned field at integer offsets, after the unit conversion supplied by the specification
    (der.norm = [use rho^5, num, den, power of pi, power of lambda, power of mu0]), in units of 1e-8 of der.gross"""
    mu0 = float(magpy.mu_0)
    out = []
    dummy = {"meas": {"q": [0, 0], "fin": True}, "meas8": 0, "qerr": 0, "qerr1": 0, "qppm": [0, 0], "sub": 0, "amp": {"big": False, "q": [0, 0]}}
    # mean-value law: the field at a lattice point and at its six lattice neighbours c +- h e_k (global lattice axes),
    # quantized in units of 1e-8 of the largest component among the seven vectors
    STEN = np.array([[0, 0, 0], [1, 0, 0], [-1, 0, 0], [0, 1, 0], [0, -1, 0], [0, 0, 1], [0, 0, -1]], dtype=float)
    for field in ("B", "H"):
        sel = [it for it in items if it[1]["pt"]["field"] == field and it[1]["pt"]["kind"] == "harmonic"]
        if not sel:
            continue
        P = np.concatenate([np.array(it[1]["pt"]["obs"], dtype=float)[None, :] + STEN * float(it[1]["pt"]["rho"]) for it in sel])
        F = np.asarray(obj.getB(kap.pos(P)) if field == "B" else obj.getH(kap.pos(P)), dtype=float).reshape(-1, 3)
        F = kap.unvec(F).reshape(len(sel), 7, 3)
        for (tid, inst, der), f in zip(sel, F):
            fin = np.isfinite(f)
            g = float(np.abs(f[fin]).max()) if fin.any() else 1.0
            out.append(dict(dummy, tid=tid, kappa="id" if kap.identity else "rnd", inst=inst, der=der, nodes=7,
                            obs={"q": [0, 0, 0], "fin": [True, True, True]},
                            obs7={"q": [[max(-QCAP, min(QCAP, int(v))) for v in q8(row, g)] for row in f], "fin": fin.tolist()},
                            raw={"field7": f.tolist(), "gross": g, "lam": kap.lam}))
    for field in ("B", "H"):
        sel = [it for it in items if it[1]["pt"]["field"] == field and it[1]["pt"]["kind"] != "harmonic"]
        if not sel:
            continue
        P = kap.pos(np.array([it[1]["pt"]["obs"] for it in sel], dtype=float))
        F = np.asarray(obj.getB(P) if field == "B" else obj.getH(P), dtype=float).reshape(-1, 3)
        F = kap.unvec(F)
        for (tid, inst, der), f in zip(sel, F):
            r5, num, den, pik, le, me = der["norm"]
            fac = (float(inst["pt"]["rho"]) ** 5 if r5 else 1.0) * num / den * math.pi ** pik * kap.lam ** le * mu0 ** me
            w = f * fac
            g = float(der["gross"])
            out.append({"tid": tid, "kappa": "id" if kap.identity else "rnd", "inst": inst, "der": der,
                        "obs": {"q": [max(-QCAP, min(QCAP, int(v))) for v in q8(w, g)], "fin": [bool(math.isfinite(x)) for x in w]},  # 32-bit for TLC
                        "meas": {"q": [0, 0], "fin": True}, "meas8": 0, "qerr": 0, "qerr1": 0, "qppm": [0, 0], "sub": 0, "nodes": 1,
                        "amp": {"big": False, "q": [0, 0]}, "raw": {"field": [float(x) for x in f], "w_over_gross": [float(x) / g for x in w], "lam": kap.lam}})
    return out


SUBS_DEFAULT = {"flux": (1, 3), "circ": (1, 7, 810)}   # flux: uniform k x k panels per piece; circ: grading level per piece


LAMBDAS = (1e-9, 1e-6, 1e3)   # metres per lattice unit for the deterministic rescalings (besides 1 = identity)
MAX_CALL_NODES = 150_000   # points per getB / getH call: bounds the memory of a worker (~0.3 GB incl. magpylib temporaries)


def _call_cap(obj):
    """points per single field call, by the most expensive class in the scene"""
    names = {type(o).__name__ for o in (obj.sources_all if hasattr(obj, "sources_all") else [obj])}
    if names & {"CylinderSegment", "TriangularMesh", "Tetrahedron"}:
        return 8_000
    if names & {"Cylinder", "Triangle", "Polyline"}:
        return 30_000
    return 100_000


def _eval_batch(obj, kap, law, geo, res):
    """one getB / getH call for all nodes in geo; res[(tid, order)] = (integral, gross, finite, nodes)"""
    P = np.concatenate([kap.pos(frame_to_lattice(ch, X)) for _, _, ch, X, _ in geo])
    # the field call itself is cut into slices: magpylib's temporaries are 10^2..10^3 floats per point for the cylinder-segment and
    # triangle-based classes (a worker with 1.5e5 segment points was seen at 5 GB and killed by the kernel when several checks ran side by side)
    fn = obj.getB if law == "flux" else obj.getH
    step = _call_cap(obj)
    F = np.concatenate([np.asarray(fn(P[i:i + step]), dtype=float).reshape(-1, 3) for i in range(0, len(P), step)])
    F = kap.unvec(F)  # back to lattice orientation
    scale = kap.lam if law == "circ" else 1.0  # amperes resp. lattice units (lam^2 drops out of flux/gross)
    o = 0
    for tid, n, ch, X, G in geo:
        m = len(X)
        Ff = F[o:o + m] @ np.array(ch["R"], dtype=float)  # components in the chart frame: R^T F
        o += m
        d = np.einsum("ij,ij->i", Ff, G)
        mag = np.linalg.norm(Ff, axis=1) * np.linalg.norm(G, axis=1)  # |F| |dA| resp. |F| |dl|: the gross scale is its sum
        ok = np.isfinite(d)
        res[(tid, n)] = (float(d[ok].sum()) * scale, float(mag[ok].sum()) * scale, bool(ok.all()), m)


def measure_group(magpy, scene, items, kap, orders=(16, 32), qerr_redo=1e-9):
    """items: list of (tid, inst, der) sharing `scene`. Returns list of event dicts (without prop).
    Pieces whose two orders disagree by more than qerr_redo of the gross scale are measured once more with every
    piece subdivided (composite rule); what remains above 1e-8 is reported as it is (the validator calls it unmeasurable)."""
    obj = build_scene(magpy, scene, kap)
    # the segment field costs ~0.2 ms per point: refine its flux cells 2 x 2 instead of 3 x 3
    SUBS = dict(SUBS_DEFAULT, flux=(1, 2)) if any(s["cls"] == "CylinderSegment" for s in scene) else SUBS_DEFAULT
    points = [it for it in items if it[1]["law"] == "point"]
    todo = [it for it in items if it[1]["law"] != "point"]
    done = {}
    first = {}
    if points:
        for ev in measure_points(magpy, obj, points, kap):
            done[ev["tid"]] = ev
    for rnd in range(3):
        if not todo:
            break
        res = {}
        for law in ("flux", "circ"):
            if rnd >= len(SUBS[law]):
                continue
            sub = SUBS[law][rnd]
            geo, nn = [], 0
            for tid, inst, der in todo:
                if inst["law"] != law:
                    continue
                for n in orders:
                    X, G = integrand(inst, der, n, sub)
                    geo.append((tid, n, inst["ch"], X, G))
                    nn += len(X)
                if nn >= MAX_CALL_NODES:  # bounded memory
                    _eval_batch(obj, kap, law, geo, res)
                    geo, nn = [], 0
            if geo:
                _eval_batch(obj, kap, law, geo, res)
        nxt = []
        for tid, inst, der in todo:
            if (tid, orders[0]) not in res:
                continue
            sub = SUBS[inst["law"]][rnd]
            v16, g16, f16, m16 = res[(tid, orders[0])]
            v32, g32, f32, m32 = res[(tid, orders[1])]
            gross = max(g32, g16)
            qerr = abs(v32 - v16) / gross if gross > 0 else 0.0
            ev = {"tid": tid, "kappa": "id" if kap.identity else "rnd", "inst": inst, "der": der,
                  "meas": {"q": q12(v32, gross), "fin": bool(f16 and f32)}, "meas8": q8(v32, gross),
                  "qerr": int(min(round(qerr * 1e12), QCAP)), "sub": sub, "nodes": m16 + m32 + (done[tid]["nodes"] if tid in done else 0),
                  "raw": {"v16": v16, "v32": v32, "gross": gross, "lam": kap.lam}}
            if inst["law"] == "circ":
                big = not (gross > 0 and 1.0 / gross <= 100.0)
                ev["amp"] = {"big": bool(big), "q": [0, 0] if big else q12(1.0, gross)}
            else:
                ev["amp"] = {"big": False, "q": [0, 0]}
            first.setdefault(tid, qerr)
            ev["obs"] = {"q": [0, 0, 0], "fin": [True, True, True]}
            ev["qerr1"] = int(min(round(first[tid] * 1e12), QCAP))  # error estimate before any refinement
            ev["qppm"] = [int(round(first[tid] * 1e6)), int(round(qerr * 1e6))]
            done[tid] = ev
            if ev["meas"]["fin"] and qerr > qerr_redo and rnd + 1 < len(SUBS[inst["law"]]):
                nxt.append((tid, inst, der))
        todo = nxt
    return [done[t] for t, _, _ in items]


TV_KEYS = ("tid", "prop", "kappa", "inst", "der", "meas", "meas8", "qerr", "qppm", "sub", "amp", "obs")
NO_OBS7 = {"q": [], "fin": []}


def tv_event(e):
    """the integer-only part of an event that the validator reads"""
    d = {k: e[k] for k in TV_KEYS}
    d["obs7"] = e.get("obs7", NO_OBS7)
    return d


def run_job(job):
    """one worker: job = (prop, salt, [(scene_key, kappa_mode, [(tid, inst, der), ...]), ...]) -> list of events"""
    prop, salt, groups = job
    magpy = import_magpylib()
    out = []
    for gi, (mode, items) in enumerate(groups):
        scene = items[0][1]["scene"]
        if mode == "id":
            kap = Kappa()
        elif mode.startswith("lam"):
            kap = Kappa(float(mode[3:]))
        else:
            kap = kappa_for(scene, rng(f"{salt}:{mode}:{cjson(scene)}"))
        try:
            evs = measure_group(magpy, scene, items, kap)
        except Exception as ex:  # an exception of the library on a well-posed instance is itself an observation
            evs = [{"tid": tid, "kappa": "id" if kap.identity else "rnd", "inst": inst, "der": der, "meas": {"q": [0, 0], "fin": False}, "meas8": 0,
                    "qerr": 0, "qerr1": 0, "qppm": [0, 0], "sub": 0, "nodes": 0, "obs": {"q": [0, 0, 0], "fin": [False, False, False]}, "amp": {"big": False, "q": [0, 0]}, "raw": {"exception": repr(ex), "lam": kap.lam}} for tid, inst, der in items]
        for e in evs:
            if mode.startswith("lam"):
                e["kappa"] = mode
            e["prop"] = prop
            e["kappa_desc"] = kap.describe()
        out += evs
    return out


def make_jobs(prop, plan, tier, nproc=16, rnd_every=3, max_group_nodes=400_000):
    """group plan items by scene (one field call per group), estimate cost, balance over workers.
    Every instance is measured under kappa = identity; every `rnd_every`-th scene group additionally under a random kappa."""
    cost_of = {"CylinderSegment": 220.0, "TriangularMesh": 20.0, "Tetrahedron": 11.0, "Cuboid": 8.0, "Polyline": 5.0, "Cylinder": 3.5}
    groups = {}
    base_pose = set()
    for tid, p in enumerate(plan):
        groups.setdefault(cjson(p["inst"]["scene"]), []).append((tid, p["inst"], p["der"]))
        if p.get("hist", {}).get("nmv", 0) == 0:
            base_pose.add(tid)
    units = []
    for gi, (key, items) in enumerate(sorted(groups.items())):
        scene = items[0][1]["scene"]
        c = sum(cost_of.get(s["cls"], 1.5) for s in scene)
        # split big groups so that one field call stays below max_group_nodes points
        chunk, acc, n = [], [], 0
        cap = max_group_nodes / max(1.0, c / 8.0)  # expensive classes: smaller field calls, better balance
        for it in items:
            est = _est_nodes(it[1], it[2])
            if acc and n + est > cap:
                chunk.append(acc)
                acc, n = [], 0
            acc.append(it)
            n += est
        if acc:
            chunk.append(acc)
        for ci, ch in enumerate(chunk):
            est = sum(_est_nodes(i, d) for _, i, d in ch) * c
            units.append((est, ("id", ch)))
            if (gi + ci) % rnd_every == 0:
                off = 1_000_000
                units.append((est, ("rnd1", [(t + off, i, d) for t, i, d in ch])))
            # current-carrying scenes: deterministic small and large length units (pure rescaling of the lattice), base poses only
            if any(s["cls"] in ("Polyline", "Circle") for s in scene):
                sel = [it for it in ch if it[0] in base_pose and it[1]["law"] != "point"]
                for k, lam in enumerate(LAMBDAS):
                    if sel:
                        units.append((est * len(sel) / len(ch), (f"lam{lam:g}", [(t + (k + 2) * 1_000_000, i, d) for t, i, d in sel])))
    units.sort(key=lambda u: -u[0])
    if nproc == 1:
        return [(prop, f"{prop}:{tier}", [u for _, u in units])]
    # one task per unit, most expensive first: the pool schedules them dynamically (chunksize 1)
    return [(prop, f"{prop}:{tier}", [u]) for _, u in units]


def _est_nodes(inst, der):
    if inst["law"] == "point":
        return 1
    if inst["law"] == "flux":
        n = 0
        for ax, _, _ in der["faces"]:
            k = ax - 1
            n += (len(der["brk"][(k + 1) % 3]) + 1) * (len(der["brk"][(k + 2) % 3]) + 1)
        return n * 1280
    return (sum(len(b) + 1 for b in der["ebrk"]) * 48 if der["ebrk"] else 48) * 8   # x8: typical share of refined loops
