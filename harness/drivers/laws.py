"""Binding C (law instances) of spec/Laws.tla to real magpylib sources: C03 covariance, C12 unit invariance,
C13 representation / partition independence.

TLC (spec/MC_Laws.tla) explores behaviours over abstract configurations and checks the exact premises; its
distinct states (prev, last, cur) are the test plan.  This driver INSTANTIATES each abstract configuration as
real magpylib objects under a concretization kappa (generic rigid motion G, lattice unit lambda), calls
getB / getH / getJ and logs the fixed-point observations.  It never computes an expected value and never
decides anything: spec/TV_Laws.tla re-checks the premise and judges the conclusion.
"""
import hashlib
import json
import math
import multiprocessing as mp
import os

import numpy as np
from scipy.spatial.transform import Rotation as R

from .. import tlc
from ..common import MachineryError, cjson, import_magpylib, rng, tier, workdir
from ..lattice import Kappa, mat_to_rot
from ..quant import gross, q8, q12

MESH_KW = dict(check_open="ignore", check_disconnected="ignore", check_selfintersecting="ignore", reorient_faces="ignore")
POLY_NS = (16, 64, 256)
FINE_E = (5, 6, 7)                                               # path increments scaled by 1e-5, 1e-6, 1e-7: steps of 1e-3 .. 1e-5 degrees
SUM_LAWS = ("Split", "SplitSeg", "Merge", "Convert", "Op")       # conclusions on sums over the sources: two-limb quantization


# ------------------------------------------------------------------------------------------- concretization
def kappa_params(salt, decades, lam_exact=None):
    """Deterministic concretization parameters: lam0 (metres per lattice unit at cfg.k = 0), generic rotation, translation."""
    r = rng("kappa:" + salt)
    lam0 = 10.0 ** r.uniform(*decades) if lam_exact is None else float(lam_exact)
    q = np.array([r.gauss(0, 1) for _ in range(4)])
    q /= np.linalg.norm(q)
    mode = r.random()
    if mode < 0.15:
        # a global rotation by a fraction of a degree: orientations ALMOST equal to lattice orientations (shortcuts for "unrotated" objects)
        ang = math.radians(r.uniform(0.03, 0.45))
        ax = q[:3] / np.linalg.norm(q[:3])
        q = np.array([*(ax * math.sin(ang / 2)), math.cos(ang / 2)])
    elif mode < 0.3:
        # scalar part negative (rotation angle beyond 180 degrees): the same rotation as -q
        q = -np.abs(q[3]) * np.array([0, 0, 0, 1.0]) + np.array([q[0], q[1], q[2], 0.0])
        q = -q if q[3] > 0 else q
        q /= np.linalg.norm(q)
    elif mode < 0.4:
        q = np.array([0.0, 0.0, 0.0, 1.0])      # no global rotation: the lattice orientations themselves (exact inverse pairs, axes in special planes)
    t0 = [r.uniform(-3, 3) for _ in range(3)]
    return {"lam0": lam0, "quat": q.tolist(), "t0": t0, "decade": int(math.floor(math.log10(lam0) + 1e-12))}


def exact_gauge(salt):
    """The lattice itself: no global rotation, no translation, lattice unit a power of two (every lattice coordinate, dimension and
    difference is exact in binary floating point).  Observers placed exactly ON the extension of an edge or of a face plane are
    seen there by the implementation too; a generic rotation would move them off by rounding noise."""
    r = rng("exact:" + salt)
    e = r.randint(-30, 30)                     # 2^-30 .. 2^30 = 1e-9 .. 1e9 m
    lam0 = 2.0 ** e
    return {"lam0": lam0, "quat": [0.0, 0.0, 0.0, 1.0], "t0": [0.0, 0.0, 0.0], "decade": int(math.floor(math.log10(lam0) + 1e-12))}


def generic_gauge(salt, decades=(-9, 9)):
    """A global rotation all of whose quaternion components are sizeable (no special direction, no small angle)."""
    r = rng("generic:" + salt)
    lam0 = 10.0 ** r.uniform(*decades)
    while True:
        q = np.array([r.gauss(0, 1) for _ in range(4)])
        q /= np.linalg.norm(q)
        if np.abs(q).min() > 0.2:
            break
    return {"lam0": lam0, "quat": q.tolist(), "t0": [r.uniform(-3, 3) for _ in range(3)], "decade": int(math.floor(math.log10(lam0) + 1e-12))}


def regauge(kp, salt):
    """Same lattice unit, another generic global rotation and translation (law KappaInvariance)."""
    k2 = kappa_params(salt, (0, 0), lam_exact=kp["lam0"])
    k2["decade"] = kp["decade"]
    return k2


def make_kappa(kp, cfg):
    lam = kp["lam0"] * 10.0 ** cfg["k"]
    return Kappa(lam, R.from_quat(kp["quat"]), np.array(kp["t0"]) * lam)


# ------------------------------------------------------------------------------------------- abstract -> real objects
class Builder:
    def __init__(self):
        self.magpy = import_magpylib()

    def pose(self, path, den, kap, fine=0, ref=None, at=0):
        """Poses of a path under the concretization.  fine = e > 0: the small-angle image - position increments (relative to
        the first pose) scaled by eps = 10^-e and the orientation R0 * exp(eps * log(R0^T r_i)) with the reference orientation
        R0 = `ref` (first orientation of the first source for all sources, the own first orientation for the sensor).
        at = m > 0: the static placement at pose number min(m, length) of that (image) path."""
        P = np.array([ps["p"] for ps in path], dtype=float)
        mats = [ps["r"] for ps in path]
        if fine:
            eps = 10.0 ** (-fine)
            P = P[0] + eps * (P - P[0])
            r0 = mat_to_rot(ref if ref is not None else mats[0])
            rel = r0.inv() * mat_to_rot(mats)
            rots = r0 * R.from_rotvec(np.atleast_2d(rel.as_rotvec()) * eps)
        else:
            rots = mat_to_rot(mats)
        if at:
            k = min(at, len(path)) - 1
            P, rots = P[k:k + 1], rots[k:k + 1]
        pos = np.array([kap.pos(p / den) for p in P])
        rot = kap.RG * rots
        if len(P) == 1:
            return pos[0], rot[0]
        return pos, rot

    def source(self, src, cfg, kap, ngon=None, fine=0, at=0):
        m = self.magpy
        den = cfg["den"]
        u = kap.lam / den                      # metres per abstract length unit
        f = 10.0 ** cfg["ea"]
        exc = np.array(src["exc"], dtype=float) * f
        pos, rot = self.pose(src["path"], den, kap, fine, cfg["srcs"][0]["path"][0]["r"], at)
        kw = dict(position=pos, orientation=rot)
        c, g = src["cls"], src["geo"]
        if c == "Cuboid":
            return m.magnet.Cuboid(polarization=exc, dimension=np.array(g, dtype=float) * u, **kw)
        if c == "Cylinder":
            return m.magnet.Cylinder(polarization=exc, dimension=np.array(g, dtype=float) * u, **kw)
        if c == "CylinderSegment":
            # the same section written one turn lower (angles below -180 deg) for static sources, as given for sources with a path
            off = -360.0 if (len(src["path"]) == 1 and g[3] >= 0 and g[4] - g[3] < 24) else 0.0
            return m.magnet.CylinderSegment(polarization=exc, dimension=(g[0] * u, g[1] * u, g[2] * u, 15.0 * g[3] + off, 15.0 * g[4] + off), **kw)
        if c == "Sphere":
            return m.magnet.Sphere(polarization=exc, diameter=g[0] * u, **kw)
        if c == "Tetrahedron":
            verts = np.array(g, dtype=float) * u
            # the same body with its vertices listed left-handed (static sources) or right-handed (sources with a path)
            det = np.linalg.det(verts[1:] - verts[0])
            if (det > 0) == (len(src["path"]) == 1):
                verts = verts[[0, 1, 3, 2]]
            return m.magnet.Tetrahedron(polarization=exc, vertices=verts, **kw)
        if c == "Triangle":
            return m.misc.Triangle(polarization=exc, vertices=np.array(g, dtype=float) * u, **kw)
        if c in ("TriangularMesh", "TriangleCollection"):
            verts = np.array(g[0], dtype=float) * u
            faces = np.array(g[1], dtype=int) - 1 if len(g[1]) else None
            for fi in src.get("flip", []):     # these faces are handed over with inverted winding
                faces[fi - 1] = faces[fi - 1][[0, 2, 1]]
            rep = src["rep"]
            TM = m.magnet.TriangularMesh
            if rep == "from_ConvexHull":
                mesh = TM.from_ConvexHull(points=verts, polarization=exc, **MESH_KW, **kw)
            elif rep == "from_mesh":
                mesh = TM.from_mesh(mesh=verts[faces], polarization=exc, **MESH_KW, **kw)
            elif rep == "from_triangles":
                tris = [m.misc.Triangle(vertices=verts[fc], polarization=exc) for fc in faces]
                mesh = TM.from_triangles(triangles=tris, polarization=exc, **MESH_KW, **kw)
            elif rep == "ctor_skip":           # built un-normalised: the faces stay as given until reorient_faces() is called
                mesh = TM(vertices=verts, faces=faces, polarization=exc, **dict(MESH_KW, reorient_faces="skip"), **kw)
            else:
                mesh = TM(vertices=verts, faces=faces, polarization=exc, **MESH_KW, **kw)
            # the history of the live object
            probe = np.asarray(mesh.position).reshape(-1, 3)[0] + kap.vec(np.array([0.37, -0.23, 0.61]) * u)
            for op in src.get("ops", []):
                if op == "use":
                    mesh.getB(probe)
                    mesh.getH(probe)
                elif op == "mesh":
                    _ = mesh.mesh.shape
                elif op == "tricoll":
                    mesh.to_TriangleCollection()
                elif op == "check":
                    mesh.check_open(mode="ignore")
                    mesh.check_disconnected(mode="ignore")
                    mesh.check_selfintersecting(mode="ignore")
                elif op == "reorient":
                    mesh.reorient_faces(mode="ignore")
                else:
                    raise MachineryError(f"unknown object operation {op}")
            if c == "TriangleCollection":
                return mesh.to_TriangleCollection()
            return mesh
        if c == "Circle":
            return m.current.Circle(current=exc[0], diameter=g[0] * u, **kw)
        if c == "Polygon":
            n = ngon or g[1]
            a = 2 * np.pi * np.arange(n + 1) / n
            a[-1] = 0.0
            rr = g[0] * u / 2
            verts = np.stack([rr * np.cos(a), rr * np.sin(a), 0 * a], axis=1)
            return m.current.Polyline(current=exc[0], vertices=verts, **kw)
        if c == "Polyline":
            return m.current.Polyline(current=exc[0], vertices=np.array(g, dtype=float) * u, **kw)
        if c == "Dipole":
            if len(g) == 0:
                return m.misc.Dipole(moment=exc, **kw)
            d = g[0] * u                       # the dipole equivalent to a sphere: moment = pol / mu0 * V, V = pi d^3 / 6
            return m.misc.Dipole(moment=exc / m.mu_0 * (np.pi * d ** 3 / 6), **kw)
        if c == "Custom":
            amp = exc

            def lattice_field(field, observers, u=u, amp=amp, mu0=m.mu_0):
                if field in ("J", "M"):
                    return np.zeros_like(observers)
                x = observers / u              # local observer in abstract length units
                poly = np.stack([x[:, 0] * x[:, 1] + x[:, 2], x[:, 1] - 2 * x[:, 2] * x[:, 0], x[:, 2] ** 2 + x[:, 0]], axis=1)
                out = amp * poly
                return out if field == "B" else out / mu0
            return m.misc.CustomSource(field_func=lattice_field, **kw)
        raise MachineryError(f"unknown source class {c}")

    def observers(self, cfg, kap, fine=0, at=0):
        den = cfg["den"]
        pts = np.array([o["x"] for o in cfg["obs"]], dtype=float)
        if cfg["sens"]["on"]:
            pos, rot = self.pose(cfg["sens"]["path"], den, kap, fine, None, at)
            return self.magpy.Sensor(pixel=pts * (kap.lam / den), position=pos, orientation=rot)
        return np.array([kap.pos(p / den) for p in pts])

    def collection_move(self, srcs, sensor, via, act, cfg, kap):
        """The abstract step RigidMove(g, t) realised the way users move a whole setup: the objects (built in the first frame) are
        put into a Collection - flat, or nested two levels deep with inner collections at other positions - and the collection is
        rotated / moved / re-posed.  In the global frame the step is x -> Rg x + T."""
        m = self.magpy
        den = cfg["den"]
        Rg = kap.RG * mat_to_rot(act["g"]) * kap.RG.inv()
        T = kap.tG - Rg.apply(kap.tG) + kap.lam * kap.RG.apply(np.array(act["t"], dtype=float) / den)
        c0, c1, c2 = (kap.pos(np.array(c, dtype=float) / den) for c in ((6, -10, 4), (-14, 2, 8), (4, 12, -6)))
        members = list(srcs) + ([sensor] if sensor is not None else [])
        outer = m.Collection(position=c0)
        if via == "flat_rot":
            outer.add(*members)
        else:
            inner = m.Collection(position=c2)
            inner.add(members[0])
            mid = m.Collection(position=c1)
            mid.add(inner)
            outer.add(mid, *members[1:])
        if via in ("flat_rot", "nest_rot"):
            outer.rotate(Rg)                                   # anchor=None: about the position of the outer collection
            outer.move(T + Rg.apply(c0) - c0)
        elif via == "nest_rot0":
            outer.rotate(Rg, anchor=0)
            outer.move(T)
        elif via == "nest_set":
            outer.orientation = Rg * outer.orientation
            outer.position = Rg.apply(c0) + T
        else:
            raise MachineryError(f"unknown realisation {via}")

    def measure(self, cfg, kp, fields, ngon=None, fine=0, at=0, via=None, act=None, obs_cfg=None):
        """-> {"f": {field: array [source][path index][observer][3]}, "mesh": [status per source], "pathlen": M}
        Vectors are returned in the abstract frame (global rotation of kappa undone) unless read by the Sensor."""
        m = self.magpy
        kap = make_kappa(kp, cfg)
        srcs = [self.source(s, cfg, kap, ngon, fine, at) for s in cfg["srcs"]]
        obs = self.observers(cfg, kap, fine, at)
        if via:
            sensor = obs if cfg["sens"]["on"] else None
            self.collection_move(srcs, sensor, via, act, cfg, kap)
            if sensor is None:
                obs = self.observers(obs_cfg, kap)             # the observer points of the moved configuration
        out = {}
        for f in fields:
            fn = {"B": m.getB, "H": m.getH, "J": m.getJ}[f]
            arr = np.asarray(fn(srcs, obs, sumup=False, squeeze=False), dtype=float)[:, :, 0]
            if not cfg["sens"]["on"]:
                arr = kap.unvec(arr.reshape(-1, 3)).reshape(arr.shape)
            out[f] = arr
        mesh = []
        for s, o in zip(cfg["srcs"], srcs):
            if s["cls"] == "TriangularMesh":
                mesh.append({"is": True, "open": bool(o.status_open), "disc": bool(o.status_disconnected),
                             "self": bool(o.status_selfintersecting), "faces": (np.asarray(o.faces) + 1).tolist(),
                             "nv": int(len(o.vertices))})
            else:
                mesh.append({"is": False, "open": False, "disc": False, "self": False, "faces": [], "nv": 0})
        return {"f": out, "mesh": mesh}


# ------------------------------------------------------------------------------------------- logging one instance
def _xs(b, a):
    mb, ma = gross(b), gross(a)
    if mb > 0 and ma > 0:
        return int(round(math.log10(ma / mb)))
    return 0


def quantize_pair(b, a, fine, shift):
    """b, a: arrays [source][path][3] of one observer and one field -> ob record with ONE gross scale; for the scaling laws
    (shift) the `after` values are logged relative to that scale times 10^xs, xs = measured decade shift."""
    xs = _xs(b, a) if shift else 0
    s = max(gross(b), gross(a) / 10.0 ** xs)
    q = q12 if fine else q8
    return {"b": q(b, s), "a": q(a, s * 10.0 ** xs), "xs": xs,
            "fin": bool(np.isfinite(b).all() and np.isfinite(a).all())}


def fields_of(act):
    return ("B", "H") if act["name"] in SUM_LAWS else ("B", "H", "J")


def is_polygon(act):
    return act["name"] == "Convert" and act.get("rep") == "Polygon"


class Instancer:
    """Measures transitions; caches the measurement of a configuration under a concretization."""

    def __init__(self):
        self.b = Builder()
        self.cache = {}

    def meas(self, cfg, kp, fields, ngon=None, fine=0, at=0):
        key = (cjson(cfg), cjson(kp), fields, ngon, fine, at)
        if key not in self.cache:
            if len(self.cache) > 64:
                self.cache.clear()
            self.cache[key] = self.b.measure(cfg, kp, fields, ngon, fine, at)
        return self.cache[key]

    def event(self, inst):
        """inst: {"tid", "pre", "act", "post", "kappa", ["kappa2"]} -> event for TV_Laws"""
        pre, act, post, kp = inst["pre"], inst["act"], inst["post"], inst["kappa"]
        fields = fields_of(act)
        fe = inst.get("fine", 0)               # small-angle image of the paths (increments scaled by 10^-fe)
        fine = act["name"] in SUM_LAWS or fe > 0
        mb = self.meas(pre, kp, fields, None, fe)
        nobs = len(pre["obs"])
        ev = {"tid": inst["tid"], "pre": pre, "act": act, "post": post, "kappa": {"decade": kp["decade"]}, "fine": {"e": fe}}
        obs = []
        if is_polygon(act):
            polys = [self.meas(post, kp, fields, n) for n in POLY_NS]
            for j in range(nobs):
                rec = {}
                for f in fields:
                    c = mb["f"][f][0, :, j]
                    ps = [p["f"][f][0, :, j] for p in polys]
                    s = gross(c, *ps)
                    rec[f] = {"c": q8(c, s), "p": [q8(p, s) for p in ps], "fin": bool(all(np.isfinite(z).all() for z in [c] + ps))}
                obs.append(rec)
            ev["mesh"] = {"b": mb["mesh"], "a": mb["mesh"]}
            ev["obs"] = obs
            return ev
        if act.get("via"):
            # after: the SAME objects as before, moved as members of a collection
            ma = self.b.measure(pre, kp, fields, fine=fe, via=act["via"], act=act, obs_cfg=post)
        elif act["name"] == "Freeze" and fe:
            # the static placement at pose number m of the SAME image paths (the abstract post-configuration is their lattice original)
            ma = self.meas(pre, kp, fields, None, fe, act["m"])
        else:
            ma = self.meas(post, inst.get("kappa2", kp), fields, None, fe)
        for j in range(nobs):
            rec = {}
            for f in fields:
                rec[f] = quantize_pair(mb["f"][f][:, :, j], ma["f"][f][:, :, j], fine, act["name"] in ("Rescale", "ScaleExc"))
            if "J" in fields:
                rec["jin"] = {"b": (np.abs(mb["f"]["J"][:, :, j]).max(axis=-1) > 0).tolist(),
                              "a": (np.abs(ma["f"]["J"][:, :, j]).max(axis=-1) > 0).tolist()}
            obs.append(rec)
        ev["mesh"] = {"b": mb["mesh"], "a": ma["mesh"]}
        ev["obs"] = obs
        return ev


def _work(args):
    insts, path = args
    it = Instancer()
    n = 0
    with open(path, "w") as f:
        for inst in insts:
            ev = it.event(inst)
            f.write(json.dumps(ev, separators=(",", ":")) + "\n")
            n += len(ev["obs"]) + 1
    return n


# ------------------------------------------------------------------------------------------- test plan from TLC
def plan_from_states(states, mode, cap=None):
    """Distinct states (prev, last, cur) of MC_Laws -> instances, in a canonical order; kappa chosen per pre-configuration."""
    tr = [s for s in states if s["last"]["name"] != "Init"]
    tr.sort(key=lambda s: (cjson(s["base"]), s["n"], cjson(s["last"]), cjson(s["prev"])))
    if cap and len(tr) > cap:
        r = rng(f"plan:{mode}")
        keep = sorted(r.sample(range(len(tr)), cap))
        tr = [tr[i] for i in keep]
    nslots = 2 if tier() == "quick" else 4
    nregauge = 4 if tier() == "quick" else 19
    insts = []
    tid = 0
    for s in tr:
        pre, act, post = s["prev"], s["last"], s["cur"]
        h = hashlib.sha1(cjson(pre).encode()).hexdigest()[:12]
        fine_base = mode == "C03" and str(s["base"][0]).startswith("Fine")
        variants = [(c, 0) for c in range(nregauge if act["name"] == "Reconcretize" else 1)]
        if fine_base and (act["name"] in ("Freeze", "Reconcretize") or (act["name"] == "RigidMove" and s["n"] == 1 and len(insts) % 3 == 0)):
            variants += [(100 + fe, fe) for fe in FINE_E]
        for c, fe in variants:
            tid += 1
            if fe:
                # fine variants: canonical frame (the lattice itself) against a generic frame for Reconcretize, a generic frame else
                kp = exact_gauge(f"{h}:fine:{fe}") if act["name"] == "Reconcretize" else generic_gauge(f"{h}:fine:{fe}:{tid % nslots}")
            elif mode == "C12":
                # the decade is cfg.k; the lattice unit is 10^k m exactly for one half of the plan and m * 10^k m with a generic
                # mantissa m in [1, 10) for the other half (coordinates that are not round numbers of metres)
                kp = kappa_params(f"{h}", (0, 0), lam_exact=1.0) if tid % 2 else kappa_params(f"{h}:mant", (0, 1))
            elif any(o["lab"].startswith("ext_") for o in pre["obs"]) or (mode == "C13" and s["base"][0] == "CylinderHalfPlanes") \
                    or (act["name"] != "Reconcretize" and tid % nslots == 0 and mode == "C13"):
                kp = exact_gauge(f"{h}:{tid % 3}")
            elif act["name"] == "Reconcretize":
                # spread the lattice unit over the decades 1e-9 .. 1e9
                lo = -9 + 18.0 * c / nregauge
                kp = kappa_params(f"{h}:regauge:{c}", (lo, lo + 18.0 / nregauge))
            else:
                kp = kappa_params(f"{h}:{tid % nslots}", (-9, 9))
            inst = {"tid": tid, "pre": pre, "act": act, "post": post, "kappa": kp, "base": s["base"], "n": s["n"], "fine": fe}
            if act["name"] == "Reconcretize":
                inst["kappa2"] = regauge(kp, f"{h}:{c}:second")
                if fe:
                    g2 = generic_gauge(f"{h}:fine:{fe}:second")
                    inst["kappa2"] = dict(g2, lam0=kp["lam0"], decade=kp["decade"])
            insts.append(inst)
    return insts


def run_plan(insts, name, nproc=16):
    """Measure all instances in parallel; returns (shard files, number of sub-instances logged)."""
    d = workdir(os.path.join("traces", name))
    # keep instances with the same pre-configuration together (measurement cache), balance the shards
    order = sorted(range(len(insts)), key=lambda i: (cjson(insts[i]["pre"]), cjson(insts[i]["kappa"])))
    nsh = max(1, min(nproc, len(insts)))
    per = (len(insts) + nsh - 1) // nsh
    jobs = []
    for k in range(nsh):
        chunk = [insts[i] for i in order[k * per:(k + 1) * per]]
        if chunk:
            jobs.append((chunk, os.path.join(d, f"s{k:02d}.ndjson")))
    with mp.Pool(len(jobs)) as pool:
        counts = pool.map(_work, jobs)
    # deal the events round-robin into the validator shards (expensive classes spread evenly)
    lines = []
    for j in jobs:
        lines += open(j[1]).readlines()
        os.remove(j[1])
    nv = max(1, min(nproc, (len(lines) + 119) // 120))       # ~4 s of JVM start per shard: do not over-shard small plans
    files = []
    for k in range(nv):
        p = os.path.join(d, f"v{k:02d}.ndjson")
        with open(p, "w") as f:
            f.writelines(lines[k::nv])
        files.append(p)
    return files, sum(counts)


def model_check(mode, rep):
    cfg = f"MC_Laws_{tier()}.cfg"
    res, states = tlc.dump_states("MC_Laws", cfg, name=f"laws_{mode}", workers=8, env={"LAWS_MODE": mode})
    if res.get("violated"):
        raise MachineryError(f"MC_Laws ({mode}) violates {res['violated']}: the specification or its palette is wrong\n{res['out'][-3000:]}")
    tlc.require_ok(res)
    if len(states) != res["distinct"]:
        raise MachineryError(f"dump has {len(states)} states, TLC reports {res['distinct']}")
    rep.set("states", res["distinct"])
    rep.set("transitions", res["generated"])
    rep.set("mc_depth", res.get("depth"))
    return states


def find_events(files, tids):
    out = {}
    tids = set(tids)
    for p in files:
        for line in open(p):
            e = json.loads(line)
            if e["tid"] in tids:
                out[e["tid"]] = e
    return out


def run_check(pid, rep, cap=None):
    """Common body of the checks C03 / C12 / C13."""
    states = model_check(pid, rep)
    rep.phase("model_check")
    insts = plan_from_states(states, pid, cap)
    by_tid = {i["tid"]: i for i in insts}
    rep.set("instances_planned", len(insts))
    kinds = {}
    for i in insts:
        k = i["act"]["name"] + (":" + i["act"]["via"] if i["act"].get("via") else "") + (":" + str(i["act"].get("rep", i["act"].get("kind", i["act"].get("op", "")))) if i["act"]["name"] in ("Convert", "SplitSeg", "Op") else "")
        kinds[k] = kinds.get(k, 0) + 1
    rep.set("instances_by_action", kinds)
    files, nlogged = run_plan(insts, f"laws_{pid}")
    rep.phase("measure")
    n, rejects, infos = tlc.validate("TV_Laws", "TV.cfg", files)
    rep.phase("validate")
    if n != nlogged:
        raise MachineryError(f"validator saw {n} sub-instances, driver logged {nlogged}")
    cells = set()
    for inf in infos:
        if len(inf) >= 3 and inf[1] == "cells":
            for c in inf[2]:
                cells.add(tuple(c))
    rep.set("evaluations", n)
    rep.set("distinct_nontrivial", len(cells))
    rep.set("rule", "distinct (law, class, representation / observer mode, observer class, distance class near|far decided in TLA+, "
                    "decade of the lattice unit) cells with a non-zero observation, counted by the validator")
    rep.set("cells_by_law", _count(cells, 0))
    rep.set("cells_by_class", _count(cells, 1))
    rep.set("cells_by_decade", _count(cells, 5))
    rep.set("cells_by_dist", _count(cells, 4))
    premise_bad = [r for r in rejects if r[2] == "premise"]
    if premise_bad:
        ev = find_events(files, [premise_bad[0][1] // 100])
        raise MachineryError(f"{len(premise_bad)} logged instance(s) have a false premise, first: {json.dumps(ev)[:1500]}")
    details = find_events(files, [r[1] // 100 for r in rejects]) if rejects else {}
    table = {}
    for r in rejects:
        k = f"{r[2]}|{r[3]}|" + "|".join(str(x) for x in r[4])
        table[k] = table.get(k, 0) + 1
    rep.set("rejects_by_cell", dict(sorted(table.items())))
    for r in rejects:
        _, stid, clause, prop, ctx = r[:5]
        tid, j = stid // 100, stid % 100
        law, cls, rp, lab, dist, decade, field, mindec = ctx
        where = {"law": law, "class": cls, "rep": rp, "obs_class": lab, "dist": dist, "decade": decade, "field": field, "min_decade": mindec}
        ev = details.get(tid, {})
        what = f"{law} {cls}/{rp} observer {j} ({lab}, {dist}) decade {decade} field {field}: {clause}"
        sub = ev.get("obs", [None] * j)[j - 1] if j else ev.get("mesh")
        rep.reject(clause, where, what, {"inst": by_tid.get(tid), "observer": j, "logged": sub}, prop=prop)
    for p in files[:1]:
        for line in list(open(p))[:2]:
            e = json.loads(line)
            rep.sample({"act": e["act"], "pre_srcs": [(s["cls"], s["geo"] if s["cls"] not in ("TriangularMesh", "TriangleCollection") else "...") for s in e["pre"]["srcs"]],
                        "post_srcs": [(s["cls"], s["geo"] if s["cls"] not in ("TriangularMesh", "TriangleCollection") else "...") for s in e["post"]["srcs"]][:4],
                        "kappa_decade": e["kappa"]["decade"], "obs1": {k: v for k, v in e["obs"][0].items() if k != "jin"}})
    return len(rejects)


def _count(cells, idx):
    out = {}
    for c in cells:
        out[str(c[idx])] = out.get(str(c[idx]), 0) + 1
    return dict(sorted(out.items()))


# ------------------------------------------------------------------------------------------- replay of one case
def replay_case(case):
    inst = case["inst"]
    j = case["observer"]
    it = Instancer()
    fields = fields_of(inst["act"])
    print("law", inst["act"], "kappa", inst["kappa"])
    print("pre ", json.dumps(inst["pre"]["srcs"])[:600])
    print("post", json.dumps(inst["post"]["srcs"])[:600])
    if is_polygon(inst["act"]):
        mb = it.meas(inst["pre"], inst["kappa"], fields)
        for n in POLY_NS:
            mp_ = it.meas(inst["post"], inst["kappa"], fields, n)
            for f in fields:
                c, p = mb["f"][f][0, :, j - 1], mp_["f"][f][0, :, j - 1]
                print(f"N={n} {f}: max|polygon - circle| / max|circle| = {np.abs(p - c).max() / np.abs(c).max():.3e}")
        return 0
    fe = inst.get("fine", 0)
    mb = it.meas(inst["pre"], inst["kappa"], fields, None, fe)
    if inst["act"].get("via"):
        ma = it.b.measure(inst["pre"], inst["kappa"], fields, fine=fe, via=inst["act"]["via"], act=inst["act"], obs_cfg=inst["post"])
    elif inst["act"]["name"] == "Freeze" and fe:
        ma = it.meas(inst["pre"], inst["kappa"], fields, None, fe, inst["act"]["m"])
    else:
        ma = it.meas(inst["post"], inst.get("kappa2", inst["kappa"]), fields, None, fe)
    print("fine", fe, "mesh status before", mb["mesh"], "after", ma["mesh"])
    for f in fields:
        jj = range(len(inst["pre"]["obs"])) if j == 0 else [j - 1]
        for o in jj:
            b, a = mb["f"][f][:, :, o], ma["f"][f][:, :, o]
            print(f"observer {o + 1} {inst['pre']['obs'][o]} field {f}")
            print("  before (per source, per path index):", np.array2string(b, precision=12).replace("\n", " "))
            print("  after                              :", np.array2string(a, precision=12).replace("\n", " "))
            print("  sum before", b.sum(axis=0).tolist(), "sum after", a.sum(axis=0).tolist())
    return 0
