"""Binding of spec/Mesh.tla to the real magpylib.magnet.TriangularMesh.

Every distinct state of the TLC run of MC_Mesh (a mesh variant: vertices on the integer lattice, 1-based faces,
construction kind) is built as a real TriangularMesh under a concretization kappa = (lattice unit, rigid motion),
and one event is logged: the input (projected back to the lattice), the faces after reorientation, the status
flags and - for closed variants of a base body - the quantized B and H at the observers declared in Mesh.tla
together with those of the base mesh (same kappa, and kappa = id).  Nothing is judged here: TV_Mesh.tla computes the
ground truth from the logged input and decides.

Python also applies the transformations of Mesh.tla (PermuteFaces, RenumberVertices, FlipFaces, RewindCyclic)
with seeded random arguments to dumped states; the validator re-derives everything from the logged input and proves
the premise (same body as the base) itself, so these variants need no trust either.
"""
import json
import os
import warnings

import numpy as np

from .. import tlaval
from ..common import MachineryError, import_magpylib, rng
from ..lattice import Kappa, vec_to_int
from ..quant import gross, obs8

POL = (0.11, -0.23, 0.31)          # generic polarization (local object coordinates), tesla
OBS_DEN = 4                        # observers are quarter-lattice points, logged multiplied by 4 (Mesh!ObsDen)
MODES = dict(check_open="ignore", check_disconnected="ignore", check_selfintersecting="ignore", reorient_faces="ignore")


# ------------------------------------------------------------------ reading the TLC side
def states_from_dump(states):
    """TLC state dicts {m, kind, base, n, last, st, fam} -> list of mesh descriptions (faces stay 1-based).  The state holds
    the unstretched mesh and the stretch; the description holds the concrete (stretched) vertices and the stretch."""
    out = []
    for s in states:
        m = s["m"]
        st = [int(x) for x in s.get("st", (1, 1, 1))]
        out.append({"base": s["base"], "kind": s["kind"], "n": s["n"], "op": s["last"]["op"], "fam": s.get("fam", "std"), "stretch": st,
                    "verts": [[v[0] * st[0], v[1] * st[1], v[2] * st[2]] for v in m["v"]], "faces": [list(f) for f in m["f"]]})
    return out


def histories_from_output(out):
    """The <<"HIST", set of histories>> line printed by MC_Mesh: sorted list of operation lists."""
    for v in tlaval.parse_many(out):
        if isinstance(v, list) and len(v) == 2 and v[0] == "HIST":
            return sorted([list(h) for h in v[1]])
    return []


def bkey(msh):
    """name of the reference body of a mesh: base name and stretch"""
    return msh["base"] + "|" + ",".join(str(x) for x in msh.get("stretch", (1, 1, 1)))


def stretched_points(pts, st):
    return [[p[0] * st[0], p[1] * st[1], p[2] * st[2]] for p in pts]


def observers_from_output(out):
    """The <<"OBS", base, ObsIn, ObsOut>> lines printed by MC_Mesh: base -> sorted list of points (x 4)."""
    obs = {}
    for v in tlaval.parse_many(out):
        if isinstance(v, list) and len(v) == 4 and v[0] == "OBS":
            pts = sorted([list(p) for p in v[2]] + [list(p) for p in v[3]])
            obs[v[1]] = {"pts": pts, "n_in": len(v[2]), "n_out": len(v[3])}
    return obs


# ------------------------------------------------------------------ the transformations of Mesh.tla on lists
def permute_faces(msh, p):
    """new face i is old face p[i] (p: 0-based permutation)"""
    return {**msh, "faces": [msh["faces"][j] for j in p]}


def renumber_vertices(msh, p):
    """old vertex j gets number p[j] (0-based permutation; faces are 1-based)"""
    nv = len(msh["verts"])
    verts = [None] * nv
    for j in range(nv):
        verts[p[j]] = msh["verts"][j]
    return {**msh, "verts": verts, "faces": [[p[a - 1] + 1 for a in f] for f in msh["faces"]]}


def flip_faces(msh, S):
    return {**msh, "faces": [[f[0], f[2], f[1]] if i in S else list(f) for i, f in enumerate(msh["faces"])]}


def rewind_cyclic(msh, S):
    return {**msh, "faces": [[f[1], f[2], f[0]] if i in S else list(f) for i, f in enumerate(msh["faces"])]}


def random_variant(msh, r, flips=True):
    nf, nv = len(msh["faces"]), len(msh["verts"])
    p = list(range(nf))
    r.shuffle(p)
    q = list(range(nv))
    r.shuffle(q)
    out = renumber_vertices(permute_faces(msh, p), q)
    if flips:
        dens = r.random()
        out = flip_faces(out, {i for i in range(nf) if r.random() < dens})
    out = rewind_cyclic(out, {i for i in range(nf) if r.random() < 0.3})
    out = rewind_cyclic(out, {i for i in range(nf) if r.random() < 0.3})
    return {**out, "op": "py_random"}


def hull_variant(msh, same_faces):
    """Faces as scipy.spatial.ConvexHull triangulates the vertex set (TriangularMesh.from_ConvexHull uses exactly these)."""
    from scipy.spatial import ConvexHull  # pylint: disable=no-name-in-module

    faces = (ConvexHull(np.array(msh["verts"], dtype=float)).simplices + 1).astype(int).tolist()
    return {**msh, "faces": faces, "kind": "closed" if same_faces else "hull", "op": "py_hull"}


# ------------------------------------------------------------------ kappas
def make_kappas(spec):
    """spec: list of ("id",) | ("rand", salt, lo, hi) | ("decade", d, salt) -> list of (Kappa, info dict)"""
    out = []
    for k in spec:
        if k[0] == "id":
            kap = Kappa()
        elif k[0] == "rand":
            kap = Kappa.random(rng(k[1]), decades=(k[2], k[3]))
        else:  # exact decade with a generic rigid motion
            g = Kappa.random(rng(k[2]), decades=(0, 0))
            kap = Kappa(10.0 ** k[1], g.RG, g.tG * 10.0 ** k[1])
        lam = kap.lam
        dec = int(np.floor(np.log10(lam) + 1e-12))
        out.append((kap, {"unit": bool(lam == 1.0), "decade": dec, "kap": json.dumps(kap.describe())}))
    return out


def kappa_from_json(s):
    from scipy.spatial.transform import Rotation as R

    d = json.loads(s)
    q = np.array(d["G_quat"])
    ident = d["lam"] == 1.0 and np.allclose(q, [0, 0, 0, 1]) and np.allclose(d["t"], 0)
    return Kappa() if ident else Kappa(d["lam"], R.from_quat(q), d["t"])


# ------------------------------------------------------------------ driving the implementation
_MAGPY = None


def _magpy():
    global _MAGPY
    if _MAGPY is None:
        # scipy's KDTree (check_selfintersecting) starts os.cpu_count() threads per call; 16 worker processes already
        # use the machine, and the thread count does not influence any result
        os.cpu_count = lambda: 1
        _MAGPY = import_magpylib()
        warnings.simplefilter("ignore")
    return _MAGPY


def build(msh, kap, path="ctor"):
    """Construct the real object; returns (mesh object, statuses dict)."""
    magpy = _magpy()
    V = kap.length(np.array(msh["verts"], dtype=float))
    F = np.array(msh["faces"], dtype=int) - 1
    kw = dict(vertices=V, faces=F, polarization=POL, position=kap.tG, orientation=None if kap.identity else kap.RG)
    if path == "ctor":
        m = magpy.magnet.TriangularMesh(**kw, **MODES)
        st = (m.status_open, m.status_disconnected, m.status_selfintersecting)
    else:
        # nothing checked at construction; the checks are called afterwards, in another order
        m = magpy.magnet.TriangularMesh(**kw, check_open="skip", check_disconnected="skip", check_selfintersecting="skip", reorient_faces="skip")
        s3 = m.check_selfintersecting(mode="ignore")
        s2 = m.check_disconnected(mode="ignore")
        s1 = m.check_open(mode="ignore")
        m.reorient_faces(mode="ignore")
        st = (s1, s2, s3)
        if (m.status_open, m.status_disconnected, m.status_selfintersecting) != st:
            st = (None, None, None)      # return values and attributes disagree: logged as missing status
    return m, st


def fields(m, kap, pts):
    """B and H (lattice frame) at the quarter-lattice observers pts (x OBS_DEN)"""
    P = kap.pos(np.array(pts, dtype=float) / OBS_DEN)
    try:
        B = kap.unvec(np.asarray(m.getB(P), dtype=float))
        H = kap.unvec(np.asarray(m.getH(P), dtype=float))
    except Exception:  # pylint: disable=broad-except
        B = np.full((len(pts), 3), np.nan)
        H = np.full((len(pts), 3), np.nan)
    return B.reshape(len(pts), 3), H.reshape(len(pts), 3)


class Driver:
    def __init__(self, bases, observers, kappas):
        self.bases = bases            # bkey (base name|stretch) -> mesh description as written in Mesh.tla (TLC init state)
        self.obs = observers
        self.kappas = kappas          # list of (Kappa, info)
        self.ref = {}                 # (base, kappa index) -> (B0, H0)

    def reference(self, msh, ki):
        key = (bkey(msh), ki)
        if key not in self.ref:
            kap = self.kappas[ki][0]
            ref = self.bases[bkey(msh)]
            m, _ = build(ref, kap)
            self.ref[key] = fields(m, kap, stretched_points(self.obs[msh["base"]]["pts"], ref["stretch"]))
        return self.ref[key]

    def id_index(self):
        for i, (k, _) in enumerate(self.kappas):
            if k.identity:
                return i
        raise MachineryError("kappa list has no identity")

    def event(self, tid, msh, ki, path="ctor", src="mc"):
        kap, info = self.kappas[ki]
        lam = kap.lam
        ev = {"type": "mesh", "tid": tid, "src": src, "kind": msh["kind"], "base": msh["base"], "op": msh.get("op", ""), "path": path, **info,
              "stretch": list(msh.get("stretch", (1, 1, 1))),
              "verts_in": msh["verts"], "faces_in": msh["faces"]}
        m, st = build(msh, kap, path)
        try:
            ev["verts"] = vec_to_int(m.vertices, scale=lam)
            ev["proj_ok"] = True
        except ValueError:
            ev["verts"] = msh["verts"]
            ev["proj_ok"] = False
        ev["faces_out"] = (np.asarray(m.faces) + 1).astype(int).tolist()
        ev["st_none"] = any(s is None for s in st)
        ev["open"], ev["disc"], ev["selfint"] = (bool(s) for s in st)
        has = msh["kind"] == "closed" and msh["base"] in self.obs and bkey(msh) in self.bases
        fl = {"has": has}
        if has:
            pts = stretched_points(self.obs[msh["base"]]["pts"], ev["stretch"])
            B, H = fields(m, kap, pts)
            B0, H0 = self.reference(msh, ki)
            Bid, Hid = self.reference(msh, self.id_index())
            sB, sH = gross(B, B0, Bid), gross(H, H0, Hid)
            fl.update({"obs": pts, "den": OBS_DEN, "B": obs8(B, sB), "H": obs8(H, sH), "B0": obs8(B0, sB), "H0": obs8(H0, sH),
                       "Bid": obs8(Bid, sB), "Hid": obs8(Hid, sH)})
        ev["field"] = fl
        return ev

    def life_event(self, tid, msh, ki, hist):
        """One object built WITHOUT normalisation lives through the history `hist` (use / check_* / reorient); after every
        operation the public state is observed.  A use = getB + getH + reading obj.mesh."""
        magpy = _magpy()
        kap, info = self.kappas[ki]
        V = kap.length(np.array(msh["verts"], dtype=float))
        F = np.array(msh["faces"], dtype=int) - 1
        m = magpy.magnet.TriangularMesh(vertices=V, faces=F, polarization=POL, position=kap.tG, orientation=None if kap.identity else kap.RG,
                                        check_open="skip", check_disconnected="skip", check_selfintersecting="skip", reorient_faces="skip")
        index = {tuple(v): i + 1 for i, v in enumerate(np.asarray(m.vertices).tolist())}
        pts = stretched_points(self.obs[msh["base"]]["pts"], msh.get("stretch", (1, 1, 1)))
        B0, H0 = self.reference(msh, ki)
        steps, raw = [], []
        for op in hist:
            ret = False
            BH = None
            if op == "use":
                BH = fields(m, kap, pts)
            elif op == "reorient":
                m.reorient_faces(mode="ignore")
            else:
                ret = bool(getattr(m, op)(mode="ignore"))
            # obj.mesh is read only as part of a use: the observation itself must not be a use
            view = [[index.get(tuple(p), 0) for p in tri] for tri in np.asarray(m.mesh).tolist()] if op == "use" else []
            steps.append({"op": op, "ret": ret, "faces": (np.asarray(m.faces) + 1).astype(int).tolist(), "faces_mesh": view,
                          "reoriented": bool(m.status_reoriented)})
            raw.append(BH)
        sB = gross(B0, *[x[0] for x in raw if x is not None])
        sH = gross(H0, *[x[1] for x in raw if x is not None])
        for st_, BH in zip(steps, raw):
            if BH is not None:
                st_["B"], st_["H"] = obs8(BH[0], sB), obs8(BH[1], sH)
        return {"type": "life", "tid": tid, "kind": msh["kind"], "base": msh["base"], "op": msh.get("op", ""), **info,
                "stretch": list(msh.get("stretch", (1, 1, 1))), "verts_in": msh["verts"], "faces_in": msh["faces"], "hist": list(hist),
                "steps": steps, "obs": pts, "den": OBS_DEN, "B0": obs8(B0, sB), "H0": obs8(H0, sH)}

    def call2(self, tid, mA, mB, shift, ki, pts, label):
        """getB/getH of [A, B] in one call against the two single calls; B sits at the lattice offset `shift`."""
        magpy = _magpy()
        kap, info = self.kappas[ki]
        A, _ = build(mA, kap)
        B, _ = build(mB, kap)
        B.position = kap.pos(np.array(shift, dtype=float))
        P = kap.pos(np.array(pts, dtype=float) / OBS_DEN)
        out = {}
        for f, fn in (("B", "getB"), ("H", "getH")):
            joint = np.asarray(getattr(magpy, fn)([A, B], P), dtype=float).reshape(2, len(pts), 3)
            single = np.array([np.asarray(getattr(A, fn)(P), dtype=float).reshape(len(pts), 3),
                               np.asarray(getattr(B, fn)(P), dtype=float).reshape(len(pts), 3)])
            joint, single = kap.unvec(joint.reshape(-1, 3)).reshape(2, -1, 3), kap.unvec(single.reshape(-1, 3)).reshape(2, -1, 3)
            s = gross(joint, single)
            out[f + "j"], out[f + "s"] = obs8(joint, s), obs8(single, s)
        return {"type": "call2", "tid": tid, "label": label, **info, "A": {"base": mA["base"], "verts": mA["verts"], "faces": mA["faces"]},
                "B": {"base": mB["base"], "verts": mB["verts"], "faces": mB["faces"]}, "shift": list(shift), "obs": [list(p) for p in pts], **out}

    def mode_event(self, tid, msh, mode):
        """What check mode 'warn' / 'raise' reports for this mesh (kappa = id)."""
        magpy = _magpy()
        V = np.array(msh["verts"], dtype=float)
        F = np.array(msh["faces"], dtype=int) - 1
        warned = {"open": False, "disc": False, "selfint": False}
        raised = "none"
        with warnings.catch_warnings(record=True) as ws:
            warnings.simplefilter("always")
            try:
                magpy.magnet.TriangularMesh(vertices=V, faces=F, polarization=POL, check_open=mode, check_disconnected=mode,
                                            check_selfintersecting=mode, reorient_faces=mode)
            except ValueError as ex:
                t = str(ex)
                raised = ("open" if t.startswith("Open mesh detected") else "disc" if t.startswith("Disconnected mesh") else
                          "selfint" if t.startswith("Self-intersecting") else "reorient" if t.startswith("Open mesh in") else "other")
            except Exception as ex:  # pylint: disable=broad-except
                raised = "exc:" + type(ex).__name__
        for w in ws:
            t = str(w.message)
            if t.startswith("Open mesh detected"):
                warned["open"] = True
            elif t.startswith("Disconnected mesh"):
                warned["disc"] = True
            elif t.startswith("Self-intersecting"):
                warned["selfint"] = True
        warnings.simplefilter("ignore")
        return {"type": "mode", "tid": tid, "kind": msh["kind"], "base": msh["base"], "mode": mode, "verts": msh["verts"], "faces_in": msh["faces"],
                "warned": warned, "raised": raised, "unit": True, "decade": 0}


def run_jobs(args):
    """Worker: args = (bases, observers, kappa spec, jobs, path of the shard); a job is a tuple
    ("mesh", tid, msh, ki, path, src) | ("life", tid, msh, ki, hist) | ("call2", tid, mA, mB, shift, ki, pts, label) | ("mode", tid, msh, mode)."""
    bases, observers, kspec, jobs, shard = args
    drv = Driver(bases, observers, make_kappas(kspec))
    n = 0
    with open(shard, "w") as f:
        for j in jobs:
            if j[0] == "mesh":
                ev = drv.event(*j[1:])
            elif j[0] == "call2":
                ev = drv.call2(*j[1:])
            elif j[0] == "life":
                ev = drv.life_event(*j[1:])
            else:
                ev = drv.mode_event(*j[1:])
            f.write(json.dumps(ev, separators=(",", ":")) + "\n")
            n += 1
    return n
