"""Binding of spec/Observers.tla: the ways of writing the `observers` argument enumerated by TLC (MC_Observers) are built
as real Python values (nested lists / tuples / ndarrays of positions, Sensor objects, Collections, lists of those) and passed
to getB/getH/getJ with tagged sources; the returned array (shape and row-major values) is logged for TV_Observers.tla."""
import json

import numpy as np

from ..common import rng
from ..lattice import Kappa
from . import fieldwrap as fw


def norm_sensor(s):
    return {"id": s["id"], "path": {"pos": [list(x) for x in s["path"]["pos"]], "ori": [[list(r) for r in m] for m in s["path"]["ori"]]},
            "left": s["left"], "pix": [list(p) for p in s["pix"]], "pixshape": list(s["pixshape"]), "pk": s["pk"]}


def norm_arg(a):
    k = a["kind"]
    if k == "pos":
        return {"kind": "pos", "shape": list(a["shape"]), "pts": [list(p) for p in a["pts"]], "form": a["form"]}
    if k == "sens":
        return {"kind": "sens", "s": norm_sensor(a["s"])}
    if k == "coll":
        return {"kind": "coll", "kids": [norm_arg(x) for x in a["kids"]]}
    if k == "list":
        return {"kind": "list", "items": [norm_arg(x) for x in a["items"]], "form": a["form"]}
    return {"kind": k}


def norm_state(st):
    c = st["c"]
    e = fw.norm_scenario(dict(c, sensors=[]))
    return {"c": {k: e[k] for k in ("field", "sumup", "squeeze", "agg", "sources")}, "arg": norm_arg(st["arg"])}


def sensors_in(a, out):
    if a["kind"] == "sens":
        out.setdefault(a["s"]["id"], a["s"])
    for x in a.get("kids", []) + a.get("items", []):
        sensors_in(x, out)
    return out


def as_form(arr, form):
    if form == "ndarray":
        return arr

    def conv(x):
        if isinstance(x, list):
            return tuple(conv(y) for y in x) if form == "tuple" else [conv(y) for y in x]
        return x
    return conv(arr.tolist())


def real_arg(b, a, sens):
    m = b.magpy
    k = a["kind"]
    if k == "pos":
        pts = b.k.pos(np.array(a["pts"], dtype=float)).reshape(*a["shape"], 3)
        return as_form(pts, a["form"])
    if k == "sens":
        return sens[a["s"]["id"]]
    if k == "src":
        return m.misc.CustomSource(field_func=b.tagged(9))
    if k == "coll":
        return m.Collection(*[real_arg(b, x, sens) for x in a["kids"]], override_parent=True)
    if k == "list":
        items = [real_arg(b, x, sens) for x in a["items"]]
        return tuple(items) if a["form"] == "tuple" else items
    return "x"


def has_pos(a):
    return a["kind"] == "pos" or any(has_pos(x) for x in a.get("kids", []) + a.get("items", []))


def what_of(a):
    k = a["kind"]
    if k == "pos":
        return f"{a['form']}{tuple(a['shape']) + (3,)}"
    if k == "sens":
        return "S" + a["s"]["id"]
    if k == "coll":
        return "Coll(" + ",".join(what_of(x) for x in a["kids"]) + ")"
    if k == "list":
        return ("(" if a["form"] == "tuple" else "[") + ",".join(what_of(x) for x in a["items"]) + (")" if a["form"] == "tuple" else "]")
    return k


def run(args):
    scen, path, tid0, kappa_salt = args
    k = Kappa.random(rng(kappa_salt)) if kappa_salt else None
    n = 0
    with open(path, "w") as f:
        for s in scen:
            c, a = s["c"], s["arg"]
            if k is not None and has_pos(a):
                # bare positions are read in the GLOBAL frame: under a generic rotation their field vectors leave the lattice (identity kappa covers them)
                continue
            b = fw.Builder(k)
            sl = list(sensors_in(a, {}).values())
            sources, sensors, _ = b.build(dict(c, sensors=sl))
            sens = {x["id"]: o for x, o in zip(sl, sensors)}
            m = b.magpy
            fn = {"B": m.getB, "H": m.getH, "J": m.getJ, "M": m.getM}[c["field"]]
            ev = {"tid": tid0 + n, "c": c, "arg": a, "outcome": "ok", "shape": [], "flat": [], "what": what_of(a), "kappa": k.describe() if k else {}}
            try:
                obs = real_arg(b, a, sens)
                out = fn(sources if len(sources) > 1 else sources[0], obs, sumup=c["sumup"], squeeze=c["squeeze"], pixel_agg=None if c["agg"] == "none" else c["agg"])
                ev["shape"] = [int(x) for x in np.shape(out)]
                ev["flat"] = fw.ints(np.asarray(out, dtype=float).reshape(-1))
            except m._src.exceptions.MagpylibBadUserInput:
                ev["outcome"] = "raise"
            except Exception as ex:  # pylint: disable=broad-except
                ev["outcome"] = "exc:" + type(ex).__name__
            f.write(json.dumps(ev, separators=(",", ":")) + "\n")
            n += 1
    return n
