"""Binding of spec/Path.tla (C09 single objects, C10 compound objects) to real magpylib objects.

State: {"kids": {name: [names]}, "path": {name: {"pos": [[x,y,z],..], "ori": [3x3 int matrices,..]}}}
Calls: {"op": move|rotate|setpos|setori|reset, "o": name, "inp": {"scalar", "v"}, "anc": {"kind","scalar","v"},
        "start": {"auto","v"}, "bad": ""}   (bad != "" : a malformed call that must be rejected without effect)
Every rotate is executed through all API forms; the primary form's post-state is logged, other forms only when
they differ (pure compression: the validator judges every logged post-state).
Everything can run under a concretization kappa (generic rigid motion + length unit); the projection undoes it.
"""
import json

import numpy as np
from scipy.spatial.transform import Rotation as R

from ..common import import_magpylib, rng
from ..lattice import Kappa, mat_to_rot

ROT_FORMS = ["rotate", "matrix", "quat", "rotvec_deg", "rotvec_rad", "euler_in", "euler_ex", "mrp", "angax_deg", "angax_rad", "angax_str", "rotate_none"]


class PathWorld:
    def __init__(self, kids, kappa=None, leafcls=None, roles=None):
        self.magpy = import_magpylib()
        from magpylib._src.exceptions import MagpylibBadUserInput

        self.BadInput = MagpylibBadUserInput
        self.kids = {k: list(v) for k, v in kids.items()}
        self.names = list(self.kids)
        self.k = kappa or Kappa()
        m = self.magpy
        leaf = [lambda: m.Sensor(), lambda: m.magnet.Cuboid(dimension=(1, 2, 3), polarization=(1, 2, 3)),
                lambda: m.current.Circle(diameter=2, current=1), lambda: m.misc.Dipole(moment=(1, 2, 3))]
        self.obj = {}
        self.roles = roles or {}
        i = 0
        for n in self.names:
            if self.kids[n] or n[0].isupper():
                self.obj[n] = m.Collection()
            elif self.roles.get(n) == "src":
                self.obj[n] = m.misc.CustomSource(field_func=self._tagged(1 + len(self.obj)))
            elif self.roles.get(n) == "sens":
                self.obj[n] = m.Sensor(pixel=self.k.lam * np.array([(0, 0, 0), (1, -1, 2)], dtype=float))
            else:
                self.obj[n] = leaf[i % len(leaf)]() if leafcls is None else leafcls()
                i += 1
        for n, ch in self.kids.items():
            if ch:
                self.obj[n]._children = [self.obj[c] for c in ch]
                self.obj[n]._update_src_and_sens()
                for c in ch:
                    self.obj[c]._parent = self.obj[n]

    def _tagged(self, tag):
        """Integer-valued field function of the LOCAL observer position in lattice units (exact in float64)."""
        lam = self.k.lam

        def ff(field, observers):
            r = np.rint(observers / lam)
            c = 100 * tag
            return np.stack([c + r[:, 0] + 2 * r[:, 1], c + r[:, 1] * r[:, 2] + 7, c + r[:, 2] - r[:, 0]], axis=1)
        return ff

    def subtree(self, o):
        out = []
        for c in self.kids[o]:
            out.append(c)
            out += self.subtree(c)
        return out

    def internal_field(self, o):
        """coll.getB() of a collection that contains sources and sensors: list over path index of flat integer lists, or None."""
        sub = self.subtree(o)
        if not (any(self.roles.get(x) == "src" for x in sub) and any(self.roles.get(x) == "sens" for x in sub)):
            return None
        B = self.obj[o].getB(squeeze=False)          # (1, M, K, pix.., 3)
        M = B.shape[1]
        flat = B[0].reshape(M, -1)
        r = np.rint(flat)
        if np.abs(flat - r).max() > 1e-6 * max(1.0, np.abs(flat).max()):
            return [[999999]] * M
        return r.astype(int).tolist()

    # ---- state in / out
    def set_state(self, st):
        for n in self.names:
            p = st["path"][n]
            self.obj[n]._position = np.atleast_2d(self.k.pos(np.array(p["pos"], dtype=float))).copy()
            self.obj[n]._orientation = self.k.rot(p["ori"])

    def project(self):
        out = {}
        for n in self.names:
            o = self.obj[n]
            pos = self.k.unpos(o._position)
            mats = self.k.unrot(o._orientation).as_matrix()
            if mats.ndim == 2:
                mats = mats[None]
            rp, rm = np.rint(pos), np.rint(mats)
            tol = 1e-6
            if np.abs(pos - rp).max() > tol or np.abs(mats - rm).max() > tol:
                # off the lattice: log a marker the validator can never accept (position 999999)
                out[n] = {"pos": [[999999, 0, 0]] * len(pos), "ori": [[[1, 0, 0], [0, 1, 0], [0, 0, 1]]] * len(mats),
                          "off": float(max(np.abs(pos - rp).max(), np.abs(mats - rm).max()))}
            else:
                out[n] = {"pos": rp.astype(int).tolist(), "ori": rm.astype(int).tolist()}
        return {"kids": self.kids, "path": out}

    # ---- concrete inputs
    def _rot_input(self, inp):
        g = [self.k.RG * mat_to_rot(m) * self.k.RG.inv() for m in inp["v"]]
        if inp["scalar"]:
            return g[0]
        return R.from_quat(np.array([x.as_quat() for x in g]))

    def _anchor(self, anc):
        if anc["kind"] == "none":
            return None
        if anc.get("ref") and self.k.identity:
            return self.obj[anc["ref"]].position                                               # live view
        v = self.k.pos(np.array(anc["v"], dtype=float))
        if anc["scalar"]:
            if self.k.identity and anc["v"][0] == [0, 0, 0]:
                return 0
            return v[0]
        return v

    def _start(self, s):
        return "auto" if s["auto"] else s["v"]

    def apply(self, c, form="rotate"):
        o = self.obj[c["o"]]
        op = c["op"]
        try:
            if c.get("bad"):
                self._bad(o, c)
            elif op == "move" and c["inp"].get("ref") and self.k.identity:
                o.move(self.obj[c["inp"]["ref"]].position, start=self._start(c["start"]))           # the live view of another object's path
            elif op == "move":
                d = self.k.lam * self.k.RG.apply(np.array(c["inp"]["v"], dtype=float))
                o.move(d[0] if c["inp"]["scalar"] else d, start=self._start(c["start"]))
            elif op == "rotate":
                self._rotate(o, self._rot_input(c["inp"]), self._anchor(c["anc"]), self._start(c["start"]), form)
            elif op == "setpos" and c["inp"].get("ref") and self.k.identity:
                o.position = self.obj[c["inp"]["ref"]].position
            elif op == "setpos":
                v = self.k.pos(np.array(c["inp"]["v"], dtype=float))
                o.position = v[0] if len(v) == 1 and c.get("squeeze1") else v
            elif op == "setori":
                r = self.k.rot(c["inp"]["v"])
                o.orientation = r[0] if len(r) == 1 else r
            elif op == "reset":
                if not self.k.identity:
                    # reset_path goes to the GLOBAL origin/unit rotation: only meaningful without a rigid motion
                    return "skip"
                o.reset_path()
            else:
                raise ValueError(op)
        except self.BadInput:
            return "raise"
        except Exception as ex:  # pylint: disable=broad-except
            return "exc:" + type(ex).__name__
        return "ok"

    def _rotate(self, o, rot, anchor, start, form):
        kw = {"anchor": anchor, "start": start}
        if form == "rotate":
            o.rotate(rot, **kw)
        elif form == "rotate_none":
            o.rotate(None, **kw)                                                           # documented: None = unit rotation (one rotation, not a path)
        elif form == "matrix":
            o.rotate_from_matrix(rot.as_matrix(), **kw)
        elif form == "quat":
            o.rotate_from_quat(rot.as_quat(), **kw)
        elif form == "rotvec_deg":
            o.rotate_from_rotvec(rot.as_rotvec(degrees=True), degrees=True, **kw)
        elif form == "rotvec_rad":
            o.rotate_from_rotvec(rot.as_rotvec(), degrees=False, **kw)
        elif form == "euler_in":
            o.rotate_from_euler(rot.as_euler("ZYX", degrees=True), "ZYX", degrees=True, **kw)
        elif form == "euler_ex":
            o.rotate_from_euler(rot.as_euler("xyz"), "xyz", degrees=False, **kw)
        elif form == "mrp":
            o.rotate_from_mrp(rot.as_mrp(), **kw)
        elif form in ("angax_deg", "angax_rad", "angax_str"):
            rv = np.atleast_2d(rot.as_rotvec())
            ang = np.linalg.norm(rv, axis=1)
            axis = rv[0] / ang[0] if ang[0] > 1e-9 else np.array([0.0, 0.0, 1.0])      # unit rotation: angle 0 about z
            if form == "angax_str":
                axis = {(1, 0, 0): "x", (0, 1, 0): "y", (0, 0, 1): "z"}[tuple(np.rint(axis).astype(int))]
            a = ang if form == "angax_rad" else np.degrees(ang)
            o.rotate_from_angax(a if rot.single is False else a[0], axis, degrees=(form != "angax_rad"), **kw)
        else:
            raise ValueError(form)

    def forms_for(self, c):
        """API forms applicable to this rotation input."""
        out = ["rotate", "matrix", "quat", "rotvec_deg", "rotvec_rad", "euler_in", "euler_ex"]
        rot = self._rot_input(c["inp"])
        rv = np.atleast_2d(rot.as_rotvec())
        ang = np.linalg.norm(rv, axis=1)
        # mrp is singular at 180 degrees (tan(pi/4)=1 is fine; 360 is not): all lattice rotations are <= 180
        out.append("mrp")
        if np.all(ang > 1e-9):
            ax = rv / ang[:, None]
            if np.abs(ax - ax[0]).max() < 1e-12:
                out += ["angax_deg", "angax_rad"]
                if self.k.identity and np.abs(np.abs(ax[0]).max() - 1) < 1e-12 and ax[0].max() > 0.5:
                    out.append("angax_str")
        elif np.all(ang <= 1e-9):
            out += ["angax_deg", "angax_rad", "angax_str"]                                # the unit rotation as angle 0
            if rot.single:
                out.append("rotate_none")
        return out

    def _bad(self, o, c):
        b = c["bad"]
        if b == "move_str":
            o.move("abc")
        elif b == "move_shape2":
            o.move((1, 2))
        elif b == "move_shape4":
            o.move([(1, 2, 3, 4)])
        elif b == "move_rank3":
            o.move(np.zeros((2, 2, 3)))
        elif b == "move_start_float":
            o.move((1, 2, 3), start=1.5)
        elif b == "move_start_str":
            o.move((1, 2, 3), start="x")
        elif b == "rot_notrot":
            o.rotate((1, 2, 3))
        elif b == "rot_start_float":
            o.rotate(R.from_rotvec((0, 0, 1)), start=0.5)
        elif b == "rot_anchor_shape":
            o.rotate(R.from_rotvec((0, 0, 1)), anchor=(1, 2))
        elif b == "rot_anchor_str":
            o.rotate(R.from_rotvec((0, 0, 1)), anchor="a")
        elif b == "angax_degrees_str":
            o.rotate_from_angax(45, "z", degrees="x")
        elif b == "angax_axis_bad":
            o.rotate_from_angax(45, "w")
        elif b == "angax_axis_zero":
            o.rotate_from_angax(45, (0, 0, 0))
        elif b == "angax_angle_str":
            o.rotate_from_angax("a", "z")
        elif b == "angax_angle_rank2":
            o.rotate_from_angax([[1, 2]], "z")
        elif b == "rotvec_shape":
            o.rotate_from_rotvec((1, 2))
        elif b == "quat_shape":
            o.rotate_from_quat((1, 2, 3))
        elif b == "matrix_shape":
            o.rotate_from_matrix(np.zeros((2, 2)))
        elif b == "mrp_shape":
            o.rotate_from_mrp((1, 2))
        elif b == "euler_seq_bad":
            o.rotate_from_euler(45, "q")
        elif b == "setpos_shape2":
            o.position = (1, 2)
        elif b == "setpos_str":
            o.position = "abc"
        elif b == "setpos_rank3":
            o.position = np.zeros((2, 2, 3))
        elif b == "setori_notrot":
            o.orientation = (1, 2, 3)
        elif b == "setori_str":
            o.orientation = "r"
        else:
            raise ValueError(b)


BAD_CALLS = ["move_str", "move_shape2", "move_shape4", "move_rank3", "move_start_float", "move_start_str", "rot_notrot",
             "rot_start_float", "rot_anchor_shape", "rot_anchor_str", "angax_degrees_str", "angax_axis_bad", "angax_axis_zero",
             "angax_angle_str", "angax_angle_rank2", "rotvec_shape", "quat_shape", "matrix_shape", "mrp_shape", "euler_seq_bad",
             "setpos_shape2", "setpos_str", "setpos_rank3", "setori_notrot", "setori_str"]


def step(w, st, c, tid, all_forms=True, pick=None, field=False):
    """Execute call c from abstract state st; returns the logged step record.
    all_forms: every applicable rotate_from_* form; otherwise the primary form plus ONE other form chosen by `pick`
    (round robin, so that over many states every (call, form) pair is exercised)."""
    w.set_state(st)
    fpre = w.internal_field(c["o"]) if field and not c.get("bad") else None
    oc = w.apply(c, "rotate")
    if oc == "skip":
        return None
    rec = {"tid": tid, "call": c, "outcome": oc, "post": w.project(), "alts": []}
    if fpre is not None and oc == "ok":
        rec["field"] = {"has": True, "pre": fpre, "post": w.internal_field(c["o"])}
    else:
        rec["field"] = {"has": False, "pre": [], "post": []}
    if c["op"] == "rotate" and not c.get("bad"):
        forms = w.forms_for(c)[1:]
        if not all_forms:
            forms = [forms[(tid if pick is None else pick) % len(forms)]]
        for f in forms:
            w.set_state(st)
            oc2 = w.apply(c, f)
            p2 = w.project()
            if oc2 != oc or p2 != rec["post"]:
                rec["alts"].append({"form": f, "outcome": oc2, "post": p2})
        rec["nforms"] = 1 + len(forms)
        rec["forms"] = ["rotate"] + forms
    return rec


def ref_calls(st, t):
    """state-dependent calls of MC_Compound!RefCallsOn: inputs that are the position path of an object of the tree"""
    none = {"kind": "none", "scalar": True, "v": []}
    auto = {"auto": True, "v": 0}
    out = []
    for r in st["kids"]:
        pos = st["path"][r]["pos"]
        inp = {"scalar": len(pos) == 1, "v": pos, "ref": r}
        out.append({"op": "move", "o": t, "inp": inp, "anc": none, "start": auto, "bad": ""})
        out.append({"op": "move", "o": t, "inp": inp, "anc": none, "start": {"auto": False, "v": 0}, "bad": ""})
        out.append({"op": "rotate", "o": t, "inp": {"scalar": True, "v": [[[0, -1, 0], [1, 0, 0], [0, 0, 1]]]},
                    "anc": {"kind": "vec", "scalar": len(pos) == 1, "v": pos, "ref": r}, "start": auto, "bad": ""})
        out.append({"op": "setpos", "o": t, "inp": {"scalar": False, "v": pos, "ref": r}, "anc": none, "start": auto, "bad": ""})
    return out


def replay_states(args):
    """Worker: all calls from every given abstract state (kappa from the job description)."""
    states, calls, kids, kappa_salt, path, tid0, with_bad = args[:7]
    all_forms = args[7] if len(args) > 7 else False
    opts = args[8] if len(args) > 8 else {}
    k = None
    if kappa_salt:
        k = Kappa.random(rng(kappa_salt))
    worlds = {}

    def world(kd):
        key = json.dumps(kd, sort_keys=True)
        if key not in worlds:
            worlds[key] = PathWorld(kd, k, roles=opts.get("roles"))
        return worlds[key]
    w = world(kids) if kids else None
    n = 0
    nexec = 0
    with open(path, "w") as f:
        for si, st in enumerate(states):
            steps = []
            if not kids:
                w = world(st["kids"])
            targets = list(st["kids"]) if opts.get("all_targets") else [None]
            todo = [dict(c0, o=t) if t else c0 for t in targets for c0 in calls]
            if opts.get("ref_calls"):
                todo += [c for t in targets for c in ref_calls(st, t)]
            for ci, c in enumerate(todo):
                rec = step(w, st, c, tid0 + n, all_forms=all_forms, pick=si + ci, field=opts.get("field", False))
                if rec is None:
                    continue
                steps.append(rec)
                n += 1
                nexec += rec.get("nforms", 1)
            if with_bad:
                for b in BAD_CALLS:
                    for tgt in w.names[:1]:
                        c = {"op": "bad", "o": tgt, "inp": {"scalar": True, "v": [[0, 0, 0]]}, "anc": {"kind": "none", "scalar": True, "v": []},
                             "start": {"auto": True, "v": 0}, "bad": b}
                        steps.append(step(w, st, c, tid0 + n))
                        n += 1
                        nexec += 1
            f.write(json.dumps({"pre": st, "kappa": (k.describe() if k else {}), "steps": steps}, separators=(",", ":")) + "\n")
    return n, nexec


def tla_path(p):
    return {"pos": [list(x) for x in p["pos"]], "ori": [[list(r) for r in m] for m in p["ori"]]}


def tla_call(c):
    out = {"op": c["op"], "o": c["o"], "bad": "",
           "inp": {"scalar": c["inp"]["scalar"], "v": [[list(r) for r in x] if isinstance(x[0], (list, tuple)) else list(x) for x in c["inp"]["v"]]},
           "anc": {"kind": c["anc"]["kind"], "scalar": c["anc"]["scalar"], "v": [list(x) for x in c["anc"]["v"]]},
           "start": {"auto": c["start"]["auto"], "v": c["start"]["v"]}}
    return out
