"""Binding of spec/Physics.tla (C02) to the real field functions.

The driver only builds lattice scenes, calls getB/getH/getJ/getM (and a sample of magpylib.core functions) and
logs what came back, quantized with harness.quant.  It never decides anything: classification of the observer,
the expected J and the comparison of B, mu0*H, J, mu0*M are made by spec/TV_PhysJ.tla.

Scene = one body x one pose x one concretization kappa x one in_out mode x one batch composition, observed on the
whole half-lattice box around the body (doubled integer coordinates, bounding box of the body +- 1).
"""
import itertools
import json
import math
import os

import numpy as np

from .. import quant
from ..common import import_magpylib, rng
from ..lattice import ROTS, Kappa, mat_to_rot

POL = (1, 2, 3)  # unit polarization direction (integer vector); the magnitude is a separate factor


# ------------------------------------------------------------------------------------------------ meshes (doubled ints)
def _quad(a, b, c, d):
    return [[a, b, c], [a, c, d]]


def cell_quads(c, s, d):
    """face of the cell [c, c+s]^3 with outward normal d, counter-clockwise seen from outside (as MC_Physics!CellQuad)"""
    l1, l2, l3 = c
    h1, h2, h3 = c[0] + s[0], c[1] + s[1], c[2] + s[2]
    return {
        (1, 0, 0): _quad((h1, l2, l3), (h1, h2, l3), (h1, h2, h3), (h1, l2, h3)),
        (-1, 0, 0): _quad((l1, l2, l3), (l1, l2, h3), (l1, h2, h3), (l1, h2, l3)),
        (0, 1, 0): _quad((l1, h2, l3), (l1, h2, h3), (h1, h2, h3), (h1, h2, l3)),
        (0, -1, 0): _quad((l1, l2, l3), (h1, l2, l3), (h1, l2, h3), (l1, l2, h3)),
        (0, 0, 1): _quad((l1, l2, h3), (h1, l2, h3), (h1, h2, h3), (l1, h2, h3)),
        (0, 0, -1): _quad((l1, l2, l3), (l1, h2, l3), (h1, h2, l3), (h1, l2, l3)),
    }[d]


DIRS6 = [(1, 0, 0), (-1, 0, 0), (0, 1, 0), (0, -1, 0), (0, 0, 1), (0, 0, -1)]


def cell_mesh(cells, s=2):
    """boundary triangles (doubled coordinates) of a union of lattice cells given by their low corners"""
    cells = {tuple(c) for c in cells}
    tris = []
    for c in sorted(cells):
        for d in DIRS6:
            if (c[0] + s * d[0], c[1] + s * d[1], c[2] + s * d[2]) not in cells:
                tris += cell_quads(c, (s, s, s), d)
    return [[list(v) for v in t] for t in tris]


def box_mesh(dim2):
    h = [x // 2 for x in dim2]
    lo = (-h[0], -h[1], -h[2])
    tris = []
    for d in DIRS6:
        tris += cell_quads(lo, (2 * h[0], 2 * h[1], 2 * h[2]), d)
    return [[list(v) for v in t] for t in tris]


def octa_mesh(r):
    return [[[r, 0, 0], [0, r, 0], [0, 0, r]], [[0, r, 0], [-r, 0, 0], [0, 0, r]], [[-r, 0, 0], [0, -r, 0], [0, 0, r]],
            [[0, -r, 0], [r, 0, 0], [0, 0, r]], [[0, r, 0], [r, 0, 0], [0, 0, -r]], [[-r, 0, 0], [0, r, 0], [0, 0, -r]],
            [[0, -r, 0], [-r, 0, 0], [0, 0, -r]], [[r, 0, 0], [0, -r, 0], [0, 0, -r]]]


def tetra_mesh(v):
    v = [list(p) for p in v]
    a, b, c, d = (np.array(p) for p in v)
    if np.linalg.det(np.array([b - a, c - a, d - a], dtype=float)) > 0:
        return [[v[0], v[2], v[1]], [v[0], v[1], v[3]], [v[1], v[2], v[3]], [v[0], v[3], v[2]]]
    return [[v[0], v[1], v[2]], [v[0], v[3], v[1]], [v[1], v[3], v[2]], [v[0], v[2], v[3]]]


def prism_mesh():
    """triangular prism (convex, not axial): triangle (0,0),(4,0),(0,4) extruded over z in -2..2 (doubled)"""
    A, B, C = [0, 0, -2], [4, 0, -2], [0, 4, -2]
    a, b, c = [0, 0, 2], [4, 0, 2], [0, 4, 2]
    return [[A, C, B], [a, b, c], [A, B, b], [A, b, a], [B, C, c], [B, c, b], [C, A, a], [C, a, c]]


def pyramid_mesh(h, order="A"):
    """square pyramid on the base [-2,2]^2 x {0} with apex (0,0,h) (doubled); order A: both base facets first,
    order B: one base facet first, the other one last"""
    a, b, c, d, p = [-2, -2, 0], [2, -2, 0], [2, 2, 0], [-2, 2, 0], [0, 0, h]
    base, sides = [[a, c, b], [a, d, c]], [[a, b, p], [b, c, p], [c, d, p], [d, a, p]]
    return base + sides if order == "A" else [base[0]] + sides + [base[1]]


def house_mesh(h):
    """box [-2,2]^2 x [-4,0] with a pyramid roof of apex (0,0,h): the 10 facets of the box (without its top) come first"""
    lo, size = (-2, -2, -4), (4, 4, 4)
    tris = []
    for d in DIRS6:
        if d != (0, 0, 1):
            tris += cell_quads(lo, size, d)
    a, b, c, d, p = [-2, -2, 0], [2, -2, 0], [2, 2, 0], [-2, 2, 0], [0, 0, h]
    return [[list(v) for v in t] for t in tris] + [[a, b, p], [b, c, p], [c, d, p], [d, a, p]]


def slab_mesh(hz):
    """box [-2,2] x [-1,1] x [-3,-3+hz]: the two facets of the bottom face first (a box and its stretched copy share them)"""
    lo, size = (-2, -1, -3), (4, 2, hz)
    tris = []
    for d in [(0, 0, -1)] + [x for x in DIRS6 if x != (0, 0, -1)]:
        tris += cell_quads(lo, size, d)
    return [[list(v) for v in t] for t in tris]


# pairs of DIFFERENT bodies that agree in cheap summaries of their meshes (facet count, leading / last facets, bounding
# box, volume): (name A, name B, what they share)
TWINS = [("TriangularMesh_pyrlowA", "TriangularMesh_pyrtallA", "facet count, 2 leading facets"),
         ("TriangularMesh_pyrlowB", "TriangularMesh_pyrtallB", "facet count, first and last facet"),
         ("TriangularMesh_houselow", "TriangularMesh_housetall", "facet count, 10 leading facets of 14"),
         ("TriangularMesh_slab6", "TriangularMesh_slab10", "facet count, 2 leading facets, footprint"),
         ("TriangularMesh_twinA", "TriangularMesh_twinB", "facet count, bounding box, volume, centroid"),
         ("TriangularMesh_box", "TriangularMesh_box2", "facet count")]

# ------------------------------------------------------------------------------------------------ catalogue
T1 = [(0, 0, 0), (4, 0, 0), (0, 4, 0), (0, 0, 4)]
T2 = [(2, 0, 0), (0, 4, 0), (-2, -2, 0), (0, 0, 6)]
L_CELLS = [(0, 0, 0), (2, 0, 0), (0, 2, 0)]
U_CELLS = [(-3, -1, -1), (-1, -1, -1), (1, -1, -1), (-3, 1, -1), (1, 1, -1)]


def _bbox_of_points(P):
    P = np.asarray(P).reshape(-1, 3)
    return P.min(axis=0).astype(int).tolist(), P.max(axis=0).astype(int).tolist()


def catalogue():
    """name -> dict(body=abstract record (doubled ints), lo, hi = doubled bounding box in the local frame)"""
    cat = {}

    def add(name, body, lo, hi):
        cat[name] = {"name": name, "body": body, "lo": [int(x) for x in lo], "hi": [int(x) for x in hi]}

    for a, b, c in [(4, 4, 8), (2, 6, 3), (2, 2, 2)]:
        add(f"Cuboid_{a}_{b}_{c}", {"cls": "Cuboid", "dim2": [a, b, c]}, [-math.ceil(a / 2), -math.ceil(b / 2), -math.ceil(c / 2)],
            [math.ceil(a / 2), math.ceil(b / 2), math.ceil(c / 2)])
    for d, h in [(4, 4), (5, 3), (10, 4)]:
        r = math.ceil(d / 2)
        add(f"Cylinder_{d}_{h}", {"cls": "Cylinder", "d2": d, "h2": h}, [-r, -r, -math.ceil(h / 2)], [r, r, math.ceil(h / 2)])
    for d in (4, 10):
        r = math.ceil(d / 2)
        add(f"Sphere_{d}", {"cls": "Sphere", "d2": d}, [-r] * 3, [r] * 3)
    for r1, r2, h, p1, p2 in [(2, 4, 4, 0, 2), (0, 4, 4, -1, 3), (2, 5, 6, 2, 8), (1, 3, 2, -4, -1), (2, 4, 4, 1, 7), (2, 4, 2, 0, 8), (0, 4, 2, 0, 8),
                               (2, 4, 4, -7, -5), (1, 3, 2, -6, -3),       # section angles below -180 degrees
                               (2, 4, 4, 7, 10), (2, 4, 4, -10, -7)]:     # ... and beyond +-360 degrees (phi1 < phi2, phi2 - phi1 <= 360 is all the format demands)
        add(f"CylinderSegment_{r1}_{r2}_{h}_{p1}_{p2}".replace("-", "m"),
            {"cls": "CylinderSegment", "r12": r1, "r22": r2, "h2": h, "p1": p1, "p2": p2}, [-r2, -r2, -math.ceil(h / 2)], [r2, r2, math.ceil(h / 2)])
    for i, v in enumerate((T1, T2)):
        lo, hi = _bbox_of_points(v)
        add(f"Tetrahedron_{i + 1}", {"cls": "Tetrahedron", "v2": [list(p) for p in v]}, lo, hi)
    # box2: same face count as box, other geometry
    for name, f2, mk in [("box", box_mesh((4, 2, 6)), "convex"), ("box2", box_mesh((2, 6, 4)), "convex"), ("boxax", box_mesh((4, 2, 6)), "axial"), ("L", cell_mesh(L_CELLS), "axial"),
                         ("U", cell_mesh(U_CELLS), "axial"), ("octa", octa_mesh(4), "convex"), ("tetra", tetra_mesh(T2), "convex"),
                         ("prism", prism_mesh(), "convex"),
                         # twins (see TWINS): different bodies whose meshes agree in cheap summaries
                         ("pyrlowA", pyramid_mesh(2, "A"), "convex"), ("pyrtallA", pyramid_mesh(6, "A"), "convex"),
                         ("pyrlowB", pyramid_mesh(2, "B"), "convex"), ("pyrtallB", pyramid_mesh(6, "B"), "convex"),
                         ("houselow", house_mesh(2), "convex"), ("housetall", house_mesh(4), "convex"),
                         ("slab6", slab_mesh(6), "convex"), ("slab10", slab_mesh(10), "convex"),
                         ("twinA", tetra_mesh([(0, 0, 0), (4, 4, 0), (4, 0, 4), (0, 4, 4)]), "convex"),
                         ("twinB", tetra_mesh([(4, 0, 0), (0, 4, 0), (0, 0, 4), (4, 4, 4)]), "convex")]:
        lo, hi = _bbox_of_points(f2)
        add(f"TriangularMesh_{name}", {"cls": "TriangularMesh", "f2": f2, "mk": mk}, lo, hi)
    add("Triangle_1", {"cls": "Triangle", "v2": [[0, 0, 0], [4, 0, 0], [0, 4, 0]]}, [0, 0, 0], [4, 4, 0])
    add("Circle_4", {"cls": "Circle", "d2": 4}, [-2, -2, 0], [2, 2, 0])
    add("Polyline_1", {"cls": "Polyline", "v2": [[-2, 0, 0], [2, 0, 0], [2, 2, 0], [2, 2, 4]]}, [-2, 0, 0], [2, 2, 4])
    add("Dipole_1", {"cls": "Dipole"}, [0, 0, 0], [0, 0, 0])
    add("CustomSource_1", {"cls": "CustomSource"}, [0, 0, 0], [0, 0, 0])
    return cat


CAT = catalogue()
TWIN_ONLY = {n for pair in TWINS[:5] for n in pair[:2]}   # bodies that exist for the joint calls only (no scan of their own in the quick tier)
MAGNET_CLASSES = ("Cuboid", "Cylinder", "Sphere", "CylinderSegment", "Tetrahedron", "TriangularMesh")
INOUT_CLASSES = ("Tetrahedron", "TriangularMesh")


def make_source(magpy, entry, lam=1.0, m=1.0, excitation="polarization"):
    """real magpylib object for a catalogue entry at the identity pose; lengths scaled by lam, |unit polarization| = m.
    For TriangularMesh the abstract record is re-read from the object (src.mesh is what the field code uses)."""
    b = entry["body"]
    cls = b["cls"]
    pol = np.array(POL, dtype=float) * m
    kw = {excitation: pol}
    M = magpy.magnet
    if cls == "Cuboid":
        return M.Cuboid(dimension=np.array(b["dim2"]) / 2 * lam, **kw), b
    if cls == "Cylinder":
        return M.Cylinder(dimension=np.array([b["d2"], b["h2"]]) / 2 * lam, **kw), b
    if cls == "Sphere":
        return M.Sphere(diameter=b["d2"] / 2 * lam, **kw), b
    if cls == "CylinderSegment":
        return M.CylinderSegment(dimension=(b["r12"] / 2 * lam, b["r22"] / 2 * lam, b["h2"] / 2 * lam, 45.0 * b["p1"], 45.0 * b["p2"]), **kw), b
    if cls == "Tetrahedron":
        return M.Tetrahedron(vertices=np.array(b["v2"]) / 2 * lam, **kw), b
    if cls == "TriangularMesh":
        tris = np.array(b["f2"], dtype=float) / 2 * lam
        verts, inv = np.unique(tris.reshape(-1, 3), axis=0, return_inverse=True)
        # the status checks and the re-orientation belong to C16; the mesh is correct by construction and the spec re-checks
        # closedness, orientation and convexity / axiality from the triangles the object really holds
        src = M.TriangularMesh(vertices=verts, faces=np.asarray(inv).reshape(-1, 3), check_open="skip", check_disconnected="skip",
                               check_selfintersecting="skip", reorient_faces="skip", **kw)
        back = np.asarray(src.mesh) / lam * 2
        r = np.rint(back)
        if np.abs(back - r).max() > 1e-6:
            raise ValueError("mesh of the object is off the lattice")
        return src, {"cls": cls, "f2": r.astype(int).tolist(), "mk": b["mk"]}
    if cls == "Triangle":
        return magpy.misc.Triangle(vertices=np.array(b["v2"]) / 2 * lam, **kw), b
    if cls == "Circle":
        return magpy.current.Circle(diameter=b["d2"] / 2 * lam, current=m), b
    if cls == "Polyline":
        return magpy.current.Polyline(vertices=np.array(b["v2"]) / 2 * lam, current=m), b
    if cls == "Dipole":
        return magpy.misc.Dipole(moment=pol), b
    if cls == "CustomSource":
        mu0 = magpy.mu_0

        def ff(field, observers):
            v = np.tile(pol, (len(observers), 1))
            if field == "B":
                return v * mu0
            if field == "H":
                return v
            return np.zeros_like(v)

        return magpy.misc.CustomSource(field_func=ff), b
    raise ValueError(cls)


def box_points(entry, sub=None):
    """all doubled local lattice points of the bounding box of the body +- 1 (optionally only some z planes)"""
    lo, hi = entry["lo"], entry["hi"]
    rng_ = [range(lo[i] - 1, hi[i] + 2) for i in range(3)]
    pts = np.array(list(itertools.product(*rng_)), dtype=int)
    if sub == "planes":  # the mid plane, the top plane and one plane above it
        keep = np.isin(pts[:, 2], [0, hi[2], hi[2] + 1])
        pts = pts[keep]
    elif sub == "core":  # a small block around the centre of the box
        c = [(lo[i] + hi[i]) // 2 for i in range(3)]
        keep = np.all(np.abs(pts - np.array(c)) <= 2, axis=1)
        pts = pts[keep]
    return pts


# exact integer membership used ONLY to select truthful in_out batches (the spec re-checks the premise)
def _strict_class(entry, pts):
    b = entry["body"]
    P = np.asarray(pts, dtype=np.int64)
    if b["cls"] == "Tetrahedron":
        faces = tetra_mesh(b["v2"])
    elif b["mk"] == "convex":
        faces = b["f2"]
    else:
        faces = None
    if faces is not None:
        s = []
        for f in faces:
            a, bb, c = (np.array(v, dtype=np.int64) for v in f)
            n = np.cross(bb - a, c - a)
            s.append((P - a) @ n)
        s = np.array(s)
        return np.where((s < 0).all(axis=0), "in", np.where((s > 0).any(axis=0), "out", "on"))
    cells = {"TriangularMesh_L": L_CELLS, "TriangularMesh_U": U_CELLS, "TriangularMesh_boxax": None}[entry["name"]]
    if cells is None:
        boxes = [((-2, -1, -3), (2, 1, 3))]
    else:
        boxes = [(c, (c[0] + 2, c[1] + 2, c[2] + 2)) for c in cells]
    out = []
    for p in P:
        n = 0
        for sx, sy, sz in itertools.product((-1, 1), repeat=3):
            q = (2 * p[0] + sx, 2 * p[1] + sy, 2 * p[2] + sz)
            if any(all(2 * lo[i] < q[i] < 2 * hi[i] for i in range(3)) for lo, hi in boxes):
                n += 1
        out.append("in" if n == 8 else "out" if n == 0 else "on")
    return np.array(out)


# ------------------------------------------------------------------------------------------------ measuring
def kappa_of(job):
    k = job["kap"]
    if k["id"]:
        return Kappa()
    r = rng("c02kap:" + k["salt"])
    lam = 10.0 ** (k["dec"] + r.uniform(0, 1))
    q = np.array([r.gauss(0, 1) for _ in range(4)])
    q /= np.linalg.norm(q)
    from scipy.spatial.transform import Rotation as R

    t = np.array([r.uniform(-3, 3) for _ in range(3)]) * lam
    return Kappa(lam, R.from_quat(q), t)


def four_fields(magpy, src, obs, inout):
    out = []
    for f in "BHJM":
        out.append(np.asarray(getattr(src, "get" + f)(obs, in_out=inout), dtype=float).reshape(-1, 3))
    return out


def quantize_obs(magpy, kap, m, B, H, J, M):
    """per observer: Jq (J / m in the lattice frame, scale 1) and B, mu0*H, J, mu0*M with one gross scale"""
    mu0 = magpy.mu_0
    muH, muM = H * mu0, M * mu0
    Jl = kap.unvec(J) / m
    rows = []
    for i in range(len(B)):
        fin = bool(np.isfinite(B[i]).all() and np.isfinite(H[i]).all() and np.isfinite(J[i]).all() and np.isfinite(M[i]).all())
        g = quant.gross(B[i], muH[i], J[i], muM[i])
        rows.append({"fin": fin, "Jq": quant.q12(Jl[i], 1.0), "B": quant.q12(B[i], g), "H": quant.q12(muH[i], g),
                     "J": quant.q12(J[i], g), "M": quant.q12(muM[i], g)})
    return rows


def global_obs(R, p2, local_pts):
    """doubled global lattice observers of doubled local points"""
    return (np.asarray(local_pts) @ np.array(R).T) + np.array(p2)


def run_field_job(magpy, job):
    """Execute one scene description; returns the list of scene lines (dicts)."""
    entry = CAT[job["body"]]
    kap = kappa_of(job)
    m = job["m"]
    R = ROTS[job["ri"]].tolist()
    p2 = job["p2"]
    src, body = make_source(magpy, entry, kap.lam, m)
    src.position = kap.pos(np.array(p2) / 2)
    src.orientation = kap.rot(np.array(R))
    pts = box_points(entry, job.get("sub"))
    inout, batch = job["inout"], job["batch"]
    if inout != "auto":
        cl = _strict_class(entry, pts)
        pts = pts[cl == ("in" if inout == "inside" else "out")]
        if len(pts) == 0:
            return []
    o2 = global_obs(R, p2, pts)
    obs = kap.pos(o2 / 2)
    scene = {"sid": job["sid"], "kind": "field", "body": body, "pose": {"R": R, "p2": p2}, "ri": job["ri"], "pol": list(POL),
             "inout": inout, "batch": batch, "iface": job["iface"], "kap": {"id": kap.identity, "dec": job["kap"]["dec"]}, "job": job}
    tid0 = job["sid"] * 10000
    if batch == "box":
        B, H, J, M = four_fields(magpy, src, obs, inout)
        if job["iface"] == "core":
            B, H = core_fields(magpy, entry, src, kap, m, obs, B, H)
        rows = quantize_obs(magpy, kap, m, B, H, J, M)
    elif batch == "single":
        # every observer in a call of its own; Jbox is J of the same observer in the whole-box call
        _, _, Jbox, _ = four_fields(magpy, src, obs, inout)
        res = [four_fields(magpy, src, obs[i], inout) for i in range(len(obs))]
        B, H, J, M = (np.concatenate([r[k] for r in res]) for k in range(4))
        rows = quantize_obs(magpy, kap, m, B, H, J, M)
        Jb = kap.unvec(Jbox) / m
        for i, r in enumerate(rows):
            r["Jbox"] = quant.q12(Jb[i], 1.0)
    else:
        raise ValueError(batch)
    scene["obs"] = [{"t": tid0 + i, "o": [int(x) for x in o2[i]], **rows[i]} for i in range(len(rows))]
    return [scene]


def core_fields(magpy, entry, src, kap, m, obs, B, H):
    """replace B (or H) of the object interface by the value of the magpylib.core function (identity pose only)"""
    core = magpy.core
    cls = entry["body"]["cls"]
    n = len(obs)
    pol = np.tile(np.array(POL, dtype=float) * m, (n, 1))
    if cls == "Cuboid":
        return core.magnet_cuboid_Bfield(observers=obs, dimensions=np.tile(src.dimension, (n, 1)), polarizations=pol), H
    if cls == "Sphere":
        return core.magnet_sphere_Bfield(observers=obs, diameters=np.full(n, src.diameter), polarizations=pol), H
    if cls == "Triangle":
        return core.triangle_Bfield(observers=obs, vertices=np.tile(src.vertices, (n, 1, 1)), polarizations=pol), H
    if cls == "Dipole":
        return B, core.dipole_Hfield(observers=obs, moments=pol)
    if cls == "Polyline":
        v = np.asarray(src.vertices)
        Hs = sum(core.current_polyline_Hfield(observers=obs, segments_start=np.tile(v[i], (n, 1)), segments_end=np.tile(v[i + 1], (n, 1)),
                                              currents=np.full(n, float(m))) for i in range(len(v) - 1))
        return B, Hs
    raise ValueError(cls)


def run_multi_job(magpy, job):
    """two (different) meshes in ONE call, one observer per call: the grouping of rows inside BHJM_magnet_trimesh"""
    ents = [CAT[n] for n in job["bodies"]]
    kap = kappa_of(job)
    m = job["m"]
    srcs, bodies, poses = [], [], []
    for e, ri, p2 in zip(ents, job["ris"], job["p2s"]):
        s, b = make_source(magpy, e, kap.lam, m)
        R = ROTS[ri].tolist()
        s.position = kap.pos(np.array(p2) / 2)
        s.orientation = kap.rot(np.array(R))
        srcs.append(s)
        bodies.append(b)
        poses.append({"R": R, "p2": p2})
    # observers: the box of the LAST body (global), so that points inside it are reached
    pts = box_points(ents[-1], job.get("sub"))
    o2 = global_obs(poses[-1]["R"], poses[-1]["p2"], pts)
    obs = kap.pos(o2 / 2)
    res = {f: [] for f in "BHJM"}
    for i in range(len(obs)):
        for f in "BHJM":
            res[f].append(np.asarray(getattr(magpy, "get" + f)(srcs, obs[i]), dtype=float).reshape(len(srcs), 3))
    scenes = []
    for k in range(len(srcs)):
        B, H, J, M = (np.array([r[k] for r in res[f]]) for f in "BHJM")
        rows = quantize_obs(magpy, kap, m, B, H, J, M)
        sid = job["sid"] + k
        scenes.append({"sid": sid, "kind": "field", "body": bodies[k], "pose": poses[k], "ri": job["ris"][k], "pol": list(POL),
                       "inout": "auto", "batch": f"multi{k + 1}of{len(srcs)}", "iface": "object", "kap": {"id": kap.identity, "dec": job["kap"]["dec"]},
                       "job": job, "obs": [{"t": sid * 10000 + i, "o": [int(x) for x in o2[i]], **rows[i]} for i in range(len(rows))]})
    return scenes


def run_joint_job(magpy, job):
    """several DIFFERENT meshes at one common pose in ONE call with all observers of the union box (and, for a sub-block,
    one observer per call): rows of consecutive sources are grouped inside BHJM_magnet_trimesh when it takes them for
    the same mesh.  Every scene carries its twin so that the spec classifies each observer against BOTH bodies."""
    ents = [CAT[n] for n in job["bodies"]]
    kap = kappa_of(job)
    m = job["m"]
    R = ROTS[job["ri"]].tolist()
    p2 = job["p2"]
    srcs, bodies = [], []
    for e in ents:
        s, b = make_source(magpy, e, kap.lam, m)
        s.position = kap.pos(np.array(p2) / 2)
        s.orientation = kap.rot(np.array(R))
        srcs.append(s)
        bodies.append(b)
    union = {"lo": [min(e["lo"][i] for e in ents) for i in range(3)], "hi": [max(e["hi"][i] for e in ents) for i in range(3)]}
    pts = box_points(union, job.get("sub"))
    o2 = global_obs(R, p2, pts)
    obs = kap.pos(o2 / 2)
    n = len(srcs)
    if job["batch"] == "joint":
        res = {f: np.asarray(getattr(magpy, "get" + f)(srcs, obs), dtype=float).reshape(n, len(obs), 3) for f in "BHJM"}
    else:   # one observer per call
        res = {f: np.stack([np.asarray(getattr(magpy, "get" + f)(srcs, obs[i]), dtype=float).reshape(n, 3) for i in range(len(obs))], axis=1) for f in "BHJM"}
    scenes = []
    pose = {"R": R, "p2": p2}
    for k in range(n):
        rows = quantize_obs(magpy, kap, m, res["B"][k], res["H"][k], res["J"][k], res["M"][k])
        sid = job["sid"] + k
        scenes.append({"sid": sid, "kind": "field", "body": bodies[k], "pose": pose, "ri": job["ri"], "pol": list(POL), "inout": "auto",
                       "batch": ("joint" if job["batch"] == "joint" else "multi") + f"{k + 1}of{n}", "iface": "object",
                       "kap": {"id": kap.identity, "dec": job["kap"]["dec"]}, "pair": "+".join(x.split("_", 1)[1] for x in job["bodies"]),
                       "twin": {"body": bodies[(k + 1) % n], "pose": pose}, "job": job,
                       "obs": [{"t": sid * 10000 + i, "o": [int(x) for x in o2[i]], **rows[i]} for i in range(len(rows))]})
    return scenes


def run_attr_job(magpy, job):
    if job.get("seq"):
        return run_attr_seq_job(magpy, job)
    return run_attr_ctor_job(magpy, job)


SEQ_DIRS = [(1, 2, 3), (3, 1, 2), (2, 3, 1), (-1, 3, 2), (2, -3, 1), (3, 2, -1)]


def run_attr_seq_job(magpy, job):
    """a sequence of assignments (setter / copy keyword) of polarization and magnetization to ONE existing magnet, under the
    default warning filters or with warnings escalated to errors; after EVERY assignment - whatever its outcome - both
    attributes and getJ / getM are read back, together with the values before the assignment and the assigned value"""
    import warnings

    entry = CAT[job["body"]]
    mu0 = magpy.mu_0
    src, body = make_source(magpy, entry, 1.0, 1.0, excitation=job["first"])
    pts = np.array(job["pts"], dtype=int)
    obs = pts / 2
    scenes = []

    def read(o):
        with warnings.catch_warnings():
            warnings.simplefilter("ignore")
            return (np.asarray(o.polarization, dtype=float), np.asarray(o.magnetization, dtype=float) * mu0,
                    np.asarray(o.getJ(obs), dtype=float).reshape(-1, 3), np.asarray(o.getM(obs), dtype=float).reshape(-1, 3) * mu0)

    for k, (attr, dec, via) in enumerate(job["steps"]):
        val = np.array(SEQ_DIRS[k % len(SEQ_DIRS)], dtype=float) * 10.0 ** dec
        P0, Mu0, _, _ = read(src)
        subject, outcome, exc = src, "ok", ""
        with warnings.catch_warnings(record=True) as rec:
            warnings.simplefilter("error" if job["filter"] == "error" else "always")
            try:
                if via == "setter":
                    setattr(src, attr, val)
                else:
                    subject = src.copy(**{attr: val})
            except Exception as ex:  # pylint: disable=broad-except
                outcome, exc, subject = "raised", type(ex).__name__, src   # (a failed copy leaves only the original to look at)
            if outcome == "ok" and rec:
                outcome = "warned"
        P, Mu, J, M = read(subject)
        A = val if attr == "polarization" else val * mu0
        rows = []
        sid = job["sid"] + k        # (the plan reserves one scene id per step)
        g2 = quant.gross(P, Mu, P0, Mu0, A)      # common scale of the values before and after the assignment
        for i in range(len(pts)):
            g = quant.gross(P, Mu, J[i], M[i])   # scale of the law between the CURRENT values
            fin = bool(all(np.isfinite(x).all() for x in (P, Mu, J[i], M[i])))
            rows.append({"t": sid * 10000 + i, "o": [int(x) for x in pts[i]], "fin": fin, "P": quant.q12(P, g), "Mu": quant.q12(Mu, g),
                         "J": quant.q12(J[i], g), "M": quant.q12(M[i], g), "Pc": quant.q12(P, g2), "Muc": quant.q12(Mu, g2),
                         "P0": quant.q12(P0, g2), "Mu0": quant.q12(Mu0, g2), "A": quant.q12(A, g2)})
        scenes.append({"sid": sid, "kind": "attr", "body": body, "pose": {"R": np.eye(3, dtype=int).tolist(), "p2": [0, 0, 0]}, "pol": list(POL),
                       "via": via, "attr": attr, "dec": dec, "seq": True, "outcome": outcome, "exc": exc, "filter": job["filter"], "job": job, "obs": rows})
        if via == "copy" and outcome != "raised":
            src = subject    # go on with the copy
    return scenes


def run_attr_ctor_job(magpy, job):
    """assign polarization or magnetization (constructor or setter) and read both attributes and getJ / getM back"""
    entry = CAT[job["body"]]
    mu0 = magpy.mu_0
    m = 10.0 ** job["dec"]
    val = np.array(POL, dtype=float) * m
    if job["via"] == "ctor":
        src, body = make_source(magpy, entry, 1.0, m, excitation=job["attr"])
    else:
        src, body = make_source(magpy, entry, 1.0, 1.0, excitation="polarization" if job["attr"] == "magnetization" else "magnetization")
        setattr(src, job["attr"], val)
    pts = np.array(job["pts"], dtype=int)
    obs = pts / 2
    P = np.asarray(src.polarization, dtype=float)
    Mu = np.asarray(src.magnetization, dtype=float) * mu0
    J = np.asarray(src.getJ(obs), dtype=float).reshape(-1, 3)
    M = np.asarray(src.getM(obs), dtype=float).reshape(-1, 3) * mu0
    rows = []
    for i in range(len(pts)):
        g = quant.gross(P, Mu, J[i], M[i])
        fin = bool(np.isfinite(P).all() and np.isfinite(Mu).all() and np.isfinite(J[i]).all() and np.isfinite(M[i]).all())
        rows.append({"t": job["sid"] * 10000 + i, "o": [int(x) for x in pts[i]], "fin": fin, "P": quant.q12(P, g), "Mu": quant.q12(Mu, g),
                     "J": quant.q12(J[i], g), "M": quant.q12(M[i], g)})
    return [{"sid": job["sid"], "kind": "attr", "body": body, "pose": {"R": np.eye(3, dtype=int).tolist(), "p2": [0, 0, 0]},
             "pol": list(POL), "via": job["via"], "attr": job["attr"], "dec": job["dec"], "seq": False, "outcome": "ok", "exc": "", "filter": "ignore",
             "job": job, "obs": rows}]


def run_job(magpy, job):
    if job["kind"] == "field":
        return run_field_job(magpy, job)
    if job["kind"] == "multi":
        return run_multi_job(magpy, job)
    if job["kind"] == "joint":
        return run_joint_job(magpy, job)
    return run_attr_job(magpy, job)


def worker(args):
    """execute a list of jobs, write the scene lines to one ndjson shard; returns (#scenes, #observations, #field evaluations)"""
    jobs, path = args
    magpy = import_magpylib()
    ns = no = ne = 0
    with open(path, "w") as f:
        for job in jobs:
            for sc in run_job(magpy, job):
                f.write(json.dumps(sc, separators=(",", ":")) + "\n")
                ns += 1
                no += len(sc["obs"])
                ne += 4 * len(sc["obs"]) * (2 if sc.get("batch") == "single" else 1)
    return ns, no, ne


# ------------------------------------------------------------------------------------------------ the plan
INSIDE_PTS = {  # two doubled local points per class for the attribute law (the spec classifies them)
    "Cuboid_4_4_8": [[0, 0, 0], [1, 1, 3], [5, 0, 0]], "Cylinder_4_4": [[0, 0, 0], [1, 0, 1], [0, 0, 5]], "Sphere_4": [[0, 0, 0], [1, 1, 0], [3, 3, 3]],
    "CylinderSegment_2_4_4_0_2": [[2, 2, 0], [3, 1, 1], [0, 0, 0]], "Tetrahedron_1": [[1, 1, 1], [0, 0, 5]], "TriangularMesh_box": [[0, 0, 0], [1, 0, 2], [5, 5, 5]],
}


def plan(tier):
    """deterministic list of jobs"""
    r = rng("c02plan")
    quick = tier == "quick"
    jobs = []
    sid = [0]

    def new(kind, **kw):
        sid[0] += 2
        j = {"kind": kind, "sid": sid[0], **kw}
        jobs.append(j)
        return j

    names = list(CAT)
    nposes = 3 if quick else 24
    kdecs = [-9, 8] if quick else [-9, -7, -5, -3, -1, 2, 5, 8]
    for bi, name in enumerate(names):
        cls = CAT[name]["body"]["cls"]
        if quick and name in TWIN_ONLY:
            continue    # (scanned on their own in the thorough tier; in the quick tier they only take part in the joint calls)
        # poses: quick = a rotating subset of the 24 rotations (identity always included), thorough = all
        ris = list(range(24)) if not quick else sorted({0, (5 * bi + 7) % 24, (11 * bi + 13) % 24})
        for ri in ris:
            p2 = [r.randint(-4, 4) for _ in range(3)]
            kaps = [{"id": True, "dec": 0, "salt": ""}]
            # random concretizations: at the first pose every decade of the tier, at the other poses (thorough) one, cycling
            if ri == ris[0]:
                kaps += [{"id": False, "dec": d, "salt": f"{name}:{ri}:{d}"} for d in kdecs]
            elif not quick:
                d = kdecs[ri % len(kdecs)]
                kaps.append({"id": False, "dec": d, "salt": f"{name}:{ri}:{d}"})
            for kap in kaps:
                m = 1.0 if kap["id"] else 10.0 ** r.randint(-3, 3)
                new("field", body=name, ri=ri, p2=p2, kap=kap, m=m, inout="auto", batch="box", iface="object")
                if cls in INOUT_CLASSES and (kap["id"] or not quick):
                    for io in ("inside", "outside"):
                        new("field", body=name, ri=ri, p2=p2, kap=kap, m=m, inout=io, batch="box", iface="object")
        # batch composition: every observer of some planes of the box in a call of its own
        if cls in ("CylinderSegment", "Cylinder", "Cuboid", "Sphere") and (not quick or name in ("CylinderSegment_2_4_4_0_2", "Cylinder_4_4", "Cuboid_2_2_2", "Sphere_4")):
            new("field", body=name, ri=0, p2=[0, 0, 0], kap={"id": True, "dec": 0, "salt": ""}, m=1.0, inout="auto", batch="single", iface="object", sub="planes")
        # core functions (identity pose, kappa = id)
        if name in ("Cuboid_4_4_8", "Sphere_4", "Triangle_1", "Dipole_1", "Polyline_1"):
            new("field", body=name, ri=0, p2=[0, 0, 0], kap={"id": True, "dec": 0, "salt": ""}, m=1.0, inout="auto", batch="box", iface="core")
    # two meshes in one call
    pairs = [("TriangularMesh_box", "TriangularMesh_octa"), ("TriangularMesh_box", "TriangularMesh_box2"), ("TriangularMesh_box2", "TriangularMesh_box"),
             ("TriangularMesh_octa", "TriangularMesh_box"), ("TriangularMesh_tetra", "TriangularMesh_L")]
    for a, b in pairs if not quick else pairs[:3]:
        new("multi", bodies=[a, b], ris=[0, 0], p2s=[[6, 0, 0], [0, 0, 0]], kap={"id": True, "dec": 0, "salt": ""}, m=1.0, sub="core")
    # DIFFERENT meshes that agree in cheap summaries, jointly in one call, in both orders
    ident = {"id": True, "dec": 0, "salt": ""}
    for pi, (a, b, _) in enumerate(TWINS):
        for x, y in ((a, b), (b, a)):
            new("joint", bodies=[x, y], ri=0, p2=[0, 0, 0], kap=ident, m=1.0, batch="joint")
            if not quick or pi < 2:
                new("joint", bodies=[x, y], ri=0, p2=[0, 0, 0], kap=ident, m=1.0, batch="single", sub="core")
            # the same pair as bodies of a few NANOMETRES and of kilometres (a length unit is not a tolerance: the meshes stay different)
            if not quick or pi < 3:
                new("joint", bodies=[x, y], ri=0, p2=[0, 0, 0], kap={"id": False, "dec": -9, "salt": f"joint-nm:{x}:{y}"}, m=1.0, batch="joint")
            if not quick:
                new("joint", bodies=[x, y], ri=0, p2=[0, 0, 0], kap={"id": False, "dec": 3, "salt": f"joint-km:{x}:{y}"}, m=1.0, batch="joint")
            if not quick:
                ri = (7 * pi + 5) % 24
                p2 = [r.randint(-4, 4) for _ in range(3)]
                new("joint", bodies=[x, y], ri=ri, p2=p2, kap=ident, m=1.0, batch="joint")
                new("joint", bodies=[x, y], ri=ri, p2=p2, kap={"id": False, "dec": -3 + 2 * pi, "salt": f"joint:{x}:{y}"}, m=10.0 ** r.randint(-3, 3), batch="joint")
    if not quick:   # three sources: A, B, A
        for a, b, _ in TWINS[:3]:
            new("joint", bodies=[a, b, a], ri=0, p2=[0, 0, 0], kap=ident, m=1.0, batch="joint")
            sid[0] += 2
    # attribute law after EVERY assignment of a sequence, whatever its outcome, under default filters and with warnings as errors
    # (the library warns for |magnetization| < 2000 A/m: steps with decade <= 2)
    steps = [("magnetization", 6, "setter"), ("magnetization", 2, "setter"), ("polarization", 0, "setter"), ("magnetization", 0, "copy"),
             ("polarization", -3, "copy"), ("magnetization", 3, "setter"), ("magnetization", -6, "setter"), ("polarization", 6, "setter"),
             ("magnetization", 1, "copy"), ("magnetization", 9, "copy"), ("polarization", -9, "setter"), ("magnetization", -12, "setter")]
    if not quick:
        steps = steps + [(a, d, v) for d in (-9, -3, 2, 3, 4, 12) for a in ("magnetization", "polarization") for v in ("setter", "copy")]
    for name, pts in INSIDE_PTS.items():
        for first in ("polarization", "magnetization"):
            for flt in ("default", "error"):
                new("attr", body=name, seq=True, first=first, filter=flt, steps=steps, pts=pts)
                sid[0] += len(steps) + 2
    # attribute law, one fresh object per assignment
    decs = [-12, -6, -3, 0, 3, 6, 12] if quick else list(range(-12, 13))
    for name, pts in INSIDE_PTS.items():
        for via in ("ctor", "setter"):
            for attr in ("polarization", "magnetization"):
                for d in decs:
                    new("attr", body=name, via=via, attr=attr, dec=d, pts=pts)
    return jobs


def split_jobs(jobs, n):
    """cost-balanced split (round robin over jobs sorted by an estimate of their cost)"""
    def cost(j):
        if j["kind"] == "attr":
            return 40 if j.get("seq") else 1
        if j["kind"] == "multi":
            return 4000
        if j["kind"] == "joint":
            return 5000 if j["batch"] == "single" else 1500
        e = CAT[j["body"]]
        npts = np.prod([e["hi"][i] - e["lo"][i] + 3 for i in range(3)])
        w = {"CylinderSegment": 6, "TriangularMesh": 4, "Tetrahedron": 2}.get(e["body"]["cls"], 1)
        return npts * w * (30 if j["batch"] == "single" else 1)
    order = sorted(jobs, key=cost, reverse=True)
    out = [[] for _ in range(n)]
    load = [0] * n
    for j in order:
        k = load.index(min(load))
        out[k].append(j)
        load[k] += cost(j)
    return [o for o in out if o]
