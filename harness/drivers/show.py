"""Binding of spec/Show.tla to magpylib.show().

For every scenario group dumped by TLC from MC_Show (pose path x frames selector x unit x backend x where the selector is
given x decorations; all object classes at once) and for hand-written structural scenarios (collections, nesting, animation,
subplots, style keywords, markers) the driver builds real objects (under kappa = identity and random concretizations), calls
magpylib.show(..., return_fig=True) and logs
  - per displayed frame and per object the generic traces get_traces_3D produced for it (recorded from inside the very
    show() call by wrapping traces_generic.get_traces_3D / draw_frame from outside the repository),
  - the traces of the figure returned (plotly: fig.data / fig.frames; matplotlib: Poly3DCollection / Line3D / Path3DCollection),
    read in the unit announced on the axes,
  - both mapped back through kappa to the lattice and quantized to 1/1000 lattice unit,
  - digests of every object, of magpylib.defaults and of every caller-supplied container before and after.
Nothing is judged here; TV_Show.tla decides placement, unit and non-mutation.
"""
import contextlib
import copy as _copy
import json
import re

import numpy as np

from ..common import import_magpylib, rng
from ..lattice import Kappa, mat_to_rot
from . import heap as hp

Q = 1000
SI_POW = {"y": -24, "z": -21, "a": -18, "f": -15, "p": -12, "n": -9, "u": -6, "m": -3, "c": -2, "d": -1, "": 0,
          "k": 3, "M": 6, "G": 9, "T": 12, "P": 15, "E": 18, "Z": 21, "Y": 24}
CLASSES = ["Cuboid", "Cylinder", "CylinderSegment", "Sphere", "Tetrahedron", "TriangularMesh", "Circle", "Polyline", "Dipole",
           "Triangle", "CustomSource", "Sensor", "Collection"]


def magpy():
    return hp.magpy()


# ------------------------------------------------------------------------------------------ reading a figure
def parse_unit(title):
    """axis title 'x (mm)' -> ('mm' with the micro sign written u, SI exponent); ('', None) if no unit is announced"""
    m = re.search(r"\(([^)]*)\)\s*$", title or "")
    if not m:
        return "", None
    u = m.group(1).replace("µ", "u").replace("μ", "u")
    if not u.endswith("m"):
        return u, None
    return u, SI_POW.get(u[:-1], None)


def quantize(pts_m, kappa):
    """points in metres -> lattice (kappa undone) -> q3 integers; rows with a non-finite coordinate cut the sequence"""
    pts = np.asarray(pts_m, dtype=float).reshape(-1, 3)
    segs = []
    cur = []
    fin = np.isfinite(pts).all(axis=1)
    if fin.any():
        lat = np.zeros_like(pts)
        lat[fin] = kappa.unpos(pts[fin])
        q = np.rint(lat * Q)
    for i in range(len(pts)):
        if fin[i]:
            cur.append([int(q[i, 0]), int(q[i, 1]), int(q[i, 2])])
        elif cur:
            segs.append(cur)
            cur = []
    if cur:
        segs.append(cur)
    return segs


def coords(tr):
    """x, y, z of a trace (dict or plotly object) as float array (None -> nan)"""
    def col(v):
        return np.array([np.nan if a is None else a for a in np.asarray(v, dtype=object).ravel()], dtype=float)
    get = (lambda k: tr[k]) if isinstance(tr, dict) else (lambda k: getattr(tr, k))
    return np.stack([col(get("x")), col(get("y")), col(get("z"))], axis=1)


def trace_rec(ttype, mode, pts_m, kappa, mesh):
    segs = quantize(pts_m, kappa)
    if mesh:
        # a mesh is a vertex set: duplicates carry no information
        seen = {}
        for s in segs:
            for p in s:
                seen[tuple(p)] = None
        segs = [[list(p) for p in seen]]
    return {"type": ttype, "mode": mode or "", "segs": segs}


def generic_traces(trs, kappa):
    out = []
    for t in trs:
        if "z" not in t or t.get("_autosize", False):
            continue
        ttype = t.get("type", "")
        out.append(trace_rec(ttype, t.get("mode", "") if "scatter" in ttype else "", coords(t), kappa, ttype == "mesh3d"))
    return out


def plotly_scene_traces(fig, data, scene_name, pow10, kappa):
    out = []
    for t in data:
        if not hasattr(t, "z") or t.z is None:
            continue
        sc = getattr(t, "scene", None) or "scene"
        if sc != scene_name:
            continue
        out.append(trace_rec(t.type, getattr(t, "mode", "") if t.type == "scatter3d" else "", coords(t) * 10.0 ** pow10, kappa, t.type == "mesh3d"))
    return out


def mpl_axis_traces(ax, pow10, kappa):
    out = []
    f = 10.0 ** pow10
    for c in ax.collections:
        name = type(c).__name__
        if name == "Poly3DCollection":
            faces = np.ma.filled(np.ma.asarray(c._faces, dtype=float), np.nan)  # pylint: disable=protected-access
            out.append(trace_rec("mesh3d", "", faces.reshape(-1, 3) * f, kappa, True))
        elif name == "Path3DCollection":
            x, y, z = c._offsets3d  # pylint: disable=protected-access
            out.append(trace_rec("scatter3d", "markers", np.stack([np.ma.filled(x, np.nan), np.ma.filled(y, np.nan), np.ma.filled(z, np.nan)], axis=1) * f, kappa, False))
    for ln in ax.lines:
        if hasattr(ln, "get_data_3d"):
            x, y, z = ln.get_data_3d()
            mk = ln.get_marker() not in (None, "None", "", " ")
            ls = ln.get_linestyle() not in (None, "None", "", " ")
            mode = "markers+lines" if (mk and ls) else "lines" if ls else "markers"
            out.append(trace_rec("scatter3d", mode, np.stack([np.asarray(x, float), np.asarray(y, float), np.asarray(z, float)], axis=1) * f, kappa, False))
    return out


# ------------------------------------------------------------------------------------------ recorder
@contextlib.contextmanager
def recorder():
    """records, frame by frame, the traces get_traces_3D returns per object during a show() call"""
    from magpylib._src.display import traces_generic as tg
    rec = {"frames": []}
    o_draw, o_get = tg.draw_frame, tg.get_traces_3D

    def draw(objs, **kw):
        rec["frames"].append({})
        return o_draw(objs, **kw)

    def get(flat, **kw):
        out = o_get(flat, **kw)
        if not rec["frames"]:
            rec["frames"].append({})
        rc = (kw.get("row", 1), kw.get("col", 1))
        for o, trs in out[0].items():
            if trs and not trs[0].get("_autosize", False):
                rec["frames"][-1][(id(o), rc)] = [dict(t) for t in trs]
        return out

    tg.draw_frame, tg.get_traces_3D = draw, get
    try:
        yield rec
    finally:
        tg.draw_frame, tg.get_traces_3D = o_draw, o_get


# ------------------------------------------------------------------------------------------ objects
def build(cls, geom, path, kappa, pixel=None):
    m = magpy()
    lam = kappa.lam
    pos = [kappa.pos(p["p"]) for p in path]
    ori = kappa.rot([p["r"] for p in path])
    kw = {"position": pos if len(pos) > 1 else pos[0], "orientation": ori if len(pos) > 1 else ori[0]}
    dim, verts = geom.get("dim", []), geom.get("verts", [])
    sv = (np.array(verts, dtype=float) * lam) if len(verts) else None
    if cls == "Cuboid":
        return m.magnet.Cuboid(dimension=np.array(dim, float) * lam, polarization=(1, 2, 3), **kw)
    if cls == "Cylinder":
        return m.magnet.Cylinder(dimension=np.array(dim, float) * lam, polarization=(1, 2, 3), **kw)
    if cls == "CylinderSegment":
        d = [dim[0] * lam, dim[1] * lam, dim[2] * lam, dim[3], dim[4]]
        return m.magnet.CylinderSegment(dimension=d, polarization=(1, 2, 3), **kw)
    if cls == "Sphere":
        return m.magnet.Sphere(diameter=dim[0] * lam, polarization=(1, 2, 3), **kw)
    if cls == "Circle":
        return m.current.Circle(diameter=dim[0] * lam, current=2, **kw)
    if cls == "Tetrahedron":
        if len(path) % 2 == 0 or not kappa.identity:
            sv = sv[[0, 1, 3, 2]]         # the same vertex SET in left-handed order (display code re-orders a copy of the vertices)
        return m.magnet.Tetrahedron(vertices=sv, polarization=(1, 2, 3), **kw)
    if cls == "TriangularMesh":
        return m.magnet.TriangularMesh(vertices=sv, faces=[(0, 2, 1), (0, 1, 3), (0, 3, 2), (1, 2, 3)], polarization=(1, 2, 3), **kw)
    if cls == "Triangle":
        return m.misc.Triangle(vertices=sv, polarization=(1, 2, 3), **kw)
    if cls == "Polyline":
        return m.current.Polyline(vertices=sv, current=2, **kw)
    if cls == "Dipole":
        # the moment is a vector of the object's frame (lattice vector of the scenario; (0, 0, 1) where the scenario names none)
        return m.misc.Dipole(moment=(np.array(verts[0], dtype=float) * 0.5 if len(verts) else (0, 0, 1)), **kw)
    if cls == "CustomSource":
        return m.misc.CustomSource(**kw)
    if cls == "Sensor":
        return m.Sensor(pixel=(0, 0, 0) if pixel is None else np.array(pixel, float) * lam, **kw)
    if cls == "Collection":
        return m.Collection(**kw)
    raise KeyError(cls)


def sel_value(sel):
    if sel["kind"] == "default":
        return None
    if sel["kind"] == "int":
        return int(sel["n"])
    return [int(i) for i in sel["l"]]


def make_bare(o):
    """switch off everything that is not the body or the path"""
    st = o.style
    if hasattr(st, "magnetization"):
        st.magnetization.show = False
    if hasattr(st, "arrow"):
        st.arrow.show = False
    if hasattr(st, "orientation"):
        st.orientation.show = False


# ------------------------------------------------------------------------------------------ one show() call
def digest_world(w, extra):
    ob = w.observe(compact=True)
    d = {"pub": ob["pub"], "parent": ob["parent"], "children": ob["children"], "lab": {k: v["text"] for k, v in ob["lab"].items()}, "cls": ob["cls"]}
    d["defaults"] = hp.dg(hp.canon(magpy().defaults.as_dict()))
    d["caller"] = {k: hp.dg(hp.canon(v)) for k, v in extra.items()}
    return d


def run_show(tid, desc, objs, meta, show_args, show_kwargs, kappa, backend, caller, unit_req_by_rc=None, anim=False):
    """objs: {name: real object}; meta: {name: {cls, geom, path, sel, bare, pathshown, rc: [row, col]}}.
    Returns the list of events (one per subplot)."""
    m = magpy()
    w = hp.World()
    w.obj.update(objs)
    pre = digest_world(w, caller)
    outcome = "ok"
    fig = None
    with recorder() as rec:
        try:
            fig = m.show(*show_args, backend=backend, return_fig=True, **show_kwargs)
        except Exception as ex:  # pylint: disable=broad-except
            outcome = "exc:" + type(ex).__name__ + ":" + str(ex)[:80]
    post = digest_world(w, caller)
    rcs = sorted({tuple(v["rc"]) for v in meta.values()})
    events = []
    for k, rc in enumerate(rcs):
        names = [n for n, v in meta.items() if tuple(v["rc"]) == rc]
        ev = {"tid": tid + k, "desc": desc, "backend": backend, "rc": list(rc), "outcome": outcome, "anim": anim, "closed": "markers" not in show_kwargs,
              "unit_req": (unit_req_by_rc or {}).get(rc, show_kwargs.get("units_length", "auto")).replace("µ", "u"),
              "unit_ann": "", "unit_pow": 0, "unit_ok": False,
              "objs": {n: {kk: vv for kk, vv in meta[n].items() if kk != "rc"} for n in names}, "frames": [],
              "pre": pre if k == 0 else {"pub": {}, "parent": {}, "children": {}, "lab": {}, "cls": {}, "defaults": "", "caller": {}},
              "post": post if k == 0 else {"pub": {}, "parent": {}, "children": {}, "lab": {}, "cls": {}, "defaults": "", "caller": {}},
              "judge_nm": k == 0}
        if fig is not None:
            nrec = len(rec["frames"])
            if backend == "plotly":
                scene = fig.get_subplot(*rc) if getattr(fig, "_grid_ref", None) is not None else fig.layout.scene
                scene_name = scene.plotly_name if getattr(fig, "_grid_ref", None) is not None else "scene"
                ann, pw = parse_unit(scene.xaxis.title.text)
                same = all(parse_unit(getattr(scene, a).title.text)[0] == ann for a in ("yaxis", "zaxis"))
                datas = [fr.data for fr in fig.frames] if (anim and fig.frames) else [fig.data]
                inds = [int(fr.name) - 1 for fr in fig.frames] if (anim and fig.frames) else [-1]
            else:
                ax = None
                for a in fig.axes:
                    if getattr(a, "name", "") != "3d":
                        continue
                    nr, nc, start, _ = a.get_subplotspec().get_geometry()
                    if start == (rc[0] - 1) * nc + (rc[1] - 1) or (nr == 1 and nc == 1):
                        ax = a
                ann, pw = parse_unit(ax.get_xlabel()) if ax is not None else ("", None)
                same = ax is not None and all(parse_unit(g())[0] == ann for g in (ax.get_ylabel, ax.get_zlabel))
                datas, inds = [None], [-1]
            ev["unit_ann"], ev["unit_pow"], ev["unit_ok"] = ann, (pw if pw is not None else 0), bool(same and pw is not None)
            for fi, (data, ind) in enumerate(zip(datas, inds)):
                fr = {"ind": ind, "gen": {}, "fig": []}
                recf = rec["frames"][fi] if fi < nrec else {}
                for n in names:
                    fr["gen"][n] = generic_traces(recf.get((id(objs[n]), rc), []), kappa)
                if pw is not None:
                    fr["fig"] = (plotly_scene_traces(fig, data, scene_name, pw, kappa) if backend == "plotly"
                                 else mpl_axis_traces(ax, pw, kappa) if ax is not None else [])
                ev["frames"].append(fr)
        events.append(ev)
    if backend == "matplotlib" and fig is not None:
        import matplotlib.pyplot as plt
        plt.close(fig)
    return events


# ------------------------------------------------------------------------------------------ scenario groups from the TLC dump
def groups_from_dump(states):
    """TLC states with phase = 'new' -> {group key: {cls: objstate}}"""
    groups = {}
    for s in states:
        if s["phase"] != "new":
            continue
        sc = s["sc"]
        key = (sc["path"], sc["sel"], sc["unit"], sc["backend"], sc["how"], sc["decor"])
        groups.setdefault(key, {})[sc["cls"]] = {"geom": {"dim": list(s["objstate"]["geom"]["dim"]), "verts": [list(v) for v in s["objstate"]["geom"]["verts"]]},
                                                "path": [{"p": list(p["p"]), "r": [list(r) for r in p["r"]]} for p in s["objstate"]["path"]],
                                                "sel": {"kind": s["objstate"]["sel"]["kind"], "n": s["objstate"]["sel"]["n"], "l": list(s["objstate"]["sel"]["l"])}}
    return groups


def kappa_for(idx, salt):
    if idx == 0:
        return Kappa()
    r = rng(f"c19:{salt}:{idx}")
    decades = (-3, 3) if idx == 1 else (-9, 9)
    return Kappa.random(r, decades=decades)


def run_group(tid, key, members, kidx):
    path_id, sel_id, unit, backend, how, decor = key
    kappa = kappa_for(kidx, f"{path_id}{sel_id}{unit}{backend}{how}{decor}")
    objs, meta = {}, {}
    caller = {}
    kw = {}
    sval = None
    for i, cls in enumerate(sorted(members)):
        st = members[cls]
        n = f"{cls}"
        o = build(cls, st["geom"], st["path"], kappa)
        sval = sel_value(st["sel"])
        if how == "object" and sval is not None:
            o.style.path.frames = sval
        if decor == "bare":
            make_bare(o)
        objs[n] = o
        meta[n] = {"cls": cls, "geom": st["geom"], "path": st["path"], "sel": st["sel"], "bare": decor == "bare", "pathshown": True, "rc": [1, 1]}
    if how == "showkw" and sval is not None:
        kw["style_path_frames"] = sval
        caller["frames_kw"] = sval
    ureq = unit.replace("um", "µm")
    kw["units_length"] = ureq
    desc = {"kind": "group", "path": path_id, "sel": sel_id, "unit": unit, "how": how, "decor": decor, "kappa": kidx, "lam": f"{kappa.lam:.3e}"}
    return run_show(tid, desc, objs, meta, list(objs.values()), kw, kappa, backend, caller)


# ------------------------------------------------------------------------------------------ structural scenarios
RZ = [[0, -1, 0], [1, 0, 0], [0, 0, 1]]
RX = [[1, 0, 0], [0, 0, -1], [0, 1, 0]]
I3 = [[1, 0, 0], [0, 1, 0], [0, 0, 1]]
DEF_SEL = {"kind": "default", "n": 0, "l": []}
G_CUB = {"dim": [2, 4, 1], "verts": []}
G_CYL = {"dim": [2, 3], "verts": []}
G_POLY = {"dim": [], "verts": [[0, 0, 0], [1, 0, 0], [1, 2, 0]]}
G_NONE = {"dim": [], "verts": []}


def lattice_path_of(o, kappa):
    """the pose path of a real object read back on the lattice (after compound motion of collections)"""
    from ..lattice import rot_to_mat, vec_to_int
    pos = kappa.unpos(np.atleast_2d(o._position))  # pylint: disable=protected-access
    rot = kappa.unrot(o._orientation)  # pylint: disable=protected-access
    mats = rot_to_mat(rot, tol=1e-6)
    return [{"p": vec_to_int(p, tol=1e-6), "r": r} for p, r in zip(pos, mats)]


def structural(tid, name, kidx, backend="plotly"):
    """hand-written scenarios: collections and nesting, animation, subplots, style keywords, markers"""
    m = magpy()
    kappa = kappa_for(kidx, "struct" + name)
    P3 = [{"p": [0, 0, 0], "r": I3}, {"p": [4, 0, 0], "r": RZ}, {"p": [4, 5, 0], "r": RX}]
    P1 = [{"p": [2, -1, 3], "r": RZ}]
    P2 = [{"p": [-3, 2, 0], "r": RX}, {"p": [-3, 2, 4], "r": RX}]
    caller, kw, objs, meta = {}, {}, {}, {}
    anim = False
    unit_by_rc = None

    def add(n, cls, geom, path, sel=DEF_SEL, bare=False, rc=(1, 1), pixel=None):
        o = build(cls, geom, path, kappa, pixel=pixel)
        if bare:
            make_bare(o)
        objs[n] = o
        meta[n] = {"cls": cls, "geom": geom, "path": path, "sel": sel, "bare": bare, "pathshown": True, "rc": list(rc)}
        return o

    args = None
    if name in ("collection", "nested", "collection_moved"):
        a = add("a", "Cuboid", G_CUB, P3, bare=True)
        b = add("b", "Sensor", G_NONE, P1)
        c = add("c", "Polyline", G_POLY, P2, bare=True)
        coll = add("D", "Collection", G_NONE, P1)
        if name == "collection":
            coll.add(a, b, c)
            args = [coll]
        else:
            inner = add("E", "Collection", G_NONE, P2)
            inner.add(b, c)
            coll.add(a, inner)
            args = [coll]
        if name == "collection_moved":
            # compound motion: the children follow; their poses are read back on the lattice
            coll.move(kappa.length(kappa.vec((0, 0, 2))))
            coll.rotate(mat_to_rot(kappa.RG.as_matrix() @ np.array(RZ, float) @ kappa.RG.inv().as_matrix()), anchor=kappa.pos((0, 0, 0)))
            for n in meta:
                meta[n]["path"] = lattice_path_of(objs[n], kappa)
    elif name in ("animation", "animation_slider", "animation_noslider"):
        a = add("a", "Cuboid", G_CUB, P3, bare=True)
        b = add("b", "Cylinder", G_CYL, P2, bare=True)
        s = add("s", "Sensor", G_NONE, P1)
        anim = True
        kw["animation"] = True
        if name == "animation_slider":
            kw["animation_slider"] = True
            kw["animation"] = 2
        if name == "animation_noslider":          # the documented switch in its other position: an animation without the slider
            kw["animation_slider"] = False
        args = [a, b, s]
    elif name in ("subplots_rowcol", "subplots_dict"):
        a = add("a", "Cuboid", G_CUB, P3, bare=True, rc=(1, 1))
        b = add("b", "Cylinder", G_CYL, P2, bare=True, rc=(1, 2))
        s = add("s", "Sensor", G_NONE, P1, rc=(1, 2))
        d1 = {"objects": [a], "col": 1, "units_length": "mm"}
        d2 = {"objects": [b, s], "col": 2, "units_length": "cm"}
        if name == "subplots_dict":
            args = [d1, d2]
            caller["dict1"], caller["dict2"] = d1, d2
            unit_by_rc = {(1, 1): "mm", (1, 2): "cm"}
        else:
            meta["a"]["rc"] = [1, 2]
            args = [a, b, s]
            kw.update(row=1, col=2, units_length="m")
    elif name == "style_kwargs":
        a = add("a", "Cuboid", G_CUB, P3, sel={"kind": "int", "n": 1, "l": []}, bare=False)
        c = add("c", "Polyline", G_POLY, P2, sel={"kind": "int", "n": 1, "l": []}, bare=False)
        sd = {"opacity": 0.5, "path": {"frames": 1, "line": {"width": 3}}}
        kw.update(style=sd, style_color="orange", style_magnetization_show=False, style_arrow_show=False)
        meta["a"]["bare"] = True
        meta["c"]["bare"] = True
        caller["style_dict"] = sd
        args = [a, c]
    elif name == "path_hidden":
        a = add("a", "Cuboid", G_CUB, P3, bare=True)
        a.style.path.show = False
        meta["a"]["pathshown"] = False
        b = add("b", "Sphere", {"dim": [3], "verts": []}, P2, sel={"kind": "list", "n": 0, "l": [0, 1]}, bare=True)
        b.style.path.frames = [0, 1]
        args = [a, b]
    elif name == "pending_style":
        # style given as constructor kwargs and never accessed before show()
        o = m.magnet.Cuboid(dimension=kappa.length((2, 4, 1)), polarization=(1, 2, 3), position=[kappa.pos(p["p"]) for p in P3],
                            orientation=kappa.rot([p["r"] for p in P3]), style_path_frames=2, style_magnetization_show=False, style_label="pending")
        objs["a"] = o
        meta["a"] = {"cls": "Cuboid", "geom": G_CUB, "path": P3, "sel": {"kind": "int", "n": 2, "l": []}, "bare": True, "pathshown": True, "rc": [1, 1]}
        s = m.Sensor(position=kappa.pos((1, 1, 1)), pixel=[kappa.length((0, 0, 0)), kappa.length((1, 0, 0))], style_size=2)
        objs["s"] = s
        meta["s"] = {"cls": "Sensor", "geom": G_NONE, "path": [{"p": [1, 1, 1], "r": I3}], "sel": DEF_SEL, "bare": False, "pathshown": True, "rc": [1, 1]}
        args = [o, s]
    elif name == "markers_zoom":
        a = add("a", "Cuboid", G_CUB, P1, bare=True)
        mk = [tuple(kappa.pos((1, 2, 3))), tuple(kappa.pos((0, 0, 0)))]
        kw.update(markers=mk, zoom=1)
        caller["markers"] = mk
        args = [a]
    elif name == "mesh_unchecked":
        # a mesh whose status checks were skipped at construction
        o = m.magnet.TriangularMesh(vertices=kappa.length([[-1, -1, 0], [2, 0, 0], [0, 2, 0], [0, 0, 3]]), faces=[(0, 2, 1), (0, 1, 3), (0, 3, 2), (1, 2, 3)],
                                    polarization=(1, 2, 3), position=[kappa.pos(p["p"]) for p in P2], orientation=kappa.rot([p["r"] for p in P2]),
                                    check_open="skip", check_disconnected="skip", check_selfintersecting="skip", reorient_faces="skip")
        make_bare(o)
        objs["t"] = o
        meta["t"] = {"cls": "TriangularMesh", "geom": {"dim": [], "verts": [[-1, -1, 0], [2, 0, 0], [0, 2, 0], [0, 0, 3]]}, "path": P2,
                     "sel": DEF_SEL, "bare": True, "pathshown": True, "rc": [1, 1]}
        args = [o]
    elif name == "mesh_disconnected":
        # two separate tetrahedra in one mesh, disconnected parts displayed (show() swaps the faces temporarily)
        V = [[-1, -1, 0], [2, 0, 0], [0, 2, 0], [0, 0, 3], [4, -1, 0], [7, 0, 0], [5, 2, 0], [5, 0, 3]]
        F = [(0, 2, 1), (0, 1, 3), (0, 3, 2), (1, 2, 3), (4, 6, 5), (4, 5, 7), (4, 7, 6), (5, 6, 7)]
        o = m.magnet.TriangularMesh(vertices=kappa.length(V), faces=F, polarization=(1, 2, 3), position=[kappa.pos(p["p"]) for p in P2],
                                    orientation=kappa.rot([p["r"] for p in P2]), check_disconnected="ignore")
        make_bare(o)
        o.style.mesh.disconnected.show = True
        o.style.path.frames = 1
        objs["t"] = o
        meta["t"] = {"cls": "TriangularMesh", "geom": {"dim": [], "verts": V}, "path": P2, "sel": {"kind": "int", "n": 1, "l": []},
                     "bare": False, "pathshown": True, "rc": [1, 1]}
        args = [o]
    elif name == "subplots_same_object":
        a = add("a", "Cuboid", G_CUB, P3, bare=True, rc=(1, 1))
        b = add("b", "Cylinder", G_CYL, P2, bare=True, rc=(1, 2))
        d1 = {"objects": [a], "col": 1}
        d2 = {"objects": [a, b], "col": 2}
        # the same object in two subplots: judged in the second one together with b, in the first one alone
        objs["a2"] = a
        meta["a2"] = dict(meta["a"], rc=[1, 2])
        args = [d1, d2]
        caller["dict1"], caller["dict2"] = d1, d2
        unit_by_rc = {(1, 1): "auto", (1, 2): "auto"}
    elif name in ("animation_downsampled", "animation_oneframe"):
        P7 = [{"p": [k, 0, k % 2], "r": (RZ if k % 2 else I3)} for k in range(7)]
        a = add("a", "Cuboid", G_CUB, P7, bare=True)
        b = add("b", "Polyline", G_POLY, P2, bare=True)
        anim = True
        kw.update(animation=True, animation_maxframes=(3 if name == "animation_downsampled" else 1))      # one frame: the last path position
        args = [a, b]
    elif name == "extra_model3d":
        a = add("a", "Cuboid", G_CUB, P3, bare=False)
        tr = {"backend": "generic", "constructor": "scatter3d", "kwargs": {"x": kappa.length([0.0, 1.0]), "y": kappa.length([0.0, 0.0]), "z": kappa.length([0.0, 2.0]), "mode": "markers"}}
        a.style.model3d.add_trace(tr)
        a.style.magnetization.show = False
        meta["a"]["bare"] = False
        args = [a]
    else:
        raise KeyError(name)
    if unit_by_rc is None:
        kw.setdefault("units_length", "m")
    desc = {"kind": "struct", "path": name, "sel": "-", "unit": kw.get("units_length", "m"), "how": "-", "decor": "-", "kappa": kidx, "lam": f"{kappa.lam:.3e}"}
    return run_show(tid, desc, objs, meta, args, kw, kappa, backend, caller, unit_req_by_rc=unit_by_rc, anim=anim)


STRUCT = ["collection", "nested", "collection_moved", "animation", "animation_slider", "subplots_rowcol", "subplots_dict", "style_kwargs",
          "path_hidden", "pending_style", "markers_zoom", "mesh_unchecked", "extra_model3d", "mesh_disconnected", "subplots_same_object",
          "animation_downsampled", "animation_noslider", "animation_oneframe"]


def worker(args):
    """jobs: list of ('group', key, members, kidx) or ('struct', name, kidx, backend); one ndjson shard"""
    jobs, path, tid0 = args
    n = 0
    with open(path, "w") as f:
        for j, job in enumerate(jobs):
            tid = tid0 + 100 * j
            if job[0] == "group":
                evs = run_group(tid, job[1], job[2], job[3])
            else:
                evs = structural(tid, job[1], job[2], job[3])
            for ev in evs:
                ev["job"] = [job[0], list(job[1]) if job[0] == "group" else job[1], job[3] if job[0] == "group" else job[2], "" if job[0] == "group" else job[3]]
                f.write(json.dumps(ev, separators=(",", ":")) + "\n")
                n += 1
    return n
