"""Binding of spec/Style.tla to the real style objects of magpylib.

For one real leaf of one style class a *case* is a history of abstract steps (SetObj / SetDef / Reset / Copy /
Show, see Style.tla) executed through a concrete notation on real objects:

    o  the object under test          w  a second object of the same class (witness)
    c  copy partner of o              x  an object of another family (witness)

After every step the abstract state is *observed* (projection): leaf "l" = the real leaf under test, "m" = a
sibling leaf, "rest" = digest of every other real leaf, for each object and for each default family, plus the
style that show() resolves (read from the style object returned by get_style as called by the display code).
Real values are mapped to abstract value ids injectively (v1, v2, None, d1, d2, ...).  Nothing here computes an
expected value or a verdict: TV_Style.tla does.
"""
import copy
import itertools
import json

from ..common import MachineryError, import_magpylib, rng

CLASSES = ["Cuboid", "Circle", "Sensor", "Dipole", "Triangle", "TriangularMesh", "Collection", "CustomSource", "Markers"]
OTHER = {"Cuboid": "Sensor", "Circle": "Cuboid", "Sensor": "Cuboid", "Dipole": "Circle", "Triangle": "Sensor",
         "TriangularMesh": "Circle", "Collection": "Cuboid", "CustomSource": "Sensor", "Markers": "Cuboid"}
# families whose defaults can matter for a class (documented chain, most general first; the oracle's copy is Style!ClassChain)
CLASS_FAMILIES = {"Cuboid": ["magnet"], "Circle": ["current"], "Sensor": ["sensor"], "Dipole": ["dipole"],
                  "Triangle": ["magnet", "triangle"], "TriangularMesh": ["magnet", "triangularmesh"],
                  "Collection": [], "CustomSource": [], "Markers": ["markers"]}
FAMILIES = ["base", "magnet", "current", "sensor", "dipole", "triangle", "triangularmesh", "markers"]
# deprecated alias names: one leaf reachable under two names (docstring of Magnetization.size)
ALIAS = {"magnetization.size": "magnetization.arrow.size"}
NONE, BAD = "None", "<invalid>"
TID_STRIDE = 1_000_000

# complete Trace3d dictionaries (every property given), so that what is read back equals what was given
_TRACE_A = {"backend": "generic", "constructor": "Scatter3d", "args": None, "kwargs": {"x": [0, 1], "y": [0, 0], "z": [0, 0]},
            "coordsargs": None, "show": True, "scale": 1}
_TRACE_B = {"backend": "generic", "constructor": "Mesh3d", "args": None,
            "kwargs": {"x": [0, 1, 0], "y": [0, 0, 1], "z": [0, 0, 0], "i": [0], "j": [1], "k": [2]}, "coordsargs": None, "show": True, "scale": 2}


def leaf_type(path):
    """Typed value table, from the validators in style.py: two valid values, one invalid value (None: the setter
    accepts everything), whether None is a storable 'no value'.  Keyed on the last path component (+ context)."""
    last = path[-1]
    ctx = path[:-1]
    if last in ("show", "numbering"):
        return dict(kind="bool", v1=False, v2=True, bad="yes", none_ok=True)
    if last == "showdefault":
        return dict(kind="bool_strict", v1=False, v2=True, bad="yes", none_ok=False)
    if last in ("color", "north", "south", "middle"):
        return dict(kind="color", v1="orange", v2="purple", bad="notacolor", none_ok=True)
    if last in ("opacity", "transition"):
        return dict(kind="unit_interval", v1=0.25, v2=0.75, bad=1.5, none_ok=True)
    if last == "offset":
        if "orientation" in ctx:
            return dict(kind="number", v1=0.25, v2=0.75, bad="x", none_ok=True)
        return dict(kind="unit_interval", v1=0.25, v2=0.75, bad=1.5, none_ok=True)
    if last in ("size", "width"):
        return dict(kind="nonneg", v1=2.5, v2=3.5, bad=-1, none_ok=True)
    if last == "sizemode":
        return dict(kind="enum_sizemode", v1="absolute", v2="scaled", bad="bogus", none_ok=True)
    if last == "style":
        return dict(kind="enum_linestyle", v1="dashed", v2="dotted", bad="bogus", none_ok=True)
    if last == "symbol":
        if "orientation" in ctx:
            return dict(kind="enum_orientsymbol", v1="cone", v2="arrow3d", bad="bogus", none_ok=True)
        return dict(kind="enum_symbol", v1="s", v2="d", bad="bogus", none_ok=True)
    if last == "mode":
        if ctx and ctx[-1] == "color":
            return dict(kind="enum_colormode", v1="bicolor", v2="tricycle", bad="bogus", none_ok=True)
        return dict(kind="enum_magmode", v1="arrow", v2="color", bad="bogus", none_ok=True)
    if last == "pivot":
        return dict(kind="enum_pivot", v1="tail", v2="tip", bad="bogus", none_ok=True)
    if last == "label":
        return dict(kind="str_any", v1="LabA", v2="LabB", bad=None, none_ok=True)      # setter stores str(val): no invalid value exists
    if last == "text":
        return dict(kind="str", v1="TxtA", v2="TxtB", bad=5, none_ok=True)
    if last == "frames":
        return dict(kind="frames", v1=2, v2=(0, 1), bad=1.5, none_ok=True)
    if last == "colorsequence":
        return dict(kind="colorseq", v1=("orange", "purple"), v2=("purple", "orange", "pink"), bad=("notacolor",), none_ok=True)
    if last == "data":
        return dict(kind="traces", v1=[_TRACE_A], v2=[_TRACE_B], bad=5, none_ok=False)   # None is stored as []
    return None


def canon(v):
    """JSON-able canonical form of a real style value (injective up to what as_dict shows)."""
    if v is None or isinstance(v, str):
        return v
    if isinstance(v, bool):
        return {"bool": v}
    if isinstance(v, (int, float)):
        return {"num": repr(v)}
    if hasattr(v, "as_dict"):
        v = v.as_dict()
    if isinstance(v, dict):
        # function-valued entries (Trace3d.updatefunc) have no comparable value
        return {"dict": {str(k): canon(x) for k, x in sorted(v.items(), key=lambda kv: str(kv[0])) if not callable(x)}}
    if isinstance(v, (list, tuple)):
        return {"seq": [canon(x) for x in v]}
    if hasattr(v, "tolist"):
        return {"seq": canon(v.tolist())}
    if callable(v):
        return "<callable>"
    return {"repr": repr(v)}


def key(v):
    return json.dumps(canon(v), sort_keys=True)


def nested(path, v):
    d = v
    for k in reversed(path):
        d = {k: d}
    return d


def merge(a, b):
    """deep merge of two nested dictionaries (disjoint leaves)"""
    out = dict(a)
    for k, v in b.items():
        out[k] = merge(out[k], v) if isinstance(out.get(k), dict) and isinstance(v, dict) else v
    return out


def us(path):
    return "_".join(path)


def walk(root, path):
    for k in path:
        root = getattr(root, k)
    return root


_PROPS = {}


def flat(mp, prefix="", out=None):
    """Same reading as mp.as_dict(flatten=True, separator="."), through the same public properties, without the
    per-call dir() of MagicProperties.as_dict (cross-checked against as_dict once per case)."""
    if out is None:
        out = {}
    t = type(mp)
    props = _PROPS.get(t)
    if props is None:
        # the keys as_dict reports for this class (once per class), read through the properties afterwards
        props = _PROPS[t] = list(mp.as_dict().keys())
    for k in props:
        v = getattr(mp, k)
        if hasattr(v, "as_dict"):
            flat(v, prefix + k + ".", out)
        else:
            out[prefix + k] = v
    return out


def alias_path(path):
    names = [a for a, t in ALIAS.items() if t == ".".join(path)]
    if not names:
        raise MachineryError(f"leaf {path} has no alias name")
    return names[0].split(".")


def strip_alias(d, prefix):
    for k in list(d):
        full = prefix + [k]
        if ".".join(full) in ALIAS or any(".".join(full[i:]) in ALIAS for i in range(len(full))):
            del d[k]
        elif isinstance(d[k], dict):
            strip_alias(d[k], full)
    return d


def with_change(container, prefix, sub, value):
    """current nested dict of `container` (which sits at `prefix`; alias names dropped) with the nested entry `sub` := value"""
    d = strip_alias(copy.deepcopy(container.as_dict()), list(prefix))
    cur = d
    for k in sub[:-1]:
        if not isinstance(cur.get(k), dict):
            cur[k] = {}
        cur = cur[k]
    cur[sub[-1]] = value
    return d


class Env:
    """Per-process environment: magpylib, pristine defaults, hook on the get_style used by the display code."""

    _inst = None

    @classmethod
    def get(cls):
        if cls._inst is None:
            cls._inst = Env()
        return cls._inst

    def __init__(self):
        self.magpy = import_magpylib()
        from magpylib._src.defaults.defaults_utility import linearize_dict
        from magpylib._src.display import traces_utility as tu
        from magpylib._src.display.traces_generic import MagpyMarkers

        self.tu, self.MagpyMarkers, self.linearize = tu, MagpyMarkers, linearize_dict
        self.D = self.magpy.defaults
        self.pristine = copy.deepcopy(self.D.display)
        self.snap = key(flat(self.D))
        if key(self.D.as_dict(flatten=True, separator=".")) != self.snap:
            raise MachineryError("fast reader disagrees with as_dict on magpylib.defaults")
        self.records = None
        orig = tu.get_style

        def hooked(obj, default_settings, **kwargs):
            st = orig(obj, default_settings, **kwargs)
            if self.records is not None:
                self.records.append((obj, flat(st)))
            return st

        tu.get_style = hooked
        self.cat = None
        self.checked = set()

    def restore_defaults(self):
        self.D.display = copy.deepcopy(self.pristine)
        if key(flat(self.D)) != self.snap:
            raise MachineryError("could not restore magpylib.defaults to the pristine snapshot")

    def make(self, cls, **kw):
        m = self.magpy
        if cls == "Cuboid":
            return m.magnet.Cuboid(dimension=(1, 1, 1), polarization=(0, 0, 1), **kw)
        if cls == "Circle":
            return m.current.Circle(diameter=1, current=1, **kw)
        if cls == "Sensor":
            return m.Sensor(**kw)
        if cls == "Dipole":
            return m.misc.Dipole(moment=(1, 0, 0), **kw)
        if cls == "Triangle":
            return m.misc.Triangle(vertices=[(0, 0, 0), (1, 0, 0), (0, 1, 0)], polarization=(0, 0, 1), **kw)
        if cls == "TriangularMesh":
            return m.magnet.TriangularMesh(vertices=[(0, 0, 0), (1, 0, 0), (0, 1, 0), (0, 0, 1)], faces=[(0, 2, 1), (0, 1, 3), (0, 3, 2), (1, 2, 3)],
                                           polarization=(0, 0, 1), check_open="skip", check_disconnected="skip",
                                           check_selfintersecting="skip", reorient_faces="skip", **kw)
        if cls == "Collection":
            return m.Collection(**kw)
        if cls == "CustomSource":
            return m.misc.CustomSource(**kw)
        if cls == "Markers":
            if kw:
                raise MachineryError("the markers object has no constructor notation")
            return self.MagpyMarkers((0, 0, 0))
        raise MachineryError(f"unknown class {cls}")

    def catalogue(self):
        """leaf catalogue read from the real style classes and from magpylib.defaults.display.style"""
        if self.cat is not None:
            return self.cat
        self.restore_defaults()
        objleaves, aliases = {}, {}
        for cls in CLASSES:
            d = self.make(cls).style.as_dict(flatten=True, separator=".")
            objleaves[cls] = sorted(k for k in d if k not in ALIAS)
            aliases[cls] = sorted(k for k in d if k in ALIAS)
        dd = self.D.display.style.as_dict(flatten=True, separator=".")
        fam = {f: [] for f in FAMILIES}
        famalias = {f: [] for f in FAMILIES}
        for k in dd:
            f, leaf = k.split(".", 1)
            if f not in fam:
                raise MachineryError(f"default family {f} is not known to the harness")
            (famalias if leaf in ALIAS else fam)[f].append(leaf)
        self.cat = {"obj": objleaves, "objalias": aliases, "fam": {f: sorted(v) for f, v in fam.items()}, "famalias": famalias}
        return self.cat


def sibling(leaf, leaves):
    """the sibling leaf 'm': another leaf sharing the longest prefix with `leaf` (deterministic)"""
    p = leaf.split(".")
    best, bestn = None, -1
    for k in sorted(leaves):
        if k == leaf:
            continue
        q = k.split(".")
        n = 0
        while n < len(p) and n < len(q) and p[n] == q[n]:
            n += 1
        if n > bestn or (n == bestn and len(q) < len(best.split("."))):
            best, bestn = k, n
    return best


# ------------------------------------------------------------------------------------------------ a case
class Case:
    def __init__(self, cls, leaf, tid0, label="", preset_m=True, kids=False):
        self.env = env = Env.get()
        cat = env.catalogue()
        self.cls, self.leaf, self.label = cls, leaf, label
        self.path = leaf.split(".")
        self.T = leaf_type(self.path)
        self.mleaf = sibling(leaf, [k for k in cat["obj"][cls] if leaf_type(k.split(".")) is not None])
        self.mpath = self.mleaf.split(".")
        self.MT = leaf_type(self.mpath)
        self.other = OTHER[cls]
        self.clsof = {"o": cls, "w": cls, "c": cls, "x": self.other}
        self.tid = tid0
        self.ids = {"null": NONE, key(self.T["v1"]): "v1", key(self.T["v2"]): "v2"}
        self.nd = 0
        self.rids = {}
        self.obj = {n: env.make(c) for n, c in self.clsof.items()}
        self.kids = {n: [] for n in self.clsof}
        if kids:
            # collections for set_children_styles: k = [o, k2], k2 = [x] (another family, one level down), k3 = [w]; c stays outside
            self.kids.update({"k": ["o", "k2"], "k2": ["x"], "k3": ["w"]})
            for n in ("k2", "k3", "k"):
                self.clsof[n] = "Collection"
                self.obj[n] = env.magpy.Collection(*[self.obj[ch] for ch in self.kids[n]])
        self.saved_arg = None
        # the sibling leaf of o carries a value from the start (round trips must preserve it)
        if cls != "Markers" and preset_m:
            setattr(walk(self.obj["o"].style, self.mpath[:-1]), self.mpath[-1], self.MT["v1"])
        cat_o = cat["obj"]
        self.has = {n: {"l": leaf in cat_o[c], "m": self.mleaf in cat_o[c], "rest": True, "bad": False} for n, c in self.clsof.items()}
        self.fhas = {f: {"l": leaf in cat["fam"][f], "m": self.mleaf in cat["fam"][f], "rest": True, "bad": False} for f in FAMILIES}
        self.fhas["nonstyle"] = {"l": False, "m": False, "rest": True, "bad": False}
        self.init = self.project()
        self.def0 = self.init["def"]
        # the fast reader and as_dict must agree (objects and defaults), and the defaults must be pristine
        if (cls, leaf) not in env.checked:
            env.checked.add((cls, leaf))
            for o in self.obj.values():
                if key(flat(o.style)) != key(o.style.as_dict(flatten=True, separator=".")):
                    raise MachineryError("fast reader disagrees with as_dict on an object style")
        self.steps, self.descr = [], []

    # ---- abstraction of real values
    def vid(self, v):
        k = key(v)
        if k not in self.ids:
            self.nd += 1
            self.ids[k] = f"d{self.nd}"
        return self.ids[k]

    def rid(self, d):
        k = json.dumps({a: canon(b) for a, b in d.items()}, sort_keys=True)
        if k not in self.rids:
            self.rids[k] = f"r{len(self.rids) + 1}"
        return self.rids[k]

    def _split(self, d, prefix=""):
        L, M = prefix + self.leaf, prefix + self.mleaf
        skip = {L, M} | {prefix + a for a, t in ALIAS.items() if t in (self.leaf, self.mleaf)}
        rest = {k: v for k, v in d.items() if k not in skip}
        return {"l": self.vid(d.get(L)), "m": self.vid(d.get(M)), "rest": self.rid(rest)}

    def project(self):
        ov = {n: self._split(flat(o.style)) for n, o in self.obj.items()}
        dall = flat(self.env.D.display)
        dd = {k[6:]: v for k, v in dall.items() if k.startswith("style.")}
        df = {}
        for f in FAMILIES:
            sub = {k: v for k, v in dd.items() if k.startswith(f + ".")}
            df[f] = self._split(sub, f + ".")
        ns = {k: v for k, v in dall.items() if not k.startswith("style.")}
        df["nonstyle"] = {"l": NONE, "m": NONE, "rest": self.rid(ns)}
        return {"objVal": ov, "def": df}

    def real(self, v, l="l"):
        T = self.T if l != "m" else self.MT
        if v == NONE:
            return None
        if v == BAD:
            return copy.deepcopy(T["bad"])
        if l == "m" and v not in ("v1", "v2"):
            return copy.deepcopy(T["v1"])
        return copy.deepcopy(T[v])       # the implementation never gets the table's own (mutable) value

    # ---- notations
    def set_obj(self, tgt, n, path, V, lazy=False):
        env = self.env
        if n.startswith("alias_"):        # the same leaf under its deprecated second name
            n, path = n[6:], alias_path(path)
        if n.startswith("ctor"):
            kw = {"ctor_us": {"style_" + us(path): V}, "ctor_dict": {"style": nested(path, V)}, "ctor_flat": {"style": {us(path): V}}}[n]
            self.obj[tgt] = env.make(self.clsof[tgt], **kw)
            if not lazy:
                self.obj[tgt].style  # the constructor defers the validation of style arguments to the first access
            return
        st = self.obj[tgt].style
        if n == "attr":
            setattr(walk(st, path[:-1]), path[-1], V)
        elif n.startswith("attr_lvl"):
            k = int(n[8:])
            cont = walk(st, path[:k - 1])
            setattr(cont, path[k - 1], with_change(getattr(cont, path[k - 1]), path[:k], path[k:], V))
        elif n == "update_us":
            st.update(**{us(path): V})
        elif n == "update_dict":
            st.update(nested(path, V))
        elif n == "update_flat":
            st.update({us(path): V})
        elif n == "update_mixed":
            st.update({path[0]: {us(path[1:]): V}})
        elif n.startswith("update_lvl"):
            k = int(n[10:])
            walk(st, path[:k]).update(**{us(path[k:]): V})
        elif n == "assign_dict":
            self.obj[tgt].style = nested(path, V)
        elif n == "assign_flat":
            self.obj[tgt].style = {us(path): V}
        else:
            raise MachineryError(f"unknown object notation {n}")

    def set_def(self, f, n, path, V):
        D = self.env.D
        if n.startswith("def_alias_"):
            n, path = "def_" + n[10:], alias_path(path)
        q = [f] + path
        if n == "def_attr":
            setattr(walk(D.display.style, q[:-1]), q[-1], V)
        elif n.startswith("def_attr_lvl"):
            k = int(n[12:])
            cont = walk(D.display.style, q[:k])
            setattr(cont, q[k], with_change(getattr(cont, q[k]), q[:k + 1], q[k + 1:], V))
        elif n == "def_update_fam":
            getattr(D.display.style, f).update(**{us(path): V})
        elif n == "def_update_style":
            D.display.style.update(**{us(q): V})
        elif n == "def_update_display":
            D.display.update(**{us(["style"] + q): V})
        elif n == "def_update_root":
            D.update(**{us(["display", "style"] + q): V})
        elif n == "def_update_dict":
            D.display.style.update(nested(q, V))
        elif n == "def_update_root_dict":
            D.update(nested(["display", "style"] + q, V))
        else:
            raise MachineryError(f"unknown default notation {n}")

    def set_kids(self, tgt, n, asg, rec, badname):
        """coll.set_children_styles in one of its notations; asg: {"l": abstract value[, "m": abstract value]}.
        Returns whether a dictionary handed in was changed by the call."""
        n, _, opt = n.partition("+")
        lp = self.path[:-1] + ["zzz"] if badname else self.path
        lv = self.real(asg["l"], "l") if "l" in asg else None
        mv = self.real(asg["m"], "m") if "m" in asg else None
        arg, kw = None, {}
        if n == "kids_reuse":            # the very dictionary object that an earlier call was given
            arg = self.saved_arg
        elif set(asg) == {"l"}:
            if n == "kids_us":
                kw = {us(lp): lv}
            elif n == "kids_dict":
                arg = nested(lp, lv)
            elif n == "kids_flat":
                arg = {us(lp): lv}
            else:
                raise MachineryError(f"unknown set_children_styles notation {n} for one leaf")
        elif set(asg) == {"l", "m"}:
            if n == "kids_us2":
                kw = {us(lp): lv, us(self.mpath): mv}
            elif n == "kids_dict2":
                arg = merge(nested(lp, lv), nested(self.mpath, mv))
            elif n == "kids_mixed":          # dictionary for m, underscore keyword for l
                arg, kw = nested(self.mpath, mv), {us(lp): lv}
            elif n == "kids_mixed_rev":      # dictionary for l, underscore keyword for m
                arg, kw = nested(lp, lv), {us(self.mpath): mv}
            else:
                raise MachineryError(f"unknown set_children_styles notation {n} for two leaves")
        else:
            raise MachineryError(f"unsupported leaves {sorted(asg)}")
        before = key(arg) if arg is not None else None
        if n != "kids_reuse":
            self.saved_arg = arg
        args = (arg,) if arg is not None else ()
        try:
            if opt == "recpos":
                self.obj[tgt].set_children_styles(arg, rec, **kw)
            else:
                self.obj[tgt].set_children_styles(*args, recursive=rec, **kw)
        finally:
            self.argchanged = arg is not None and key(arg) != before

    def resolve(self, names, kwargs, via):
        """the styles the display code resolves for the named objects: {name: {"l":..,"m":..}}"""
        env = self.env
        names = [n for n in names if n in self.obj]
        objs = [self.obj[n] for n in names]
        env.records = []
        self.rendererr = ""
        try:
            if via == "show":
                try:
                    if self.cls == "Markers":
                        env.magpy.show(self.obj["x"], markers=[(0, 0, 0)], backend="plotly", return_fig=True, **kwargs)
                    else:
                        env.magpy.show(*objs, backend="plotly", return_fig=True, **kwargs)
                except Exception as ex:  # pylint: disable=broad-except
                    # the styles of all objects were resolved and the drawing code failed afterwards (e.g. a leaf that is None
                    # in every source): drawing is C19's subject, the resolved styles are what is observed here
                    seen = [any(ob is o for ob, _ in env.records) or (self.cls == "Markers" and any(isinstance(ob, env.MagpyMarkers) for ob, _ in env.records))
                            for o in objs]
                    if not (env.records and all(seen)):
                        raise
                    self.rendererr = type(ex).__name__
            else:
                sk = {k: v for k, v in kwargs.items() if k.startswith("style")}
                sk = env.linearize(sk, separator="_")
                env.tu.get_flatten_objects_properties_recursive(*objs, style_kwargs=sk, colorsequence=env.D.display.colorsequence)
            recs = env.records
        finally:
            env.records = None
        out = {}
        for n in names:
            o = self.obj[n]
            hit = [d for (ob, d) in recs if ob is o]
            if not hit and self.cls == "Markers" and via == "show" and n == "o":
                hit = [d for (ob, d) in recs if isinstance(ob, env.MagpyMarkers)]
            if not hit:
                continue
            d = hit[-1]
            out[n] = {"l": self.vid(d.get(self.leaf)), "m": self.vid(d.get(self.mleaf))}
        return out

    # ---- one step
    def step(self, d):
        op, tgt, l, v = d["op"], d.get("tgt", ""), d.get("l", "l"), d.get("v", NONE)
        n = d.get("n", "")
        base = self.path if l != "m" else self.mpath
        path = base[:-1] + ["zzz"] if l == "bad" else base
        kwabs = {"l": NONE, "m": NONE}
        outcome, exc, res = "ok", "", {}
        self.rendererr = ""
        self.argchanged = False
        asgabs = {"l": NONE}
        try:
            if op == "SetKids":
                asgabs = dict(d["asg"])
                if asgabs.get("m") in ("v1", "v2"):
                    asgabs["m"] = self.vid(self.MT[asgabs["m"]])
                self.set_kids(tgt, n, d["asg"], bool(d.get("rec", True)), bool(d.get("badname", False)))
            elif op == "SetObj":
                self.set_obj(tgt, n, path, self.real(v, l), lazy=d.get("lazy", False))
            elif op == "SetDef":
                self.set_def(tgt, n, path, self.real(v, l))
            elif op == "Reset":
                self.env.D.reset()
            elif op == "Copy":
                if n == "style_copy":
                    # second realisation of the abstract step: a NEW object of the class is given a copy of the style OBJECT of the source
                    # (style.copy() is public API); from then on the two styles are independent like those of o and o.copy()
                    # (the style setter takes dictionaries only - a style object assigned to it is accepted and ignored -, so the harness
                    # HOLDS the copied style object in a new object of the class; all later assignments go through the public notations)
                    new_obj = self.env.make(self.clsof.get(d["src"], self.cls))
                    new_obj._style = self.obj[d["src"]].style.copy()            # pylint: disable=protected-access
                    self.obj[tgt] = new_obj
                else:
                    self.obj[tgt] = self.obj[d["src"]].copy()
            elif op == "Show":
                kwabs["l"] = v
                V = self.real(v, "l")
                p = self.path[:-1] + ["zzz"] if d.get("badname") else self.path
                if v == NONE and not d.get("badname"):
                    kwargs = {}
                elif n == "show_us":
                    kwargs = {"style_" + us(p): V}
                elif n == "show_dict":
                    kwargs = {"style": nested(p, V)}
                elif n == "show_flat":
                    kwargs = {"style": {us(p): V}}
                else:
                    raise MachineryError(f"unknown show notation {n}")
                res = self.resolve(d.get("res", []), kwargs, d.get("via", "direct"))
            else:
                raise MachineryError(f"unknown op {op}")
        except MachineryError:
            raise
        except Exception as ex:  # pylint: disable=broad-except
            outcome, exc = "raise", type(ex).__name__
        post = self.project()
        reserr = ""
        if op != "Show" and d.get("res"):
            try:
                res = self.resolve(d["res"], {}, "direct")
            except MachineryError:
                raise
            except Exception as ex:  # pylint: disable=broad-except
                res, reserr = {}, type(ex).__name__     # the display code could not resolve a style in this state
        vabs = v
        if l == "m" and v not in (NONE, BAD):
            vabs = self.vid(self.MT[v] if v in ("v1", "v2") else self.MT["v1"])
        ev = {"tid": self.tid, "op": op, "tgt": tgt, "src": d.get("src", ""), "l": l if op in ("SetObj", "SetDef") else "",
              "v": vabs, "kw": kwabs, "badname": bool(d.get("badname", False)), "notation": n or op.lower(), "via": d.get("via", ""),
              "outcome": outcome, "exc": exc, "post": post, "res": res, "reserr": reserr, "rendererr": self.rendererr,
              "asg": asgabs, "rec": bool(d.get("rec", False)), "argchanged": bool(self.argchanged), "tgts": []}
        self.tid += 1
        self.steps.append(ev)
        self.descr.append(d)
        return ev

    def finish(self, case_id, checkfresh=False):
        self.env.restore_defaults()
        return {"case": case_id, "label": self.label, "cls": self.cls, "leaf": self.leaf.replace(".", "_"), "leaf_dotted": self.leaf, "mleaf": self.mleaf.replace(".", "_"),
                "checkfresh": bool(checkfresh), "kidsworld": "k" in self.obj, "clsof": self.clsof, "kids": self.kids, "has": self.has, "fhas": self.fhas, "def0": self.def0,
                "init": self.init, "steps": self.steps, "descr": self.descr}


# ------------------------------------------------------------------------------------------------ step descriptors
def S(tgt, v, n, l="l", res=(), **kw):
    return {"op": "SetObj", "tgt": tgt, "l": l, "v": v, "n": n, "res": list(res), **kw}


def DF(f, v, n, l="l", res=()):
    return {"op": "SetDef", "tgt": f, "l": l, "v": v, "n": n, "res": list(res)}


def R(res=()):
    return {"op": "Reset", "res": list(res)}


def C(src="o", tgt="c", res=()):
    return {"op": "Copy", "src": src, "tgt": tgt, "res": list(res)}


def K(tgt, asg, n, rec=True, res=(), badname=False):
    return {"op": "SetKids", "tgt": tgt, "asg": dict(asg), "n": n, "rec": rec, "res": list(res), "badname": badname}


def SH(v, n, via="direct", res=("o", "w", "x"), badname=False):
    return {"op": "Show", "v": v, "n": n, "via": via, "res": list(res), "badname": badname}


def other_none(none_ok):
    return NONE if none_ok else "v2"


def obj_notations(path):
    d = len(path)
    mut = ["attr"] + [f"attr_lvl{k}" for k in range(1, d)] + ["update_us", "update_dict"] + (["update_flat", "update_mixed"] if d > 1 else []) \
        + [f"update_lvl{k}" for k in range(1, d)] + ["assign_dict"] + (["assign_flat"] if d > 1 else [])
    ctor = ["ctor_us", "ctor_dict"] + (["ctor_flat"] if d > 1 else [])
    return ctor, mut


def def_notations(path):
    d = len(path) + 1
    return ["def_attr"] + [f"def_attr_lvl{k}" for k in range(0, d - 1)] + ["def_update_fam", "def_update_style", "def_update_display",
                                                                         "def_update_root", "def_update_dict", "def_update_root_dict"]


SHOWN = ["show_us", "show_dict", "show_flat"]


def sequences(cls, leaf, tier_, idx=0):
    """The abstract step sequences instantiated on one real leaf.  Returns [(label, [descriptor])]."""
    env = Env.get()
    cat = env.catalogue()
    path = leaf.split(".")
    T = leaf_type(path)
    thorough = tier_ == "thorough"
    ctor, mut = obj_notations(path)
    defn = def_notations(path)
    mut_all, defn_all = mut, defn            # notations usable with valid values (incl. the alias name of the leaf, if any)
    ctor_plain = ctor
    if leaf in ALIAS.values():
        ctor = ctor + ["alias_ctor_us"]
        mut_all = mut + ["alias_attr", "alias_update_us", "alias_update_lvl1"]
        defn_all = defn + ["def_alias_attr", "def_alias_update_style"]
    fams = [f for f in reversed(CLASS_FAMILIES[cls]) if leaf in cat["fam"][f]] + (["base"] if leaf in cat["fam"]["base"] else [])
    none_ok = T["none_ok"]
    has_obj = cls != "Markers"
    shown = SHOWN if len(path) > 1 else SHOWN[:2]
    # quick: the leaves of BaseStyle are the same code in every style class; their full notation sweep runs on Cuboid (and Markers),
    # the other classes run a reduced one (every single notation, every notation after a plain assignment)
    primary = thorough or cls in ("Cuboid", "Markers") or leaf not in cat["fam"]["base"]
    out = []
    if has_obj:
        # 1. every single notation (from the fresh object), resolved style observed
        for n in ctor + mut_all:
            out.append((f"single:{n}", [S("o", "v1", n, res=["o"])]))
        # 2. last assignment wins: ordered pairs of notations
        rep = ["ctor_dict", "attr"] if primary else ["attr"]
        for n1 in ctor + mut_all:
            for n2 in mut_all:
                if thorough or n1 in rep or n1.startswith("alias") or n2.startswith("alias") or (primary and n2 == "update_us"):
                    out.append((f"pair:{n1}>{n2}", [S("o", "v1", n1), S("o", "v2", n2, res=["o"])]))
        # 3. giving None removes the object's own value again
        if none_ok:
            for n2 in (mut if primary else ["attr", "update_us", "assign_dict"]):
                out.append((f"unset:{n2}", [S("o", "v1", "attr"), S("o", NONE, n2, res=["o"])]))
        if thorough:
            for n1, n2, n3 in itertools.product(["attr", "update_us", "assign_dict", "update_lvl1" if len(path) > 1 else "update_dict"], mut, ["attr", "update_us"]):
                out.append((f"triple:{n1}>{n2}>{n3}", [S("o", "v1", n1), S("o", "v2", n2), S("o", "v1", n3, res=["o"])]))
    # 4. defaults: an object whose own leaf is unset follows them, one whose leaf is set does not; last default wins
    pre = [S("o", NONE, "attr")] if (has_obj and none_ok) else []

    def full_def(f):
        # the base defaults are one global object whatever the class: their notation sweep runs with two classes, the others read them
        return thorough or f != "base" or cls in ("Cuboid", "Markers")

    for i, f in enumerate(fams):
        for dn in defn:
            if not ((full_def(f) and i == 0) or dn in ("def_attr", "def_update_root") or thorough):
                continue
            seq = pre + [DF(f, "v1", dn, res=["o", "w", "x"])]
            if has_obj:
                seq.append(S("o", "v2", "attr", res=["o"]))
            seq.append(DF(f, NONE if none_ok else "v2", dn, res=["o", "w"]))
            seq.append(R(res=["w"]))
            out.append((f"track:{f}:{dn}", seq))
        for dn1 in (defn_all if thorough else ["def_attr", "def_update_fam"] if (full_def(f) and i == 0) else []):
            for dn2 in defn_all:
                out.append((f"defpair:{f}:{dn1}>{dn2}", [DF(f, "v1", dn1), DF(f, "v2", dn2, res=["w"])]))
    # 5. precedence: walk over all subsets of sources {show keyword, object, family defaults.., base default}
    srcs = (["o"] if (has_obj and none_ok) else []) + (fams if none_ok else [])
    if True:
        seq = [S("o", NONE, "attr")] if "o" in srcs else []
        seq += [DF(f, NONE, "def_attr") for f in srcs if f != "o"]
        vals = {s: ("v2" if k % 2 == 0 else "v1") for k, s in enumerate(srcs)}      # pattern A: neighbours in the order differ, keyword = v1
        state = {s: False for s in srcs}
        k = 0

        def shows(tag):
            nonlocal k
            st = [SH(NONE, "show_us", via="show" if idx_real(tag, 0) else "direct"),
                  SH("v1", shown[k % len(shown)], via="show" if idx_real(tag, 1) else "direct")]
            k += 1
            return st

        def idx_real(tag, which):
            # one pass through the real magpylib.show per leaf (the last state of the walk), more in thorough
            return (tag == "last" and which == 1) or (thorough and tag in ("first", "last"))

        seq += shows("first")
        n = len(srcs)
        for g in range(1, 2 ** n):
            bit = (g & -g).bit_length() - 1          # Gray code: toggle one source per step
            s = srcs[bit]
            state[s] = not state[s]
            v = vals[s] if state[s] else NONE
            seq.append(S("o", v, "attr") if s == "o" else DF(s, v, "def_attr"))
            seq += shows("last" if g == 2 ** n - 1 else "mid")
        if n == 0:
            seq += shows("last")
        out.append(("precedence:A", seq))
        # pattern B: the pairs of sources that pattern A cannot tell apart
        if none_ok and fams:
            unset = ([S("o", NONE, "attr")] if has_obj else []) + [DF(f, NONE, "def_attr") for f in fams]
            out.append(("precedence:B1", unset + [DF(fams[0], "v2", "def_attr"), SH("v1", "show_us"), SH(NONE, "show_us")]))
            if has_obj:
                out.append(("precedence:B2", unset + [S("o", "v1", "attr"), DF(fams[-1], "v2", "def_attr"), SH(NONE, "show_us"), SH("v2", "show_dict")]))
            if len(fams) > 1:
                out.append(("precedence:B3", unset + [DF(fams[0], "v1", "def_attr"), DF(fams[-1], "v2", "def_attr"), SH(NONE, "show_us")]))
                out.append(("precedence:B4", unset + [DF(fams[1], "v1", "def_attr"), DF(fams[-1], "v2", "def_attr"), SH(NONE, "show_us")]))
        if has_obj:
            out.append(("precedence:kw>obj", [S("o", "v2", "update_us"), SH("v1", "show_us"), SH("v1", "show_dict"), S("w", "v1", "attr"), SH("v2", "show_us")]))
    # 6. copies are independent (also when the style of the original has never been accessed)
    if has_obj:
        for n in (mut if thorough else ["attr", "update_us", "assign_dict"] if primary else ["update_us"]):
            out.append((f"copy:c:{n}", [S("o", "v1", "attr"), C(), S("c", "v2", n), S("o", NONE if none_ok else "v2", "attr", res=["o", "c"])]))
            out.append((f"copy:o:{n}", [S("o", "v1", "attr"), C(), S("o", "v2", n), S("c", NONE if none_ok else "v1", "attr", res=["o", "c"])]))
        for n in (ctor_plain if primary else ctor_plain[:1]):
            out.append((f"copy:lazy:{n}", [S("o", "v1", n, lazy=True), C(), S("c", "v2", "attr"), S("o", "v2", "update_us"), S("c", "v1", "update_us", res=["o", "c"])]))
        out.append(("copy:defaults", [C(), DF(fams[0], "v1", "def_attr", res=["o", "c"])] if fams else [C(), S("c", "v1", "attr", res=["o", "c"])]))
    # 7. invalid names and values are rejected and change nothing
    if has_obj:
        seq = [S("o", "v1", "attr")]
        for n in (mut if primary else ["attr", "update_us", "update_dict", "assign_dict"]):
            seq.append(S("o", "v2", n, l="bad"))
            if T["bad"] is not None:
                seq.append(S("o", BAD, n))
        seq.append(S("o", "v2", "attr", res=["o"]))
        out.append(("invalid:obj", seq))
        for n in ctor_plain:
            out.append((f"invalid:name:{n}", [S("o", "v1", n, l="bad")]))
            if T["bad"] is not None:
                out.append((f"invalid:value:{n}", [S("o", BAD, n)]))
    for f in fams:
        seq = []
        for dn in (defn if full_def(f) else ["def_attr", "def_update_root"]):
            seq.append(DF(f, "v1", dn, l="bad"))
            if T["bad"] is not None:
                seq.append(DF(f, BAD, dn))
        out.append((f"invalid:def:{f}", seq))
    seq = [S("o", "v1", "attr")] if has_obj else []
    for n in shown:
        seq.append(SH("v2", n, badname=True))
        if T["bad"] is not None:
            seq.append(SH(BAD, n))
    seq.append(SH("v2", "show_us"))
    out.append(("invalid:show", seq))
    # 8. defaults.reset() restores every default and touches no object
    for f in fams:
        seq = ([S("o", "v2", "attr")] if has_obj else []) + [DF(f, "v1", "def_attr"), R(res=["o", "w"])]
        if none_ok:
            seq += [DF(f, NONE, "def_update_style"), R(res=["w"])]
        out.append((f"reset:{f}", seq))
    if len(fams) > 1:
        out.append(("reset:all", [DF(f, "v1", "def_update_style") for f in fams] + [R(res=["o", "w", "x"])]))
    # 9. a style dictionary given to two constructors
    if has_obj:
        out.append(("shared_dict", [{"op": "SharedDict"}]))
    # 9b. several objects constructed from one style dictionary object; order of the first reads of their (lazily built) styles
    if has_obj:
        x_has = leaf in cat["obj"][OTHER[cls]]
        combos = [("nested", o_, "w") for o_ in (("ab", "ba", "aa", "copy", "show") if primary else ("ba", "copy"))]
        if primary or thorough:
            combos += [("flat", "ab", "w"), ("flat", "show", "w")] + ([("nested", "ba", "x"), ("flat", "copy", "x")] if x_has else [])
        if thorough:
            combos += [("flat", o_, "w") for o_ in ("ba", "aa", "copy")]
        for form, order, partner in combos:
            if form == "flat" and len(path) == 1:
                continue
            out.append((f"lazy_shared:{form}:{order}:{partner}",
                        [{"op": "LazyShared", "n": f"ctor_lazy_{form}:{order}", "partner": partner},
                         S("o", "v2", "attr", res=["o", partner]), S(partner, other_none(none_ok), "update_us", res=["o", "c"])]))
    # 10. Collection.set_children_styles (k = [o, k2], k2 = [x], k3 = [w]; c outside), interleaved with the other actions
    if has_obj:
        kn1 = ["kids_us", "kids_dict"] + (["kids_flat"] if len(path) > 1 else [])
        kn2 = ["kids_us2", "kids_dict2", "kids_mixed", "kids_mixed_rev"]
        every = ["o", "x"]
        other_v = NONE if none_ok else "v2"
        for n in (kn1 if primary else kn1[:1]):
            for rec in (True, False):
                out.append((f"kids:single:{n}:{rec}", [K("k", {"l": "v1"}, n, rec, res=every)]))
        if primary:
            out.append(("kids:recpos", [K("k", {"l": "v1"}, "kids_dict+recpos", False, res=every), K("k", {"l": "v2"}, "kids_us+recpos", True, res=every)]))
        # last assignment wins in both orders, with own assignments in several notations
        for n2 in (["attr", "update_us", "assign_dict"] if primary else ["update_us"]):
            if primary:
                out.append((f"kids:then:{n2}", [K("k", {"l": "v1"}, "kids_us"), S("o", "v2", n2, res=["o"]), K("k2", {"l": "v2"}, "kids_dict", res=every)]))
            out.append((f"kids:after:{n2}", [S("o", "v2", n2), S("w", "v2", n2), K("k", {"l": "v1"}, kn1[-1], res=every)]))
        out.append(("kids:twice", [K("k", {"l": "v1"}, "kids_us"), K("k", {"l": "v2"}, "kids_dict", False, res=every)]
                    + ([K("k", {"l": NONE}, "kids_us", True, res=every)] if none_ok else [])))
        # own values given by the collection sit between the defaults and the show keywords
        if fams and (primary or fams[0] != "base"):
            out.append(("kids:precedence", ([S("o", NONE, "attr"), S("w", NONE, "attr")] if none_ok else [])
                        + [DF(fams[0], "v2", "def_attr", res=every), K("k", {"l": "v1"}, "kids_us", res=every), SH("v2", "show_us"), SH(NONE, "show_us"),
                           DF(fams[-1], "v1" if len(fams) > 1 else "v2", "def_update_style", res=every)]
                        + ([K("k", {"l": NONE}, "kids_dict", res=every)] if none_ok else []) + [R(res=every)]))
        # two leaves in one call: the notations are equivalent
        for n in (kn2 if primary else kn2[2:3]):
            out.append((f"kids:two:{n}", [K("k", {"l": "v1", "m": "v2"}, n, True, res=["o"])]))
        # the dictionary handed in stays the caller's: used again for another collection it must mean what the caller wrote
        out.append(("kids:reuse", [K("k", {"l": "v1", "m": "v2"}, "kids_mixed"), K("k3", {"m": "v2"}, "kids_reuse", res=["w"])]))
        # invalid names and values reject the whole call
        seq = [S("o", "v1", "attr")]
        for n in (kn1 if primary else kn1[:1]):
            seq.append(K("k", {"l": "v2"}, n, badname=True))
            if T["bad"] is not None:
                seq.append(K("k", {"l": BAD}, n))
        if T["bad"] is not None:
            seq.append(K("k", {"l": BAD, "m": "v2"}, "kids_us2"))
            seq.append(K("k", {"l": BAD, "m": "v2"}, "kids_mixed_rev"))
        if leaf_type(sibling(leaf, [k for k in cat["obj"][cls] if leaf_type(k.split(".")) is not None]).split("."))["bad"] is not None:
            seq.append(K("k", {"l": "v2", "m": BAD}, "kids_us2"))
            seq.append(K("k", {"l": "v2", "m": BAD}, "kids_dict2"))
            seq.append(K("k", {"l": "v2", "m": BAD}, "kids_mixed"))
        if T["bad"] is not None:
            seq.append(K("k2", {"l": BAD}, "kids_us"))          # only x is below k2
        seq.append(K("k2", {"l": "v2"}, "kids_us", badname=True))
        seq.append(K("k", {"l": "v2"}, "kids_us", res=every))
        out.append(("kids:invalid", seq))
        # copies and resets
        if primary:
            out.append(("kids:copy", [K("k", {"l": "v1"}, "kids_us"), C(), S("c", "v2", "attr", res=["o", "c"]), K("k", {"l": other_v}, "kids_dict", res=["o", "c"])]))
        if fams and primary:
            out.append(("kids:reset", [K("k", {"l": "v1"}, "kids_us"), DF(fams[0], "v2", "def_attr"), R(res=every)]))
    # 11. thorough: seeded random histories
    if thorough and has_obj:
        r = rng(f"c20:{cls}:{leaf}")
        for h in range(4):
            seq = []
            copied = False
            for _ in range(30):
                kind = r.choice(["obj", "obj", "obj", "def", "def", "reset", "copy", "show", "bad"] + (["kids", "kids"] if h % 2 else []))
                val = r.choice(["v1", "v2"] + ([NONE] if none_ok else []))
                who = r.choice(["o", "w"] + (["c"] if copied else []))
                if kind == "obj":
                    seq.append(S(who, val, r.choice(mut), res=[who]))
                elif kind == "def" and fams:
                    seq.append(DF(r.choice(fams), val, r.choice(defn), res=["o", "w"]))
                elif kind == "reset":
                    seq.append(R(res=["o", "w"]))
                elif kind == "copy":
                    seq.append(C(res=["c"]))
                    copied = True
                elif kind == "show":
                    seq.append(SH(val, r.choice(shown)))
                elif kind == "bad":
                    seq.append(S(who, "v1", r.choice(mut), l="bad"))
                elif kind == "kids":
                    if r.random() < 0.3:
                        seq.append(K(r.choice(["k", "k2", "k3"]), {"l": val, "m": r.choice(["v1", "v2"])}, r.choice(["kids_us2", "kids_dict2", "kids_mixed", "kids_mixed_rev"]),
                                     r.random() < 0.5, res=["o", "w", "x"]))
                    else:
                        seq.append(K(r.choice(["k", "k2", "k3"]), {"l": val}, r.choice(["kids_us", "kids_dict"]), r.random() < 0.5, res=["o", "w", "x"]))
            out.append((f"random:{h}", seq))
    # every history with a Copy step is also run with the other realisation of Copy (new object + style.copy())
    import copy as _copy
    twins = []
    for name, seq in out:
        if any(isinstance(d_, dict) and d_.get("op") == "Copy" for d_ in seq) and not name.startswith("kids"):
            seq2 = _copy.deepcopy(seq)
            for d_ in seq2:
                if d_.get("op") == "Copy":
                    d_["n"] = "style_copy"
            twins.append((name + ":stylecopy", seq2))
    out += twins
    return out


def run_shared_dict(case):
    """o = K(style=d, style_<l>=V1); w = K(style=d): the second object was given only d."""
    env = case.env
    d = nested(case.mpath, case.MT["v1"])
    # step 1: SetObj(o, l, v1) in the notation 'style dictionary plus underscore keyword' (o's m already holds that value)
    outcome, exc = "ok", ""
    try:
        case.obj["o"] = env.make(case.cls, style=d, **{"style_" + us(case.path): case.T["v1"]})
        case.obj["o"].style
    except Exception as ex:  # pylint: disable=broad-except
        outcome, exc = "raise", type(ex).__name__
    post = case.project()
    case.steps.append({"tid": case.tid, "op": "SetObj", "tgt": "o", "src": "", "l": "l", "v": "v1", "kw": {"l": NONE, "m": NONE}, "badname": False,
                       "notation": "ctor_mixed", "via": "", "outcome": outcome, "exc": exc, "post": post, "res": {}, "reserr": "",
                       "asg": {"l": NONE}, "rec": False, "argchanged": False, "tgts": []})
    case.tid += 1
    # step 2: SetObj(w, m, M1) by constructing w from the same dictionary object
    outcome, exc = "ok", ""
    try:
        case.obj["w"] = env.make(case.cls, style=d)
        case.obj["w"].style
    except Exception as ex:  # pylint: disable=broad-except
        outcome, exc = "raise", type(ex).__name__
    post = case.project()
    case.steps.append({"tid": case.tid, "op": "SetObj", "tgt": "w", "src": "", "l": "m", "v": case.vid(case.MT["v1"]), "kw": {"l": NONE, "m": NONE},
                       "badname": False, "notation": "ctor_shared_dict", "via": "", "outcome": outcome, "exc": exc, "post": post, "res": {}, "reserr": "",
                       "asg": {"l": NONE}, "rec": False, "argchanged": False, "tgts": []})
    case.tid += 1
    case.descr.append({"op": "SharedDict"})


def run_lazy_shared(case, d):
    """Several objects constructed from ONE style dictionary object while their styles are still un-initialised, then
    first reads of the styles in a chosen order, then another object constructed from the same dictionary:
        dct = {leaf: V1};  a = K(style=dct);  b = K2(style=dct);  <first reads>;  c = K(style=dct)
    d: {"n": "ctor_lazy_<form>:<order>", "partner": "w" | "x"}; abstractly SetObjs({o, partner}, l, v1), then SetObj(c, l, v1)."""
    env = case.env
    form, order = d["n"][len("ctor_lazy_"):].split(":")
    partner = d["partner"]
    dct = nested(case.path, case.real("v1")) if form == "nested" else {us(case.path): case.real("v1")}
    before = key(dct)

    def event(op, tgt, tgts, notation, outcome, exc):
        post = case.project()
        case.steps.append({"tid": case.tid, "op": op, "tgt": tgt, "src": "", "l": "l", "v": "v1", "kw": {"l": NONE, "m": NONE}, "badname": False,
                           "notation": notation, "via": "", "outcome": outcome, "exc": exc, "post": post, "res": {}, "reserr": "", "rendererr": "",
                           "asg": {"l": NONE}, "rec": False, "argchanged": key(dct) != before, "tgts": tgts})
        case.tid += 1

    outcome, exc = "ok", ""
    try:
        a = case.obj["o"] = env.make(case.clsof["o"], style=dct)
        b = case.obj[partner] = env.make(case.clsof[partner], style=dct)
        if order == "ab":
            a.style, b.style
        elif order == "ba":
            b.style, a.style
        elif order == "aa":
            a.style, a.style, b.style
        elif order == "copy":
            a.copy()
            b.style
        elif order == "show":
            env.tu.get_flatten_objects_properties_recursive(a, style_kwargs={}, colorsequence=env.D.display.colorsequence)
            b.style
        else:
            raise MachineryError(f"unknown read order {order}")
    except MachineryError:
        raise
    except Exception as ex:  # pylint: disable=broad-except
        outcome, exc = "raise", type(ex).__name__
    event("SetObjs", "", ["o", partner], d["n"], outcome, exc)
    outcome, exc = "ok", ""
    try:
        case.obj["c"] = env.make(case.clsof["c"], style=dct)
        case.obj["c"].style
    except Exception as ex:  # pylint: disable=broad-except
        outcome, exc = "raise", type(ex).__name__
    event("SetObj", "c", [], "ctor_after_reads_" + form, outcome, exc)
    case.descr.append(d)


def run_sequence(cls, leaf, label, seq, tid0, case_id, checkfresh=False):
    # a constructor notation creates the object o: then o cannot carry a sibling value from before
    case = Case(cls, leaf, tid0, label, preset_m=not (seq and "ctor" in str(seq[0].get("n", ""))),
                kids=any(d["op"] == "SetKids" for d in seq))
    for d in seq:
        if d["op"] == "SharedDict":
            run_shared_dict(case)
        elif d["op"] == "LazyShared":
            run_lazy_shared(case, d)
        else:
            case.step(d)
    return case.finish(case_id, checkfresh)


def tasks(env=None):
    """[(cls, leaf)] for every real leaf of every style class; skipped leaves with their reason."""
    env = env or Env.get()
    cat = env.catalogue()
    todo, skipped = [], []
    for cls in CLASSES:
        for leaf in cat["obj"][cls]:
            if leaf_type(leaf.split(".")) is None:
                skipped.append((cls, leaf, "no entry in the typed value table"))
            else:
                todo.append((cls, leaf))
    return todo, skipped


def run_task(args):
    """Worker: all sequences of one (class, leaf); writes one ndjson file; returns statistics."""
    idx, cls, leaf, tier_, path = args
    seqs = sequences(cls, leaf, tier_, idx)
    stats = {"cases": 0, "steps": 0, "ops": {}, "notations": {}, "def_leaves": set(), "real_shows": 0, "render_errors": 0}
    tid0 = idx * TID_STRIDE
    with open(path, "w") as f:
        for ci, (label, seq) in enumerate(seqs):
            ev = run_sequence(cls, leaf, label, seq, tid0, idx * 10000 + ci, checkfresh=(ci == 0))
            tid0 += len(ev["steps"])
            if tid0 >= (idx + 1) * TID_STRIDE:
                raise MachineryError("tid range exhausted")
            stats["cases"] += 1
            stats["steps"] += len(ev["steps"])
            for s in ev["steps"]:
                stats["ops"][s["op"]] = stats["ops"].get(s["op"], 0) + 1
                stats["notations"][s["notation"]] = stats["notations"].get(s["notation"], 0) + 1
                if s["op"] == "SetDef" and s["l"] == "l":
                    stats["def_leaves"].add(f"{s['tgt']}.{leaf}")
                if s["via"] == "show":
                    stats["real_shows"] += 1
                if s.get("rendererr"):
                    stats["render_errors"] += 1
            f.write(json.dumps(ev, separators=(",", ":")) + "\n")
    return idx, cls, leaf, stats
