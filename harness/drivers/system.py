"""Binding A' (spec -> code): TLC -simulate behaviours of spec/MC_System (tree edits, motion, field observations interleaved)
are replayed into real objects step by step; every step is logged in the event format of the module it belongs to and judged
by that module's validator (TV_Tree / TV_Path / TV_FieldWrap)."""
import glob
import json
import os
import re
import subprocess

import numpy as np

from .. import tlaval
from ..common import SPEC, MachineryError, import_magpylib, seed, workdir
from ..tlc import JAR
from . import fieldwrap as fw
from . import paths as pth
from . import tree as tr

COLLS, SRCS, SENS = ["C1", "C2"], ["S1", "S2"], ["X1", "X2"]
TAG = {"S1": 1, "S2": 2}
PIX = {"X1": None, "X2": np.array([[1, -1, 2], [0, 2, -1]], dtype=float)}


def simulate(num, depth, salt):
    d = workdir(f"sim/{salt}")
    cmd = ["java", "-XX:+UseSerialGC", "-Xmx3g", "-cp", JAR, "tlc2.TLC", "-workers", "1", "-metadir", workdir(f"tlc/sim_{salt}"), "-noGenerateSpecTE",
           "-config", "MC_System_sim.cfg", "-simulate", f"file={d}/tr,num={num}", "-depth", str(depth), "-seed", str(seed() + sum(map(ord, salt))), "MC_System.tla"]
    r = subprocess.run(cmd, cwd=SPEC, capture_output=True, text=True, timeout=1800)
    if "Error:" in r.stdout:
        raise MachineryError("TLC simulation failed:\n" + r.stdout[-2000:])
    traces = []
    for f in sorted(glob.glob(os.path.join(d, "tr_*"))):
        txt = open(f).read()
        states = []
        for blk in re.split(r"^STATE_\d+ ==\s*$", txt, flags=re.M)[1:]:
            blk = blk.split("\n\\*")[0].split("=====")[0]
            st = {}
            for part in re.split(r"^/\\ ", blk.strip(), flags=re.M):
                m = re.match(r"(\w+) = (.*)$", part.strip(), re.S)
                if m:
                    st[m.group(1)] = tlaval.parse(m.group(2))
            states.append(st)
        traces.append(states)
    return traces


def tree_state(v):
    s = tr.st_from_tla(v)
    s["kind"] = dict(v["kind"])
    return s


def path_state(v):
    kids = {o: (list(v["children"][o]) if v["kind"][o] == "C" else []) for o in v["kind"]}
    return {"kids": kids, "path": {o: pth.tla_path(p) for o, p in v["path"].items()}}


class SysWorld:
    def __init__(self):
        self.magpy = import_magpylib()
        m = self.magpy
        self.builder = fw.Builder()
        self.tw = tr.World(COLLS, SRCS, SENS)
        for s_ in SRCS:
            self.tw.obj[s_] = m.misc.CustomSource(field_func=self.builder.tagged(TAG[s_]))
        self.tw.obj["X1"] = m.Sensor()
        self.tw.obj["X2"] = m.Sensor(pixel=PIX["X2"].copy(), handedness="left")
        self.tw.reindex()
        self.pw = pth.PathWorld({n: [] for n in self.tw.names})
        self.pw.obj = self.tw.obj

    def set(self, v):
        self.tw.set_state(tree_state(v))
        self.pw.kids = path_state(v)["kids"]
        self.pw.set_state(path_state(v))

    def project(self):
        t = self.tw.project()
        self.pw.kids = {o: ([self.tw.name(x) for x in self.tw.obj[o]._children] if o in COLLS else []) for o in self.tw.names}
        p = self.pw.project()
        return t, p


def replay(traces, path, tid0):
    """returns counts per kind; writes three ndjson files path+{.tree,.path,.fw}"""
    w = SysWorld()
    n = {"tree": 0, "path": 0, "fw": 0}
    ft, fp, ff = open(path + ".tree", "w"), open(path + ".path", "w"), open(path + ".fw", "w")
    tid = tid0
    for states in traces:
        w.set(states[0]["st"])
        for i in range(1, len(states)):
            pre_v, last = states[i - 1]["st"], states[i]["last"]
            # the real objects carry the history; the spec's pre-state is what the validators compare against
            pre_t, pre_p = tree_state(pre_v), path_state(pre_v)
            tid += 1
            if last["kind"] == "tree":
                c = tr.call(last["op"], last["self"], list(last["args"]), last["ov"], True, "raise")
                oc = w.tw.apply(c)
                post_t, _ = w.project()
                ft.write(json.dumps({"pre": pre_t, "steps": [{"tid": tid, "call": c, "outcome": oc, "post": post_t, "views": w.tw.views()}]}, separators=(",", ":")) + "\n")
                n["tree"] += 1
            elif last["kind"] == "path":
                c = pth.tla_call({"op": last["op"], "o": last["o"], "inp": last["inp"], "anc": last["anc"], "start": last["start"]})
                w.pw.kids = pre_p["kids"]
                oc = w.pw.apply(c, "rotate")
                _, post_p = w.project()
                post_p["kids"] = pre_p["kids"]
                fp.write(json.dumps({"pre": pre_p, "kappa": {}, "steps": [{"tid": tid, "call": c, "outcome": oc, "post": post_p, "alts": [],
                                                                            "field": {"has": False, "pre": [], "post": []}}]}, separators=(",", ":")) + "\n")
                n["path"] += 1
            else:
                e = fw.norm_scenario(last["e"])
                srcs = [w.tw.obj[x] for x in last["srcs"]]
                sens = [w.tw.obj[x] for x in last["sens"]]
                fn = {"B": w.magpy.getB, "H": w.magpy.getH}[e["field"]]
                ev = {"tid": tid, "call": e, "form": "system", "outcome": "ok", "shape": [], "den": [1] * len(sens), "out": [], "ok_reshape": False, "kappa": {},
                      "stages": {"has": False, "computed": [], "reduced": [], "rotated": [], "aggregated": []}}
                try:
                    out = fn(srcs if len(srcs) > 1 else srcs[0], sens if len(sens) > 1 else sens[0], sumup=e["sumup"], squeeze=False)
                    ev["shape"] = [int(x) for x in np.shape(out)]
                    can, dens = fw.canonical(np.asarray(out), e)
                    if can is not None:
                        ev["out"], ev["den"], ev["ok_reshape"] = can, dens, True
                except w.tw.BadInput:
                    ev["outcome"] = "raise"
                except Exception as ex:  # pylint: disable=broad-except
                    ev["outcome"] = "exc:" + type(ex).__name__
                ff.write(json.dumps(ev, separators=(",", ":")) + "\n")
                n["fw"] += 1
            # a divergence of the real objects from the spec state would make later pre-states meaningless: re-synchronise
            t_now, p_now = w.project()
            want_t, want_p = tree_state(states[i]["st"]), path_state(states[i]["st"])
            if {k: t_now[k] for k in ("parent", "children")} != {k: want_t[k] for k in ("parent", "children")} or p_now["path"] != want_p["path"]:
                w.set(states[i]["st"])
    for f in (ft, fp, ff):
        f.close()
    return n


def system_phase(rep, pid, kind):
    """Simulate MC_System, replay into real objects, validate the events of `kind` ("tree" | "path" | "fw") with that module's validator."""
    from .. import tlc
    from ..common import tier
    num, depth = (10, 16) if tier() == "quick" else (150, 30)      # TLC simulation evaluates every successor of every step: keep it small
    res = tlc.run_tlc("MC_System", f"MC_System_{tier()}.cfg", name=f"{pid.lower()}_sysmc")
    if res.get("violated"):
        raise MachineryError(f"MC_System violates {res['violated']}:\n{res['out'][-2000:]}")
    tlc.require_ok(res)
    traces = simulate(num, depth, f"{pid}sys")
    d = workdir(f"traces/{pid.lower()}_system")
    n = replay(traces, os.path.join(d, "s"), 700_000_000)
    module, ext = {"tree": ("TV_Tree", ".tree"), "path": ("TV_Path", ".path"), "fw": ("TV_FieldWrap", ".fw")}[kind]
    f = os.path.join(d, "s" + ext)
    lines = open(f).read().splitlines()
    shards = []
    for i in range(16):
        part = lines[i::16]
        if part:
            sp = os.path.join(d, f"shard{i:02d}{ext}")
            open(sp, "w").write("\n".join(part) + "\n")
            shards.append(sp)
    k, rej, _ = tlc.validate(module, "TV.cfg", shards) if shards else (0, [], [])
    rep.set("system_model_states", res["distinct"])
    rep.set("system_behaviours_replayed", len(traces))
    rep.set("system_steps_validated", k)
    rep.add("traces_validated_against_impl", k)
    details = {}
    if rej:
        want = {r_[1] for r_ in rej}
        for line in open(f):
            ev = json.loads(line)
            for s_ in ev.get("steps", [ev]):
                if s_.get("tid") in want:
                    details[s_["tid"]] = ev
    for r_ in rej:
        _, tid, clause, prop, ctx = r_[:5]
        rep.reject(clause, {"clause": clause, "source": "system-simulation", "ctx0": ctx[0], "ctx1": ctx[1]},
                   f"system behaviour step {ctx}: {clause}", details.get(tid, {}), prop=(pid if prop == "FW" else prop))
    rep.phase("system_replay")
