"""Binding of spec/Tree.tla to the real Collection/BaseGeo objects.

A: every transition of the TLC state graph (dumped states x call domain) is executed on real objects
   put into that abstract state; each step is logged and judged by TV_Tree.tla.
B: long random histories over a larger universe (incl. copy and constructor forms), same validator.
"""
import itertools
import json
import os
import sys

from ..common import import_magpylib, rng

BAD = "<non-object>"
NONE = "None"


class World:
    """A universe of named real magpylib objects."""

    def __init__(self, colls, srcs, sens):
        self.magpy = import_magpylib()
        from magpylib._src.exceptions import MagpylibBadUserInput

        self.BadInput = MagpylibBadUserInput
        self.colls, self.srcs, self.sens = list(colls), list(srcs), list(sens)
        self.names = self.colls + self.srcs + self.sens
        self.kind = {**{c: "C" for c in self.colls}, **{s: "S" for s in self.srcs}, **{x: "X" for x in self.sens}}
        self.obj = {}
        m = self.magpy
        mk = [lambda: m.misc.Dipole(moment=(1, 0, 0)), lambda: m.magnet.Cuboid(dimension=(1, 1, 1), polarization=(0, 0, 1)),
              lambda: m.current.Circle(diameter=1, current=1)]
        for i, n in enumerate(self.colls):
            self.obj[n] = m.Collection()
        for i, n in enumerate(self.srcs):
            self.obj[n] = mk[i % len(mk)]()
        for n in self.sens:
            self.obj[n] = m.Sensor()
        self.reindex()

    def reindex(self):
        self.inv = {id(o): n for n, o in self.obj.items()}

    def name(self, o):
        if o is None:
            return NONE
        return self.inv.get(id(o), "ghost")

    # ---- abstract state <-> real objects
    def set_state(self, st):
        for c in self.colls:
            o = self.obj[c]
            o._children = [self.obj[x] for x in st["children"][c]]
            o._sources = [self.obj[x] for x in st["srcs"][c]]
            o._sensors = [self.obj[x] for x in st["sens"][c]]
            o._collections = [self.obj[x] for x in st["colls"][c]]
        for n in self.names:
            p = st["parent"][n]
            self.obj[n]._parent = None if p == NONE else self.obj[p]

    def project(self):
        nm = self.name
        return {
            "kind": self.kind,
            "parent": {n: nm(self.obj[n]._parent) for n in self.names},
            "children": {c: [nm(x) for x in self.obj[c]._children] for c in self.colls},
            "srcs": {c: [nm(x) for x in self.obj[c]._sources] for c in self.colls},
            "sens": {c: [nm(x) for x in self.obj[c]._sensors] for c in self.colls},
            "colls": {c: [nm(x) for x in self.obj[c]._collections] for c in self.colls},
        }

    def views(self):
        """The public derived views, read through the properties (empty on failure, e.g. recursion)."""
        out = {}
        nm = self.name
        for c in self.colls:
            o = self.obj[c]
            v = {}
            for key, attr in (("S", "sources_all"), ("X", "sensors_all"), ("C", "collections_all"), ("A", "children_all")):
                try:
                    v[key] = [nm(x) for x in getattr(o, attr)]
                except RecursionError:
                    v[key] = ["<recursion>"]
            out[c] = v
        return out

    def arg(self, a):
        return 5 if a == BAD else self.obj[a]

    def apply(self, call):
        """Execute one call on the real objects; returns outcome string."""
        op, me, args = call["op"], call["self"], call["args"]
        try:
            if op == "add":
                self.obj[me].add(*[self.arg(a) for a in args], override_parent=call["ov"])
            elif op == "remove":
                self.obj[me].remove(*[self.arg(a) for a in args], recursive=call["rec"], errors=call["errors"])
            elif op == "parent":
                a = args[0]
                self.obj[me].parent = None if a == NONE else self.arg(a)
            elif op == "children":
                self.obj[me].children = [self.arg(a) for a in args]
            elif op == "sources":
                self.obj[me].sources = [self.arg(a) for a in args]
            elif op == "sensors":
                self.obj[me].sensors = [self.arg(a) for a in args]
            elif op == "collections":
                self.obj[me].collections = [self.arg(a) for a in args]
            elif op == "plus":
                new = self.obj[args[0]] + self.obj[args[1]]
                # the fresh collection `me` of the model is the object created by `+`
                self.obj[me] = new
                self.reindex()
            else:
                raise ValueError(op)
        except self.BadInput:
            if op == "plus":
                # the collection under construction is unreachable unless an argument points to it
                pass
            return "raise"
        except Exception as ex:  # pylint: disable=broad-except
            return "exc:" + type(ex).__name__
        return "ok"


def call(op, me, args, ov=True, rec=True, errors="raise"):
    return {"op": op, "self": me, "args": list(args), "ov": ov, "rec": rec, "errors": errors}


def fresh(st, c):
    return st["parent"][c] == NONE and not st["children"][c] and all(c not in st["children"][d] for d in st["children"])


def call_domain(st, colls, srcs, sens, max_args, with_bad):
    """Mirror of MC_Tree!Calls(s) (cross-checked against TLC's generated-state count)."""
    uni = list(colls) + list(srcs) + list(sens)
    elems = uni + ([BAD] if with_bad else [])

    def arglists(lo, hi):
        for n in range(lo, hi + 1):
            yield from itertools.product(elems, repeat=n)

    out = []
    for c in colls:
        for a in arglists(1, max_args):
            for ov in (False, True):
                out.append(call("add", c, a, ov, True, "raise"))
            for rec in (False, True):
                for er in ("raise", "ignore"):
                    out.append(call("remove", c, a, False, rec, er))
        for a in elems:
            out.append(call("remove", c, [a], False, True, "bogus"))
        for a in arglists(0, max_args):
            out.append(call("children", c, a))
            for k in ("sources", "sensors", "collections"):
                out.append(call(k, c, a))
    for o in uni:
        for p in list(colls) + [NONE] + ([BAD] if with_bad else []):
            out.append(call("parent", o, [p]))
    for c in colls:
        if fresh(st, c):
            for a in uni:
                for b in uni:
                    if a != c and b != c:
                        out.append(call("plus", c, [a, b], False, True, "raise"))
    return out


def replay_states(args):
    """Worker: execute every call of the domain from every given abstract state; write one ndjson shard."""
    states, cfg, path, tid0 = args
    w = World(cfg["colls"], cfg["srcs"], cfg["sens"])
    n = 0
    outcomes = {}
    with open(path, "w") as f:
        for st in states:
            steps = []
            for c in call_domain(st, cfg["colls"], cfg["srcs"], cfg["sens"], cfg["max_args"], cfg["with_bad"]):
                saved = dict(w.obj)
                w.set_state(st)
                oc = w.apply(c)
                steps.append({"tid": tid0 + n, "call": c, "outcome": oc, "post": w.project(), "views": w.views()})
                outcomes[(c["op"], oc)] = outcomes.get((c["op"], oc), 0) + 1
                n += 1
                if c["op"] == "plus":
                    w.obj = saved
                    w.reindex()
            f.write(json.dumps({"pre": {**st, "kind": w.kind}, "steps": steps}, separators=(",", ":")) + "\n")
    return n, outcomes


def st_from_tla(v):
    """TLC-dumped value of variable `st` -> JSON-able state."""
    def seqmap(f):
        return {k: list(x) for k, x in f.items()}
    return {"parent": dict(v["parent"]), "children": seqmap(v["children"]), "srcs": seqmap(v["srcs"]),
            "sens": seqmap(v["sens"]), "colls": seqmap(v["colls"])}


# ---------------------------------------------------------------- binding B: random histories
def random_history(args):
    """One long random history over a larger universe; every step logged with pre and post state."""
    seed_salt, cfg, nsteps, path, tid0 = args
    r = rng(seed_salt)
    w = World(cfg["colls"], cfg["srcs"], cfg["sens"])
    uni = w.names
    n = 0
    with open(path, "w") as f:
        for _ in range(nsteps):
            st = w.project()
            st_ok = all(v != "ghost" for v in st["parent"].values())
            op = r.choice(["add", "add", "add", "remove", "remove", "parent", "children", "sources", "sensors", "collections", "plus"])
            k = r.choice([0, 1, 1, 2, 2, 3])
            elems = uni + [BAD] if r.random() < 0.1 else uni
            args_ = [r.choice(elems) for _ in range(k)]
            if op == "add":
                c = call("add", r.choice(w.colls), args_ or [r.choice(uni)], r.random() < 0.5)
            elif op == "remove":
                c = call("remove", r.choice(w.colls), args_ or [r.choice(uni)], False, r.random() < 0.6, r.choice(["raise", "ignore", "ignore", "bogus"]))
            elif op == "parent":
                c = call("parent", r.choice(uni), [r.choice(w.colls + [NONE])])
            elif op == "plus":
                fr = [x for x in w.colls if fresh(st, x)]
                if not fr:
                    continue
                others = [x for x in uni if x != fr[0]]
                c = call("plus", fr[0], [r.choice(others), r.choice(others)], False)
            else:
                c = call(op, r.choice(w.colls), args_)
            oc = w.apply(c)
            if not st_ok:
                continue  # a pre-state that already contains a ghost parent cannot be expressed
            f.write(json.dumps({"pre": st, "steps": [{"tid": tid0 + n, "call": c, "outcome": oc, "post": w.project(), "views": w.views()}]},
                               separators=(",", ":")) + "\n")
            n += 1
    return n
