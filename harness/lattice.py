"""The exact lattice: positions in Z^3, orientations in the 24-element rotation group O of the cube
(signed permutation matrices with determinant +1), and the concretization kappa = (lambda, G)."""
import itertools

import numpy as np
from scipy.spatial.transform import Rotation as R


def _rots():
    out = []
    for perm in itertools.permutations(range(3)):
        for signs in itertools.product((1, -1), repeat=3):
            m = np.zeros((3, 3), dtype=int)
            for i in range(3):
                m[i, perm[i]] = signs[i]
            if round(np.linalg.det(m)) == 1:
                out.append(m)
    return out


ROTS = _rots()  # 24 integer matrices
ID = np.eye(3, dtype=int)
RX90 = np.array([[1, 0, 0], [0, 0, -1], [0, 1, 0]])
RY90 = np.array([[0, 0, 1], [0, 1, 0], [-1, 0, 0]])
RZ90 = np.array([[0, -1, 0], [1, 0, 0], [0, 0, 1]])


def mat_to_rot(mats):
    """integer matrix or list of matrices -> scipy Rotation"""
    a = np.asarray(mats, dtype=float)
    return R.from_matrix(a)


def rot_to_mat(rot, tol=1e-9):
    """scipy Rotation (single or path) -> list of exact integer matrices; raises ValueError if off-lattice"""
    m = rot.as_matrix()
    if m.ndim == 2:
        m = m[None]
    r = np.rint(m)
    if np.abs(m - r).max() > tol:
        raise ValueError(f"orientation off the lattice by {np.abs(m - r).max():.3g}")
    return r.astype(int).tolist()


def vec_to_int(v, tol=1e-9, scale=1.0):
    a = np.asarray(v, dtype=float) / scale
    r = np.rint(a)
    if a.size and np.abs(a - r).max() > tol * max(1.0, np.abs(a).max()):
        raise ValueError(f"vector off the lattice by {np.abs(a - r).max():.3g}")
    return r.astype(int).tolist()


class Kappa:
    """Concretization: lattice unit lam (metres) and a generic rigid motion G = (RG, tG).

    A lattice pose (R, p) becomes (RG*R, lam*RG*p + tG); kappa = identity is exact."""

    def __init__(self, lam=1.0, RG=None, tG=None):
        self.lam = float(lam)
        self.RG = R.identity() if RG is None else RG
        self.tG = np.zeros(3) if tG is None else np.asarray(tG, dtype=float)
        self.identity = (lam == 1.0 and RG is None and tG is None)

    @staticmethod
    def random(r, decades=(-9, 9), generic=True):
        lam = 10.0 ** r.uniform(*decades)
        if not generic:
            return Kappa(lam)
        q = np.array([r.gauss(0, 1) for _ in range(4)])
        q /= np.linalg.norm(q)
        t = np.array([r.uniform(-3, 3) for _ in range(3)]) * lam
        return Kappa(lam, R.from_quat(q), t)

    def pos(self, p):
        p = np.asarray(p, dtype=float)
        return self.lam * self.RG.apply(p) + self.tG

    def rot(self, mats):
        return self.RG * mat_to_rot(mats)

    def length(self, x):
        return self.lam * np.asarray(x, dtype=float)

    def vec(self, v):
        """a direction/field vector (not a position): rotated only"""
        return self.RG.apply(np.asarray(v, dtype=float))

    # inverse maps (projection undoes kappa)
    def unpos(self, P):
        P = np.asarray(P, dtype=float)
        return self.RG.inv().apply(P - self.tG) / self.lam

    def unrot(self, rot):
        return self.RG.inv() * rot

    def unvec(self, v):
        return self.RG.inv().apply(np.asarray(v, dtype=float))

    def describe(self):
        return {"lam": self.lam, "G_quat": self.RG.as_quat().tolist(), "t": self.tG.tolist()}
