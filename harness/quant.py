"""Fixed-point logging of real observations for TLC (32-bit integers).

q8 : one integer per value, unit 1e-8 of the gross scale s of the law instance.
q12: two limbs [hi, lo] per value, value/s = (hi*10**6 + lo) * 1e-12, |lo| <= 5*10**5.
TLC cannot compare an integer with a string, so non-finite values are logged as 0 together with a
parallel structure of booleans: obs8/obs12 return {"q": ..., "fin": ...} (fin[i] = value i is finite).
The scale is the largest magnitude among ALL values of the instance (gross scale), so that
cancellation is measured against the summands."""
import math

import numpy as np


def gross(*arrays):
    m = 0.0
    for a in arrays:
        a = np.asarray(a, dtype=float)
        if a.size:
            f = a[np.isfinite(a)]
            if f.size:
                m = max(m, float(np.abs(f).max()))
    return m


def _nf(x):
    if math.isnan(x):
        return "nan"
    return "+inf" if x > 0 else "-inf"


def q8(a, s):
    """array -> nested list of ints (or strings for non-finite entries)"""
    a = np.asarray(a, dtype=float)
    if s == 0.0:
        s = 1.0

    def one(x):
        if not math.isfinite(x):
            return 0
        return int(round(x / s * 1e8))
    return np.vectorize(one, otypes=[object])(a).tolist() if a.ndim else one(float(a))


def q12(a, s):
    a = np.asarray(a, dtype=float)
    if s == 0.0:
        s = 1.0

    def one(x):
        if not math.isfinite(x):
            return [0, 0]
        v = x / s * 1e6
        hi = round(v)
        lo = int(round((v - hi) * 1e6))
        return [int(hi), lo]
    if a.ndim == 0:
        return one(float(a))
    out = np.empty(a.shape, dtype=object)
    for idx in np.ndindex(a.shape):
        out[idx] = one(float(a[idx]))
    return out.tolist()


def scale_exp(s):
    """decimal exponent of the scale, for information only"""
    return int(math.floor(math.log10(s))) if s > 0 and math.isfinite(s) else 0


def fin(a):
    return np.isfinite(np.asarray(a, dtype=float)).tolist()


def obs8(a, s):
    return {"q": q8(a, s), "fin": fin(a)}


def obs12(a, s):
    return {"q": q12(a, s), "fin": fin(a)}
