"""Run parts of the repository's own test-suite under the recorder (harness/verif_recorder.py) and validate the traces with TLC."""
import glob
import json
import os
import subprocess

from . import tlc
from .common import PY, REPO, VERIF, MachineryError, workdir

SETS = {
    "tree": ["tests/test_obj_Collection.py", "tests/test_obj_Collection_child_parent.py", "tests/test_obj_Collection_v4motion.py", "tests/test_obj_BaseGeo.py",
             "tests/test_Coumpound_setters.py", "tests/test_getBH_interfaces.py"],
    "path": ["tests/test_path.py", "tests/test_BaseTransform.py", "tests/test_obj_BaseGeo.py", "tests/test_obj_BaseGeo_v4motion.py", "tests/test_Coumpound_setters.py",
             "tests/test_obj_Collection_v4motion.py", "tests/test_obj_Sensor.py"],
    "field": ["tests/test_getBH_level2.py", "tests/test_getBH_interfaces.py", "tests/test_getBH_dict.py", "tests/test_CustomSource.py", "tests/test_obj_Sensor.py",
              "tests/test_obj_Collection.py", "tests/test_obj_Cuboid.py", "tests/test_obj_TriangularMesh.py", "tests/test_physics_consistency.py", "tests/test_exceptions.py"],
}


def record(which, name):
    d = workdir(f"rec/{name}")
    env = dict(os.environ)
    env.update({"VERIF_RECORD_DIR": d, "PYTHONPATH": os.path.join(VERIF, "harness") + os.pathsep + env.get("PYTHONPATH", ""), "MAGPYLIB_VERIF": "1", "MPLBACKEND": "Agg"})
    files = [f for f in SETS[which] if os.path.exists(os.path.join(REPO, f))]
    cmd = [PY, "-m", "pytest", "-q", "-p", "verif_recorder", "-p", "no:cacheprovider", "-n", "8", "--timeout=600"] + files
    r = subprocess.run(cmd, cwd=REPO, env=env, capture_output=True, text=True)
    broken = glob.glob(os.path.join(d, "broken_*.ndjson"))
    if broken:
        raise MachineryError(f"recorder reported internal errors: {open(broken[0]).read()[:500]}")
    tree = sorted(glob.glob(os.path.join(d, "tree_*.ndjson")))
    rec = sorted(glob.glob(os.path.join(d, "rec_*.ndjson")))
    if not tree and not rec:
        raise MachineryError(f"recorder produced no events; pytest said:\n{r.stdout[-1500:]}\n{r.stderr[-1500:]}")
    tail = r.stdout.strip().splitlines()[-1] if r.stdout.strip() else ""
    return tree, rec, tail


def validate_recorded(rep, pid, which):
    """Record + validate; rejects of clauses tagged with `pid` become violations of this check."""
    tree, rec, tail = record(which, f"{pid.lower()}_{which}")
    n_total = 0
    for module, files in (("TV_Tree", tree), ("TV_Recorded", rec)):
        if not files:
            continue
        n, rej, _ = tlc.validate(module, "TV.cfg", files)
        n_total += n
        details = {}
        if rej:
            want = {r_[1] for r_ in rej}
            for p in files:
                for line in open(p):
                    ev = json.loads(line)
                    for s in ev.get("steps", [ev]):
                        if s.get("tid") in want:
                            details[s["tid"]] = ev
        for r_ in rej:
            _, tid, clause, prop, ctx = r_[:5]
            where = {"clause": clause, "source": "repo-tests", "kind": ctx[0], "outcome": ctx[1]}
            rep.reject(clause, where, f"repository test execution ({which}): {ctx}: {clause}", details.get(tid, {}), prop=prop)
    rep.set("repo_test_events_validated", n_total)
    rep.set("repo_test_run", tail)
    rep.add("traces_validated_against_impl", n_total)
    rep.phase("repo_test_traces")
    return n_total
