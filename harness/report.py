"""Verdict bookkeeping: violations, known findings, nonconformances, evidence file, exit status."""
import json
import os
import sys

from .common import EVID, REPLAYS, VERIF, seed, tier, Timer, cjson

KNOWN_FILE = os.path.join(VERIF, "known_findings.json")


def load_known():
    out = []
    if os.path.exists(KNOWN_FILE):
        out += json.load(open(KNOWN_FILE))["findings"]
    d = os.path.join(VERIF, "known_findings.d")
    if os.path.isdir(d):
        for f in sorted(os.listdir(d)):
            if f.endswith(".json"):
                out += json.load(open(os.path.join(d, f)))["findings"]
    return out


def _match(entry, prop, clause, where):
    if entry.get("status") != "open":
        return False  # fixed entries suppress nothing
    if entry["property"] != prop or entry["clause"] != clause:
        return False
    for k, v in entry.get("where", {}).items():
        w = where.get(k, None)
        if isinstance(v, list):
            if w not in v:
                return False
        elif w != v:
            return False
    return True


class Report:
    def __init__(self, pid, level):
        self.pid = pid
        self.level = level
        self.timer = Timer()
        self.known = load_known()
        self.violations = []      # (clause, where, what, replay_path)
        self.known_hits = {}      # finding id -> count
        self.nonconf = {}         # clause -> count
        self.cov = {"samples": []}
        self.assumptions = []
        self._nrep = 0

    def phase(self, name):
        """record wall time since the previous phase mark"""
        import time
        now = time.time()
        last = getattr(self, "_last", self.timer.t0)
        self.cov.setdefault("phase_s", {})[name] = round(now - last, 1)
        self._last = now

    # ---- coverage helpers
    def add(self, key, n=1):
        self.cov[key] = self.cov.get(key, 0) + n

    def set(self, key, v):
        self.cov[key] = v

    def sample(self, x, limit=6):
        if len(self.cov["samples"]) < limit:
            self.cov["samples"].append(x)

    def assume(self, s):
        if s not in self.assumptions:
            self.assumptions.append(s)

    # ---- verdicts
    def reject(self, clause, where, what, replay, prop=None):
        """A rejected step/instance of a clause tagged with property `prop` (default: this check's)."""
        prop = prop or self.pid
        if prop == "-":
            self.nonconf[clause] = self.nonconf.get(clause, 0) + 1
            return "nonconformance"
        for e in self.known:
            if _match(e, prop, clause, where):
                self.known_hits[e["id"]] = self.known_hits.get(e["id"], 0) + 1
                return "known"
        if prop != self.pid:
            # a clause of another property: report as nonconformance here, its own check decides it
            self.nonconf[f"{prop}:{clause}"] = self.nonconf.get(f"{prop}:{clause}", 0) + 1
            return "foreign"
        self._nrep += 1
        path = None
        if self._nrep <= 20:
            d = os.path.join(REPLAYS, self.pid)
            os.makedirs(d, exist_ok=True)
            path = os.path.join(d, f"{clause}_{self._nrep:03d}.json")
            with open(path, "w") as f:
                json.dump({"property": self.pid, "clause": clause, "where": where, "what": what,
                           "seed": seed(), "tier": tier(), "case": replay}, f, indent=1, default=str)
        self.violations.append((clause, where, what, path))
        return "violation"

    def finish(self):
        cov = self.cov
        if self.nonconf:
            cov["nonconformances"] = self.nonconf
        if self.known_hits:
            cov["known_findings_hit"] = self.known_hits
        ev = {"property_id": self.pid, "tier": tier(), "seed": seed(), "level": self.level,
              "coverage": cov, "assumptions": self.assumptions, "wall_s": self.timer.s(),
              "violations": len(self.violations)}
        os.makedirs(EVID, exist_ok=True)
        with open(os.path.join(EVID, f"{self.pid}.json"), "w") as f:
            json.dump(ev, f, indent=1, default=str)
        for e in self.known:
            if e["id"] in self.known_hits:
                print(f"KNOWN-FINDING: property={e['property']} {e['id']} {e['what']} (hits={self.known_hits[e['id']]})")
        for c, n in self.nonconf.items():
            print(f"NONCONFORMANCE clause={c} count={n}")
        if self.violations:
            groups = {}
            for clause, where, what, path in self.violations:
                k = (clause, cjson(where))
                g = groups.setdefault(k, {"n": 0, "path": None, "what": what})
                g["n"] += 1
                if g["path"] is None and path is not None:
                    g["path"] = path
            anypath = next((p for _, _, _, p in self.violations if p), "-")
            for (clause, where), g in groups.items():
                print(f"VIOLATION property={self.pid} replay={g['path'] or anypath} clause={clause} count={g['n']} where={where} :: {g['what']}")
            print(f"{self.pid}: {len(self.violations)} violation(s)")
            return 1
        print(f"{self.pid}: OK ({tier()}, {self.timer.s()} s) " + ", ".join(f"{k}={v}" for k, v in cov.items() if isinstance(v, (int, bool))))
        return 0
