"""Reader for TLA+ values as printed by TLC (PrintT output, -dump states, -simulate trace files).

Values map to Python: <<..>> -> list, [a |-> v] -> dict, {..} -> frozenset-like sorted list tagged
as ('set', [...]), (k :> v @@ ..) -> dict, strings -> str, ints -> int, TRUE/FALSE -> bool,
identifiers (model values) -> str.
"""
import re

_tok = re.compile(
    r"\s*(<<|>>|\|->|:>|@@|\[|\]|\{|\}|\(|\)|,|\"(?:[^\"\\]|\\.)*\"|-?\d+|[A-Za-z_][A-Za-z0-9_!]*)"
)


class TlaSet(list):
    """A TLA+ set (kept as a list in print order; compare with set semantics via key())."""

    def key(self):
        return frozenset(freeze(x) for x in self)


def freeze(v):
    if isinstance(v, TlaSet):
        return ("set", frozenset(freeze(x) for x in v))
    if isinstance(v, list):
        return ("seq", tuple(freeze(x) for x in v))
    if isinstance(v, dict):
        ks = list(v.keys())
        # a function with domain 1..n is the same value as a sequence
        if ks and all(isinstance(k, int) for k in ks) and sorted(ks) == list(range(1, len(ks) + 1)):
            return ("seq", tuple(freeze(v[k]) for k in sorted(ks)))
        return ("fn", frozenset((freeze(k), freeze(x)) for k, x in v.items()))
    return v


def tokenize(s):
    pos = 0
    out = []
    n = len(s)
    while pos < n:
        m = _tok.match(s, pos)
        if not m:
            if s[pos:].strip() == "":
                break
            raise ValueError(f"cannot tokenize at {s[pos:pos+40]!r}")
        out.append(m.group(1))
        pos = m.end()
    return out


class _P:
    def __init__(self, toks):
        self.t = toks
        self.i = 0

    def peek(self):
        return self.t[self.i] if self.i < len(self.t) else None

    def next(self):
        x = self.t[self.i]
        self.i += 1
        return x

    def expect(self, x):
        y = self.next()
        if y != x:
            raise ValueError(f"expected {x} got {y} at token {self.i}")

    def value(self):
        t = self.next()
        if t == "<<":
            out = []
            if self.peek() == ">>":
                self.next()
                return out
            while True:
                out.append(self.value())
                t2 = self.next()
                if t2 == ">>":
                    return out
                if t2 != ",":
                    raise ValueError(f"bad tuple sep {t2}")
        if t == "{":
            out = TlaSet()
            if self.peek() == "}":
                self.next()
                return out
            while True:
                out.append(self.value())
                t2 = self.next()
                if t2 == "}":
                    return out
                if t2 != ",":
                    raise ValueError(f"bad set sep {t2}")
        if t == "[":
            out = {}
            if self.peek() == "]":
                self.next()
                return out
            while True:
                k = self.next()
                self.expect("|->")
                out[k] = self.value()
                t2 = self.next()
                if t2 == "]":
                    return out
                if t2 != ",":
                    raise ValueError(f"bad record sep {t2}")
        if t == "(":
            out = {}
            while True:
                k = self.value()
                self.expect(":>")
                out[k if not isinstance(k, (list, dict)) else repr(k)] = self.value()
                t2 = self.next()
                if t2 == ")":
                    return out
                if t2 != "@@":
                    raise ValueError(f"bad function sep {t2}")
        if t.startswith('"'):
            return t[1:-1].replace('\\"', '"').replace("\\\\", "\\")
        if t == "TRUE":
            return True
        if t == "FALSE":
            return False
        if re.fullmatch(r"-?\d+", t):
            return int(t)
        return t  # model value / identifier


def parse(s):
    p = _P(tokenize(s))
    v = p.value()
    return v


def parse_many(text):
    """Parse every top-level `<<...>>` value printed on its own (possibly multi-line) in TLC output.

    Bracket matching, so interleaved multi-line values from one worker are reassembled."""
    out = []
    depth = 0
    buf = []
    for line in text.splitlines():
        if depth == 0:
            if not line.startswith("<<"):
                continue
            buf = []
        buf.append(line)
        depth += line.count("<<") - line.count(">>")
        if depth <= 0:
            depth = 0
            try:
                out.append(parse(" ".join(buf)))
            except ValueError:
                pass
    return out
