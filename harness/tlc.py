"""Running TLC / SANY / TLAPM and reading their output."""
import os
import re
import subprocess
import concurrent.futures as cf

from . import tlaval
from .common import SPEC, WORK, MachineryError, workdir

JAR = "/opt/veriftools/tla/tla2tools.jar:/opt/veriftools/tla/CommunityModules-deps.jar"


def _java(xmx, gct=4):
    # the parallel collector burns system time when many JVMs run side by side: serial GC for single-worker runs
    gc = ["-XX:+UseSerialGC"] if gct <= 2 else ["-XX:+UseParallelGC", f"-XX:ParallelGCThreads={gct}"]
    return ["java"] + gc + [f"-Xmx{xmx}", "-cp", JAR]


def sany(path):
    r = subprocess.run(_java("1g") + ["tla2sany.SANY", path], capture_output=True, text=True, cwd=os.path.dirname(path))
    ok = r.returncode == 0 and "Semantic errors" not in r.stdout and "***Parse Error***" not in r.stdout and "Fatal errors" not in r.stdout
    return ok, r.stdout + r.stderr


_re_states = re.compile(r"(\d+) states generated, (\d+) distinct states found, (\d+) states left on queue")
_re_depth = re.compile(r"The depth of the complete state graph search is (\d+)")
_re_inv = re.compile(r"Error: Invariant (\S+) is violated")
_re_actprop = re.compile(r"Error: Action property (\S+) is violated")
_re_temporal = re.compile(r"Error: Temporal properties were violated")


def run_tlc(module, cfg, *, name=None, workers=16, xmx="6g", timeout=3600, extra=(), env=None, cwd=SPEC, simulate=None):
    """Run TLC on spec/<module>.tla with spec/<cfg>. Returns dict with parsed statistics and raw output."""
    name = name or f"{module}_{os.path.basename(cfg)}".replace(".", "_")
    if os.environ.get("VERIF_REPO"):
        name += "_scratch" + os.environ.get("VERIF_RUN_ID", "0")      # runs against scratch copies may overlap with runs against /repo
    meta = workdir(os.path.join("tlc", name))
    cmd = _java(xmx, 2 if workers == 1 else 8) + ["tlc2.TLC", "-workers", str(workers), "-metadir", meta, "-noGenerateSpecTE", "-config", cfg]
    if simulate:
        cmd += ["-simulate", simulate]
    cmd += list(extra) + [module + ".tla"]
    e = dict(os.environ)
    if env:
        e.update(env)
    try:
        r = subprocess.run(cmd, capture_output=True, text=True, cwd=cwd, env=e, timeout=timeout)
    except subprocess.TimeoutExpired as ex:
        raise MachineryError(f"TLC timeout on {module}/{cfg} after {timeout}s") from ex
    out = r.stdout + r.stderr
    res = {"module": module, "cfg": cfg, "rc": r.returncode, "out": out, "cmd": " ".join(cmd)}
    m = None
    for m in _re_states.finditer(out):
        pass
    if m:
        res["generated"], res["distinct"], res["queue"] = int(m.group(1)), int(m.group(2)), int(m.group(3))
    m = _re_depth.search(out)
    if m:
        res["depth"] = int(m.group(1))
    res["violated"] = None
    for rx, kind in ((_re_inv, "invariant"), (_re_actprop, "action property")):
        m = rx.search(out)
        if m:
            res["violated"] = m.group(1)
            res["violated_kind"] = kind
    if _re_temporal.search(out):
        res["violated"] = res["violated"] or "temporal"
    res["completed"] = "Model checking completed. No error has been found." in out or (simulate is not None and res["violated"] is None and r.returncode == 0)
    res["error_text"] = None
    if not res["completed"] and res["violated"] is None:
        # parse / evaluation error
        i = out.find("Error:")
        res["error_text"] = out[i:i + 2000] if i >= 0 else out[-2000:]
    return res


def require_ok(res, what=""):
    """Model checking must complete without error, otherwise this is a machinery failure."""
    if not res.get("completed"):
        raise MachineryError(f"TLC did not complete on {res['module']}/{res['cfg']} {what}: violated={res.get('violated')} {res.get('error_text') or res['out'][-1500:]}")
    return res


def coverage_actions(out):
    """Parse `-coverage` output: action name -> (distinct, total). Lines look like
    <Add line 10, col 1 to line 12, col 40 of module Tree>: 12:345"""
    cov = {}
    for m in re.finditer(r"^<(\w+) line .*? of module (\w+)>: (\d+):(\d+)", out, re.M):
        a = m.group(1)
        d, t = int(m.group(3)), int(m.group(4))
        if a in cov:
            cov[a] = (cov[a][0] + d, cov[a][1] + t)
        else:
            cov[a] = (d, t)
    return cov


def _validate_one(args):
    module, cfg, trace, idx, xmx, timeout, extra_env = args
    env = {"TRACE_FILE": trace}
    env.update(extra_env or {})
    res = run_tlc(module, cfg, name=f"tv_{module}_{os.environ.get('VERIF_RUN_ID', 'r')}_{os.getpid()}_{idx}", workers=1, xmx=xmx, timeout=timeout, env=env)
    vals = tlaval.parse_many(res["out"])
    summary = [v for v in vals if isinstance(v, list) and v and v[0] == "validated"]
    rejects = [v for v in vals if isinstance(v, list) and v and v[0] == "REJECT"]
    infos = [v for v in vals if isinstance(v, list) and v and v[0] == "INFO"]
    if not summary:
        raise MachineryError(f"validator {module} produced no summary for {trace}:\n{res['out'][-3000:]}")
    n, k = summary[0][1], summary[0][3]
    if k != len(rejects):
        raise MachineryError(f"validator {module}: summary says {k} rejected but {len(rejects)} REJECT lines parsed")
    return n, rejects, infos


def validate(module, cfg, trace_files, *, xmx="3g", timeout=3600, parallel=16, env=None):
    """Run the batch validator spec/<module>.tla over each trace shard (one TLC process per shard).

    The module reads IOEnv.TRACE_FILE, evaluates Verdict on each event and prints
    <<"validated", n, "rejected", k>> and one <<"REJECT", tid, clause, property, context>> per rejected event.
    Returns (number validated, list of reject tuples, info tuples)."""
    trace_files = split_big(trace_files)
    jobs = [(module, cfg, t, i, xmx, timeout, env) for i, t in enumerate(trace_files)]
    total = 0
    rejects = []
    infos = []
    with cf.ThreadPoolExecutor(max_workers=parallel) as ex:
        for n, rj, inf in ex.map(_validate_one, jobs):
            total += n
            rejects += rj
            infos += inf
    return total, rejects, infos


def split_big(files, max_bytes=48_000_000):
    """ndjson files larger than max_bytes are split by lines into <file>.partNNN (the JSON module holds a whole file in memory);
    the original stays (callers look rejected steps up in it). Returns the list of files to validate."""
    out = []
    for p in files:
        if os.path.getsize(p) <= max_bytes:
            out.append(p)
            continue
        k, size, f = 0, 0, None
        with open(p) as src:
            for line in src:
                if f is None or size + len(line) > max_bytes:
                    if f:
                        f.close()
                    q = f"{p}.part{k:03d}"
                    f, size, k = open(q, "w"), 0, k + 1
                    out.append(q)
                f.write(line)
                size += len(line)
        if f:
            f.close()
    return out


def shard_events(events, name, nshards=16, max_per=None):
    """Write events to ndjson shards under .work/<name>/; returns file list."""
    import json

    d = workdir(os.path.join("traces", name))
    if not events:
        return []
    nsh = max(1, min(nshards, len(events)))
    if max_per:
        nsh = max(nsh, (len(events) + max_per - 1) // max_per)
    files = []
    per = (len(events) + nsh - 1) // nsh
    for i in range(nsh):
        chunk = events[i * per:(i + 1) * per]
        if not chunk:
            continue
        p = os.path.join(d, f"shard{i:03d}.ndjson")
        with open(p, "w") as f:
            for e in chunk:
                f.write(json.dumps(e, separators=(",", ":")) + "\n")
        files.append(p)
    return files


def dump_states(module, cfg, *, name=None, workers=16, xmx="6g", timeout=3600, env=None):
    """Model-check and dump all distinct states; returns (res, list of state dicts var->value)."""
    name = name or f"dump_{module}"
    if os.environ.get("VERIF_REPO"):
        name += "_scratch" + os.environ.get("VERIF_RUN_ID", "0")
    d = workdir(os.path.join("dump", name))
    f = os.path.join(d, "states")
    res = run_tlc(module, cfg, name=name, workers=workers, xmx=xmx, timeout=timeout, extra=["-dump", f], env=env)
    states = []
    path = f + ".dump"
    if os.path.exists(path):
        txt = open(path).read()
        for blk in re.split(r"^State \d+:\s*$", txt, flags=re.M):
            blk = blk.strip()
            if not blk:
                continue
            st = {}
            # conjunct list "/\ var = value"
            parts = re.split(r"^/\\ ", blk, flags=re.M)
            for p in parts:
                p = p.strip()
                if not p:
                    continue
                m = re.match(r"(\w+) = (.*)$", p, re.S)
                if m:
                    st[m.group(1)] = tlaval.parse(m.group(2))
            states.append(st)
    return res, states


def tlapm(path, timeout=600):
    r = subprocess.run(["tlapm", "--toolbox", "0", "0", "--cleanfp", path], capture_output=True, text=True, cwd=os.path.dirname(path), timeout=timeout)
    out = r.stdout + r.stderr
    proved = len(re.findall(r"@!!status:proved", out))
    failed = len(re.findall(r"@!!status:failed", out))
    return r.returncode, proved, failed, out


def apalache(module_path, init, inv, length, nxt=None, timeout=600):
    """Run apalache-mc check; returns (ok, output). ok = 'EXITCODE: OK' (no error up to the given length)."""
    out_dir = workdir(os.path.join("apalache", os.path.basename(module_path).replace(".", "_") + "_" + init + "_" + inv + ("_" + nxt if nxt else "")))
    cmd = ["apalache-mc", "check", f"--init={init}", f"--inv={inv}", f"--length={length}", f"--out-dir={out_dir}"]
    if nxt:
        cmd.append(f"--next={nxt}")
    cmd.append(os.path.basename(module_path))
    try:
        r = subprocess.run(cmd, capture_output=True, text=True, cwd=os.path.dirname(module_path), timeout=timeout)
    except subprocess.TimeoutExpired as ex:
        raise MachineryError(f"apalache timeout on {module_path}") from ex
    out = r.stdout + r.stderr
    return "EXITCODE: OK" in out, out
