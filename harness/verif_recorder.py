"""pytest plugin (-p verif_recorder, PYTHONPATH=/verif/harness): records the repository's OWN test executions for trace validation.

Nothing in /repo is changed: public entry points are wrapped from outside. One event per outermost call, logged in a `finally` block
(so raising calls are logged too); nested internal calls are skipped by a depth counter.
  tree  events -> TV_Tree.tla      (add / remove / parent= / children= / sources= / sensors= / collections=)
  path  events -> TV_Recorded.tla  (move / rotate* / position= / orientation= / reset_path; arbitrary floats: entries are compared as
                                    bit patterns, so only lengths and UNTOUCHED entries are judged)
  field events -> TV_Recorded.tla  (every getBH_level2 call: output shape rule, deep digest of all objects before/after)
Output: $VERIF_RECORD_DIR/<kind>_<pid>.ndjson
"""
import functools
import itertools
import json
import os

import numpy as np

OUT_DIR = os.environ.get("VERIF_RECORD_DIR")
_depth = [0]
_seq = itertools.count(1)
_files = {}


def _tid():
    return (os.getpid() % 2000) * 1_000_000 + next(_seq)


def _out(kind):
    if kind not in _files:
        _files[kind] = open(os.path.join(OUT_DIR, f"{kind}_{os.getpid()}.ndjson"), "a")
    return _files[kind]


def _emit(kind, ev):
    f = _out(kind)
    f.write(json.dumps(ev, separators=(",", ":"), default=str) + "\n")
    f.flush()


def _install():
    import magpylib as magpy
    from magpylib._src.exceptions import MagpylibBadUserInput
    from magpylib._src.obj_classes.class_BaseGeo import BaseGeo
    from magpylib._src.obj_classes.class_BaseTransform import BaseTransform
    from magpylib._src.obj_classes.class_Collection import BaseCollection, Collection
    from magpylib._src.obj_classes.class_BaseExcitations import BaseSource
    from magpylib._src.obj_classes.class_Sensor import Sensor
    from scipy.spatial.transform import Rotation

    def oc(ex):
        if ex is None:
            return "ok"
        return "raise" if isinstance(ex, MagpylibBadUserInput) else "exc:" + type(ex).__name__

    # ------------------------------------------------------------------ tree
    def closure(objs):
        seen = {}
        stack = [o for o in objs if isinstance(o, BaseGeo)]
        while stack:
            o = stack.pop()
            if id(o) in seen:
                continue
            seen[id(o)] = o
            p = getattr(o, "_parent", None)
            if isinstance(p, BaseGeo):
                stack.append(p)
            for c in getattr(o, "_children", None) or []:
                if isinstance(c, BaseGeo):
                    stack.append(c)
        return seen

    def kind_of(o):
        return "C" if isinstance(o, Collection) else "X" if isinstance(o, Sensor) else "S"

    def namer(universe):
        cnt = {"C": 0, "S": 0, "X": 0}
        names = {}
        for i, o in universe.items():
            k = kind_of(o)
            cnt[k] += 1
            names[i] = f"{k}{cnt[k]}"
        return names

    def project(universe, names):
        def nm(o):
            if o is None:
                return "None"
            return names.get(id(o), "ghost")
        colls = [o for o in universe.values() if isinstance(o, Collection) and hasattr(o, "_children")]
        return {"kind": {names[i]: kind_of(o) for i, o in universe.items()},
                "parent": {names[i]: nm(getattr(o, "_parent", None)) for i, o in universe.items()},
                "children": {names[id(c)]: [nm(x) for x in c._children] for c in colls},
                "srcs": {names[id(c)]: [nm(x) for x in c._sources] for c in colls},
                "sens": {names[id(c)]: [nm(x) for x in c._sensors] for c in colls},
                "colls": {names[id(c)]: [nm(x) for x in c._collections] for c in colls}}

    def views(universe, names):
        out = {}
        for o in universe.values():
            if isinstance(o, Collection) and hasattr(o, "_children"):
                v = {}
                for key, attr in (("S", "sources_all"), ("X", "sensors_all"), ("C", "collections_all"), ("A", "children_all")):
                    try:
                        v[key] = [names.get(id(x), "ghost") for x in getattr(o, attr)]
                    except RecursionError:
                        v[key] = ["<recursion>"]
                out[names[id(o)]] = v
        return out

    def flat(a):
        out = []
        for x in a:
            if isinstance(x, (list, tuple)):
                out += flat(x)
            else:
                out.append(x)
        return out

    def tree_call(opname, orig, self, args, kw, invoke):
        if _depth[0] > 0 or not hasattr(self, "_parent"):
            return invoke()
        if isinstance(self, Collection) and not hasattr(self, "_children"):
            return invoke()     # constructor still running
        _depth[0] += 1
        fa = flat(args)
        uni = closure([self] + fa)
        names = namer(uni)
        pre = project(uni, names)
        ex = None
        try:
            return invoke()
        except BaseException as e:  # pylint: disable=broad-except
            ex = e
            raise
        finally:
            _depth[0] -= 1
            try:
                uni2 = closure(list(uni.values()))
                if set(uni2) == set(uni) and len(uni) <= 40:
                    call = {"op": opname, "self": names[id(self)],
                            "args": [names[id(x)] if isinstance(x, BaseGeo) and id(x) in names else ("None" if (x is None and opname == "parent") else "<non-object>") for x in fa],
                            "ov": bool(kw.get("override_parent", opname != "add")), "rec": bool(kw.get("recursive", True)), "errors": str(kw.get("errors", "raise"))}
                    _emit("tree", {"pre": pre, "steps": [{"tid": _tid(), "call": call, "outcome": oc(ex),
                                                          "post": project(uni, names), "views": views(uni, names)}]})
            except Exception as e2:  # pylint: disable=broad-except
                _emit("broken", {"where": "tree", "err": repr(e2)})

    for name in ("add", "remove"):
        orig = getattr(BaseCollection, name)

        def w(self, *a, __orig=orig, __name=name, **k):
            return tree_call(__name, __orig, self, a, k, lambda: __orig(self, *a, **k))
        setattr(BaseCollection, name, functools.wraps(orig)(w))

    def wrap_prop(cls, name, opname):
        prop = cls.__dict__[name]

        def setter(self, val):
            return tree_call(opname, None, self, [val] if opname == "parent" else list(val) if isinstance(val, (list, tuple)) else [val], {},
                             lambda: prop.fset(self, val))
        setattr(cls, name, property(prop.fget, setter, prop.fdel, prop.__doc__))
    wrap_prop(BaseGeo, "parent", "parent")
    for n in ("children", "sources", "sensors", "collections"):
        wrap_prop(BaseCollection, n, n)

    # ------------------------------------------------------------------ paths
    def hexes(arr):
        a = np.ascontiguousarray(np.asarray(arr, dtype=float))
        return [a[i].tobytes().hex() for i in range(len(a))]

    def path_of(o):
        return {"pos": hexes(o._position), "ori": hexes(o._orientation.as_quat())}

    def start_of(s):
        if isinstance(s, str):
            return {"auto": s == "auto", "v": 0, "bad": s != "auto"}
        if isinstance(s, (int, np.integer)) and not isinstance(s, bool):
            return {"auto": False, "v": int(s), "bad": False}
        return {"auto": False, "v": 0, "bad": True}

    def path_call(opname, self, describe, invoke):
        if _depth[0] > 0 or not hasattr(self, "_position"):
            return invoke()
        _depth[0] += 1
        pre = path_of(self)
        ex = None
        try:
            return invoke()
        except BaseException as e:  # pylint: disable=broad-except
            ex = e
            raise
        finally:
            _depth[0] -= 1
            try:
                d = describe()
                d.update({"tid": _tid(), "kind": "path", "op": opname, "outcome": oc(ex), "pre": pre, "post": path_of(self)})
                _emit("rec", d)
            except Exception as e2:  # pylint: disable=broad-except
                _emit("broken", {"where": "path", "err": repr(e2)})

    orig_move = BaseTransform.move

    def move(self, displacement, start="auto"):
        def describe():
            try:
                a = np.asarray(displacement, dtype=float)
                known = a.ndim in (1, 2) and a.shape[-1] == 3
            except Exception:  # pylint: disable=broad-except
                a, known = None, False
            return {"scalar": bool(known and a.ndim == 1), "n": int(len(a)) if known and a.ndim == 2 else 1, "nanchor": 0, "known": bool(known),
                    "start": start_of(start)}
        return path_call("move", self, describe, lambda: orig_move(self, displacement, start=start))
    BaseTransform.move = functools.wraps(orig_move)(move)

    orig_rot = BaseTransform._rotate

    def _rotate(self, rotation, anchor=None, start="auto", parent_path=None):
        def describe():
            known = isinstance(rotation, Rotation)
            single = bool(known and rotation.single)
            n = 1 if (not known or single) else len(rotation)
            na = 0
            try:
                if anchor is not None and not (isinstance(anchor, (int, float)) and anchor == 0):
                    aa = np.asarray(anchor, dtype=float)
                    na = len(aa) if aa.ndim == 2 else 0
                    if not (aa.ndim in (1, 2) and aa.shape[-1] == 3):
                        known = False
            except Exception:  # pylint: disable=broad-except
                known = False
            return {"scalar": single, "n": int(n), "nanchor": int(na), "known": bool(known), "start": start_of(start)}
        return path_call("rotate", self, describe, lambda: orig_rot(self, rotation, anchor=anchor, start=start, parent_path=parent_path))
    BaseTransform._rotate = functools.wraps(orig_rot)(_rotate)

    for pname, opname in (("position", "setpos"), ("orientation", "setori")):
        prop = BaseGeo.__dict__[pname]

        def setter(self, val, __prop=prop, __op=opname):
            def describe():
                n, known = 1, True
                try:
                    if __op == "setpos":
                        a = np.asarray(val, dtype=float)
                        known = a.ndim in (1, 2) and a.shape[-1] == 3 and a.size > 0
                        n = len(a) if a.ndim == 2 else 1
                    else:
                        known = val is None or isinstance(val, Rotation)
                        n = 1 if (val is None or val.single) else len(val)
                except Exception:  # pylint: disable=broad-except
                    known = False
                return {"scalar": False, "n": int(n), "nanchor": 0, "known": bool(known), "start": {"auto": True, "v": 0, "bad": False}}
            return path_call(__op, self, describe, lambda: __prop.fset(self, val))
        setattr(BaseGeo, pname, property(prop.fget, setter, prop.fdel, prop.__doc__))

    # ------------------------------------------------------------------ field calls
    import magpylib._src.fields.field_wrap_BH as fw
    from magpylib._src.utility import format_obj_input, format_src_inputs
    from magpylib._src.input_checks import check_format_input_observers
    import sys
    sys.path.insert(0, os.path.dirname(os.path.dirname(os.path.abspath(__file__))))
    from harness.drivers.fieldwrap import snapshot
    orig_l2 = fw.getBH_level2

    def getBH_level2(sources, observers, *, field, sumup, squeeze, pixel_agg, output, in_out, **kwargs):
        if _depth[0] > 0 or isinstance(sources, str):
            return orig_l2(sources, observers, field=field, sumup=sumup, squeeze=squeeze, pixel_agg=pixel_agg, output=output, in_out=in_out, **kwargs)
        _depth[0] += 1
        info = {"known": False}
        objs = []
        try:
            srcs, src_list = format_src_inputs(sources)
            sens, pix_shapes = check_format_input_observers(observers, pixel_agg)
            objs = list({id(o): o for o in list(src_list) + list(sens) + [s for s in srcs if isinstance(s, Collection)]}.values())
            info = {"known": True, "L": len(srcs), "M": int(max(len(o._position) for o in list(src_list) + list(sens))), "K": len(sens),
                    "pix": [[int(x) for x in ps[:-1]] for ps in pix_shapes], "sumup": bool(sumup), "squeeze": bool(squeeze), "agg": pixel_agg is not None,
                    "output": str(output)}
        except Exception:  # pylint: disable=broad-except
            pass
        pre = snapshot(objs, [observers] if isinstance(observers, np.ndarray) else [])
        ex = None
        out = None
        try:
            out = orig_l2(sources, observers, field=field, sumup=sumup, squeeze=squeeze, pixel_agg=pixel_agg, output=output, in_out=in_out, **kwargs)
            return out
        except BaseException as e:  # pylint: disable=broad-except
            ex = e
            raise
        finally:
            _depth[0] -= 1
            try:
                post = snapshot(objs, [observers] if isinstance(observers, np.ndarray) else [])
                info.update({"tid": _tid(), "kind": "field", "outcome": oc(ex), "shape": [int(x) for x in np.shape(out)] if isinstance(out, np.ndarray) else [],
                             "is_array": isinstance(out, np.ndarray), "unchanged": pre == post,
                             "equal_len": all(len(o._position) == len(o._orientation) for o in objs)})
                for k_, v_ in (("L", 0), ("M", 0), ("K", 0), ("pix", []), ("sumup", False), ("squeeze", False), ("agg", False), ("output", "")):
                    info.setdefault(k_, v_)
                _emit("rec", info)
            except Exception as e2:  # pylint: disable=broad-except
                _emit("broken", {"where": "field", "err": repr(e2)})
    for modname, mod in list(sys.modules.items()):
        if modname.startswith("magpylib") and getattr(mod, "getBH_level2", None) is orig_l2:
            setattr(mod, "getBH_level2", getBH_level2)


if OUT_DIR:
    os.makedirs(OUT_DIR, exist_ok=True)
    _install()
