---- MODULE Call ----
EXTENDS Integers, Sequences, FiniteSets, TLC
\* Implementation-shaped view of one getBH_level2 call: only what C08 talks about (object paths) is modelled.
CONSTANTS Objs, MaxLen, Groups, Restore     \* Restore = TRUE: requirement view (un-tile on every exit); FALSE: code as written
VARIABLES len, saved, pc, grp
vars == <<len, saved, pc, grp>>
Max(S) == CHOOSE x \in S : \A y \in S : y <= x
Init == len \in [Objs -> 1..MaxLen] /\ saved = len /\ pc = "idle" /\ grp = 0
Call == pc = "idle" /\ saved' = len /\ pc' = "checked" /\ UNCHANGED <<len, grp>>
FailBeforeTile == pc = "checked" /\ pc' = "raised" /\ UNCHANGED <<len, saved, grp>>      \* missing dimension/excitation, bad observers
Tile == pc = "checked" /\ len' = [o \in Objs |-> Max({len[x] : x \in Objs})] /\ pc' = "tiled" /\ grp' = 0 /\ UNCHANGED saved
Group == pc = "tiled" /\ grp < Groups /\ grp' = grp + 1 /\ UNCHANGED <<len, saved, pc>>
Reduce == pc = "tiled" /\ grp = Groups /\ pc' = "reduced" /\ UNCHANGED <<len, saved, grp>>
RotAgg == pc = "reduced" /\ pc' = "aggregated" /\ UNCHANGED <<len, saved, grp>>
Untile == pc = "aggregated" /\ len' = saved /\ pc' = "untiled" /\ UNCHANGED <<saved, grp>>
FailOutput == pc = "untiled" /\ pc' = "raised" /\ UNCHANGED <<len, saved, grp>>          \* bad `output` argument is checked after un-tiling
Return == pc = "untiled" /\ pc' = "returned" /\ UNCHANGED <<len, saved, grp>>
\* every point between tiling and un-tiling where the code can raise: field_func None / raising / returning None /
\* wrong shape in group i, failing reduction or aggregation
FailTiled == pc \in {"tiled", "reduced", "aggregated"} /\ pc' = "raised"
             /\ len' = (IF Restore THEN saved ELSE len) /\ UNCHANGED <<saved, grp>>
Again == pc \in {"returned", "raised"} /\ pc' = "idle" /\ UNCHANGED <<len, saved, grp>>
Next == Call \/ FailBeforeTile \/ Tile \/ Group \/ Reduce \/ RotAgg \/ Untile \/ FailOutput \/ Return \/ FailTiled \/ Again
NoMutation == pc \in {"returned", "raised"} => len = saved
====
