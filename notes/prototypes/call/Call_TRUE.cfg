CONSTANTS
 Objs = {s1, s2, x1}
 MaxLen = 3
 Groups = 2
 Restore = TRUE
INIT Init
NEXT Next
INVARIANT NoMutation
