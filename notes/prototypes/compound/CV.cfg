INIT Init
NEXT Next
