---- MODULE CV ----
EXTENDS Compound
Trace == ndJsonDeserialize("cp.ndjson")
Post(e) == CASE e.op = "move"   -> MoveC(e.pre, e.o, e.inp, e.start)
             [] e.op = "rot"    -> RotC(e.pre, e.o, e.inp, e.anc, e.start, NoP)
             [] e.op = "setpos" -> SetPosC(e.pre, e.o, e.np)
             [] e.op = "setori" -> SetOriC(e.pre, e.o, e.nr)
             [] e.op = "reset"  -> ResetC(e.pre, e.o)
Objs(e) == DOMAIN e.pre.kids
Same(a, b) == \A o \in DOMAIN a.kids : Len(a.path[o]) = Len(b.path[o]) /\ \A i \in 1..Len(a.path[o]) : a.path[o][i].p = b.path[o][i].p /\ a.path[o][i].r = b.path[o][i].r
Bad == {i \in 1..Len(Trace) : ~Same(Post(Trace[i]), Trace[i].post)}
ASSUME PrintT(<<"validated", Len(Trace), "rejected", Cardinality(Bad)>>)
ASSUME \A i \in Bad : PrintT(<<"REJECT", Trace[i].tid, Trace[i].op, Trace[i].o, Trace[i].start>>)
VARIABLE x
Init == x = 0
Next == x' = x
====
