---- MODULE Compound ----
EXTENDS Integers, Sequences, FiniteSets, TLC, Json, IOUtils
\* ---------- lattice ----------
MulMV(a,v) == <<a[1][1]*v[1]+a[1][2]*v[2]+a[1][3]*v[3], a[2][1]*v[1]+a[2][2]*v[2]+a[2][3]*v[3], a[3][1]*v[1]+a[3][2]*v[2]+a[3][3]*v[3]>>
MulMM(a,b) == [i \in 1..3 |-> [j \in 1..3 |-> a[i][1]*b[1][j] + a[i][2]*b[2][j] + a[i][3]*b[3][j]]]
Tr(a) == [i \in 1..3 |-> [j \in 1..3 |-> a[j][i]]]
IdM == <<<<1,0,0>>,<<0,1,0>>,<<0,0,1>>>>
Add3(a,b) == <<a[1]+b[1],a[2]+b[2],a[3]+b[3]>>
Sub3(a,b) == <<a[1]-b[1],a[2]-b[2],a[3]-b[3]>>
V3(x) == <<x[1],x[2],x[3]>>
M3(x) == [i \in 1..3 |-> [j \in 1..3 |-> x[i][j]]]
Min(a,b) == IF a < b THEN a ELSE b
Max(a,b) == IF a > b THEN a ELSE b
\* ---------- paths: sequences of [p, r] ----------
\* padding parameters, transcription of path_padding_param; start is an integer or "auto"
Resolve(scalar, lenop, start) == IF start.auto THEN (IF scalar THEN 0 ELSE lenop) ELSE start.v
PadP(scalar, lenop, lenip, start0) ==
  LET s0 == Resolve(scalar, lenop, start0)
      s1 == IF s0 < 0 THEN lenop + s0 ELSE s0
      before == IF s1 < 0 THEN -s1 ELSE 0
      s2 == IF s1 < 0 THEN 0 ELSE s1
      behind == IF s2 + lenip > lenop + before THEN s2 + lenip - (lenop + before) ELSE 0
  IN [before |-> before, behind |-> behind, start |-> s2]
EdgePad(s, before, behind) == [i \in 1..(before + Len(s) + behind) |->
     IF i <= before THEN s[1] ELSE IF i <= before + Len(s) THEN s[i - before] ELSE s[Len(s)]]
PadSlice(n, s) == \* pad_slice_path: fit s to length n (edge-pad at end / keep the end)
  IF n > Len(s) THEN EdgePad(s, 0, n - Len(s)) ELSE IF n < Len(s) THEN SubSeq(s, Len(s) - n + 1, Len(s)) ELSE s
\* input: [scalar |-> BOOLEAN, v |-> Seq(...)]  (scalar input has Len(v) = 1)
\* window of 0-based indices [a, b) that the operation touches in the padded path
Window(path, inp, start) ==
  LET lenip == IF inp.scalar THEN 1 ELSE Len(inp.v)
      pp == PadP(inp.scalar, Len(path), lenip, start)
      padded == EdgePad(path, pp.before, pp.behind)
      endd == IF inp.scalar THEN Len(padded) ELSE pp.start + lenip
  IN [padded |-> padded, a |-> pp.start, b |-> endd]
At(inp, k) == IF inp.scalar THEN inp.v[1] ELSE inp.v[k]      \* k = 1-based offset inside the window
MoveLeaf(path, disp, start) ==
  LET w == Window(path, disp, start) IN
  [i \in 1..Len(w.padded) |-> IF i-1 >= w.a /\ i-1 < w.b
       THEN [p |-> Add3(w.padded[i].p, At(disp, i - w.a)), r |-> w.padded[i].r] ELSE w.padded[i]]
\* multi_anchor_behavior: anchor = [kind |-> "none"|"vec", scalar, v]; rotation input likewise
MultiAnchor(rot, anc) ==
  LET lr == IF rot.scalar THEN 0 ELSE Len(rot.v)
      la == IF anc.scalar THEN 0 ELSE Len(anc.v)
  IN IF lr > la THEN [rot |-> rot, anc |-> [kind |-> "vec", scalar |-> FALSE, v |-> EdgePad(anc.v, 0, lr - Len(anc.v))]]
     ELSE IF lr < la THEN [rot |-> [scalar |-> FALSE, v |-> EdgePad(rot.v, 0, la - Len(rot.v))], anc |-> anc]
     ELSE [rot |-> rot, anc |-> anc]
\* apply_rotation; ppos = "none" or Seq(Vec) (parent position path)
RotLeaf(path, rot0, anc0, start, ppos) ==
  LET ma == IF anc0.kind = "none" THEN [rot |-> rot0, anc |-> anc0] ELSE MultiAnchor(rot0, anc0)
      rot == ma.rot
      anc == ma.anc
      w == Window(path, rot, start)
      lenA == w.b - w.a
      \* implicit anchor from the parent path
      pp2 == IF ppos.kind = "none" THEN [before |-> 0, behind |-> 0, start |-> 0] ELSE PadP(rot.scalar, Len(ppos.v), lenA, start)
      ppad == IF ppos.kind = "none" THEN <<>> ELSE EdgePad(ppos.v, pp2.before, pp2.behind)
      AnchorAt(k) == IF anc.kind # "none" THEN (IF anc.scalar THEN anc.v[1] ELSE anc.v[k])
                     ELSE ppad[pp2.start + k]
      hasAnchor == anc.kind # "none" \/ ppos.kind # "none"
  IN [i \in 1..Len(w.padded) |-> IF i-1 >= w.a /\ i-1 < w.b
       THEN LET k == i - w.a  g == At(rot, k)  old == w.padded[i] IN
            [p |-> IF hasAnchor THEN Add3(MulMV(g, Sub3(old.p, AnchorAt(k))), AnchorAt(k)) ELSE old.p,
             r |-> MulMM(g, old.r)]
       ELSE w.padded[i]]
NoP == [kind |-> "none", v |-> <<>>]
\* ---------- compound state: st.path[o], st.kids[o] ----------
Pos(path) == [i \in 1..Len(path) |-> path[i].p]
RECURSIVE MoveC(_,_,_,_)
RECURSIVE MoveKids(_,_,_,_,_)
MoveKids(st, kids, k, disp, start) == IF k > Len(kids) THEN st ELSE MoveKids(MoveC(st, kids[k], disp, start), kids, k+1, disp, start)
MoveC(st, o, disp, start) ==
  LET st1 == MoveKids(st, st.kids[o], 1, disp, start) IN
  [st1 EXCEPT !.path[o] = MoveLeaf(st1.path[o], disp, start)]
RECURSIVE RotC(_,_,_,_,_,_)
RECURSIVE RotKids(_,_,_,_,_,_,_)
RotKids(st, kids, k, rot, anc, start, ppth) == IF k > Len(kids) THEN st ELSE RotKids(RotC(st, kids[k], rot, anc, start, ppth), kids, k+1, rot, anc, start, ppth)
RotC(st, o, rot, anc, start, ppos) ==
  LET ppth == IF ppos.kind = "none" THEN [kind |-> "some", v |-> Pos(st.path[o])] ELSE ppos
      st1 == IF Len(st.kids[o]) = 0 THEN st ELSE RotKids(st, st.kids[o], 1, rot, anc, start, ppth) IN
  [st1 EXCEPT !.path[o] = RotLeaf(st1.path[o], rot, anc, start, ppos)]
\* setters (class_BaseGeo.py): new position path `np` (Seq(Vec))
RECURSIVE SetPosC(_,_,_)
RECURSIVE SetPosKids(_,_,_,_,_,_)
SetPosC(st, o, np) ==
  LET old == st.path[o]
      oldpos == Pos(old)
      newori == PadSlice(Len(np), [i \in 1..Len(old) |-> old[i].r])
      st1 == [st EXCEPT !.path[o] = [i \in 1..Len(np) |-> [p |-> np[i], r |-> newori[i]]]]
  IN SetPosKids(st1, st.kids[o], 1, np, PadSlice(Len(np), oldpos), o)
SetPosKids(st, kids, k, np, oldp, o) == IF k > Len(kids) THEN st ELSE
  LET c == kids[k]
      cpos == PadSlice(Len(np), Pos(st.path[c]))
      newc == [i \in 1..Len(np) |-> Add3(np[i], Sub3(cpos[i], oldp[i]))]
  IN SetPosKids(SetPosC(st, c, newc), kids, k+1, np, oldp, o)
\* orientation setter: nr = Seq(Mat)
RECURSIVE SetOriC(_,_,_)
RECURSIVE SetOriKids(_,_,_,_,_,_)
SetOriC(st, o, nr) ==
  LET old == st.path[o]
      oldr == [i \in 1..Len(old) |-> old[i].r]
      newpos == PadSlice(Len(nr), Pos(old))
      st1 == [st EXCEPT !.path[o] = [i \in 1..Len(nr) |-> [p |-> newpos[i], r |-> nr[i]]]]
      oldpad == PadSlice(Len(nr), oldr)
      delta == [i \in 1..Len(nr) |-> MulMM(nr[i], Tr(oldpad[i]))]
  IN SetOriKids(st1, st.kids[o], 1, delta, newpos, o)
SetOriKids(st, kids, k, delta, newpos, o) == IF k > Len(kids) THEN st ELSE
  LET c == kids[k]
      st1 == SetPosC(st, c, PadSlice(Len(newpos), Pos(st.path[c])))
      rot == [scalar |-> Len(delta) = 1, v |-> delta]
      anc == [kind |-> "vec", scalar |-> FALSE, v |-> newpos]
      st2 == RotC(st1, c, rot, anc, [auto |-> FALSE, v |-> 0], NoP)
  IN SetOriKids(st2, kids, k+1, delta, newpos, o)
ResetC(st, o) == SetOriC(SetPosC(st, o, <<<<0,0,0>>>>), o, <<IdM>>)
====
