INIT Init
NEXT Next
PROPERTY Prop
PROPERTY Frame
PROPERTY KeepLen
PROPERTY KeepSubLen
CONSTRAINT Depth
