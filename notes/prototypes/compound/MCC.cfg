INIT Init
NEXT Next
PROPERTY Prop
PROPERTY Frame
CONSTRAINT Depth
