---- MODULE MCC ----
EXTENDS Compound
VARIABLES st, tgt
Rz == <<<<0,-1,0>>,<<1,0,0>>,<<0,0,1>>>>
Rx == <<<<1,0,0>>,<<0,0,-1>>,<<0,1,0>>>>
Kids == [A |-> <<"b","D">>, b |-> <<>>, D |-> <<"c">>, c |-> <<>>]
Objs == DOMAIN Kids
P0(o) == IF o = "A" THEN <<0,0,0>> ELSE IF o = "b" THEN <<1,0,0>> ELSE IF o = "D" THEN <<0,2,0>> ELSE <<1,2,3>>
R0(o) == IF o = "c" THEN Rx ELSE IdM
Init == tgt = "A" /\ st = [kids |-> Kids, path |-> [o \in Objs |-> << [p |-> P0(o), r |-> R0(o)] >>]]
Colls == {"A","D"}
Starts == {[auto |-> TRUE, v |-> 0]} \cup {[auto |-> FALSE, v |-> k] : k \in -2..2}
Disps == {[scalar |-> TRUE, v |-> <<<<1,0,0>>>>], [scalar |-> FALSE, v |-> <<<<0,1,0>>,<<0,0,2>>>>]}
RotsIn == {[scalar |-> TRUE, v |-> <<Rz>>], [scalar |-> FALSE, v |-> <<Rx,Rz>>]}
Ancs == {[kind |-> "none", scalar |-> TRUE, v |-> <<>>], [kind |-> "vec", scalar |-> TRUE, v |-> <<<<0,0,0>>>>],
         [kind |-> "vec", scalar |-> TRUE, v |-> <<<<1,1,0>>>>], [kind |-> "vec", scalar |-> FALSE, v |-> <<<<1,0,0>>,<<0,1,0>>>>]}
NewPos == {<<<<2,0,1>>>>, <<<<0,0,1>>,<<3,0,0>>>>}
NewOri == {<<Rz>>, <<Rx,Rz>>}
Next == \E o \in Colls : tgt' = o /\
        ( \/ \E d \in Disps, s \in Starts : st' = MoveC(st, o, d, s)
          \/ \E g \in RotsIn, a \in Ancs, s \in Starts : st' = RotC(st, o, g, a, s, NoP)
          \/ \E np \in NewPos : st' = SetPosC(st, o, np)
          \/ \E nr \in NewOri : st' = SetOriC(st, o, nr)
          \/ st' = ResetC(st, o) )
\* relative pose of d in the frame of c at index i
Rel(s, c, d, i) == [p |-> MulMV(Tr(s.path[c][i].r), Sub3(s.path[d][i].p, s.path[c][i].p)), r |-> MulMM(Tr(s.path[c][i].r), s.path[d][i].r)]
RECURSIVE DescOf(_,_)
RECURSIVE DescSeq(_,_,_)
DescSeq(s, kids, k) == IF k > Len(kids) THEN {} ELSE {kids[k]} \cup DescOf(s, kids[k]) \cup DescSeq(s, kids, k+1)
DescOf(s, o) == DescSeq(s, s.kids[o], 1)
SameLen(s) == \A o \in Objs : Len(s.path[o]) = Len(s.path["A"])
\* index map: new index i corresponds to old index Sigma(i) (edge padding at either end / end slicing)
\* here: checked for steps that keep all lengths equal; old index found by position in the padded old path
RelPath(s, c, d) == [i \in 1..Len(s.path[c]) |-> Rel(s, c, d, i)]
Clamp(x, lo, hi) == IF x < lo THEN lo ELSE IF x > hi THEN hi ELSE x
\* the new relative-pose path is the old one edge-padded (pb entries in front, rest behind) or end-sliced
IsPadSliceImage(new, old) ==
   LET n == Len(old)  m == Len(new) IN
   IF m >= n THEN \E pb \in 0..(m-n) : \A i \in 1..m : new[i] = old[Clamp(i - pb, 1, n)]
   ELSE \A i \in 1..m : new[i] = old[i + (n - m)]
RelInvStep == (SameLen(st) /\ SameLen(st')) =>
     \A c \in {tgt'} \cup (DescOf(st, tgt') \cap Colls) : \A d \in DescOf(st, c) :
        IsPadSliceImage(RelPath(st', c, d), RelPath(st, c, d))
Prop == [][RelInvStep]_<<st,tgt>>
KeepLen == [][(SameLen(st) /\ tgt' = "A") => SameLen(st')]_<<st,tgt>>
SubLen(s, c) == \A d \in DescOf(s, c) : Len(s.path[d]) = Len(s.path[c])
KeepSubLen == [][SubLen(st, tgt') => SubLen(st', tgt')]_<<st,tgt>>
Frame == [][\A e \in Objs \ ({tgt'} \cup DescOf(st, tgt')) : st'.path[e] = st.path[e]]_<<st,tgt>>
Depth == TLCGet("level") <= 3
====
