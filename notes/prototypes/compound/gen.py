import numpy as np, magpylib as magpy, json, warnings, sys
from scipy.spatial.transform import Rotation as R
warnings.simplefilter('ignore')
rng=np.random.default_rng(int(sys.argv[1])); N=int(sys.argv[2])
G=R.create_group('O')
def rmat(g): return np.rint(g.as_matrix()).astype(int).tolist()
def rotseq(n):
    idx=[int(i) for i in rng.integers(24,size=n)]
    return R.from_quat(np.array([G[i].as_quat() for i in idx])), [rmat(G[i]) for i in idx]
def pathof(o):
    assert len(o._position)==len(o._orientation)
    P=o._position; assert np.abs(P-np.rint(P)).max()<1e-9
    return [{"p":[int(v) for v in np.rint(p)],"r":np.rint(q.as_matrix()).astype(int).tolist()} for p,q in zip(P,o._orientation)]
def mk(n,cls):
    rot,_=rotseq(n); pos=rng.integers(-3,4,size=(n,3))
    return cls(position=pos,orientation=rot)
SHAPES=[{"A":["b"],"b":[]},{"A":["b","c"],"b":[],"c":[]},{"A":["D"],"D":["b"],"b":[]},{"A":["b","D"],"b":[],"D":["c","E"],"c":[],"E":["f"],"f":[]}]
def build(shape,n,mixed):
    O={}
    for k in shape:
        nn=n if not mixed else int(rng.integers(1,4))
        O[k]=mk(nn,(lambda **kw: magpy.Collection(**kw)) if k.isupper() else (lambda **kw: magpy.Sensor(**kw)))
    for k,ch in shape.items():
        for c in ch: O[k].add(O[c])
    return O
def proj(O,shape): return {"path":{k:pathof(o) for k,o in O.items()},"kids":shape}
with open('cp.ndjson','w') as f:
    t=0
    while t<N:
        shape=SHAPES[int(rng.integers(len(SHAPES)))]
        mixed=rng.random()<0.3
        O=build(shape,int(rng.integers(1,4)),mixed)
        for step in range(int(rng.integers(1,5))):
            tgt=list(shape)[int(rng.integers(len(shape)))]
            o=O[tgt]; L=len(o._position)
            pre=proj(O,shape)
            start=['auto',0,int(rng.integers(-L-2,L+3))][int(rng.integers(3))]; sj={'auto':start=='auto','v':0 if start=='auto' else start}
            kind=int(rng.integers(5)); ev={"tid":t,"o":tgt,"pre":pre}
            if kind==0:
                k=int(rng.integers(0,4)); d=rng.integers(-2,3,size=(max(k,1),3))
                ev.update(op="move",inp={"scalar":k==0,"v":d.tolist()},start=sj)
                o.move(d[0] if k==0 else d,start=start)
            elif kind==1:
                k=int(rng.integers(0,4)); rot,mats=rotseq(max(k,1))
                ak=int(rng.integers(4))
                if ak==0: anc=None; aj={"kind":"none","scalar":True,"v":[]}
                elif ak==1: anc=0; aj={"kind":"vec","scalar":True,"v":[[0,0,0]]}
                elif ak==2: a=rng.integers(-2,3,size=3); anc=a; aj={"kind":"vec","scalar":True,"v":[a.tolist()]}
                else:
                    m=int(rng.integers(1,4)); a=rng.integers(-2,3,size=(m,3)); anc=a; aj={"kind":"vec","scalar":False,"v":a.tolist()}
                ev.update(op="rot",inp={"scalar":k==0,"v":mats},anc=aj,start=sj)
                o.rotate(rot[0] if k==0 else rot,anchor=anc,start=start)
            elif kind==2:
                m=int(rng.integers(1,4)); a=rng.integers(-3,4,size=(m,3)); ev.update(op="setpos",np=a.tolist()); o.position=a
            elif kind==3:
                m=int(rng.integers(1,4)); rot,mats=rotseq(m); ev.update(op="setori",nr=mats); o.orientation=rot if m>1 else rot[0]
            else:
                ev.update(op="reset"); o.reset_path()
            ev["post"]=proj(O,shape); f.write(json.dumps(ev)+"\n"); t+=1
print("wrote",t)
