INIT Init
NEXT Next
