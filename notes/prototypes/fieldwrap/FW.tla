---- MODULE FW ----
EXTENDS Integers, Sequences, FiniteSets, TLC, Json, IOUtils
Trace == ndJsonDeserialize("fw.ndjson")
MulMV(a,v) == <<a[1][1]*v[1]+a[1][2]*v[2]+a[1][3]*v[3], a[2][1]*v[1]+a[2][2]*v[2]+a[2][3]*v[3], a[3][1]*v[1]+a[3][2]*v[2]+a[3][3]*v[3]>>
Tr(a) == <<<<a[1][1],a[2][1],a[3][1]>>,<<a[1][2],a[2][2],a[3][2]>>,<<a[1][3],a[2][3],a[3][3]>>>>
Add3(a,b) == <<a[1]+b[1],a[2]+b[2],a[3]+b[3]>>
Sub3(a,b) == <<a[1]-b[1],a[2]-b[2],a[3]-b[3]>>
Zero3 == <<0,0,0>>
Min(a,b) == IF a < b THEN a ELSE b
Max(a,b) == IF a > b THEN a ELSE b
FC(f) == IF f = "B" THEN 1 ELSE 2
F(tag, f, r) == LET c == FC(f)*100 + tag*1000 IN <<c + r[1] + 2*r[2], c + r[2]*r[3] + 7, c + r[3] - r[1]>>
RECURSIVE LeavesOf(_)
RECURSIVE LeavesOfSeq(_)
LeavesOfSeq(s) == IF Len(s) = 0 THEN <<>> ELSE LeavesOf(s[1]) \o LeavesOfSeq(SubSeq(s,2,Len(s)))
LeavesOf(n) == IF n.kind = "leaf" THEN <<n>> ELSE LeavesOfSeq(n.kids)
PoseAt(path, m) == path[Min(m, Len(path))]       \* edge padding: static beyond the end
RECURSIVE SumSeq(_)
SumSeq(s) == IF Len(s) = 0 THEN Zero3 ELSE Add3(s[1], SumSeq(SubSeq(s,2,Len(s))))
RECURSIVE MaxLen(_)
MaxLen(s) == IF Len(s) = 0 THEN 1 ELSE Max(Len(s[1].path), MaxLen(SubSeq(s,2,Len(s))))
\* global field of one leaf at global point o and path index m
LeafField(lf, f, o, m) == LET ps == PoseAt(lf.path, m) IN MulMV(ps.r, F(lf.tag, f, MulMV(Tr(ps.r), Sub3(o, ps.p))))
Elem(e, entry, m, sn, px) ==
   LET sp == PoseAt(sn.path, m)
       o  == Add3(MulMV(sp.r, px), sp.p)
       lv == LeavesOf(entry)
       g  == SumSeq([i \in 1..Len(lv) |-> LeafField(lv[i], e.field, o, m)])
       b  == MulMV(Tr(sp.r), g)
   IN IF sn.left THEN <<-b[1], b[2], b[3]>> ELSE b
M(e) == Max(MaxLen(LeavesOfSeq(e.sources)), MaxLen(e.sensors))
PerSource(e) == [l \in 1..Len(e.sources) |-> [m \in 1..M(e) |-> [k \in 1..Len(e.sensors) |->
                   [j \in 1..Len(e.sensors[k].pix) |-> Elem(e, e.sources[l], m, e.sensors[k], e.sensors[k].pix[j])]]]]
Expected(e) == IF e.sumup
   THEN <<[m \in 1..M(e) |-> [k \in 1..Len(e.sensors) |-> [j \in 1..Len(e.sensors[k].pix) |->
            SumSeq([l \in 1..Len(e.sources) |-> PerSource(e)[l][m][k][j]])]]]>>
   ELSE PerSource(e)
Norm(x) == [l \in 1..Len(x) |-> [m \in 1..Len(x[l]) |-> [k \in 1..Len(x[l][m]) |-> [j \in 1..Len(x[l][m][k]) |-> <<x[l][m][k][j][1],x[l][m][k][j][2],x[l][m][k][j][3]>>]]]]
Bad == {i \in 1..Len(Trace) : Norm(Trace[i].out) # Expected(Trace[i])}
ASSUME PrintT(<<"validated", Len(Trace), "rejected", Bad>>)
VARIABLE x
Init == x = 0
Next == x' = x
====
