import numpy as np, magpylib as magpy, json, warnings, sys
from scipy.spatial.transform import Rotation as R
warnings.simplefilter('ignore')
rng=np.random.default_rng(int(sys.argv[1]) if len(sys.argv)>1 else 3)
N=int(sys.argv[2]) if len(sys.argv)>2 else 300
G=R.create_group('O')
FC={'B':1,'H':2}
def mkF(tag):
    def ff(field, observers):
        r=observers; c=FC[field]*100+tag*1000
        return np.stack([c+r[:,0]+2*r[:,1], c+r[:,1]*r[:,2]+7, c+r[:,2]-r[:,0]],axis=1)
    return ff
def rpath(n):
    idx=rng.integers(24,size=n); pos=rng.integers(-3,4,size=(n,3))
    return dict(position=pos, orientation=R.from_quat(np.array([G[int(i)].as_quat() for i in idx])))
def ppath(o):
    return [{"p":[int(round(x)) for x in p],"r":np.rint(q.as_matrix()).astype(int).tolist()} for p,q in zip(o._position,o._orientation)]
tag=[0]
def leaf(tree):
    tag[0]+=1; s=magpy.misc.CustomSource(field_func=mkF(tag[0]), **rpath(int(rng.integers(1,4)))); s.tag=tag[0]
    return s
def node(o):
    if isinstance(o,magpy.Collection): return {"kind":"coll","kids":[node(c) for c in o.children if not isinstance(c,magpy.Sensor)]}
    return {"kind":"leaf","tag":o.tag,"path":ppath(o)}
with open('fw.ndjson','w') as f:
    for t in range(N):
        tag[0]=0
        srcs=[]
        for i in range(int(rng.integers(1,5))):
            k=int(rng.integers(3))
            if k==0: srcs.append(leaf(None))
            elif k==1: srcs.append(magpy.Collection(*[leaf(None) for _ in range(int(rng.integers(1,4)))], **rpath(int(rng.integers(1,3)))))
            else: srcs.append(magpy.Collection(leaf(None), magpy.Collection(leaf(None),leaf(None)), magpy.Sensor()))
        pshape=[None,(3,),(2,3),(2,2,3)][int(rng.integers(4))]
        sens=[]
        for k in range(int(rng.integers(1,4))):
            pix=None if pshape is None else rng.integers(-2,3,size=pshape)
            sens.append(magpy.Sensor(pixel=pix, handedness=['right','left'][int(rng.integers(2))], **rpath(int(rng.integers(1,4)))))
        field='BH'[int(rng.integers(2))]; sumup=bool(rng.integers(2))
        fn=magpy.getB if field=='B' else magpy.getH
        out=fn(srcs,sens,squeeze=False,sumup=sumup)
        L,M,K=out.shape[:3]
        out=out.reshape(L,M,K,-1,3)
        assert np.abs(out-np.rint(out)).max()<1e-9
        ev={"tid":t,"field":field,"sumup":sumup,"sources":[node(s) for s in srcs],
            "sensors":[{"path":ppath(s),"left":s.handedness=='left',"pix":([[0,0,0]] if s.pixel is None else np.rint(s.pixel.reshape(-1,3)).astype(int).tolist())} for s in sens],
            "out":np.rint(out).astype(int).tolist()}
        f.write(json.dumps(ev)+"\n")
print('wrote',N)
