INIT Init
NEXT Next
