---- MODULE MV ----
EXTENDS Integers, Sequences, FiniteSets, TLC, Json, IOUtils
Trace == ndJsonDeserialize("mesh.ndjson")
\* faces are 1-based vertex index triples
DirEdges(f) == {<<f[1],f[2]>>, <<f[2],f[3]>>, <<f[3],f[1]>>}
UEdge(e) == {e[1], e[2]}
FaceIdx(F) == 1..Len(F)
UEdgesOf(F) == {UEdge(e) : e \in UNION {DirEdges(F[i]) : i \in FaceIdx(F)}}
CountU(F, u) == Cardinality({<<i, e>> \in {<<i, e>> : i \in FaceIdx(F), e \in {<<1,2>>,<<2,3>>,<<3,1>>}} : {F[i][e[1]], F[i][e[2]]} = u})
Open(F) == \E u \in UEdgesOf(F) : CountU(F, u) # 2
\* connected components by shared vertices (the documented meaning of "parts")
VertsOf(f) == {f[1], f[2], f[3]}
RECURSIVE Grow(_,_)
Grow(F, S) == LET S2 == S \cup {i \in FaceIdx(F) : \E j \in S : VertsOf(F[i]) \cap VertsOf(F[j]) # {}} IN IF S2 = S THEN S ELSE Grow(F, S2)
RECURSIVE Comps(_,_)
Comps(F, left) == IF left = {} THEN {} ELSE LET s == CHOOSE i \in left : TRUE  c == Grow(F, {s}) IN {c} \cup Comps(F, left \ c)
Components(F) == Comps(F, FaceIdx(F))
Disconnected(F) == Cardinality(Components(F)) > 1
\* consistent orientation of a closed component: every directed edge appears once and its reverse appears once
CountD(F, C, e) == Cardinality({<<i, k>> \in C \X {1,2,3} : <<F[i][k], F[i][(k % 3) + 1]>> = e})
Consistent(F, C) == \A i \in C : \A e \in DirEdges(F[i]) : CountD(F, C, e) = 1 /\ CountD(F, C, <<e[2], e[1]>>) = 1
Det3(a,b,c) == a[1]*(b[2]*c[3]-b[3]*c[2]) - a[2]*(b[1]*c[3]-b[3]*c[1]) + a[3]*(b[1]*c[2]-b[2]*c[1])
RECURSIVE SumDet(_,_,_)
SumDet(V, F, S) == IF S = {} THEN 0 ELSE LET i == CHOOSE i \in S : TRUE IN Det3(V[F[i][1]], V[F[i][2]], V[F[i][3]]) + SumDet(V, F, S \ {i})
Outward(V, F) == \A C \in Components(F) : Consistent(F, C) /\ SumDet(V, F, C) > 0
SameFaceSets(F1, F2) == Len(F1) = Len(F2) /\ \A i \in FaceIdx(F1) : VertsOf(F1[i]) = VertsOf(F2[i])
Verdict(e) ==
  IF e.open # Open(e.faces_in) THEN "status_open"
  ELSE IF e.disc # Disconnected(e.faces_in) THEN "status_disconnected"
  ELSE IF e.selfint # (e.kind = "inter") THEN "status_selfintersecting"
  ELSE IF ~SameFaceSets(e.faces_in, e.faces_out) THEN "faces_changed"
  ELSE IF ~Open(e.faces_in) /\ e.kind # "inter" /\ ~Outward(e.verts, e.faces_out) THEN "not_outward"
  ELSE "ok"
Bad == {i \in 1..Len(Trace) : Verdict(Trace[i]) # "ok"}
ASSUME PrintT(<<"validated", Len(Trace), "rejected", {<<i, Verdict(Trace[i]), Trace[i].name, Trace[i].kind>> : i \in Bad}>>)
VARIABLE x
Init == x = 0
Next == x' = x
====
