import numpy as np, magpylib as magpy, json, warnings, itertools
warnings.simplefilter('ignore')
rng=np.random.default_rng(2)
def box(lo,hi):
    lo=np.array(lo);hi=np.array(hi)
    V=np.array([(x,y,z) for x in (lo[0],hi[0]) for y in (lo[1],hi[1]) for z in (lo[2],hi[2])])
    F=[(0,1,3),(0,3,2),(4,6,7),(4,7,5),(0,4,5),(0,5,1),(2,3,7),(2,7,6),(0,2,6),(0,6,4),(1,5,7),(1,7,3)]
    return V,np.array(F)
def tetra(): return np.array([(0,0,0),(2,0,0),(0,2,0),(0,0,2)]),np.array([(0,2,1),(0,1,3),(1,2,3),(0,3,2)])
def octa():
    V=np.array([(1,0,0),(-1,0,0),(0,1,0),(0,-1,0),(0,0,1),(0,0,-1)])
    F=[(0,2,4),(2,1,4),(1,3,4),(3,0,4),(2,0,5),(1,2,5),(3,1,5),(0,3,5)]
    return V,np.array(F)
def variant(V,F):
    perm=rng.permutation(len(F)); flips=rng.random(len(F))<rng.random(); vperm=rng.permutation(len(V))
    F2=F[perm].copy(); F2[flips]=F2[flips][:,[0,2,1]]
    for i in range(len(F2)): F2[i]=np.roll(F2[i],int(rng.integers(3)))
    inv=np.argsort(vperm); return V[vperm],inv[F2]
n=0
with open('mesh.ndjson','w') as f:
    for name,(V,F) in {'tetra':tetra(),'box':box((0,0,0),(1,2,3)),'octa':octa()}.items():
        for t in range(60):
            kind=['closed','open1','open2','dup','inter'][int(rng.integers(5))]
            V2,F2=variant(V,F)
            if kind=='open1': F2=F2[:-1]
            if kind=='open2': F2=np.delete(F2,[0,len(F2)//2],axis=0)
            if kind=='dup':
                V2=np.vstack([V2,V2+np.array((7,0,0))]); F2=np.vstack([F2,F2+len(V)])
            if kind=='inter':
                if name!='box': continue
                V2=np.vstack([V2,V2+np.array((0,1,1))]); F2=np.vstack([F2,F2+len(V)])     # doubled coords not needed: shift by integers, boxes overlap
            m=magpy.magnet.TriangularMesh(polarization=(0,0,1),vertices=V2,faces=F2,check_open='ignore',check_disconnected='ignore',check_selfintersecting='ignore',reorient_faces='ignore')
            ev={"name":name,"kind":kind,"verts":V2.astype(int).tolist(),"faces_in":(F2+1).astype(int).tolist(),"faces_out":(m.faces+1).astype(int).tolist(),
                "open":bool(m.status_open),"disc":bool(m.status_disconnected),"selfint":bool(m.status_selfintersecting)}
            f.write(json.dumps(ev)+"\n"); n+=1
print(n)
