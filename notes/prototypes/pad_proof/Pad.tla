---- MODULE Pad ----
EXTENDS Integers, TLAPS
\* transcription of path_padding_param (class_BaseTransform.py:42-88), start already resolved to an integer
S1(lenop, start) == IF start < 0 THEN lenop + start ELSE start
PadBefore(lenop, start) == IF S1(lenop,start) < 0 THEN -S1(lenop,start) ELSE 0
NewStart(lenop, start) == IF S1(lenop,start) < 0 THEN 0 ELSE S1(lenop,start)
PadBehind(lenop, lenip, start) ==
  IF NewStart(lenop,start) + lenip > lenop + PadBefore(lenop,start)
  THEN NewStart(lenop,start) + lenip - (lenop + PadBefore(lenop,start)) ELSE 0
NewLen(lenop, lenip, start) == lenop + PadBefore(lenop,start) + PadBehind(lenop,lenip,start)

\* declarative reading: the operation covers absolute indices [a, a+lenip) with a = start (>=0) or lenop+start (<0),
\* relative to the old path occupying [0, lenop); the new path is the smallest interval covering both.
Min(a,b) == IF a < b THEN a ELSE b
Max(a,b) == IF a > b THEN a ELSE b
A(lenop,start) == IF start < 0 THEN lenop + start ELSE start
Lo(lenop,start) == Min(0, A(lenop,start))
Hi(lenop,lenip,start) == Max(lenop, A(lenop,start) + lenip)

THEOREM PadCorrect ==
  ASSUME NEW lenop \in Nat, NEW lenip \in Nat, NEW start \in Int, lenop >= 1, lenip >= 1
  PROVE  /\ NewLen(lenop,lenip,start) = Hi(lenop,lenip,start) - Lo(lenop,start)
         /\ NewStart(lenop,start) = A(lenop,start) - Lo(lenop,start)
         /\ PadBefore(lenop,start) = -Lo(lenop,start)
         /\ NewStart(lenop,start) >= 0
         /\ NewStart(lenop,start) + lenip <= NewLen(lenop,lenip,start)
  BY DEF NewLen, Hi, Lo, A, Min, Max, NewStart, PadBefore, PadBehind, S1
====
