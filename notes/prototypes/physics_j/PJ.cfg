INIT Init
NEXT Next
