---- MODULE PJ ----
EXTENDS Integers, Sequences, FiniteSets, TLC, Json, IOUtils
Trace == ndJsonDeserialize("j.ndjson")
MulMV(a,v) == <<a[1][1]*v[1]+a[1][2]*v[2]+a[1][3]*v[3], a[2][1]*v[1]+a[2][2]*v[2]+a[2][3]*v[3], a[3][1]*v[1]+a[3][2]*v[2]+a[3][3]*v[3]>>
Tr(a) == <<<<a[1][1],a[2][1],a[3][1]>>,<<a[1][2],a[2][2],a[3][2]>>,<<a[1][3],a[2][3],a[3][3]>>>>
Sub3(a,b) == <<a[1]-b[1],a[2]-b[2],a[3]-b[3]>>
Abs(x) == IF x < 0 THEN -x ELSE x
Sgn(x) == IF x > 0 THEN 1 ELSE IF x < 0 THEN -1 ELSE 0
Pol == <<1,2,3>>
\* three-valued comparison class of a quantity q against 0: "in" (q<0), "on" (q=0), "out" (q>0)
Cls(q) == IF q < 0 THEN "in" ELSE IF q = 0 THEN "on" ELSE "out"
\* combine: out dominates, then on, else in
Comb(S) == IF "out" \in S THEN "out" ELSE IF "on" \in S THEN "on" ELSE "in"
\* all local coordinates are doubled integers (x2 = 2x)
Cuboid(b, x) == Comb({Cls(2*Abs(x[i]) - b.dim2[i]) : i \in 1..3})
\* cylinder: r^2 <= (d/2)^2  <=>  4*(x2^2+y2^2) <= d2^2 ;  |z| <= h/2 <=> 2|z2| <= h2
Cyl(b, x) == Comb({Cls(4*(x[1]*x[1]+x[2]*x[2]) - b.d2*b.d2), Cls(2*Abs(x[3]) - b.h2)})
Sphere(b, x) == Cls(4*(x[1]*x[1]+x[2]*x[2]+x[3]*x[3]) - b.d2*b.d2)
\* directions at multiples of 45 degrees as integer vectors (not normalised)
Dir(k) == LET m == k % 8 IN CASE m = 0 -> <<1,0>> [] m = 1 -> <<1,1>> [] m = 2 -> <<0,1>> [] m = 3 -> <<-1,1>>
                               [] m = 4 -> <<-1,0>> [] m = 5 -> <<-1,-1>> [] m = 6 -> <<0,-1>> [] m = 7 -> <<1,-1>>
Cross(a,b) == a[1]*b[2] - a[2]*b[1]
Dot(a,b) == a[1]*b[1] + a[2]*b[2]
\* angular class of point v=(x,y) relative to the sector from direction k1 counter-clockwise to k2 (0 < k2-k1 <= 8)
\* sweep in steps of 45 degrees: v is strictly inside some sub-wedge, on an internal ray, or on a limiting ray
OnRay(v, k) == Cross(Dir(k), v) = 0 /\ Dot(Dir(k), v) > 0
InWedge(v, k) == Cross(Dir(k), v) > 0 /\ Cross(v, Dir(k+1)) > 0          \* strictly between ray k and ray k+1
Ang(v, k1, k2) ==
   IF v = <<0,0>> THEN "on"                                        \* the axis belongs to the boundary of every sector
   ELSE IF k2 - k1 = 8 THEN "in"
   ELSE IF OnRay(v, k1) \/ OnRay(v, k2) THEN "on"
   ELSE IF \E k \in k1..(k2-1) : InWedge(v, k) THEN "in"
   ELSE IF \E k \in (k1+1)..(k2-1) : OnRay(v, k) THEN "in"
   ELSE "out"
\* radial class: r1 <= r <= r2
Rad(b, x) == LET q == x[1]*x[1]+x[2]*x[2] IN Comb({Cls(q - b.r22*b.r22), Cls(b.r12*b.r12 - q)})
CylSeg(b, x) == Comb({Rad(b, x), Ang(<<x[1],x[2]>>, b.p1, b.p2), Cls(2*Abs(x[3]) - b.h2)})
Det3(a,b,c) == a[1]*(b[2]*c[3]-b[3]*c[2]) - a[2]*(b[1]*c[3]-b[3]*c[1]) + a[3]*(b[1]*c[2]-b[2]*c[1])
\* tetrahedron: sign of the four sub-volumes relative to the total volume
Tetra(b, x) == LET v == b.v2
                   D0 == Det3(Sub3(v[2],v[1]), Sub3(v[3],v[1]), Sub3(v[4],v[1]))
                   s == Sgn(D0)
                   d1 == s*Det3(Sub3(v[2],x), Sub3(v[3],x), Sub3(v[4],x))
                   d2 == s*Det3(Sub3(x,v[1]), Sub3(v[3],v[1]), Sub3(v[4],v[1]))
                   d3 == s*Det3(Sub3(v[2],v[1]), Sub3(x,v[1]), Sub3(v[4],v[1]))
                   d4 == s*Det3(Sub3(v[2],v[1]), Sub3(v[3],v[1]), Sub3(x,v[1]))
               IN Comb({Cls(-d1), Cls(-d2), Cls(-d3), Cls(-d4)})
Classify(b, x) == CASE b.cls = "Cuboid" -> Cuboid(b,x) [] b.cls = "Cylinder" -> Cyl(b,x) [] b.cls = "Sphere" -> Sphere(b,x)
                    [] b.cls = "CylSeg" -> CylSeg(b,x) [] b.cls = "Tetra" -> Tetra(b,x)
Local(e) == MulMV(Tr(e.R), Sub3(e.o2, e.p2))
JIn(e) == MulMV(e.R, Pol)
V3(x) == <<x[1],x[2],x[3]>>
Verdict(e) == LET c == Classify(e.body, Local(e)) IN
   IF c = "in" THEN (IF V3(e.J) = JIn(e) THEN "ok" ELSE "J-inside")
   ELSE IF c = "out" THEN (IF V3(e.J) = <<0,0,0>> THEN "ok" ELSE "J-outside")
   ELSE (IF V3(e.J) = JIn(e) \/ V3(e.J) = <<0,0,0>> THEN "ok" ELSE "J-boundary")
Bad == {i \in 1..Len(Trace) : Verdict(Trace[i]) # "ok"}
Classes == {<<Trace[i].body.cls, Classify(Trace[i].body, Local(Trace[i]))>> : i \in 1..Len(Trace)}
ASSUME PrintT(<<"validated", Len(Trace), "rejected", Cardinality(Bad), Classes>>)
ASSUME \A i \in Bad : PrintT(<<"REJECT", Verdict(Trace[i]), Trace[i].body, Local(Trace[i]), Trace[i].J>>)
VARIABLE x
Init == x = 0
Next == x' = x
====
