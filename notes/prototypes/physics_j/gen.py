import numpy as np, magpylib as magpy, json, itertools, warnings
from scipy.spatial.transform import Rotation as R
warnings.simplefilter('ignore')
rng=np.random.default_rng(0)
G=R.create_group('O')
pol=np.array((1,2,3))
# all coordinates are logged DOUBLED (half-lattice): x2 = 2*x
def bodies():
    yield {"cls":"Cuboid","dim2":[4,4,8]}, lambda: magpy.magnet.Cuboid(polarization=pol,dimension=(2,2,4))
    yield {"cls":"Cuboid","dim2":[2,6,3]}, lambda: magpy.magnet.Cuboid(polarization=pol,dimension=(1,3,1.5))
    yield {"cls":"Cylinder","d2":4,"h2":4}, lambda: magpy.magnet.Cylinder(polarization=pol,dimension=(2,2))
    yield {"cls":"Cylinder","d2":5,"h2":3}, lambda: magpy.magnet.Cylinder(polarization=pol,dimension=(2.5,1.5))
    yield {"cls":"Sphere","d2":4}, lambda: magpy.magnet.Sphere(polarization=pol,diameter=2)
    yield {"cls":"Sphere","d2":5}, lambda: magpy.magnet.Sphere(polarization=pol,diameter=2.5)
    for (r1,r2,h,p1,p2) in [(1,2,2,0,90),(0,2,2,-45,135),(1,2.5,3,90,360),(0.5,1.5,1,-180,-45),(1,2,2,45,405-90)]:
        yield {"cls":"CylSeg","r12":int(2*r1),"r22":int(2*r2),"h2":int(2*h),"p1":p1//45,"p2":p2//45}, (lambda r1=r1,r2=r2,h=h,p1=p1,p2=p2: magpy.magnet.CylinderSegment(polarization=pol,dimension=(r1,r2,h,p1,p2)))
    V=[(0,0,0),(2,0,0),(0,2,0),(0,0,2)]
    yield {"cls":"Tetra","v2":[[2*c for c in v] for v in V]}, lambda: magpy.magnet.Tetrahedron(polarization=pol,vertices=V)
    V=[(1,0,0),(0,2,0),(-1,-1,0),(0,0,3)]
    yield {"cls":"Tetra","v2":[[2*c for c in v] for v in V]}, lambda V=V: magpy.magnet.Tetrahedron(polarization=pol,vertices=V)
grid=np.array(list(itertools.product(np.arange(-3,3.01,0.5),repeat=3)))
n=0
with open('j.ndjson','w') as f:
    for desc,mk in bodies():
        for gi in (0,5,13,22):
            g=G[gi]; p=rng.integers(-2,3,size=3)
            s=mk(); s.orientation=g; s.position=p
            obs=g.apply(grid)+p     # lattice-rotated grid stays on half lattice
            J=s.getJ(obs)
            M=np.rint(g.as_matrix()).astype(int).tolist()
            # batch also as singletons for a subset (independence)
            for o,loc,j in zip(obs,grid,J):
                f.write(json.dumps({"body":desc,"R":M,"p2":(2*p).tolist(),"o2":np.rint(2*o).astype(int).tolist(),"J":[int(round(x)) if abs(x-round(x))<1e-12 else 999 for x in j]})+"\n"); n+=1
print(n)
