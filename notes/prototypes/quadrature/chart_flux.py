"""Design-round probe (not framework code): flux of B through the image of a lattice box in a
chart adapted to the body, with exact splits where a material surface cuts a face along a
coordinate line.  See DESIGN.md section 5 (C14) and section 9."""
import numpy as np


def gl(n):
    x, w = np.polynomial.legendre.leggauss(n)
    return (x + 1) / 2, w / 2


def chart_flux(fB, chart, lo, hi, splits, n=16):
    """fB: (m,3) points -> (m,3) field.  chart(u) -> (x, J) with J[:, :, k] = dx/du_k.
    splits: {axis: [chart-coordinate values where a material surface cuts the cell]}.
    Returns (flux, gross) where gross is the sum of |piece| used as the scale of the residual."""
    lo = np.array(lo, float)
    hi = np.array(hi, float)
    tot = 0.0
    gross = 0.0
    t, w = gl(n)
    for ax in range(3):
        a1, a2 = (ax + 1) % 3, (ax + 2) % 3
        b1 = [lo[a1]] + [s for s in splits.get(a1, []) if lo[a1] < s < hi[a1]] + [hi[a1]]
        b2 = [lo[a2]] + [s for s in splits.get(a2, []) if lo[a2] < s < hi[a2]] + [hi[a2]]
        for side, sgn in ((lo[ax], -1.0), (hi[ax], 1.0)):
            for u0, u1 in zip(b1[:-1], b1[1:]):
                for v0, v1 in zip(b2[:-1], b2[1:]):
                    U = u0 + t * (u1 - u0)
                    V = v0 + t * (v1 - v0)
                    uu = np.zeros((n, n, 3))
                    uu[..., ax] = side
                    uu[..., a1] = U[:, None]
                    uu[..., a2] = V[None, :]
                    X, J = chart(uu.reshape(-1, 3))
                    nrm = np.cross(J[:, :, a1], J[:, :, a2]) * sgn  # right-handed chart
                    val = (
                        np.sum((w[:, None] * w[None, :]).reshape(-1) * np.einsum("ij,ij->i", fB(X), nrm))
                        * (u1 - u0)
                        * (v1 - v0)
                    )
                    tot += val
                    gross += abs(val)
    return tot, gross


def cyl_chart(u):
    r, ph, z = u.T
    X = np.c_[r * np.cos(ph), r * np.sin(ph), z]
    J = np.zeros((len(u), 3, 3))
    J[:, :, 0] = np.c_[np.cos(ph), np.sin(ph), 0 * r]
    J[:, :, 1] = np.c_[-r * np.sin(ph), r * np.cos(ph), 0 * r]
    J[:, 2, 2] = 1
    return X, J


def sph_chart(u):
    r, th, ph = u.T
    X = np.c_[r * np.sin(th) * np.cos(ph), r * np.sin(th) * np.sin(ph), r * np.cos(th)]
    J = np.zeros((len(u), 3, 3))
    J[:, :, 0] = np.c_[np.sin(th) * np.cos(ph), np.sin(th) * np.sin(ph), np.cos(th)]
    J[:, :, 1] = np.c_[r * np.cos(th) * np.cos(ph), r * np.cos(th) * np.sin(ph), -r * np.sin(th)]
    J[:, :, 2] = np.c_[-r * np.sin(th) * np.sin(ph), r * np.sin(th) * np.cos(ph), 0 * r]
    return X, J


if __name__ == "__main__":
    import warnings

    import magpylib as magpy

    warnings.simplefilter("ignore")
    pol = (0.3, -0.2, 0.5)
    cyl = magpy.magnet.Cylinder(polarization=pol, dimension=(2, 3))
    seg = magpy.magnet.CylinderSegment(polarization=pol, dimension=(1, 2, 3, 0, 90))
    sph = magpy.magnet.Sphere(polarization=pol, diameter=2)
    for n in (8, 16, 32):
        t, g = chart_flux(cyl.getB, cyl_chart, (0.6, 0.3, 1.0), (1.4, 1.1, 2.0), {0: [1.0], 2: [1.5]}, n)
        print(n, "cylinder cell straddling hull and top", abs(t) / g)
        t, g = chart_flux(seg.getB, cyl_chart, (0.7, -0.4, -0.4), (1.6, 0.5, 0.5), {0: [1.0], 1: [0.0]}, n)
        print(n, "segment cell straddling r1 and phi1", abs(t) / g)
        t, g = chart_flux(sph.getB, sph_chart, (0.7, 0.6, 0.3), (1.3, 1.4, 1.2), {0: [1.0]}, n)
        print(n, "sphere cell straddling the surface", abs(t) / g)
