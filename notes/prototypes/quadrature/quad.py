import numpy as np, magpylib as magpy, warnings
warnings.simplefilter('ignore')
def gl(n):
    x,w=np.polynomial.legendre.leggauss(n); return (x+1)/2, w/2
def seg_int(fH, a, b, n):
    t,w=gl(n); pts=a[None,:]+t[:,None]*(b-a)[None,:]
    H=fH(pts); return np.sum(w*(H@(b-a)))
def circulation(fH, verts, breaks=None, n=24):
    tot=0; gross=0
    V=list(verts)+[verts[0]]
    for a,b in zip(V[:-1],V[1:]):
        a=np.array(a,float); b=np.array(b,float)
        ts=[0,1]+([] if breaks is None else breaks.get((tuple(a),tuple(b)),[]))
        ts=sorted(ts)
        for t0,t1 in zip(ts[:-1],ts[1:]):
            v=seg_int(fH,a+t0*(b-a),a+t1*(b-a),n); tot+=v; gross+=abs(v)
    return tot,gross
def face_int(fB, o, u, v, nrm, n, usplit=(0,1), vsplit=(0,1)):
    t,w=gl(n); tot=0; gross=0
    for u0,u1 in zip(usplit[:-1],usplit[1:]):
        for v0,v1 in zip(vsplit[:-1],vsplit[1:]):
            U=u0+t*(u1-u0); Vv=v0+t*(v1-v0)
            P=o[None,None,:]+U[:,None,None]*u[None,None,:]+Vv[None,:,None]*v[None,None,:]
            B=fB(P.reshape(-1,3)).reshape(n,n,3)
            val=np.sum(w[:,None]*w[None,:]*(B@nrm))*(u1-u0)*(v1-v0)*np.linalg.norm(np.cross(u,v))
            tot+=val; gross+=abs(val)
    return tot,gross
def flux_box(fB, lo, hi, n=16, splits=None):
    lo=np.array(lo,float); hi=np.array(hi,float); d=hi-lo; tot=0; gross=0
    E=np.eye(3)
    for ax in range(3):
        a1,a2=[(ax+1)%3,(ax+2)%3]
        for side,sgn in ((lo[ax],-1),(hi[ax],1)):
            o=lo.copy(); o[ax]=side
            us=(0,1) if splits is None else splits.get(a1,(0,1)); vs=(0,1) if splits is None else splits.get(a2,(0,1))
            t,g=face_int(fB,o,E[a1]*d[a1],E[a2]*d[a2],E[ax]*sgn,n,us,vs); tot+=t; gross+=g
    return tot,gross
