import json, os, functools, itertools
import magpylib as magpy
from magpylib._src.obj_classes.class_Collection import Collection, BaseCollection
from magpylib._src.obj_classes.class_BaseGeo import BaseGeo
OUT=open(os.environ.get('VERIF_TRACE','/tmp/exp6/tree_trace.ndjson'),'a')
depth=[0]; seq=itertools.count()
def closure(objs):
    seen={}; stack=list(objs)
    while stack:
        o=stack.pop()
        if not isinstance(o,BaseGeo) or id(o) in seen: continue
        seen[id(o)]=o
        p=getattr(o,'_parent',None)
        if p is not None: stack.append(p)
        for c in getattr(o,'_children',[]) or []: stack.append(c)
    return seen
def snap(objs):
    cl=closure(objs)
    def nm(o): return f"o{id(o)}"
    return {"kind":{nm(o):('C' if isinstance(o,Collection) else 'X' if isinstance(o,magpy.Sensor) else 'S') for o in cl.values()},
            "parent":{nm(o):('None' if getattr(o,'_parent',None) is None else nm(o._parent)) for o in cl.values()},
            "children":{nm(o):[nm(c) for c in o._children] for o in cl.values() if isinstance(o,Collection) and hasattr(o,'_children')},
            "srcs":{nm(o):[nm(c) for c in o._sources] for o in cl.values() if isinstance(o,Collection) and hasattr(o,'_sources')},
            "sens":{nm(o):[nm(c) for c in o._sensors] for o in cl.values() if isinstance(o,Collection) and hasattr(o,'_sensors')},
            "colls":{nm(o):[nm(c) for c in o._collections] for o in cl.values() if isinstance(o,Collection) and hasattr(o,'_collections')}}
def flat(a):
    out=[]
    for x in a:
        if isinstance(x,(list,tuple)): out+=flat(x)
        else: out.append(x)
    return out
def wrap(cls,name,opname):
    orig=getattr(cls,name)
    @functools.wraps(orig)
    def w(self,*a,**k):
        if depth[0]>0: return orig(self,*a,**k)
        depth[0]+=1
        inv=[self]+[x for x in flat(a) if isinstance(x,BaseGeo)]
        pre=snap(inv); outcome='ok'
        try: return orig(self,*a,**k)
        except BaseException as e:
            outcome='raise:'+type(e).__name__; raise
        finally:
            depth[0]-=1
            post=snap(inv+list(closure(inv).values()))
            OUT.write(json.dumps({"seq":next(seq),"pid":os.getpid(),"op":opname,"self":f"o{id(self)}","args":[f"o{id(x)}" if isinstance(x,BaseGeo) else repr(type(x).__name__) for x in flat(a)],
                                  "kw":{kk:repr(v) for kk,v in k.items()},"outcome":outcome,"pre":pre,"post":post})+"\n"); OUT.flush()
    setattr(cls,name,w)
wrap(BaseCollection,'add','add'); wrap(BaseCollection,'remove','remove')
def wrap_prop(cls,name):
    prop=getattr(cls,name)
    def setter(self,val):
        if depth[0]>0: return prop.fset(self,val)
        depth[0]+=1
        inv=[self]+[x for x in flat([val]) if isinstance(x,BaseGeo)]
        pre=snap(inv); outcome='ok'
        try: return prop.fset(self,val)
        except BaseException as e: outcome='raise:'+type(e).__name__; raise
        finally:
            depth[0]-=1
            post=snap(inv+list(closure(inv).values()))
            OUT.write(json.dumps({"seq":next(seq),"pid":os.getpid(),"op":"set_"+name,"self":f"o{id(self)}","args":[f"o{id(x)}" if isinstance(x,BaseGeo) else repr(type(x).__name__) for x in flat([val])],"kw":{},"outcome":outcome,"pre":pre,"post":post})+"\n"); OUT.flush()
    setattr(cls,name,property(prop.fget,setter,prop.fdel,prop.__doc__))
wrap_prop(BaseGeo,'parent')
for n in ('children','sources','sensors','collections'): wrap_prop(BaseCollection,n)
