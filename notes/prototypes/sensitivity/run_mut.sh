#!/bin/bash
# usage: run_mut.sh <name> <file-relative-to-magpylib> <python-regex-old> <new> <proto: fw|cp>
name=$1; file=$2; old=$3; new=$4; proto=$5
d=/tmp/scratch/$name; rm -rf $d; mkdir -p $d; cp -r /repo/magpylib $d/; cp -r /repo/tests $d/ 
python3 - "$d/magpylib/$file" "$old" "$new" <<'PY'
import sys,re
p,old,new=sys.argv[1:4]
s=open(p).read()
assert old in s, ("pattern not found", old)
s=s.replace(old,new,1); open(p,'w').write(s)
PY
if [ $? -ne 0 ]; then echo "$name: PATTERN NOT FOUND"; exit; fi
if [ "$proto" = fw ]; then
  mkdir -p $d/w && cd $d/w && cp /tmp/exp4/gen.py /tmp/exp4/FW.tla /tmp/exp4/FW.cfg . && sed -i 's/"rejected", Bad>>/"rejected", Cardinality(Bad)>>/' FW.tla && PYTHONPATH=$d /venv/bin/python gen.py 11 600 >/dev/null 2>&1
  res=$(tlc -workers 1 -metadir $d/w/m -noGenerateSpecTE -config FW.cfg FW.tla 2>&1 | grep -o '"validated", [0-9]*, "rejected", [0-9]*'; ls fw.ndjson >/dev/null 2>&1 || echo "generator crashed")
else
  mkdir -p $d/w && cd $d/w && cp /tmp/exp5/gen.py /tmp/exp5/Compound.tla /tmp/exp5/CV.tla /tmp/exp5/CV.cfg . && PYTHONPATH=$d /venv/bin/python gen.py 11 1500 >/dev/null 2>&1
  res=$(tlc -workers 1 -metadir $d/w/m -noGenerateSpecTE -config CV.cfg CV.tla 2>&1 | grep -o '"validated", [0-9]*, "rejected", [0-9]*')
fi
cd $d && t=$(MPLBACKEND=Agg PYTHONPATH=$d timeout 600 /venv/bin/python -m pytest -q -p no:cacheprovider -n 8 tests 2>&1 | tail -1)
echo "$name [$proto]: spec-side: $res | repo tests: $t"
rm -rf $d
