CONSTANTS
 Objs <- cObjs
 Leaves <- cLeaves
 Vals <- cVals
 Unset = "None"
 Families <- cFamilies
 Chain <- cChain
 Def0 <- cDef0
 HasLeaf <- cHasLeaf
INIT Init
NEXT Next
INVARIANT TypeOK
INVARIANT Precedence
INVARIANT Tracking
PROPERTY LastWinsAndFrame
PROPERTY ResetRestores
