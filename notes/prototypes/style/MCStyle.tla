---- MODULE MCStyle ----
EXTENDS Style
cObjs == {"cub", "tri"}
cLeaves == {"l1", "l2"}
cVals == {"a", "b"}
cFamilies == {"base", "magnet", "triangle"}
cChain == [cub |-> <<"magnet">>, tri |-> <<"magnet", "triangle">>]
cDef0 == [base |-> [l1 |-> "a", l2 |-> "None"], magnet |-> [l1 |-> "None", l2 |-> "b"], triangle |-> [l1 |-> "None", l2 |-> "None"]]
cHasLeaf == [cub |-> [l1 |-> TRUE, l2 |-> TRUE], tri |-> [l1 |-> TRUE, l2 |-> TRUE]]
====
