---- MODULE Style ----
EXTENDS Integers, Sequences, FiniteSets, TLC
\* Abstract model of magpylib style state.
\*  Objs      : displayable objects, each with a family chain (most general first), e.g. <<"magnet">> or <<"magnet","triangle">>
\*  Leaves    : abstract style leaves (an alias pair is ONE leaf with two names: names are a harness concern)
\*  Vals      : abstract valid values;  Unset is "None"
CONSTANTS Objs, Leaves, Vals, Unset, Families, Chain, Def0, HasLeaf
\*  Chain[o]            : Seq(Families), increasing specificity (later entries override earlier non-Unset ones)
\*  Def0[f][l]          : initial (library) default of family f for leaf l, or Unset;  family "base" holds the base defaults
\*  HasLeaf[o][l]       : whether the style class of o has leaf l
VARIABLES objVal, def
vars == <<objVal, def>>
VU == Vals \cup {Unset}
TypeOK == objVal \in [Objs -> [Leaves -> VU]] /\ def \in [Families -> [Leaves -> VU]]
Init == objVal = [o \in Objs |-> [l \in Leaves |-> Unset]] /\ def = Def0
\* ---------- the documented resolution order ----------
RECURSIVE FamilyDefault(_,_,_,_)
FamilyDefault(d, ch, k, l) == \* most specific non-Unset family default, scanning the chain from the end
   IF k = 0 THEN Unset ELSE IF d[ch[k]][l] # Unset THEN d[ch[k]][l] ELSE FamilyDefault(d, ch, k-1, l)
Resolve(ov, d, o, l, kw) ==      \* kw: [Leaves -> VU] keyword values given to show()
   IF kw[l] # Unset /\ HasLeaf[o][l] THEN kw[l]
   ELSE IF ov[o][l] # Unset THEN ov[o][l]
   ELSE LET fd == FamilyDefault(d, Chain[o], Len(Chain[o]), l) IN
        IF fd # Unset THEN fd ELSE d["base"][l]
\* ---------- actions (functional form: new value of the variable) ----------
SetObjF(ov, o, l, v) == [ov EXCEPT ![o][l] = v]
SetDefF(d, f, l, v) == [d EXCEPT ![f][l] = v]
SetObj(o, l, v) == HasLeaf[o][l] /\ objVal' = SetObjF(objVal, o, l, v) /\ UNCHANGED def
SetDefault(f, l, v) == def' = SetDefF(def, f, l, v) /\ UNCHANGED objVal
ResetDefaults == def' = Def0 /\ UNCHANGED objVal
InvalidAssign == UNCHANGED vars                 \* rejected name/value: nothing changes
Show == UNCHANGED vars                          \* show(..., style kwargs) is a stuttering step
CopyObj(o, o2) == objVal' = [objVal EXCEPT ![o2] = objVal[o]] /\ UNCHANGED def   \* copy carries the style values
Next == \/ \E o \in Objs, l \in Leaves, v \in VU : SetObj(o, l, v)
        \/ \E f \in Families, l \in Leaves, v \in VU : SetDefault(f, l, v)
        \/ ResetDefaults \/ InvalidAssign \/ Show
        \/ \E o, o2 \in Objs : o # o2 /\ CopyObj(o, o2)
Spec == Init /\ [][Next]_vars
\* ---------- properties ----------
NoKw == [l \in Leaves |-> Unset]
\* P1 precedence, stated independently of Resolve's nesting: the resolved value is the first set entry of the list
Candidates(o, l, kw) == <<IF HasLeaf[o][l] THEN kw[l] ELSE Unset, objVal[o][l]>> \o
      [k \in 1..Len(Chain[o]) |-> def[Chain[o][Len(Chain[o]) + 1 - k]][l]] \o <<def["base"][l]>>
RECURSIVE FirstSet(_)
FirstSet(s) == IF Len(s) = 0 THEN Unset ELSE IF s[1] # Unset THEN s[1] ELSE FirstSet(Tail(s))
KwSet == [Leaves -> VU]
Precedence == \A o \in Objs, l \in Leaves, kw \in KwSet : Resolve(objVal, def, o, l, kw) = FirstSet(Candidates(o, l, kw))
\* P2 last assignment wins + P3 no leak (frame) as action properties
LastWinsAndFrame == [][
    /\ \A o \in Objs, l \in Leaves, v \in VU : SetObj(o, l, v) =>
          /\ objVal'[o][l] = v
          /\ \A o2 \in Objs, l2 \in Leaves : (o2 # o \/ l2 # l) => objVal'[o2][l2] = objVal[o2][l2]
          /\ def' = def
    /\ \A f \in Families, l \in Leaves, v \in VU : SetDefault(f, l, v) =>
          /\ def'[f][l] = v /\ objVal' = objVal
          /\ \A f2 \in Families, l2 \in Leaves : (f2 # f \/ l2 # l) => def'[f2][l2] = def[f2][l2]
  ]_vars
\* P4 reset restores every default
ResetRestores == [][ResetDefaults => def' = Def0]_vars
\* P5 an object whose own leaf is unset follows later changes of the defaults; one whose leaf is set does not
Tracking == \A o \in Objs, l \in Leaves : objVal[o][l] # Unset => Resolve(objVal, def, o, l, NoKw) = objVal[o][l]
====
