CONSTANTS
 Colls = {C1, C2, C3}
 Leaves = {S1, S2, X1}
 None = None
INIT Init
NEXT Next
INVARIANT Inv
