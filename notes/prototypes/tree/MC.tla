---- MODULE MC ----
EXTENDS Tree
====
