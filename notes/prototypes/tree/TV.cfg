INIT Init0
NEXT Next0
