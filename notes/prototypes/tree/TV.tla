---- MODULE TV ----
EXTENDS Integers, Sequences, FiniteSets, TLC, Json, IOUtils
Colls == {"C1","C2","C3"}
Leaves == {"S1","S2","X1"}
None == "None"
VARIABLES parent, children
INSTANCE Tree
Trace == ndJsonDeserialize("t100k.ndjson")
Seqify(x) == [i \in 1..Len(x) |-> x[i]]
PreOf(e) == [parent |-> e.pre.parent, children |-> [c \in Colls |-> Seqify(e.pre.children[c])]]
PostOf(e) == [parent |-> e.post.parent, children |-> [c \in Colls |-> Seqify(e.post.children[c])]]
\* verdict per event: "ok" or the name of the failing clause
Verdict(e) ==
  LET pre == PreOf(e)  post == PostOf(e) IN
  IF ~InvSt(post) THEN "ForestInv"
  ELSE IF e.op = "add" THEN
     LET r == AddSeq(pre, e.c, Seqify(e.args), e.ov, 1) IN
     IF e.outcome = "ok" THEN (IF r.ok /\ r.st = post THEN "ok" ELSE "AddPost")
     ELSE (IF \A o \in Objs \ Range(Seqify(e.args)) : post.parent[o] = pre.parent[o] THEN "ok" ELSE "AddFailFrame")
  ELSE IF e.op = "remove" THEN
     (IF e.outcome = "ok" THEN (IF e.args[1] \in Desc(pre.children, e.c) /\ Detach(pre, e.args[1]) = post THEN "ok" ELSE "RemovePost")
      ELSE (IF post = pre THEN "ok" ELSE "RemoveFailChanged"))
  ELSE (IF Detach(pre, e.c) = post THEN "ok" ELSE "ParentNonePost")
Bad == {i \in 1..Len(Trace) : Verdict(Trace[i]) # "ok"}
ASSUME PrintT(<<"validated", Len(Trace), "rejected", Cardinality(Bad)>>)
ASSUME \A i \in Bad : PrintT(<<"REJECT", Trace[i].tid, Verdict(Trace[i]), Trace[i].op, Trace[i].c, Trace[i].args, Trace[i].ov, Trace[i].outcome>>)
Init0 == parent = <<>> /\ children = <<>>
Next0 == UNCHANGED <<parent, children>>
====
