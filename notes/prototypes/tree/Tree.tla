---- MODULE Tree ----
EXTENDS Integers, Sequences, FiniteSets, TLC
CONSTANTS Colls, Leaves, None
Objs == Colls \cup Leaves
VARIABLES parent, children
vars == <<parent, children>>
Range(s) == {s[i] : i \in DOMAIN s}
Count(s, x) == Cardinality({i \in DOMAIN s : s[i] = x})
RECURSIVE DescN(_,_,_)
DescN(ch, S, n) == IF n = 0 THEN S ELSE DescN(ch, S \cup UNION {Range(ch[x]) : x \in S \cap Colls}, n-1)
Desc(ch, c) == DescN(ch, Range(ch[c]), Cardinality(Objs))
Filter(s, P(_)) == LET RECURSIVE F(_) 
                       F(t) == IF t = <<>> THEN <<>> ELSE IF P(Head(t)) THEN <<Head(t)>> \o F(Tail(t)) ELSE F(Tail(t))
                   IN F(s)
St == [parent |-> parent, children |-> children]
InvSt(st) ==
  /\ \A o \in Objs : st.parent[o] # None => Count(st.children[st.parent[o]], o) = 1
  /\ \A c \in Colls : \A i \in DOMAIN st.children[c] : st.parent[st.children[c][i]] = c
  /\ \A c \in Colls : c \notin Desc(st.children, c)
Inv == InvSt(St)
Attach(st, c, o) == [parent |-> [st.parent EXCEPT ![o] = c], children |-> [st.children EXCEPT ![c] = Append(@, o)]]
Detach(st, o) == LET p == st.parent[o] IN
   IF p = None THEN st ELSE
   [parent |-> [st.parent EXCEPT ![o] = None], children |-> [st.children EXCEPT ![p] = Filter(@, LAMBDA x : x # o)]]
\* sequential (per-argument atomic) semantics of add; returns [ok, st, k] where k = index of failing arg
RECURSIVE AddSeq(_,_,_,_,_)
AddSeq(st, c, args, ov, k) ==
  IF k > Len(args) THEN [ok |-> TRUE, st |-> st, k |-> 0]
  ELSE LET o == args[k] IN
    IF o \in Colls /\ (o = c \/ c \in Desc(st.children, o)) THEN [ok |-> FALSE, st |-> st, k |-> k]
    ELSE IF st.parent[o] = None THEN AddSeq(Attach(st, c, o), c, args, ov, k+1)
    ELSE IF ov THEN AddSeq(Attach(Detach(st, o), c, o), c, args, ov, k+1)
    ELSE [ok |-> FALSE, st |-> st, k |-> k]
ArgLists == {<<a>> : a \in Objs} \cup {<<a,b>> : a \in Objs, b \in Objs}
Add(c, args, ov) == LET r == AddSeq(St, c, args, ov, 1) IN
    /\ r.ok /\ parent' = r.st.parent /\ children' = r.st.children
\* raising add: nothing stronger than the property: invariant, untouched frame, mentioned objects old-or-new
AddFailPost(c, args, ov, post) == LET r == AddSeq(St, c, args, ov, 1) IN
    /\ ~r.ok \/ Cardinality(Range(args)) < Len(args)      \* legit failure or unspecified (duplicates)
    /\ InvSt(post)
    /\ \A o \in Objs \ Range(args) : post.parent[o] = parent[o]
Remove(c, o) == /\ o \in Desc(children, c) /\ LET st == Detach(St, o) IN parent' = st.parent /\ children' = st.children
SetParentNone(o) == LET st == Detach(St, o) IN parent' = st.parent /\ children' = st.children
Init == parent = [o \in Objs |-> None] /\ children = [c \in Colls |-> <<>>]
Next == \/ \E c \in Colls, args \in ArgLists, ov \in BOOLEAN : Add(c, args, ov)
        \/ \E c \in Colls, o \in Objs : Remove(c, o)
        \/ \E o \in Objs : SetParentNone(o)
Spec == Init /\ [][Next]_vars
====
