import json, itertools, sys, time, warnings
import magpylib as magpy
from magpylib._src.exceptions import MagpylibBadUserInput
warnings.simplefilter('ignore')
COLLS=['C1','C2','C3']; LEAVES=['S1','S2','X1']; OBJS=COLLS+LEAVES
def build(st):
    o={}
    for n in COLLS: o[n]=magpy.Collection()
    for n in LEAVES: o[n]=magpy.Sensor() if n.startswith('X') else magpy.misc.Dipole(moment=(1,0,0))
    for c in COLLS:
        o[c]._children=[o[x] for x in st['children'][c]]
        o[c]._update_src_and_sens()
    for n in OBJS:
        p=st['parent'][n]; o[n]._parent=None if p=='None' else o[p]
    return o
def proj(o):
    inv={id(v):k for k,v in o.items()}
    return {'parent':{n:('None' if o[n]._parent is None else inv[id(o[n]._parent)]) for n in OBJS},
            'children':{c:[inv[id(x)] for x in o[c]._children] for c in COLLS}}
init={'parent':{n:'None' for n in OBJS},'children':{c:[] for c in COLLS}}
arglists=[[a] for a in OBJS]+[[a,b] for a in OBJS for b in OBJS]
def ops():
    for c in COLLS:
        for args in arglists:
            for ov in (False,True): yield ('add',c,args,ov)
        for x in OBJS: yield ('remove',c,[x],False)
    for x in OBJS: yield ('parentnone',x,[],False)
seen={json.dumps(init,sort_keys=True)}; queue=[init]; n=0
t0=time.time()
with open('steps.ndjson','w') as f:
    while queue:
        st=queue.pop(0)
        for (op,c,args,ov) in ops():
            o=build(st); outcome='ok'
            try:
                if op=='add': o[c].add(*[o[a] for a in args],override_parent=ov)
                elif op=='remove': o[c].remove(o[args[0]])
                else: o[c].parent=None
            except MagpylibBadUserInput: outcome='raise'
            post=proj(o); n+=1
            f.write(json.dumps({'tid':n,'op':op,'c':c,'args':args,'ov':ov,'outcome':outcome,'pre':st,'post':post})+'\n')
            k=json.dumps(post,sort_keys=True)
            if outcome=='ok' and k not in seen: seen.add(k); queue.append(post)
print('steps',n,'distinct states via impl',len(seen),'secs',round(time.time()-t0,1))
