#!/bin/sh
# Offline setup: nothing is fetched or built; parse every specification and byte-compile the harness.
set -e
cd "$(dirname "$0")"
mkdir -p .work evidence replays
/venv/bin/python -m compileall -q harness tools >/dev/null
fail=0
for f in spec/*.tla; do
  case "$f" in *_proof.tla) continue;; esac
  if ! (cd spec && java -cp /opt/veriftools/tla/tla2tools.jar:/opt/veriftools/tla/CommunityModules-deps.jar tla2sany.SANY "$(basename "$f")" >/tmp/sany.$$ 2>&1) || grep -q -E "Semantic errors|Parse Error|Fatal errors|Could not" /tmp/sany.$$; then
    echo "SANY failed on $f"; tail -20 /tmp/sany.$$; fail=1
  fi
done
rm -f /tmp/sany.$$
/venv/bin/python -c "import sys; sys.path.insert(0,'/repo'); import magpylib; print('magpylib', magpylib.__version__, magpylib.__file__)"
exit $fail
