------------------------------- MODULE Batch -------------------------------
(***************************************************************************)
(* Laws about REAL source classes in one vectorised call (binding C):      *)
(*                                                                         *)
(* ElementIndependence (C06): element (l, m, k, p) of                      *)
(*   getX(sources, sensors, squeeze=False) equals the element of the call  *)
(*   with source l alone and sensor k alone - whatever else is in the      *)
(*   call (other classes, several sources of one class with different      *)
(*   vertex/face counts, duplicates, order, batch size).                   *)
(* Linearity (C05): Obs(a*e1 + b*e2) = a*Obs(e1) + b*Obs(e2) for the       *)
(*   excitation (polarization, magnetization, current, moment).            *)
(* Superposition (C05): sumup / a collection of real sources equals the    *)
(*   sum of the single-source calls.                                       *)
(*                                                                         *)
(* Observations are q12 numbers (two limbs, unit 1e-12 of the gross scale  *)
(* of the instance), see Quant.tla.  A palette entry is identified by an   *)
(* integer; the harness owns the concrete objects, the spec owns the       *)
(* arrangement (which entries, in which order) and the index mapping.      *)
(***************************************************************************)
EXTENDS Integers, Sequences, FiniteSets, Quant

Min(a, b) == IF a < b THEN a ELSE b
TolSame == 2           \* 1e-12: bit-identical inputs to the same core function
TolRe == 10000         \* 1e-8 : batch may switch algorithm branch (cel / cel_iter) or re-derive inputs

\* T: [l][m][k][p] -> <<x, y, z>> of q12;  single[l][k]: [m][p] -> <<x, y, z>> (path axis possibly shorter)
\* Tolerance: bit-identical inputs to the same core function only if (a) no cel-based algorithm switch can occur (`same`) and
\* (b) the single call tiles the same paths as the batch (equal path axis) - tiling re-normalises orientation quaternions.
TolFor(T, single, l, k, same) == IF same /\ Len(single[l][k]) = Len(T[l]) THEN TolSame ELSE TolRe
ElemOK(T, single, l, m, k, p, same) ==
    LET s == single[l][k]
        ms == Min(m, Len(s))
    IN \A c \in 1..3 : Close12(T[l][m][k][p][c], s[ms][p][c], TolFor(T, single, l, k, same))
ElementIndependence(T, single, same) ==
    \A l \in 1..Len(T) : \A m \in 1..Len(T[l]) : \A k \in 1..Len(T[l][m]) : \A p \in 1..Len(T[l][m][k]) : ElemOK(T, single, l, m, k, p, same)
FirstBadElement(T, single, same) ==
    CHOOSE q \in {<<l, m, k, p>> : l \in 1..Len(T), m \in 1..Len(T[1]), k \in 1..Len(T[1][1]), p \in 1..Len(T[1][1][1])} :
         ~ElemOK(T, single, q[1], q[2], q[3], q[4], same)

\* a*x1 + b*x2 - x = 0 limb-wise (a, b small integers)
LinRes(x, x1, x2, a, b) == <<a * x1[1] + b * x2[1] - x[1], a * x1[2] + b * x2[2] - x[2]>>
LinOK(x, x1, x2, a, b, tol) == LET r == LinRes(x, x1, x2, a, b) IN Abs(r[1]) <= 2000 /\ Abs(r[1] * 1000000 + r[2]) <= tol
Linearity(obs, obs1, obs2, a, b, tol) == \A i \in 1..Len(obs) : \A c \in 1..3 : LinOK(obs[i][c], obs1[i][c], obs2[i][c], a, b, tol)

\* Homogeneity (C05): the observation at excitation 10^d * e, logged in units of 10^d * (gross scale at e), equals the observation at e
Homogeneity(obs, obsd, tol) == \A i \in 1..Len(obs) : \A c \in 1..3 : Close12(obs[i][c], obsd[i][c], tol)

\* sum over sources equals the summed-up call
RECURSIVE SumQ(_, _, _, _)
SumQ(parts, i, c, n) == IF n = 0 THEN <<0, 0>> ELSE LET r == SumQ(parts, i, c, n - 1) IN <<r[1] + parts[n][i][c][1], r[2] + parts[n][i][c][2]>>
Superposition(whole, parts, tol) == \A i \in 1..Len(whole) : \A c \in 1..3 :
    LET s == SumQ(parts, i, c, Len(parts)) IN
    Abs(whole[i][c][1] - s[1]) <= 2000 /\ Abs((whole[i][c][1] - s[1]) * 1000000 + (whole[i][c][2] - s[2])) <= tol
=============================================================================
