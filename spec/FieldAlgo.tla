----------------------------- MODULE FieldAlgo -----------------------------
(***************************************************************************)
(* Implementation view of getBH_level2 (field_wrap_BH.py): HOW the result  *)
(* tensor is produced, step by step, in the order and with the index       *)
(* algebra of the code.  One operator per named point of the code (the     *)
(* hook points `computed`, `reduced`, `rotated`, `aggregated`, and the     *)
(* returned array), so that the array the code holds at each point can be  *)
(* compared with the specification (TV_FieldWrap), and TLC checks that the *)
(* last step equals the requirement view FieldWrap!Expected on every       *)
(* scenario (MC_FieldWrap!AlgoRefines).                                    *)
(*                                                                         *)
(*   tile       every path is padded with its last pose to the longest     *)
(*   poso       observer rows, index (m, q): q runs over the pixels of all *)
(*              sensors, sensor-major ("pix_inds")                         *)
(*   groups     leaves of the flattened source list grouped by field       *)
(*              function (here: by tag), first occurrence first            *)
(*   level1     one flat call per group, rows (g, m, q); the result is     *)
(*              reshaped to (lg, M, n_pix) and written to the rows         *)
(*              group.order[g] of B                                        *)
(*   reduce     for every top-level collection: B[i] = sum of its slice,   *)
(*              the rest of the slice is deleted (in-place loop)           *)
(*   rotate     per sensor slice: inverse sensor orientation (skipped for  *)
(*              unit orientation, one rotation for a static orientation,   *)
(*              per path index otherwise), x-flip for left-handed sensors  *)
(*   aggregate  split by sensor, named reduction over the pixels           *)
(*   sumup      sum over the first axis                                    *)
(***************************************************************************)
EXTENDS FieldWrap

SrcList(e) == LeavesOfSeq(e.sources)
Tile(path, mx) == [pos |-> [m \in 1..mx |-> PosAt(path, m)], ori |-> [m \in 1..mx |-> OriAt(path, m)]]

\* ---- pixel bookkeeping (pix_nums, pix_inds, n_pix)
PixNums(e) == [k \in 1..Len(e.sensors) |-> Len(e.sensors[k].pix)]
PixInds(e) == [k \in 1..(Len(e.sensors) + 1) |-> SumInts(SubSeq(PixNums(e), 1, k - 1))]        \* 0-based offsets, as in the code
NPix(e) == PixInds(e)[Len(e.sensors) + 1]
SensorOfPixel(e, q) == CHOOSE k \in 1..Len(e.sensors) : PixInds(e)[k] < q /\ q <= PixInds(e)[k + 1]

\* ---- poso: flat rows (m, q), row index (m-1)*n_pix + q
PosO(e) ==
    LET mx == M(e)  np == NPix(e)  pin == PixInds(e) IN
    [i \in 1..(mx * np) |->
        LET m == (i - 1) \div np + 1
            q == ((i - 1) % np) + 1
            k == SensorOfPixel(e, q)
            t == Tile(e.sensors[k].path, mx)
        IN Add3(MulMV(t.ori[m], e.sensors[k].pix[q - pin[k]]), t.pos[m])]

\* ---- groups by field function, in order of first occurrence
RECURSIVE KeysOf(_, _)
KeysOf(sl, seen) == IF Len(sl) = 0 THEN <<>>
                    ELSE IF Head(sl).tag \in seen THEN KeysOf(Tail(sl), seen)
                    ELSE <<Head(sl).tag>> \o KeysOf(Tail(sl), seen \cup {Head(sl).tag})
Keys(e) == KeysOf(SrcList(e), {})
Order(e, key) == LET sl == SrcList(e) IN SelectSeq([i \in 1..Len(sl) |-> i], LAMBDA i : sl[i].tag = key)

\* ---- getBH_level1 on the flat rows of one group: rows (g, m, q)
GroupFlat(e, key) ==
    LET mx == M(e)  np == NPix(e)  po == PosO(e)  ord == Order(e, key)  sl == SrcList(e) IN
    [i \in 1..(Len(ord) * mx * np) |->
        LET g == (i - 1) \div (mx * np) + 1
            rem == (i - 1) % (mx * np)
            m == rem \div np + 1
            t == Tile(sl[ord[g]].path, mx)
            rel == MulMV(Tr(t.ori[m]), Sub3(po[rem + 1], t.pos[m]))          \* pos_rel_rot
        IN MulMV(t.ori[m], F(key, e.field, rel))]

\* ---- point `computed`: B[s][m][q], s over the flattened source list
Computed(e) ==
    LET mx == M(e)  np == NPix(e)  sl == SrcList(e) IN
    [s \in 1..Len(sl) |->
        LET ord == Order(e, sl[s].tag)
            g == CHOOSE x \in 1..Len(ord) : ord[x] = s
            flat == GroupFlat(e, sl[s].tag)
        IN [m \in 1..mx |-> [q \in 1..np |-> flat[((g - 1) * mx + (m - 1)) * np + q]]]]

\* ---- point `reduced`: the in-place slice-sum / delete loop over the top-level entries
SumRows(rows) == [m \in 1..Len(rows[1]) |-> [q \in 1..Len(rows[1][m]) |-> SumVecs([i \in 1..Len(rows) |-> rows[i][m][q]])]]
RECURSIVE ReduceLoop(_, _, _)
ReduceLoop(B, srcs, i) ==
    IF i > Len(srcs) THEN B
    ELSE IF srcs[i].kind = "coll" THEN
         LET cl == Len(LeavesOf(srcs[i])) IN
         ReduceLoop(SubSeq(B, 1, i - 1) \o <<SumRows(SubSeq(B, i, i + cl - 1))>> \o SubSeq(B, i + cl, Len(B)), srcs, i + 1)
    ELSE ReduceLoop(B, srcs, i + 1)
ReducedFrom(e, B) == IF Len(SrcList(e)) > Len(e.sources) THEN ReduceLoop(B, e.sources, 1) ELSE B
Reduced(e) == ReducedFrom(e, Computed(e))

\* ---- point `rotated`: into the sensor frames, slice by slice
Unrotated(sn) == \A m \in 1..Len(sn.path.ori) : sn.path.ori[m] = IdM                 \* decided BEFORE tiling
StaticRot(sn) == Len(sn.path.pos) = 1 \/ \A m \in 1..Len(sn.path.ori) : sn.path.ori[m] = sn.path.ori[1]
RotatedFrom(e, B) ==
    LET mx == M(e) IN
    [l \in 1..Len(B) |-> [m \in 1..mx |-> [q \in 1..Len(B[l][m]) |->
        LET sn == e.sensors[SensorOfPixel(e, q)]
            v == B[l][m][q]
            r == IF Unrotated(sn) THEN v
                 ELSE IF StaticRot(sn) THEN MulMV(Tr(sn.path.ori[1]), v)
                 ELSE MulMV(Tr(OriAt(sn.path, m)), v)
        IN IF sn.left THEN <<-r[1], r[2], r[3]>> ELSE r]]]
Rotated(e) == RotatedFrom(e, Reduced(e))

\* ---- point `aggregated`: split by sensor (pix_inds), reduce over the pixels of each sensor
SplitFrom(e, B) ==
    LET pin == PixInds(e) IN
    [l \in 1..Len(B) |-> [m \in 1..Len(B[l]) |-> [k \in 1..Len(e.sensors) |->
        [j \in 1..(pin[k + 1] - pin[k]) |-> B[l][m][pin[k] + j]]]]]
AggregatedFrom(e, B) == Aggregated(e, SplitFrom(e, B))
AggregatedAlgo(e) == AggregatedFrom(e, Rotated(e))

\* ---- the returned tensor
SumUpFrom(e, A) == IF e.sumup THEN <<[m \in 1..Len(A[1]) |-> [k \in 1..Len(A[1][m]) |-> [j \in 1..Len(A[1][m][k]) |->
                                      SumVecs([l \in 1..Len(A) |-> A[l][m][k][j]])]]]>>
                   ELSE A
Final(e) == SumUpFrom(e, AggregatedAlgo(e))

\* ---- the implementation view refines the requirement view
Refines(e) == Final(e) = Expected(e)
\* each step written as a function of the PREVIOUS logged array: lets the validator localise a deviation to one step
=============================================================================
