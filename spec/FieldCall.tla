----------------------------- MODULE FieldCall -----------------------------
(***************************************************************************)
(* Life cycle of ONE field computation getBH_level2 (implementation view,  *)
(* one action per phase of the code) and the requirement C08: when the     *)
(* call returns OR raises, every involved object is exactly as it was.     *)
(*                                                                         *)
(* The only object state the computation touches is the path length of     *)
(* the objects (paths are tiled in place to the longest and un-tiled at    *)
(* the end), so the abstract state is                                      *)
(*   s = [len, saved : [objects -> Nat], pc, grp, ng]                      *)
(* Phases are reported by the guarded hooks in field_wrap_BH.py            *)
(* (checked, tiled, group, computed, reduced, rotated, aggregated,         *)
(* untiled) and by the harness wrapper (call, return, raise); every event  *)
(* carries the path lengths of all involved objects at that moment.        *)
(***************************************************************************)
EXTENDS Integers, Sequences, FiniteSets

RangeOf(f) == {f[x] : x \in DOMAIN f}
MaxLen(f) == CHOOSE m \in RangeOf(f) : \A y \in RangeOf(f) : y <= m
Tiled(f) == [o \in DOMAIN f |-> MaxLen(f)]

Start(lens) == [len |-> lens, saved |-> lens, pc |-> "idle", grp |-> 0]

\* order of the phases between tiling and un-tiling
After(pc) == CASE pc = "tiled" -> {"group", "computed"}        \* computed directly only if there is no group (impossible) - kept for totality
               [] pc = "group" -> {"group", "computed"}
               [] pc = "computed" -> {"reduced"}
               [] pc = "reduced" -> {"rotated"}
               [] pc = "rotated" -> {"aggregated"}
               [] OTHER -> {}
InTiled == {"tiled", "group", "computed", "reduced", "rotated", "aggregated"}

(***************************************************************************)
(* StepF(s, ev): ev = [p |-> point, lens |-> lengths logged at that point] *)
(* returns [ok, clause, st].  `clause` names what failed.                  *)
(***************************************************************************)
Bad(s, c) == [ok |-> FALSE, clause |-> c, st |-> s]
Good(s) == [ok |-> TRUE, clause |-> "ok", st |-> s]
StepF(s, ev) ==
  CASE ev.p = "call" ->
         IF s.pc # "idle" THEN Bad(s, "Order") ELSE Good([s EXCEPT !.pc = "entered", !.len = ev.lens, !.saved = ev.lens])
    [] ev.p = "checked" ->
         IF s.pc # "entered" THEN Bad(s, "Order")
         ELSE IF ev.lens # s.saved THEN Bad(s, "ChangedBeforeTiling") ELSE Good([s EXCEPT !.pc = "checked"])
    [] ev.p = "tiled" ->
         IF s.pc # "checked" THEN Bad(s, "Order")
         ELSE IF ev.lens # Tiled(s.saved) THEN Bad(s, "TilingWrong") ELSE Good([s EXCEPT !.pc = "tiled", !.len = ev.lens])
    [] ev.p \in {"group", "computed", "reduced", "rotated", "aggregated"} ->
         IF ev.p \notin After(s.pc) THEN Bad(s, "Order")
         ELSE IF ev.lens # Tiled(s.saved) THEN Bad(s, "ChangedWhileTiled")
         ELSE Good([s EXCEPT !.pc = ev.p, !.grp = IF ev.p = "group" THEN s.grp + 1 ELSE s.grp])
    [] ev.p = "untiled" ->
         IF s.pc # "aggregated" THEN Bad(s, "Order")
         ELSE IF ev.lens # s.saved THEN Bad(s, "UntileWrong") ELSE Good([s EXCEPT !.pc = "untiled", !.len = ev.lens])
    [] ev.p = "return" ->
         \* a call that returns has either gone through all phases, or was answered without touching objects
         IF s.pc \notin {"untiled", "entered"} THEN Bad(s, "Order")
         ELSE IF ev.lens # s.saved THEN Bad(s, "NoMutationReturn") ELSE Good([s EXCEPT !.pc = "returned", !.len = ev.lens])
    [] ev.p = "raise" ->
         IF s.pc \in {"idle", "returned", "raised"} THEN Bad(s, "Order")
         ELSE IF ev.lens # s.saved THEN Bad([s EXCEPT !.len = ev.lens, !.pc = "raised"], IF s.pc \in InTiled THEN "NoMutationRaiseTiled" ELSE "NoMutationRaise")
         ELSE Good([s EXCEPT !.pc = "raised", !.len = ev.lens])
    [] OTHER -> Bad(s, "UnknownPoint")

\* run a whole logged call
RECURSIVE RunF(_, _, _)
RunF(s, evs, i) == IF i > Len(evs) THEN [ok |-> s.pc \in {"returned", "raised"}, clause |-> (IF s.pc \in {"returned", "raised"} THEN "ok" ELSE "Incomplete"), st |-> s, at |-> i]
                   ELSE LET r == StepF(s, evs[i]) IN
                        IF r.ok THEN RunF(r.st, evs, i + 1) ELSE [ok |-> FALSE, clause |-> r.clause, st |-> r.st, at |-> i]
=============================================================================
