----------------------------- MODULE FieldWrap -----------------------------
(***************************************************************************)
(* Requirement view of getBH_level2 (field_wrap_BH.py): WHAT getB/getH     *)
(* return, as a declarative tensor, on the exact lattice with TAGGED       *)
(* sources.                                                                *)
(*                                                                         *)
(* A leaf source with tag t has the local field  F(t, field, r) in Z^3,    *)
(* an injective polynomial of the local observer position r, so that every *)
(* output element reveals which source, path index, pixel and rotation     *)
(* produced it.  (The harness realises it as CustomSource.field_func.)     *)
(*                                                                         *)
(* call e = [field, sumup, squeeze, agg, sources, sensors]                 *)
(*   sources: Seq(node)   node = [kind |-> "leaf", tag, path]              *)
(*                              | [kind |-> "coll", kids |-> Seq(node)]    *)
(*                              | [kind |-> "sens"]   (a sensor inside a   *)
(*                                 collection used as a source: ignored)   *)
(*   sensors: Seq([path, left, pix |-> Seq(Vec), pixshape |-> Seq(Nat)])   *)
(*   path   : [pos |-> Seq(Vec), ori |-> Seq(Mat)]  (see Path.tla)         *)
(***************************************************************************)
EXTENDS Path

FC(f) == CASE f = "B" -> 1 [] f = "H" -> 2 [] f = "J" -> 3 [] f = "M" -> 4
F(tag, f, r) == LET c == FC(f) * 100 + tag * 1000 IN
                <<c + r[1] + 2 * r[2], c + r[2] * r[3] + 7, c + r[3] - r[1]>>

\* ---- flattening of the source argument: leaves in depth-first order, sensors ignored
RECURSIVE LeavesOf(_)
RECURSIVE LeavesOfSeq(_)
LeavesOfSeq(s) == IF Len(s) = 0 THEN <<>> ELSE LeavesOf(Head(s)) \o LeavesOfSeq(Tail(s))
LeavesOf(n) == IF n.kind = "leaf" THEN <<n>> ELSE IF n.kind = "coll" THEN LeavesOfSeq(n.kids) ELSE <<>>

\* ---- paths: an object whose path is shorter than m stays at its LAST pose (C06)
PosAt(path, m) == path.pos[Min(m, Len(path.pos))]
OriAt(path, m) == path.ori[Min(m, Len(path.ori))]
RECURSIVE MaxLenOf(_)
MaxLenOf(s) == IF Len(s) = 0 THEN 1 ELSE Max(Len(Head(s).path.pos), MaxLenOf(Tail(s)))
M(e) == Max(MaxLenOf(LeavesOfSeq(e.sources)), MaxLenOf(e.sensors))

RECURSIVE SumVecs(_)
SumVecs(s) == IF Len(s) = 0 THEN Zero3 ELSE Add3(Head(s), SumVecs(Tail(s)))

\* ---- global field of one leaf at global point o, path index m (C03: local frame placed in the global frame)
LeafField(lf, f, o, m) ==
    LET r == OriAt(lf.path, m)  p == PosAt(lf.path, m) IN MulMV(r, F(lf.tag, f, MulMV(Tr(r), Sub3(o, p))))

\* ---- C04: the sensor reports the global field at its pixels' global positions, in its own axes;
\*      a left-handed sensor differs only by the sign of the x component
PixelPos(sn, m, px) == Add3(MulMV(OriAt(sn.path, m), px), PosAt(sn.path, m))
InSensorFrame(sn, m, g) == LET b == MulMV(Tr(OriAt(sn.path, m)), g) IN IF sn.left THEN <<-b[1], b[2], b[3]>> ELSE b
\* ---- C05: a (nested) collection is ONE entry whose field is the sum over its leaf sources
Elem(f, entry, m, sn, px) ==
    LET o == PixelPos(sn, m, px)
        lv == LeavesOf(entry)
    IN InSensorFrame(sn, m, SumVecs([i \in 1..Len(lv) |-> LeafField(lv[i], f, o, m)]))

\* ---- C06: element (l, m, k, j) depends on source l, path index m, pixel j of sensor k only
PerSource(e) == [l \in 1..Len(e.sources) |-> [m \in 1..M(e) |-> [k \in 1..Len(e.sensors) |->
                   [j \in 1..Len(e.sensors[k].pix) |-> Elem(e.field, e.sources[l], m, e.sensors[k], e.sensors[k].pix[j])]]]]
SummedUp(e, T) == <<[m \in 1..M(e) |-> [k \in 1..Len(e.sensors) |-> [j \in 1..Len(e.sensors[k].pix) |->
                      SumVecs([l \in 1..Len(e.sources) |-> T[l][m][k][j]])]]]>>

\* ---- pixel aggregation: the named NumPy reduction over the pixels of each sensor, per component.
\*      Results are compared as exact integers: the logged value is den * reduction, den = AggDen.
RECURSIVE SumInts(_)
SumInts(s) == IF Len(s) = 0 THEN 0 ELSE Head(s) + SumInts(Tail(s))
MinOf(s) == CHOOSE x \in {s[i] : i \in DOMAIN s} : \A i \in DOMAIN s : x <= s[i]
MaxOf(s) == CHOOSE x \in {s[i] : i \in DOMAIN s} : \A i \in DOMAIN s : x >= s[i]
\* k-th smallest (1-based) with multiplicity
KthSmallest(s, k) == CHOOSE x \in {s[i] : i \in DOMAIN s} :
        /\ Cardinality({i \in DOMAIN s : s[i] < x}) < k
        /\ Cardinality({i \in DOMAIN s : s[i] <= x}) >= k
AggDen(agg, n) == CASE agg = "mean" -> n [] agg = "median" -> 2 [] agg = "var" -> n * n [] OTHER -> 1
AggNum(agg, s) ==
    LET n == Len(s) IN
    CASE agg = "sum" -> SumInts(s)
      [] agg = "min" -> MinOf(s)
      [] agg = "max" -> MaxOf(s)
      [] agg = "ptp" -> MaxOf(s) - MinOf(s)
      [] agg = "mean" -> SumInts(s)
      [] agg = "median" -> (IF n % 2 = 1 THEN 2 * KthSmallest(s, (n + 1) \div 2)
                            ELSE KthSmallest(s, n \div 2) + KthSmallest(s, n \div 2 + 1))
      [] agg = "var" -> n * SumInts([i \in 1..n |-> s[i] * s[i]]) - SumInts(s) * SumInts(s)
AggPixels(agg, px) ==      \* px: Seq(Vec) over the pixels of one sensor -> one vector (times AggDen)
    <<[c \in 1..3 |-> AggNum(agg, [j \in 1..Len(px) |-> px[j][c]])]>>
Aggregated(e, T) == IF e.agg = "none" THEN T
                    ELSE [l \in 1..Len(T) |-> [m \in 1..Len(T[l]) |-> [k \in 1..Len(T[l][m]) |-> AggPixels(e.agg, T[l][m][k])]]]

\* ---- the full result (order of the implementation: pixel aggregation per source, then sumup)
Expected(e) == LET a == Aggregated(e, PerSource(e)) IN
               IF e.sumup THEN
                  <<[m \in 1..M(e) |-> [k \in 1..Len(e.sensors) |-> [j \in 1..Len(a[1][m][k]) |->
                        SumVecs([l \in 1..Len(e.sources) |-> a[l][m][k][j]])]]]>>
               ELSE a

\* ---- shapes (C06): (sources, path, sensors, pixel shape..., 3); squeeze removes exactly the length-1 axes
AllSamePix(e) == \A k \in 1..Len(e.sensors) : e.sensors[k].pixshape = e.sensors[1].pixshape
PixAxes(e) == IF e.agg # "none" THEN <<1>> ELSE e.sensors[1].pixshape      \* pixshape excludes the trailing 3
FullShape(e) == <<IF e.sumup THEN 1 ELSE Len(e.sources), M(e), Len(e.sensors)>> \o PixAxes(e) \o <<3>>
RECURSIVE DropOnes(_)
DropOnes(s) == IF Len(s) = 0 THEN <<>> ELSE IF Head(s) = 1 THEN DropOnes(Tail(s)) ELSE <<Head(s)>> \o DropOnes(Tail(s))
\* with pixel_agg and squeeze = FALSE the implementation keeps one pixel axis of length 1
ShapeOf(e) == IF e.squeeze THEN DropOnes(FullShape(e)) ELSE FullShape(e)
\* a call is well-formed only if all pixel shapes agree or an aggregator is given
WellFormed(e) == Len(e.sources) >= 1 /\ Len(e.sensors) >= 1 /\ (e.agg # "none" \/ AllSamePix(e))
                 /\ \A l \in 1..Len(e.sources) : Len(LeavesOf(e.sources[l])) >= 1

\* ---- facts about the definition itself (checked by TLC in MC_FieldWrap)
\* C06: the element for (l, m, k, j) equals the element of the call with source l alone and sensor k alone
Alone(e, l, k) == [e EXCEPT !.sources = <<e.sources[l]>>, !.sensors = <<e.sensors[k]>>, !.sumup = FALSE]
ElementIndependent(e) == \A l \in 1..Len(e.sources), k \in 1..Len(e.sensors) :
        LET one == PerSource(Alone(e, l, k)) IN
        \A m \in 1..M(e) : \A j \in 1..Len(e.sensors[k].pix) :
            PerSource(e)[l][m][k][j] = one[1][Min(m, M(Alone(e, l, k)))][1][j]
\* C05: a collection entry equals the sum of its leaves given as separate entries
CollectionIsSum(e) == \A l \in 1..Len(e.sources) :
        LET lv == LeavesOf(e.sources[l])
            split == PerSource([e EXCEPT !.sources = lv])
        IN \A m \in 1..M(e) : \A k \in 1..Len(e.sensors) : \A j \in 1..Len(e.sensors[k].pix) :
              PerSource(e)[l][m][k][j] = SumVecs([i \in 1..Len(lv) |-> split[i][Min(m, Len(split[i]))][k][j]])
=============================================================================
