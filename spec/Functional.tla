----------------------------- MODULE Functional -----------------------------
(***************************************************************************)
(* C07: all interfaces to one computation return the same numbers.         *)
(*                                                                         *)
(* Part 1  the functional interface getX("ClassName", observers, **params) *)
(*         as documented (getB docstring "Functional interface"): every    *)
(*         parameter is given either as ONE parameter set or as n sets;    *)
(*         single sets are tiled to the number of instances; row i of the  *)
(*         result is instance i observed at observer i.                    *)
(* Part 2  the call forms of the object-oriented interface, stated as      *)
(*         selections/sums of the canonical tensor                         *)
(*         T[l][m][k][p] = getX(sources, sensors, squeeze=False).          *)
(***************************************************************************)
EXTENDS Integers, Sequences, FiniteSets, Quant

\* ------------------------------------------------------------ Part 1
\* documented parameters per class (beside observers, position, orientation)
ParamsOf(cls) ==
  CASE cls \in {"Cuboid", "Cylinder", "CylinderSegment"} -> {"dimension", "polarization"}
    [] cls = "Sphere" -> {"diameter", "polarization"}
    [] cls \in {"Tetrahedron", "Triangle"} -> {"vertices", "polarization"}
    [] cls = "TriangularMesh" -> {"mesh", "polarization"}
    [] cls = "Circle" -> {"diameter", "current"}
    [] cls = "Polyline" -> {"segment_start", "segment_end", "current"}
    [] cls = "Dipole" -> {"moment"}
Common == {"observers", "position", "orientation"}
AllParams(cls) == ParamsOf(cls) \cup Common
Classes == {"Cuboid", "Cylinder", "CylinderSegment", "Sphere", "Tetrahedron", "Triangle", "TriangularMesh", "Circle", "Polyline", "Dipole"}

\* given[p] = [multi |-> BOOLEAN, n |-> Nat]: one parameter set (multi = FALSE) or n of them
Lens(given) == {given[p].n : p \in {q \in DOMAIN given : given[q].multi /\ given[q].n > 1}}
\* the number of instances, or 0 when the given lengths are incompatible
Instances(given) == IF Cardinality(Lens(given)) > 1 THEN 0
                    ELSE IF Lens(given) = {} THEN 1 ELSE CHOOSE n \in Lens(given) : TRUE
\* which of the given sets of parameter p instance i uses (1-based)
SetFor(given, p, i) == IF given[p].multi /\ given[p].n > 1 THEN i ELSE 1

\* ------------------------------------------------------------ Part 2
\* canonical tensor T: Seq over sources of Seq over path of Seq over sensors of Seq over pixels of <<x,y,z>> (q12 numbers)
Flat4(T) == \* flatten in (source, path, sensor, pixel, component) order
  LET RECURSIVE Cat(_)
      Cat(s) == IF Len(s) = 0 THEN <<>> ELSE Head(s) \o Cat(Tail(s))
  IN Cat([l \in 1..Len(T) |-> Cat([m \in 1..Len(T[l]) |-> Cat([k \in 1..Len(T[l][m]) |-> Cat([p \in 1..Len(T[l][m][k]) |-> T[l][m][k][p]])])])])
\* sum over sources of q12 numbers, limb-wise (limbs stay far below 2^31 for a handful of sources)
AddQ(a, b) == <<a[1] + b[1], a[2] + b[2]>>
SumSources(T) == <<[m \in 1..Len(T[1]) |-> [k \in 1..Len(T[1][m]) |-> [p \in 1..Len(T[1][m][k]) |-> [c \in 1..3 |->
      LET RECURSIVE S(_)
          S(l) == IF l = 0 THEN <<0, 0>> ELSE AddQ(S(l - 1), T[l][m][k][p][c])
      IN S(Len(T))]]]]>>
\* what each call form must return, as a flat sequence of q12 numbers.
\* T is the tensor of the top-level call WITH the options of the computation (pixel_agg, in_out): options are part of the computation, so every
\* form is called with the same options and the relations below do not mention them.  A Collection is one source: its forms are the same
\* computation as Sum over T only for a linear aggregation (None, mean) and they do not offer in_out (the harness then leaves them out).
\* a call that involves fewer objects may have a shorter path axis (malt entries): it must equal the first malt entries of the
\* canonical tensor, and the canonical tensor must be static beyond (objects with shorter paths stay at their last pose)
ExpectedFlat(T, form, l, k, malt) ==
  CASE form \in {"top", "top_squeeze", "top_positional", "coll_sens", "dataframe"} -> Flat4(T)
    [] form = "src_method" -> Flat4(<<[m \in 1..malt |-> T[l][m]]>>)
    [] form = "sens_method" -> Flat4([s \in 1..Len(T) |-> [m \in 1..malt |-> <<T[s][m][k]>>]])
    [] form = "sens_method_sumup" -> Flat4(<<[m \in 1..malt |-> <<SumSources(T)[1][m][k]>>]>>)
    [] form \in {"sumup", "sumup_positional", "coll_src", "coll_both"} -> Flat4(SumSources(T))
    [] form \in {"functional", "core"} -> Flat4(<<[m \in 1..Len(T[l]) |-> <<T[l][m][k]>>]>>)
\* the documented row order of output='dataframe': source, path, sensor, pixel (0-based path and pixel)
DataframeIndex(T) ==
  LET RECURSIVE Cat(_)
      Cat(s) == IF Len(s) = 0 THEN <<>> ELSE Head(s) \o Cat(Tail(s))
  IN Cat([l \in 1..Len(T) |-> Cat([m \in 1..Len(T[l]) |-> Cat([k \in 1..Len(T[l][m]) |-> [p \in 1..Len(T[l][m][k]) |-> <<l, m - 1, k, p - 1>>]])])])
CloseFlat0(a, b, tol) == Len(a) = Len(b) /\ \A i \in 1..Len(a) :
      Abs(a[i][1] - b[i][1]) <= 2000 /\ Abs((a[i][1] - b[i][1]) * 1000000 + (a[i][2] - b[i][2])) <= tol
\* two flat q12 sequences agree within tol (units of 1e-12 of the gross scale); summed forms may carry limbs out of range: compare by difference
StaticBeyond(T, form, l, k, malt, tol) ==
  CASE form = "src_method" -> \A m \in (malt + 1)..Len(T[l]) : CloseFlat0(Flat4(<<<<T[l][m]>>>>), Flat4(<<<<T[l][malt]>>>>), tol)
    [] form = "sens_method" -> \A s \in 1..Len(T) : \A m \in (malt + 1)..Len(T[s]) : CloseFlat0(Flat4(<<<<<<T[s][m][k]>>>>>>), Flat4(<<<<<<T[s][malt][k]>>>>>>), tol)
    [] OTHER -> TRUE
CloseFlat(a, b, tol) == Len(a) = Len(b) /\ \A i \in 1..Len(a) :
      Abs(a[i][1] - b[i][1]) <= 2000 /\ Abs((a[i][1] - b[i][1]) * 1000000 + (a[i][2] - b[i][2])) <= tol
=============================================================================
