------------------------------- MODULE Heap -------------------------------
(***************************************************************************)
(* copy() of magpylib objects (BaseGeo.copy, class_BaseGeo.py) on an       *)
(* abstract heap.                                                          *)
(*                                                                         *)
(* Objects own mutable CELLS: the position buffer, the orientation buffer, *)
(* each geometry/excitation/pixel buffer, the style object, the dict of    *)
(* pending style kwargs, the children list.  A heap state is a record      *)
(*   st = [kind, parent, srcs, sens, colls,      \* as in Tree.tla         *)
(*         refs,    \* refs[o][slot] = cell id                             *)
(*         val,     \* val[cell]  = abstract content of a value cell       *)
(*         kids,    \* kids[cell] = content of a children-list cell        *)
(*         sty,     \* sty[o] in {"none","pending","init"}: lazy style     *)
(*         lab]     \* lab[o]: label leaf of the style (-1 = None)         *)
(* The children of a collection are the CONTENT of the cell its            *)
(* "_children" slot refers to, so a shared list is visible as such.        *)
(*                                                                         *)
(* Two layers:                                                             *)
(*  (1) OBSERVATIONS and the requirement clauses of property C18 stated on *)
(*      observations only (what a user can see: public values, tree links, *)
(*      the alias graph).  They are evaluated by TLC on every Copy/Mutate  *)
(*      step of the model (MC_Heap) and on every step logged from the real *)
(*      objects (TV_Heap) - the same operators.                            *)
(*  (2) the operational design: CopyF (deep copy of the subtree with the   *)
(*      parent link cut), MutateF/AssignF (writes through / rebinding),     *)
(*      lazy style initialisation, tree edits.  The counter-designs        *)
(*      (a slot copied by reference, parent kept) are parameters of CopyF. *)
(***************************************************************************)
EXTENDS Tree, TLC

KidSlot == "_children"
StySlot == "_style"
KwSlot  == "_style_kwargs"
PathSlots == {"_position", "_orientation"}
\* observation level: attribute names through which the pose path is seen (private slot names in the model,
\* public getter names in logged observations) and attributes that are stored or derived together
PathAttrs == {"_position", "_orientation", "position", "orientation", "barycenter"}
Coupled(a) == IF a \in PathAttrs THEN PathAttrs
              ELSE IF a \in {"polarization", "magnetization"} THEN {"polarization", "magnetization"}
              ELSE IF a \in {"vertices", "dimension", "diameter"} THEN {a, "barycenter", "volume", "centroid"}
              ELSE {a}

MapSeq(f(_), s) == [i \in DOMAIN s |-> f(s[i])]

(***************************************************************************)
(* Layer 1: observations.                                                  *)
(*   ob = [kind, parent, children, srcs, sens, colls,   \* tree, by object *)
(*         refs,      \* alias graph: refs[o][slot] = cell id              *)
(*         pub,       \* pub[o][attr] = public value (label excluded)      *)
(*         lab]       \* lab[o] = label value                              *)
(* All functions have domain = the observed objects (children/srcs/sens/   *)
(* colls: the collections among them).                                     *)
(***************************************************************************)
OObjs(ob) == DOMAIN ob.kind
OColl(ob, o) == o \in OObjs(ob) /\ ob.kind[o] = "C"

\* the subtree of o: o and everything below it (bounded walk, a cycle simply stops)
RECURSIVE OSubN(_, _, _)
OSubN(ob, o, n) == IF n = 0 \/ ~OColl(ob, o) THEN {o}
                   ELSE {o} \cup UNION {OSubN(ob, ob.children[o][i], n - 1) : i \in DOMAIN ob.children[o]}
OSub(ob, o) == OSubN(ob, o, Cardinality(OObjs(ob)))

OwnCells(ob, o) == {ob.refs[o][s] : s \in DOMAIN ob.refs[o]}
CellsOf(ob, S) == UNION {OwnCells(ob, x) : x \in S \cap OObjs(ob)}
\* cells reachable from o through its own slots and its children (never through the parent link)
Reach(ob, o) == CellsOf(ob, OSub(ob, o))
Shared(ob, a, b) == Reach(ob, a) \cap Reach(ob, b)

\* C18 "shares no mutable state": nothing reachable from both, and no object belongs to both subtrees
NoSharing(ob, a, b) == Shared(ob, a, b) = {} /\ OSub(ob, a) \cap OSub(ob, b) = {}
\* the copy's cells are reachable from no object outside the copy, and no two objects of the copy share one
\* (argument nodes A - containers the caller passed to copy() - are judged apart, see ArgumentsNotAliased)
CopyCellsPrivate(ob, c, A) ==
    LET S == OSub(ob, c) IN
    /\ CellsOf(ob, S) \cap CellsOf(ob, (OObjs(ob) \ S) \ A) = {}
    /\ \A x, y \in S : x # y => OwnCells(ob, x) \cap OwnCells(ob, y) = {}

\* C18 "has no parent"
CopyParentless(ob, c) == ob.parent[c] = None
\* ... unless the caller asks for one with the keyword parent=<collection> (par = None: not asked): then the copy is a
\* member of exactly that collection
CopyParentIs(ob, c, par) == ob.parent[c] = par /\ (par # None => OColl(ob, par) /\ Count(ob.children[par], c) = 1)

\* the tree restricted to a set of objects (links leaving the set are kept as they are, so that
\* ForestInv rejects a child or parent outside the set)
TreeOf(ob, S) == [kind |-> [x \in S |-> ob.kind[x]], parent |-> [x \in S |-> ob.parent[x]],
                  children |-> [x \in {y \in S : ob.kind[y] = "C"} |-> ob.children[x]],
                  srcs  |-> [x \in {y \in S : ob.kind[y] = "C"} |-> ob.srcs[x]],
                  sens  |-> [x \in {y \in S : ob.kind[y] = "C"} |-> ob.sens[x]],
                  colls |-> [x \in {y \in S : ob.kind[y] = "C"} |-> ob.colls[x]]]
\* C18 "copies its whole subtree with parent/children links consistent inside the copy":
\* ren maps every object below the original o to its copy; the copy is a forest of its own, consists of new
\* objects only, and is link-for-link the image of the original subtree
\* the copied subtree seen on its own: the link of its root to a collection the caller asked for is judged apart
CopyTree(post, T, r) == LET t == TreeOf(post, T) IN [t EXCEPT !.parent[r] = None]
CopySubtreeForest(pre, post, o, ren) ==
    LET S == OSub(pre, o)
        T == {ren[x] : x \in S}
    IN /\ DOMAIN ren = S
       /\ \A x, y \in S : x # y => ren[x] # ren[y]
       /\ T \cap OObjs(pre) = {}
       /\ T \subseteq OObjs(post)
       /\ OSub(post, ren[o]) = T
       /\ ForestInv(CopyTree(post, T, ren[o]))
       /\ \A x \in S : /\ post.kind[ren[x]] = pre.kind[x]
                       /\ (x # o => post.parent[ren[x]] = ren[pre.parent[x]])
                       /\ (pre.kind[x] = "C" =>
                             /\ Len(post.children[ren[x]]) = Len(pre.children[x])
                             /\ \A i \in DOMAIN pre.children[x] : post.children[ren[x]][i] = ren[pre.children[x][i]])
CopyForestClause(pre, post, o, ren) ==
    LET S == OSub(pre, o)
        T == {ren[x] : x \in S}
    IN IF ~(DOMAIN ren = S /\ T \cap OObjs(pre) = {} /\ T \subseteq OObjs(post)) THEN "CopyObjectsNew"
       ELSE IF OSub(post, ren[o]) # T THEN "CopySubtreeSameMembers"
       ELSE IF ~ForestInv(CopyTree(post, T, ren[o])) THEN "CopyForest_" \o ForestClause(CopyTree(post, T, ren[o]))
       ELSE IF ~CopySubtreeForest(pre, post, o, ren) THEN "CopyLinksImage" ELSE "ok"

\* everything observable about one object except the alias graph
ObjObs(ob, x) == [kind |-> ob.kind[x], parent |-> ob.parent[x], pub |-> ob.pub[x], lab |-> ob.lab[x],
                  children |-> IF ob.kind[x] = "C" THEN ob.children[x] ELSE <<>>,
                  srcs |-> IF ob.kind[x] = "C" THEN ob.srcs[x] ELSE <<>>,
                  sens |-> IF ob.kind[x] = "C" THEN ob.sens[x] ELSE <<>>,
                  colls |-> IF ob.kind[x] = "C" THEN ob.colls[x] ELSE <<>>]
\* C18 "leaves the original tree untouched": copy() is a stuttering step on everything that existed before
Unchanged(pre, post, S) == \A x \in S : x \in OObjs(post) /\ ObjObs(post, x) = ObjObs(pre, x)
OriginalUntouched(pre, post) == Unchanged(pre, post, OObjs(pre))
\* the collection given as parent=... gains the copy as its last child (typed lists alike) and is otherwise as before
ParentJoined(pre, post, par, c) ==
    LET a == ObjObs(pre, par) b == ObjObs(post, par) k == post.kind[c] IN
    b = [a EXCEPT !.children = Append(@, c),
                  !.srcs = IF k = "S" THEN Append(@, c) ELSE @,
                  !.sens = IF k = "X" THEN Append(@, c) ELSE @,
                  !.colls = IF k = "C" THEN Append(@, c) ELSE @]
\* a copy() that is REJECTED (an invalid keyword value) leaves the whole observed heap as it was: the original tree, a
\* collection given as parent, the caller's arguments
RejectedCopyUntouched(pre, post) == Unchanged(pre, post, OObjs(pre)) /\ OObjs(post) = OObjs(pre)
\* Caller-owned ARGUMENT nodes: the containers (style dictionaries, arrays, lists) handed to copy() as keyword values are
\* cells of the caller's heap.  "keyword arguments override attributes of the copy only": copy() leaves them as they
\* were (so that a later copy made with the same containers does not inherit an override given to an earlier one) ...
ArgumentsUntouched(pre, post, A) == Unchanged(pre, post, A \cap OObjs(pre))
\* ... and the copy keeps no reference into them
ArgumentsNotAliased(ob, c, A) == CellsOf(ob, OSub(ob, c)) \cap CellsOf(ob, A) = {}
\* two attribute records agree outside the attributes a keyword is entitled to change
AttrsEqualExcept(a, b, freeAttrs) == DOMAIN a = DOMAIN b /\ \A k \in DOMAIN a : k \notin freeAttrs => a[k] = b[k]

\* C18 "same ... values (apart from the automatically iterated label)"; `free` = the (object, attribute) pairs
\* an override is entitled to change
EqualProjection(pre, post, o, ren, free) ==
    \A x \in OSub(pre, o) :
       /\ AttrsEqualExcept(pre.pub[x], post.pub[ren[x]], {a \in DOMAIN pre.pub[x] : <<x, a>> \in free})
       /\ (x # o => post.lab[ren[x]] = pre.lab[x])
\* C18 "keyword arguments override attributes of the copy only": the copy shows the value given
OverridesApplied(post, c, ovr) == \A a \in DOMAIN ovr : a \in DOMAIN post.pub[c] /\ post.pub[c][a] = ovr[a]

\* C18 "any later change to either is invisible to the other": a step that operates on one side leaves
\* every object of the set `others` exactly as it was, and still unshared
IndependentStep(pre, post, others) == Unchanged(pre, post, others)

(***************************************************************************)
(* Layer 2: the heap and the operational design.                           *)
(***************************************************************************)
HObjs(st) == DOMAIN st.kind
HColl(st, o) == o \in HObjs(st) /\ st.kind[o] = "C"
ChildrenOf(st, c) == st.kids[st.refs[c][KidSlot]]
\* the tree view of a heap (a state record of Tree.tla)
TreeView(st) == [kind |-> st.kind, parent |-> st.parent,
                 children |-> [c \in {x \in HObjs(st) : st.kind[x] = "C"} |-> ChildrenOf(st, c)],
                 srcs |-> st.srcs, sens |-> st.sens, colls |-> st.colls]
HSub(st, o) == {o} \cup (IF HColl(st, o) THEN Desc(TreeView(st), o) ELSE {})

\* the public style value: pending keyword arguments are the style the object will show
PubStyle(st, o) == IF st.sty[o] = "init" THEN st.val[st.refs[o][StySlot]]
                   ELSE IF st.sty[o] = "pending" THEN st.val[st.refs[o][KwSlot]] ELSE 0
ValueSlots(st, o) == DOMAIN st.refs[o] \ {KidSlot, StySlot, KwSlot}
PubOf(st, o) == [a \in ValueSlots(st, o) \cup {StySlot} |->
                    IF a = StySlot THEN PubStyle(st, o) ELSE st.val[st.refs[o][a]]]
ObsOf(st) == [kind |-> st.kind, parent |-> st.parent, children |-> TreeView(st).children,
              srcs |-> st.srcs, sens |-> st.sens, colls |-> st.colls,
              refs |-> st.refs, pub |-> [o \in HObjs(st) |-> PubOf(st, o)], lab |-> st.lab]

\* first access of obj.style: the style object is created and the pending kwargs are applied to it
InitStyleF(st, o) ==
    IF st.sty[o] = "init" THEN st
    ELSE IF st.sty[o] = "pending"
         THEN [st EXCEPT !.sty[o] = "init", !.val[st.refs[o][StySlot]] = st.val[st.refs[o][KwSlot]],
                         !.val[st.refs[o][KwSlot]] = 0]
         ELSE [st EXCEPT !.sty[o] = "init", !.val[st.refs[o][StySlot]] = 0]

\* label iteration (add_iteration_suffix): None -> <Class>_01, x -> x_01, x_07 -> x_08
Iter(l) == IF l < 0 THEN 1 ELSE l + 1

(***************************************************************************)
(* In-place mutation: writes THROUGH the cell (arr[...] = v on the array a *)
(* getter returned; style.leaf = v on the style object).                   *)
(***************************************************************************)
MutateF(st, o, s, v) ==
    IF s = StySlot THEN LET a == InitStyleF(st, o) IN [a EXCEPT !.val[a.refs[o][s]] = v]
    ELSE [st EXCEPT !.val[st.refs[o][s]] = v]

(***************************************************************************)
(* Assignment through a setter / move / rotate: the slot is REBOUND to a   *)
(* new buffer (fresh[<<x, s>>], cells that nobody refers to).  A path      *)
(* operation on a collection rebinds the path slots of the whole subtree   *)
(* (compound motion, property C10).                                        *)
(***************************************************************************)
AssignTargets(st, o, s) == IF s \in PathSlots THEN {<<x, t>> : x \in HSub(st, o), t \in PathSlots}
                           ELSE {<<o, s>>}
AssignF(st, o, s, v, fresh) ==
    LET tg == AssignTargets(st, o, s)
        newc == {fresh[p] : p \in tg}
    IN [st EXCEPT !.refs = [x \in DOMAIN @ |-> [t \in DOMAIN @[x] |-> IF <<x, t>> \in tg THEN fresh[<<x, t>>] ELSE @[x][t]]],
                  !.val = [c \in DOMAIN @ \cup newc |-> IF c \in newc THEN v ELSE @[c]]]
\* cells nobody refers to any more are garbage
HUsed(st) == UNION {{st.refs[o][t] : t \in DOMAIN st.refs[o]} : o \in HObjs(st)}
Collect(st) == [st EXCEPT !.val = [c \in DOMAIN @ \cap HUsed(st) |-> @[c]]]

(***************************************************************************)
(* Tree edits on the heap: `add` extends the children list IN PLACE        *)
(* (self._children += ...), remove deletes from it in place; the typed     *)
(* lists are rebuilt.                                                      *)
(***************************************************************************)
HRecache(st, c) == LET ch == ChildrenOf(st, c) IN
    [st EXCEPT !.srcs[c]  = FilterSeq(ch, LAMBDA x : x \in HObjs(st) /\ st.kind[x] = "S"),
               !.sens[c]  = FilterSeq(ch, LAMBDA x : x \in HObjs(st) /\ st.kind[x] = "X"),
               !.colls[c] = FilterSeq(ch, LAMBDA x : x \in HObjs(st) /\ st.kind[x] = "C")]
HDetach(st, o) == LET p == st.parent[o] IN
    IF p = None \/ ~HColl(st, p) THEN [st EXCEPT !.parent[o] = None]
    ELSE HRecache([st EXCEPT !.parent[o] = None, !.kids[st.refs[p][KidSlot]] = RemoveFirst(@, o)], p)
HAttach(st, c, o) == HRecache([st EXCEPT !.parent[o] = c, !.kids[st.refs[c][KidSlot]] = Append(@, o)], c)
HAddF(st, c, o, ov) ==
    IF AddRejects(TreeView(st), c, o, ov) THEN [ok |-> FALSE, st |-> st]
    ELSE [ok |-> TRUE, st |-> HAttach(HDetach(st, o), c, o)]
HSetParentF(st, o, p) ==
    IF p = None THEN [ok |-> TRUE, st |-> HDetach(st, o)]
    ELSE IF ~HColl(st, p) THEN [ok |-> FALSE, st |-> st]
    ELSE HAddF(st, p, o, TRUE)

(***************************************************************************)
(* copy(keyword overrides)                                                  *)
(*   o        the object copied                                            *)
(*   ovr      function: overridden slot -> new value; the pseudo slot      *)
(*            "label" overrides the label                                  *)
(*   ren      function: HSub(st, o) -> fresh object ids                    *)
(*   newc     function: <<fresh object, slot>> -> fresh cell ids           *)
(*   shallow  COUNTER-DESIGN: slots copied by reference ({} in magpylib)   *)
(*   keepPar  COUNTER-DESIGN: the copy keeps the parent link (FALSE)       *)
(* Design (BaseGeo.copy): deepcopy with the parent link cut, every link    *)
(* inside the subtree redirected to the copies; then, if the original has  *)
(* a style or pending style kwargs, both styles are materialised and the   *)
(* label of the copy is iterated; then the overrides are assigned on the   *)
(* copy through the ordinary setters.                                      *)
(***************************************************************************)
CopyF(st, o, ovr, ren, newc, shallow, keepPar) ==
    LET sub == HSub(st, o)
        new == {ren[x] : x \in sub}
        inv == [y \in new |-> CHOOSE x \in sub : ren[x] = y]
        R(x) == IF x \in sub THEN ren[x] ELSE x
        cell(x, s) == IF s \in shallow THEN st.refs[x][s] ELSE newc[<<ren[x], s>>]
        pairs == UNION {{<<x, s>> : s \in DOMAIN st.refs[x]} : x \in sub}
        vpairs == {p \in pairs : p[2] # KidSlot /\ p[2] \notin shallow}
        kpairs == {p \in pairs : p[2] = KidSlot /\ p[2] \notin shallow}
        vsrc == [c \in {cell(p[1], p[2]) : p \in vpairs} |-> CHOOSE p \in vpairs : cell(p[1], p[2]) = c]
        ksrc == [c \in {cell(p[1], p[2]) : p \in kpairs} |-> CHOOSE p \in kpairs : cell(p[1], p[2]) = c]
        st1 == [kind  |-> [y \in HObjs(st) \cup new |-> IF y \in new THEN st.kind[inv[y]] ELSE st.kind[y]],
                parent |-> [y \in HObjs(st) \cup new |->
                              IF y \notin new THEN st.parent[y]
                              ELSE IF inv[y] = o THEN (IF keepPar THEN st.parent[o] ELSE None)
                              ELSE R(st.parent[inv[y]])],
                srcs  |-> [y \in DOMAIN st.srcs \cup {z \in new : st.kind[inv[z]] = "C"} |->
                              IF y \in new THEN MapSeq(R, st.srcs[inv[y]]) ELSE st.srcs[y]],
                sens  |-> [y \in DOMAIN st.sens \cup {z \in new : st.kind[inv[z]] = "C"} |->
                              IF y \in new THEN MapSeq(R, st.sens[inv[y]]) ELSE st.sens[y]],
                colls |-> [y \in DOMAIN st.colls \cup {z \in new : st.kind[inv[z]] = "C"} |->
                              IF y \in new THEN MapSeq(R, st.colls[inv[y]]) ELSE st.colls[y]],
                refs  |-> [y \in HObjs(st) \cup new |->
                              IF y \in new THEN [s \in DOMAIN st.refs[inv[y]] |-> cell(inv[y], s)] ELSE st.refs[y]],
                val   |-> [c \in DOMAIN st.val \cup DOMAIN vsrc |->
                              IF c \in DOMAIN vsrc THEN st.val[st.refs[vsrc[c][1]][vsrc[c][2]]] ELSE st.val[c]],
                kids  |-> [c \in DOMAIN st.kids \cup DOMAIN ksrc |->
                              IF c \in DOMAIN ksrc THEN MapSeq(R, st.kids[st.refs[ksrc[c][1]][ksrc[c][2]]]) ELSE st.kids[c]],
                sty   |-> [y \in HObjs(st) \cup new |-> IF y \in new THEN st.sty[inv[y]] ELSE st.sty[y]],
                lab   |-> [y \in HObjs(st) \cup new |-> IF y \in new THEN st.lab[inv[y]] ELSE st.lab[y]]]
        c == ren[o]
        \* label iteration: only when the original has a style (or pending kwargs); reads original.style
        st2 == IF st.sty[o] = "none" THEN st1
               ELSE LET a == InitStyleF(InitStyleF(st1, o), c) IN [a EXCEPT !.lab[c] = Iter(st.lab[o])]
        \* overrides, assigned on the copy only
        st3 == IF "label" \in DOMAIN ovr
               THEN LET a == InitStyleF(st2, c) IN [a EXCEPT !.lab[c] = ovr["label"]] ELSE st2
        st4 == IF StySlot \in DOMAIN ovr THEN MutateF(st3, c, StySlot, ovr[StySlot]) ELSE st3
        vs == DOMAIN ovr \ {"label", StySlot}
        \* a path override moves the whole copied subtree (compound motion), in the copy's own cells
        tg == UNION {IF s \in PathSlots THEN {<<x, s>> : x \in HSub(st4, c)} ELSE {<<c, s>>} : s \in vs}
        st5 == [st4 EXCEPT !.val = [k \in DOMAIN @ |->
                   IF \E p \in tg : st4.refs[p[1]][p[2]] = k
                   THEN ovr[(CHOOSE p \in tg : st4.refs[p[1]][p[2]] = k)[2]] ELSE @[k]]]
    IN st5

\* the (object, attribute) pairs of the ORIGINAL subtree whose copies an override may change
FreeByOverride(ob, o, ovr) ==
    UNION {IF a \in PathAttrs THEN {<<x, t>> : x \in OSub(ob, o), t \in PathAttrs}
           ELSE {<<o, t>> : t \in Coupled(a)} : a \in DOMAIN ovr}

(***************************************************************************)
(* copy(...) called with keyword values that live in containers of the     *)
(* caller (node a): for the slots in `slots` the value is read from the    *)
(* cell a refers to; a style template may come with an extra underscore    *)
(* keyword (extra >= 0) that is merged over it.  Design: the copy gets the *)
(* merged VALUE in cells of its own; the caller's cells are neither        *)
(* written nor referenced.  Counter-designs: aliasSlots (the copy refers   *)
(* to the caller's cell), mergeInPlace (the extra keyword is merged into   *)
(* the caller's template, as dict(style) + in-place magic_to_dict does).   *)
(***************************************************************************)
OvrFromArgs(st, a, slots, extra, lab) ==
    [s \in slots \cup (IF lab >= 0 THEN {"label"} ELSE {}) |->
        IF s = "label" THEN lab
        ELSE IF s = StySlot /\ extra >= 0 THEN extra ELSE st.val[st.refs[a][s]]]
CopyWithArgsF(st, o, a, slots, extra, lab, ren, newc, shallow, keepPar, aliasSlots, mergeInPlace) ==
    LET ovr == OvrFromArgs(st, a, slots, extra, lab)
        c == ren[o]
        st1 == CopyF(st, o, ovr, ren, newc, shallow, keepPar)
        al == slots \cap aliasSlots
        st2 == [st1 EXCEPT !.refs[c] = [t \in DOMAIN @ |-> IF t \in al THEN st.refs[a][t] ELSE @[t]]]
        st3 == IF mergeInPlace /\ StySlot \in slots /\ extra >= 0
               THEN [st2 EXCEPT !.val[st.refs[a][StySlot]] = extra] ELSE st2
    IN st3

\* keyword parent=par: the finished copy is added to that collection (the last thing copy() does)
CopyIntoF(st, c, par) == IF par = None THEN st ELSE HAddF(st, par, c, TRUE).st

(***************************************************************************)
(* All C18 clauses about one copy step, on observations; returns the name  *)
(* of the first failing clause or "ok".                                    *)
(***************************************************************************)
CopyClause(pre, post, o, ren, ovr, free, A, par) ==
    LET c == ren[o]
        fc == CopyForestClause(pre, post, o, ren)
    IN IF fc # "ok" THEN fc
       ELSE IF ~CopyParentIs(post, c, par) THEN "CopyParentless"
       ELSE IF Shared(post, o, c) # {} THEN "NoSharing"
       ELSE IF ~CopyCellsPrivate(post, c, A) THEN "CopyCellsPrivate"
       ELSE IF ~Unchanged(pre, post, (OObjs(pre) \ A) \ {par}) THEN "OriginalUntouched"
       ELSE IF par # None /\ ~ParentJoined(pre, post, par, c) THEN "OriginalUntouched"
       ELSE IF ~ArgumentsUntouched(pre, post, A) THEN "ArgumentsUntouched"
       ELSE IF ~EqualProjection(pre, post, o, ren, free) THEN "EqualProjection"
       ELSE IF ~OverridesApplied(post, c, [a \in DOMAIN ovr \ {"label"} |-> ovr[a]]) THEN "OverridesOnlyCopy"
       ELSE IF ~ArgumentsNotAliased(post, c, A) THEN "ArgumentsNotAliased"
       ELSE "ok"

(***************************************************************************)
(* The label rule on real labels (utility.add_iteration_suffix), on the    *)
(* decomposition  label = stem \o <decimal num padded to width>  with      *)
(* width = 0 when the label does not end with a digit; `us`: the label     *)
(* ends with an underscore; `none`: the label is None.  Iter above is its  *)
(* abstraction.  Not stated by property C18 beyond "automatically          *)
(* iterated": judged as conformance only.                                  *)
(***************************************************************************)
Pow10(n) == IF n <= 0 THEN 1 ELSE IF n = 1 THEN 10 ELSE IF n = 2 THEN 100 ELSE IF n = 3 THEN 1000 ELSE IF n = 4 THEN 10000
            ELSE IF n = 5 THEN 100000 ELSE IF n = 6 THEN 1000000 ELSE IF n = 7 THEN 10000000 ELSE 100000000
LabelIterOK(lo, lc, sty, cls) ==
    IF sty = "none" THEN lc.none                           \* no style, nothing to iterate
    ELSE IF lo.none THEN ~lc.none /\ lc.text = cls \o "_01"
    ELSE IF lo.width = 0
         THEN ~lc.none /\ lc.num = 1 /\ lc.width = 2 /\ lc.stem = (IF lo.us THEN lo.stem ELSE lo.stem \o "_")
         ELSE ~lc.none /\ lc.stem = lo.stem /\ lc.num = lo.num + 1
              /\ lc.width = (IF lo.num + 1 >= Pow10(lo.width) THEN lo.width + 1 ELSE lo.width)
=============================================================================
