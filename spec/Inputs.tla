------------------------------- MODULE Inputs -------------------------------
(***************************************************************************)
(* C17 - the DOCUMENTED input format table of magpylib as a total decision *)
(* function.  Sources of every row: the class docstrings ("Parameters")    *)
(* in magpylib/_src/obj_classes/class_*.py and the property docstrings of  *)
(* the setters (quoted at each row), plus the statement of property C17.   *)
(*                                                                         *)
(* A concrete Python value is abstracted to a value descriptor             *)
(*    [kind, shape, entries, geom, ints]                                   *)
(*  kind    "none" | "bool" | "int" | "float" | "str" | "array" (list,     *)
(*          tuple or ndarray of rectangular shape) | "ragged" (nested      *)
(*          sequence that is not rectangular) | "rotation" (scipy          *)
(*          Rotation; shape <<>> = single rotation, <<n>> = stack of n) |  *)
(*          "callable" | "complex" | "object" (anything else)              *)
(*  shape   tuple of extents (<<>> for scalars and 0-d arrays)             *)
(*  entries scalars/arrays of numbers: sign class                          *)
(*             "pos"   all entries > 0                                     *)
(*             "zero"  no entry < 0, at least one entry = 0                *)
(*             "neg"   at least one entry < 0, no entry > 0                *)
(*             "mixed" at least one entry < 0 and at least one > 0         *)
(*             "num"   numeric array of one of the GeomShapes (its         *)
(*                     relevant facts are carried by geom instead)         *)
(*          "oob" (index arrays of `faces` only): non-negative integers   *)
(*          with at least one index that does not address a vertex;       *)
(*          "empty" array with an extent 0; "str" / "none": the array has  *)
(*          an entry that is a (non-numeric) string / None;                *)
(*          str: "right" | "left" | "other";                               *)
(*          callable: what the function answers for field "B" when probed  *)
(*             with observers of shape (n,3) -- its answer for field "H"   *)
(*             is carried by geom --, each one of CallAns:                 *)
(*             "none" (None: this field is not available), "ok" (ndarray   *)
(*             (n,3)), "shape1" (ndarray (n,)), "shape2" (ndarray (n,2)),  *)
(*             "list" (nested list instead of ndarray), "raises";          *)
(*             or "badargs" (first two parameters are not named `field`,   *)
(*             `observers`; geom "na");  otherwise "na"                    *)
(*  geom    for numeric arrays of shape (5,): first matching of            *)
(*          "r1<0","r1>r2","r1=r2","h<0","h=0","phi1>phi2","phi1=phi2",    *)
(*          "dphi>360","ok" read as (r1,r2,h,phi1,phi2); shape (4,3):      *)
(*          "coplanar" | "ok"; shape (3,3): "collinear" | "ok"; else "na"  *)
(*  ints    TRUE iff v is an array all of whose entries are integer-valued *)
(*          numbers (consulted for index arrays only)                      *)
(*                                                                         *)
(* Decide(class, attr, v) = [accept, doc, kind, shape, dtype]              *)
(*  accept  the documented format admits v                                 *)
(*  doc     TRUE iff documentation / property C17 commit to that decision; *)
(*          FALSE where they are silent (zero sizes, bool as number, ...): *)
(*          clauses derived from such rows are tagged "-" by the validator *)
(*  kind, shape, dtype: what is read back after an accepted assignment     *)
(*          (shape after the documented squeeze of a length-1 path)        *)
(***************************************************************************)
EXTENDS Integers, Sequences, FiniteSets

Magnets == {"Cuboid", "Cylinder", "CylinderSegment", "Sphere", "Tetrahedron", "TriangularMesh", "Triangle"}
Classes == Magnets \cup {"Circle", "Polyline", "Dipole", "CustomSource", "Sensor", "Collection"}

\* public attributes per class (constructor arguments with a property of the same name)
Specific(c) == CASE c \in {"Cuboid", "Cylinder", "CylinderSegment"} -> {"dimension"}
                 [] c = "Sphere"         -> {"diameter"}
                 [] c = "Circle"         -> {"diameter", "current"}
                 [] c \in {"Tetrahedron", "Triangle"} -> {"vertices"}
                 [] c = "TriangularMesh" -> {"vertices", "faces"}
                 [] c = "Polyline"       -> {"vertices", "current"}
                 [] c = "Dipole"         -> {"moment"}
                 [] c = "CustomSource"   -> {"field_func"}
                 [] c = "Sensor"         -> {"pixel", "handedness"}
                 [] OTHER                -> {}
Attrs(c) == {"position", "orientation"} \cup Specific(c)
              \cup (IF c \in Magnets THEN {"polarization", "magnetization"} ELSE {})
Pairs == UNION {{<<c, a>> : a \in Attrs(c)} : c \in Classes}
\* TriangularMesh.vertices / .faces are read-only properties: constructor only
CtorOnly(c, a) == c = "TriangularMesh" /\ a \in {"vertices", "faces"}

(***************************************************************************)
(* Descriptor helpers                                                      *)
(***************************************************************************)
D(k, sh, e, g, i) == [kind |-> k, shape |-> sh, entries |-> e, geom |-> g, ints |-> i]
Rank(v) == Len(v.shape)
NumEntries == {"pos", "zero", "neg", "mixed", "num"}
NumArr(v) == v.kind = "array" /\ v.entries \in NumEntries
Vec(v, n) == NumArr(v) /\ v.shape = <<n>>
Mat3(v) == NumArr(v) /\ Rank(v) = 2 /\ v.shape[2] = 3          \* numeric (n,3), n >= 1 (no empty extent)
IsNone(v) == v.kind = "none"
Number(v) == v.kind \in {"int", "float"}
GeomShapes == {<<5>>, <<4, 3>>, <<3, 3>>}
GeomLabels(sh) == CASE sh = <<5>>    -> {"ok", "r1<0", "r1>r2", "r1=r2", "h<0", "h=0", "phi1>phi2", "phi1=phi2", "dphi>360"}
                    [] sh = <<4, 3>> -> {"ok", "coplanar"}
                    [] sh = <<3, 3>> -> {"ok", "collinear"}
                    [] OTHER         -> {"na"}

Acc(doc, kind, shape, dtype) == [accept |-> TRUE, doc |-> doc, kind |-> kind, shape |-> shape, dtype |-> dtype]
Rej(doc) == [accept |-> FALSE, doc |-> doc, kind |-> "na", shape |-> <<>>, dtype |-> "na"]
If(b, S) == IF b THEN S ELSE {}

\* "default=`None`": the documented value for 'not yet set'
NoneAlt(v) == If(IsNone(v), {Acc(TRUE, "none", <<>>, "na")})

(***************************************************************************)
(* The table: for each attribute the set of documented format alternatives *)
(* that admit v (at most one, checked by TLC: MC_Inputs!Deterministic).    *)
(***************************************************************************)
\* "position: array_like, shape (3,) or (m,3)" (all classes); read back through np.squeeze:
\* a path of length 1 reads (3,).  A path has at least one position (m >= 1).
AltPosition(v) ==
       If(Vec(v, 3), {Acc(TRUE, "array", <<3>>, "f")})
  \cup If(Mat3(v), {Acc(TRUE, "array", IF v.shape[1] = 1 THEN <<3>> ELSE v.shape, "f")})

\* "orientation: scipy `Rotation` object with length 1 or m, default=`None`. `None` corresponds to
\* a unit-rotation"; getter: a path of length 1 reads as a single rotation
AltOrientation(v) ==
       If(IsNone(v), {Acc(TRUE, "rotation", <<>>, "na")})
  \cup If(v.kind = "rotation" /\ v.shape = <<>>, {Acc(TRUE, "rotation", <<>>, "na")})
  \cup If(v.kind = "rotation" /\ Len(v.shape) = 1 /\ v.shape[1] >= 1,
          {Acc(TRUE, "rotation", IF v.shape[1] = 1 THEN <<>> ELSE v.shape, "na")})

\* Cuboid "dimension: array_like, shape (3,) ... Length of the cuboid sides [a,b,c]" ; Cylinder "shape (2,) ...
\* diameter and height"; CylinderSegment "shape (5,) ... (r1, r2, h, phi1, phi2) where r1<r2 denote inner and
\* outer radii, phi1<phi2 denote the cylinder section angles" ; C17: negative sizes, r1 above r2, reversed or
\* more than 360 degree range are invalid
AltDimension(c, v) == NoneAlt(v) \cup
    (CASE c = "Cuboid"          -> If(Vec(v, 3) /\ v.entries = "pos", {Acc(TRUE, "array", <<3>>, "f")})
       [] c = "Cylinder"        -> If(Vec(v, 2) /\ v.entries = "pos", {Acc(TRUE, "array", <<2>>, "f")})
       [] c = "CylinderSegment" -> If(Vec(v, 5) /\ v.geom = "ok", {Acc(TRUE, "array", <<5>>, "f")})
       [] OTHER -> {})

\* "diameter: float, default=`None`" (Sphere, Circle; error text: "`None` or a positive number (int, float)")
\* a bool is a Python number: the documentation is silent (doc = FALSE)
AltDiameter(v) == NoneAlt(v)
  \cup If(Number(v) /\ v.entries = "pos", {Acc(TRUE, "float", <<>>, "f")})
  \cup If(v.kind = "bool" /\ v.entries = "pos", {Acc(FALSE, "float", <<>>, "f")})

\* "current: float, default=`None`  Electrical current in units of A" (any sign)
AltCurrent(v) == NoneAlt(v)
  \cup If(Number(v), {Acc(TRUE, "float", <<>>, "f")})
  \cup If(v.kind = "bool", {Acc(FALSE, "float", <<>>, "f")})

\* Tetrahedron "vertices: ndarray, shape (4,3)"; Triangle "vertices: ndarray, shape (3,3)"; Polyline "vertices:
\* array_like, shape (n,3), default=`None` ... At least two vertices must be given"; TriangularMesh "vertices:
\* ndarray, shape (n,3)" (required: MagpylibMissingInput when None).  A flat tetrahedron / degenerate triangle
\* is not excluded by the documentation (doc = FALSE); a closed mesh needs at least 4 vertices (documentation
\* silent: fewer are rejected with doc = FALSE)
AltVertices(c, v) ==
    CASE c = "Tetrahedron"    -> NoneAlt(v) \cup If(NumArr(v) /\ v.shape = <<4, 3>>, {Acc(v.geom = "ok", "array", <<4, 3>>, "f")})
      [] c = "Triangle"       -> NoneAlt(v) \cup If(NumArr(v) /\ v.shape = <<3, 3>>, {Acc(v.geom = "ok", "array", <<3, 3>>, "f")})
      [] c = "Polyline"       -> NoneAlt(v) \cup If(Mat3(v) /\ v.shape[1] >= 2, {Acc(TRUE, "array", v.shape, "f")})
      [] c = "TriangularMesh" -> If(Mat3(v) /\ v.shape[1] >= 4, {Acc(TRUE, "array", v.shape, "f")})
      [] OTHER -> {}

\* TriangularMesh "faces: ndarray, shape (n,3)  Indices of vertices" (non-negative integers; stored as integers)
AltFaces(v) == If(Mat3(v) /\ v.ints /\ v.entries \in {"pos", "zero", "num"}, {Acc(TRUE, "array", v.shape, "i")})

\* "polarization / magnetization: array_like, shape (3,), default=`None`"; "moment: array_like, shape (3,), default=`None`"
AltVector3(v) == NoneAlt(v) \cup If(Vec(v, 3), {Acc(TRUE, "array", <<3>>, "f")})

\* Sensor "pixel: array_like, shape (3,) or (n1,n2,...,3), default=`(0,0,0)`" (constructor default None); the
\* documentation does not say whether an extent may be 0 (doc = FALSE for NumArr excludes it: entries = "empty")
AltPixel(v) == NoneAlt(v)
  \cup If(NumArr(v) /\ Rank(v) >= 1 /\ v.shape[Len(v.shape)] = 3, {Acc(TRUE, "array", v.shape, "f")})
  \cup If(v.kind = "array" /\ v.entries = "empty" /\ Rank(v) >= 2 /\ v.shape[Len(v.shape)] = 3, {Acc(FALSE, "array", v.shape, "f")})

\* Sensor "handedness: {"right", "left"}"
AltHandedness(v) == If(v.kind = "str" /\ v.entries \in {"right", "left"}, {Acc(TRUE, "str", <<>>, "na")})

\* CustomSource "field_func: callable, default=`None` ... must have the two positional arguments `field` and
\* `observers`. With `field='B'` or `field='H'` the B- or H-field ... must be returned respectively ... the returned
\* fields must be numpy ndarrays of shape (n,3)"; None for a field means that this field is not available (getB/getH
\* then raise MagpylibMissingInput).  The decision is PER FIELD: accepted iff every answer that is not None is a
\* valid (n,3) ndarray; a function returning None for both fields is not described (doc = FALSE)
CallAns == {"none", "ok", "shape1", "shape2", "list", "raises"}
AltFieldFunc(v) == NoneAlt(v)
  \cup If(v.kind = "callable" /\ v.entries \in {"none", "ok"} /\ v.geom \in {"none", "ok"},
          {Acc(~(v.entries = "none" /\ v.geom = "none"), "callable", <<>>, "na")})

Alternatives(c, a, v) ==
    CASE a = "position"     -> AltPosition(v)
      [] a = "orientation"  -> AltOrientation(v)
      [] a = "dimension"    -> AltDimension(c, v)
      [] a = "diameter"     -> AltDiameter(v)
      [] a = "current"      -> AltCurrent(v)
      [] a = "vertices"     -> AltVertices(c, v)
      [] a = "faces"        -> AltFaces(v)
      [] a \in {"polarization", "magnetization", "moment"} -> AltVector3(v)
      [] a = "pixel"        -> AltPixel(v)
      [] a = "handedness"   -> AltHandedness(v)
      [] a = "field_func"   -> AltFieldFunc(v)

(***************************************************************************)
(* Rejections the documentation / the property do NOT commit to (doc =     *)
(* FALSE).  Everything else that matches no alternative is malformed.      *)
(***************************************************************************)
Grey(c, a, v) ==
    \* sizes equal to zero: C17 names negative sizes only
    \/ (a = "dimension" /\ c = "Cuboid" /\ Vec(v, 3) /\ v.entries = "zero")
    \/ (a = "dimension" /\ c = "Cylinder" /\ Vec(v, 2) /\ v.entries = "zero")
    \/ (a = "dimension" /\ c = "CylinderSegment" /\ Vec(v, 5) /\ v.geom \in {"r1=r2", "h=0", "phi1=phi2"})
    \/ (a = "diameter" /\ v.kind \in {"int", "float", "bool"} /\ v.entries = "zero")
    \* a 0-d ndarray where a Python number is documented
    \/ (a \in {"diameter", "current"} /\ NumArr(v) /\ v.shape = <<>>)
    \* TriangularMesh: 1..3 vertices, negative face indices
    \/ (a = "vertices" /\ c = "TriangularMesh" /\ Mat3(v) /\ v.shape[1] < 4)
    \/ (a = "faces" /\ Mat3(v) /\ v.entries \in {"neg", "mixed"})
    \* indices given as non-integer numbers (the constructor truncates them)
    \/ (a = "faces" /\ Mat3(v) /\ ~v.ints)
    \* TriangularMesh without any vertex / face (an object that later fails is caught by the `later` clause)
    \/ (a \in {"vertices", "faces"} /\ c = "TriangularMesh" /\ v.kind = "array" /\ v.entries = "empty" /\ Rank(v) = 2 /\ v.shape[2] = 3)
    \* an exception raised by the user's own function while it is probed
    \/ (a = "field_func" /\ v.kind = "callable" /\ (v.entries = "raises" \/ v.geom = "raises"))

Decide(c, a, v) == LET alts == Alternatives(c, a, v) IN
                   IF alts = {} THEN Rej(~Grey(c, a, v)) ELSE CHOOSE d \in alts : TRUE

(***************************************************************************)
(* Documented read-back format per attribute, stated independently of the  *)
(* alternatives above (invariant "stored values satisfy the table").       *)
(***************************************************************************)
Unset == [kind |-> "unset", shape |-> <<>>, dtype |-> "na"]
StoredOf(d) == [kind |-> d.kind, shape |-> d.shape, dtype |-> d.dtype]
FArr(s, sh) == s.kind = "array" /\ s.dtype = "f" /\ s.shape = sh
StNone(s) == s.kind = "none" /\ s.shape = <<>>
StoredOK(c, a, s) ==
    CASE a = "position"    -> s.kind = "array" /\ s.dtype = "f" /\ (s.shape = <<3>> \/ (Len(s.shape) = 2 /\ s.shape[2] = 3 /\ s.shape[1] >= 2))
      [] a = "orientation" -> s.kind = "rotation" /\ (s.shape = <<>> \/ (Len(s.shape) = 1 /\ s.shape[1] >= 2))
      [] a = "dimension"   -> StNone(s) \/ FArr(s, IF c = "Cuboid" THEN <<3>> ELSE IF c = "Cylinder" THEN <<2>> ELSE <<5>>)
      [] a \in {"diameter", "current"} -> StNone(s) \/ (s.kind = "float" /\ s.shape = <<>> /\ s.dtype = "f")
      [] a = "vertices"    -> \/ (StNone(s) /\ c # "TriangularMesh")
                              \/ (s.kind = "array" /\ s.dtype = "f" /\ Len(s.shape) = 2 /\ s.shape[2] = 3
                                  /\ (CASE c = "Tetrahedron" -> s.shape[1] = 4 [] c = "Triangle" -> s.shape[1] = 3
                                        [] c = "Polyline" -> s.shape[1] >= 2 [] OTHER -> s.shape[1] >= 4))
      [] a = "faces"       -> s.kind = "array" /\ s.dtype = "i" /\ Len(s.shape) = 2 /\ s.shape[2] = 3 /\ s.shape[1] >= 1
      [] a \in {"polarization", "magnetization", "moment"} -> StNone(s) \/ FArr(s, <<3>>)
      [] a = "pixel"       -> StNone(s) \/ (s.kind = "array" /\ s.dtype = "f" /\ Len(s.shape) >= 1 /\ s.shape[Len(s.shape)] = 3)
      [] a = "handedness"  -> s.kind = "str" /\ s.shape = <<>>
      [] a = "field_func"  -> StNone(s) \/ (s.kind = "callable" /\ s.shape = <<>>)

(***************************************************************************)
(* One assignment on a tiny object state (one attribute slot of one        *)
(* object): cell = [cls, attr, built, stored, twin].  `via` is "ctor"      *)
(* (only while the object does not exist) or "setter".  twin: for the      *)
(* dependent pair polarization/magnetization, whether the other member is  *)
(* "set" / "none" after the assignment ("na" for every other attribute).   *)
(***************************************************************************)
Paired(a) == a \in {"polarization", "magnetization"}
AssignF(cell, v, via) ==
    LET d == Decide(cell.cls, cell.attr, v) IN
    IF d.accept
    THEN [ok |-> TRUE, cell |-> [cell EXCEPT !.built = TRUE, !.stored = StoredOf(d),
                                             !.twin = IF Paired(cell.attr) THEN (IF d.kind = "none" THEN "none" ELSE "set") ELSE "na"]]
    ELSE [ok |-> FALSE, cell |-> cell]
=============================================================================
