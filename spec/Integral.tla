------------------------------ MODULE Integral ------------------------------
(* Integral laws of magnetostatics on the exact lattice (properties C14 and, indirectly, C01).     *)
(*                                                                                                 *)
(* A law instance is a SCENE (sources with integer geometry, posed by R in the 24 cube rotations  *)
(* and p in Z^3) together with either a closed CELL (flux law) or a closed LOOP (circulation law)  *)
(* given in a CHART adapted to one of the bodies, so that every material surface and every         *)
(* documented formula switch of an adapted body is a coordinate surface with a lattice value:      *)
(*   "cart": X = p + R u                                  (Cuboid, box-like mesh, Polyline)        *)
(*   "cyl" : X = p + R (r cos f, r sin f, z), f = u2*15deg (Cylinder, CylinderSegment, Circle)     *)
(*   "sph" : X = p + R (r sin t cos f, r sin t sin f, r cos t), t = u2*15deg, f = u3*15deg         *)
(*   "aff" : X = p + R (o + (u1 e1 + u2 e2 + u3 e3)/n)    (Tetrahedron, Triangle; face aligned)    *)
(* The specification computes, exactly:  the faces to integrate, the breakpoints where a face or  *)
(* edge is cut by a material/switch surface, the premise (general position: no face lies in a      *)
(* material surface, no wire touches a face or the loop, non-adapted bodies are strictly away),    *)
(* and the right-hand sides: flux = 0, circulation = Sum I * Lk (amperes, integer).               *)
(* The harness only MEASURES the two integrals from getB / getH.                                   *)
EXTENDS Integers, Sequences, FiniteSets, TLC

Abs(x) == IF x < 0 THEN -x ELSE x
Sgn(x) == IF x > 0 THEN 1 ELSE IF x < 0 THEN -1 ELSE 0
Min2(a, b) == IF a < b THEN a ELSE b
Max2(a, b) == IF a > b THEN a ELSE b
SetMin(S) == CHOOSE x \in S : \A y \in S : x <= y
SetMax(S) == CHOOSE x \in S : \A y \in S : x >= y
Range(f) == {f[i] : i \in DOMAIN f}
RECURSIVE SumSeq(_)
SumSeq(s) == IF Len(s) = 0 THEN 0 ELSE Head(s) + SumSeq(Tail(s))
FloorDiv(a, n) == a \div n                       \* n > 0: TLA+ \div rounds towards minus infinity
CeilDiv(a, n) == -((-a) \div n)

(* ---------------------------------------------------------------- vectors and the rotation group *)
Add3(a, b) == <<a[1] + b[1], a[2] + b[2], a[3] + b[3]>>
Sub3(a, b) == <<a[1] - b[1], a[2] - b[2], a[3] - b[3]>>
Neg3(a) == <<-a[1], -a[2], -a[3]>>
Scale3(k, a) == <<k * a[1], k * a[2], k * a[3]>>
Dot3(a, b) == a[1] * b[1] + a[2] * b[2] + a[3] * b[3]
Cross3(a, b) == <<a[2] * b[3] - a[3] * b[2], a[3] * b[1] - a[1] * b[3], a[1] * b[2] - a[2] * b[1]>>
Det3(a, b, c) == Dot3(a, Cross3(b, c))
Norm2(a) == Dot3(a, a)
\* sign of a determinant of large lattice vectors without 32-bit overflow: divide all nine components by their gcd first
RECURSIVE Gcd(_, _)
Gcd(a, b) == IF b = 0 THEN Abs(a) ELSE Gcd(Abs(b), Abs(a) % Abs(b))
GcdV(a) == Gcd(a[1], Gcd(a[2], a[3]))
SgnDet3(a, b, c) == LET g == Gcd(GcdV(a), Gcd(GcdV(b), GcdV(c)))
                        r(v) == IF g = 0 THEN v ELSE <<v[1] \div g, v[2] \div g, v[3] \div g>>
                    IN Sgn(Det3(r(a), r(b), r(c)))
VMin(a, b) == <<Min2(a[1], b[1]), Min2(a[2], b[2]), Min2(a[3], b[3])>>
VMax(a, b) == <<Max2(a[1], b[1]), Max2(a[2], b[2]), Max2(a[3], b[3])>>
Zero3 == <<0, 0, 0>>
Units == {<<1, 0, 0>>, <<-1, 0, 0>>, <<0, 1, 0>>, <<0, -1, 0>>, <<0, 0, 1>>, <<0, 0, -1>>}
Rots == {m \in [1..3 -> Units] : Det3(m[1], m[2], m[3]) = 1}       \* 24 signed permutation matrices
IdM == <<<<1, 0, 0>>, <<0, 1, 0>>, <<0, 0, 1>>>>
MulMV(M, v) == <<Dot3(M[1], v), Dot3(M[2], v), Dot3(M[3], v)>>
Tr(M) == <<<<M[1][1], M[2][1], M[3][1]>>, <<M[1][2], M[2][2], M[3][2]>>, <<M[1][3], M[2][3], M[3][3]>>>>
MulMM(A, B) == LET Bt == Tr(B) IN <<<<Dot3(A[1], Bt[1]), Dot3(A[1], Bt[2]), Dot3(A[1], Bt[3])>>,
                                    <<Dot3(A[2], Bt[1]), Dot3(A[2], Bt[2]), Dot3(A[2], Bt[3])>>,
                                    <<Dot3(A[3], Bt[1]), Dot3(A[3], Bt[2]), Dot3(A[3], Bt[3])>>>>
AbsM(M) == [i \in 1..3 |-> [j \in 1..3 |-> Abs(M[i][j])]]
IsRot(M) == /\ \A i \in 1..3 : M[i] \in Units
            /\ Det3(M[1], M[2], M[3]) = 1

(* ------------------------------------------------------------------------------------ sources *)
(* src == [cls, R, p, dim, exc, verts]   (every field present for every class)                    *)
(*   Cuboid          dim = <<dx,dy,dz>> (even)          exc = polarization                         *)
(*   Cylinder        dim = <<d,h>> (even)               exc = polarization                         *)
(*   CylinderSegment dim = <<r1,r2,h,f1,f2>> h even, f in units of 15 degrees, 0 < f2-f1 <= 24, any turn *)
(*   Sphere          dim = <<d>> (even)                 exc = polarization                         *)
(*   Tetrahedron     verts = 4 local lattice points     exc = polarization                         *)
(*   TriangularMesh  dim = <<dx,dy,dz>>: the 12-triangle mesh of that box (box-like mesh)          *)
(*                   dim = <<>>, verts = <<lo1, hi1, lo2, hi2, ..>>: the closed surface mesh of the *)
(*                   UNION of the lattice boxes [lo_i, hi_i] (non-convex orthogonal bodies: U, L, notch) *)
(*   Triangle        verts = 3 local lattice points     exc = polarization (charged sheet)         *)
(*   Dipole          exc = moment                                                                  *)
(*   Circle          dim = <<d>> (even)                 exc = <<I>>  (counter-clockwise about +z)  *)
(*   Polyline        verts = closed local lattice polygon (first = last), exc = <<I>>              *)
Magnets == {"Cuboid", "Cylinder", "CylinderSegment", "Sphere", "Tetrahedron", "TriangularMesh"}
Currents == {"Circle", "Polyline"}
Classes == Magnets \cup Currents \cup {"Dipole", "Triangle"}
UnionMesh(s) == s.cls = "TriangularMesh" /\ Len(s.dim) = 0
UBox(s, i) == [lo |-> s.verts[2 * i - 1], hi |-> s.verts[2 * i]]                 \* i-th box of a union mesh (local frame)
UCount(s) == Len(s.verts) \div 2
Src(cls, R, p, dim, exc, verts) == [cls |-> cls, R |-> R, p |-> p, dim |-> dim, exc |-> exc, verts |-> verts]
CurrentOf(s) == IF s.cls \in Currents THEN s.exc[1] ELSE 0

VertBox(vs) == LET xs(k) == {vs[i][k] : i \in DOMAIN vs}
               IN [lo |-> <<SetMin(xs(1)), SetMin(xs(2)), SetMin(xs(3))>>,
                   hi |-> <<SetMax(xs(1)), SetMax(xs(2)), SetMax(xs(3))>>]
\* bounding box of a source in its local frame
LocalBox(s) ==
  CASE UnionMesh(s) -> VertBox(s.verts)
    [] s.cls \in {"Cuboid", "TriangularMesh"} ->
         LET h == <<s.dim[1] \div 2, s.dim[2] \div 2, s.dim[3] \div 2>> IN [lo |-> Neg3(h), hi |-> h]
    [] s.cls = "Cylinder" -> LET h == <<s.dim[1] \div 2, s.dim[1] \div 2, s.dim[2] \div 2>> IN [lo |-> Neg3(h), hi |-> h]
    [] s.cls = "CylinderSegment" -> LET h == <<s.dim[2], s.dim[2], s.dim[3] \div 2>> IN [lo |-> Neg3(h), hi |-> h]
    [] s.cls = "Sphere" -> LET h == <<s.dim[1] \div 2, s.dim[1] \div 2, s.dim[1] \div 2>> IN [lo |-> Neg3(h), hi |-> h]
    [] s.cls = "Circle" -> LET h == <<s.dim[1] \div 2, s.dim[1] \div 2, 0>> IN [lo |-> Neg3(h), hi |-> h]
    [] s.cls = "Dipole" -> [lo |-> Zero3, hi |-> Zero3]
    [] OTHER -> VertBox(s.verts)
\* image of a box under x -> p + R x (R is a signed permutation, so the image is again a box)
MoveBox(R, p, b) == LET a == Add3(p, MulMV(R, b.lo)) c == Add3(p, MulMV(R, b.hi))
                    IN [lo |-> VMin(a, c), hi |-> VMax(a, c)]
SrcBox(s) == MoveBox(s.R, s.p, LocalBox(s))                      \* global
Disjoint(a, b) == \E k \in 1..3 : a.hi[k] < b.lo[k] \/ b.hi[k] < a.lo[k]      \* gap of at least one lattice unit
StrictlyIn(a, b) == \A k \in 1..3 : b.lo[k] < a.lo[k] /\ a.hi[k] < b.hi[k]   \* box a strictly inside box b
BoxCorners(b) == {<<x, y, z>> : x \in {b.lo[1], b.hi[1]}, y \in {b.lo[2], b.hi[2]}, z \in {b.lo[3], b.hi[3]}}

WellFormedSrc(s) ==
  /\ s.cls \in Classes /\ IsRot(s.R)
  /\ CASE UnionMesh(s) -> Len(s.verts) >= 2 /\ Len(s.verts) % 2 = 0 /\ \A i \in 1..UCount(s) : \A k \in 1..3 : UBox(s, i).lo[k] < UBox(s, i).hi[k]
       [] s.cls \in {"Cuboid", "TriangularMesh"} -> Len(s.dim) = 3 /\ \A k \in 1..3 : s.dim[k] > 0 /\ s.dim[k] % 2 = 0
       [] s.cls = "Cylinder" -> Len(s.dim) = 2 /\ \A k \in 1..2 : s.dim[k] > 0 /\ s.dim[k] % 2 = 0
       [] s.cls = "CylinderSegment" -> /\ Len(s.dim) = 5 /\ 0 <= s.dim[1] /\ s.dim[1] < s.dim[2] /\ s.dim[3] > 0 /\ s.dim[3] % 2 = 0
                                       /\ s.dim[4] < s.dim[5] /\ s.dim[5] - s.dim[4] <= 24 /\ s.dim[4] >= -72 /\ s.dim[5] <= 72        \* any section angles (the model: within +-3 turns)
       [] s.cls \in {"Sphere", "Circle"} -> Len(s.dim) = 1 /\ s.dim[1] > 0 /\ s.dim[1] % 2 = 0
       [] s.cls = "Tetrahedron" -> Len(s.verts) = 4 /\ SgnDet3(Sub3(s.verts[2], s.verts[1]), Sub3(s.verts[3], s.verts[1]), Sub3(s.verts[4], s.verts[1])) # 0
       [] s.cls = "Triangle" -> Len(s.verts) = 3 /\ Cross3(Sub3(s.verts[2], s.verts[1]), Sub3(s.verts[3], s.verts[1])) # Zero3
       [] s.cls = "Polyline" -> Len(s.verts) >= 4 /\ s.verts[1] = s.verts[Len(s.verts)] /\ \A i \in 1..(Len(s.verts) - 1) : s.verts[i] # s.verts[i + 1]
       [] OTHER -> TRUE
  /\ (s.cls \in Currents => Len(s.exc) = 1)
  /\ (s.cls \notin Currents => Len(s.exc) = 3)

(* ------------------------------------------------------------------------------------- charts *)
Chart(type, R, p, o, e, n) == [type |-> type, R |-> R, p |-> p, o |-> o, e |-> e, n |-> n]
CartChart(R, p) == Chart("cart", R, p, Zero3, IdM, 1)
CylChart(R, p) == Chart("cyl", R, p, Zero3, IdM, 1)
SphChart(R, p) == Chart("sph", R, p, Zero3, IdM, 1)
WellFormedChart(ch) == /\ ch.type \in {"cart", "cyl", "sph", "aff"} /\ IsRot(ch.R) /\ ch.n >= 1
                       /\ SgnDet3(ch.e[1], ch.e[2], ch.e[3]) > 0           \* right-handed: outward normals
                       /\ (ch.type # "aff" => ch.o = Zero3 /\ ch.e = IdM /\ ch.n = 1)
\* which chart axes are linear radii (must be >= 0), polar angles (0..12) and azimuths (period 24)
IsRadius(ch, k) == (ch.type \in {"cyl", "sph"} /\ k = 1)
IsPolar(ch, k) == (ch.type = "sph" /\ k = 2)
IsAzimuth(ch, k) == (ch.type = "cyl" /\ k = 2) \/ (ch.type = "sph" /\ k = 3)
ToFrame(ch, x) == MulMV(Tr(ch.R), Sub3(x, ch.p))          \* global point -> Cartesian coordinates in the chart frame
FrameBox(ch, b) == MoveBox(Tr(ch.R), Neg3(MulMV(Tr(ch.R), ch.p)), b)     \* global box -> chart frame box
\* numerator (times ch.n) of the chart-frame Cartesian point of affine chart coordinates u
AffNum(ch, u) == Add3(Scale3(ch.n, ch.o), Add3(Scale3(u[1], ch.e[1]), Add3(Scale3(u[2], ch.e[2]), Scale3(u[3], ch.e[3]))))
\* chart-frame bounding box of the region spanned by a set of chart points (conservative for curvilinear charts)
RegionFrameBox(ch, pts) ==
  LET c(k) == {u[k] : u \in pts} IN
  CASE ch.type = "cart" -> [lo |-> <<SetMin(c(1)), SetMin(c(2)), SetMin(c(3))>>, hi |-> <<SetMax(c(1)), SetMax(c(2)), SetMax(c(3))>>]
    [] ch.type = "cyl" -> LET r == SetMax(c(1)) IN [lo |-> <<-r, -r, SetMin(c(3))>>, hi |-> <<r, r, SetMax(c(3))>>]
    [] ch.type = "sph" -> LET r == SetMax(c(1)) IN [lo |-> <<-r, -r, -r>>, hi |-> <<r, r, r>>]
    [] ch.type = "aff" -> LET N == {AffNum(ch, u) : u \in pts}
                              d(k) == {x[k] : x \in N}
                          IN [lo |-> <<FloorDiv(SetMin(d(1)), ch.n), FloorDiv(SetMin(d(2)), ch.n), FloorDiv(SetMin(d(3)), ch.n)>>,
                              hi |-> <<CeilDiv(SetMax(d(1)), ch.n), CeilDiv(SetMax(d(2)), ch.n), CeilDiv(SetMax(d(3)), ch.n)>>]
RegionBox(ch, pts) == MoveBox(ch.R, ch.p, RegionFrameBox(ch, pts))          \* global
CellCorners(lo, hi) == {<<x, y, z>> : x \in {lo[1], hi[1]}, y \in {lo[2], hi[2]}, z \in {lo[3], hi[3]}}

(* --------------------------------------------------- adapted bodies: material and switch surfaces *)
SameFrame(s, ch) == s.R = ch.R /\ s.p = ch.p
\* index i0 such that the affine chart is anchored at vertex i0 of a Tetrahedron / Triangle with edges to the other vertices
AffAnchored(s, ch) ==
  /\ ch.type = "aff" /\ SameFrame(s, ch)
  /\ \E i \in DOMAIN s.verts : ch.o = s.verts[i]
  /\ LET others == {Sub3(s.verts[j], ch.o) : j \in DOMAIN s.verts} \ {Zero3} IN
       IF s.cls = "Tetrahedron" THEN {ch.e[1], ch.e[2], ch.e[3]} = others
       ELSE {ch.e[1], ch.e[2]} = others                                      \* Triangle: plane u3 = 0
Adapted(s, ch) ==
  CASE s.cls \in {"Cuboid", "TriangularMesh", "Polyline"} -> ch.type = "cart"
    [] s.cls \in {"Cylinder", "CylinderSegment", "Circle"} -> ch.type = "cyl" /\ SameFrame(s, ch)
    [] s.cls \in {"Sphere", "Dipole"} -> ch.type = "sph" /\ s.p = ch.p
    [] s.cls \in {"Tetrahedron", "Triangle"} -> AffAnchored(s, ch)
    [] OTHER -> FALSE
Turns == {-96, -72, -48, -24, 0, 24, 48, 72, 96}
Periodic(S) == UNION {{x + t : t \in Turns} : x \in S}
None3 == <<{}, {}, {}>>
\* material surfaces (discontinuities of B or H) of an adapted body, as coordinate values per chart axis
Surf(s, ch) ==
  CASE UnionMesh(s) ->                   \* the planes of all box faces (those inside the union are harmless extra breakpoints)
         LET fb(i) == FrameBox(ch, MoveBox(s.R, s.p, UBox(s, i))) IN [k \in 1..3 |-> UNION {{fb(i).lo[k], fb(i).hi[k]} : i \in 1..UCount(s)}]
    [] s.cls \in {"Cuboid", "TriangularMesh"} ->
         LET c == ToFrame(ch, s.p)
             h == MulMV(AbsM(MulMM(Tr(ch.R), s.R)), <<s.dim[1] \div 2, s.dim[2] \div 2, s.dim[3] \div 2>>)
         IN [k \in 1..3 |-> {c[k] - h[k], c[k] + h[k]}]
    [] s.cls = "Cylinder" -> <<{s.dim[1] \div 2}, {}, {-(s.dim[2] \div 2), s.dim[2] \div 2}>>
    [] s.cls = "CylinderSegment" -> <<{s.dim[1], s.dim[2]} \ {0},
                                      IF s.dim[5] - s.dim[4] = 24 THEN {} ELSE Periodic({s.dim[4], s.dim[5]}),
                                      {-(s.dim[3] \div 2), s.dim[3] \div 2}>>
    [] s.cls = "Sphere" -> <<{s.dim[1] \div 2}, {}, {}>>
    [] s.cls = "Tetrahedron" -> <<{0}, {0}, {0}>>                            \* + the oblique face u1+u2+u3 = n
    [] s.cls = "Triangle" -> <<{}, {}, {0}>>
    [] OTHER -> None3
\* documented value-dependent formula switches of an adapted body that are coordinate surfaces of the chart.
\* (file:line of /repo/magpylib/_src/fields at the pinned tree)
\*  Cuboid   field_BH_cuboid.py:86-93     octant masks x<0, y>0, z>0  -> planes through the centre
\*           field_BH_cuboid.py:237-245   on-surface / inside masks    -> face planes (material, in Surf)
\*  Cylinder field_BH_cylinder.py:164     r/r0 < 0.05 Taylor branch   -> r = d/40 (a lattice value when 40 | d)
\*           field_BH_cylinder.py:241     r = r0 indefinite form      -> hull (Surf)
\*           field_BH_cylinder.py:322-324 |z| <= z0, r <= 1 inside     -> bases, hull (Surf)
\*  CylinderSegment field_BH_cylinder_segment.py:48-99 determine_cases: z = z_k (planes of both bases, everywhere),
\*           phi - phi_j = n*pi (both half planes of each section angle), r = r_i (both hulls, everywhere), r = 0, r_i = 0
\*           field_BH_cylinder_segment.py:2396-2414 inside / surface masks (Surf)
\*           field_BH_cylinder_segment.py:2320-2345 (phi2 - phi1) < 360 -> full-cylinder fall-back
\*  Sphere   field_BH_sphere.py:88        r > r_sphere                -> Surf
\*  Circle   field_BH_circle.py:133-137   r = 0 axis branch, r = r0 & z = 0 singular (loop plane z = 0 is the symmetry plane)
\*  Polyline field_BH_polyline.py:176     on-line mask;  :207-213 foot point beyond an end point -> the planes through the
\*           two end points perpendicular to the segment (coordinate planes for axis-parallel segments)
\*  Triangle field_BH_triangle.py:70      |solid angle| > 2 pi fix (triangle plane); :161 ind > 1e-12 (edge lines)
\*  Tetrahedron field_BH_tetrahedron.py:40-48 chirality swap; :61-65 point_inside -> face planes (Surf)
\*  TriangularMesh field_BH_triangularmesh.py:434-496 enclosing box, ray test -> box planes (Surf) for box-like meshes
AxisPar(a, b) == Cardinality({k \in 1..3 : a[k] # b[k]}) = 1
Switch(s, ch) ==
  CASE UnionMesh(s) -> None3
    [] s.cls \in {"Cuboid", "TriangularMesh"} -> LET c == ToFrame(ch, s.p) IN [k \in 1..3 |-> {c[k]}]
    [] s.cls = "Cylinder" -> <<IF s.dim[1] % 40 = 0 THEN {s.dim[1] \div 40} ELSE {}, {}, {}>>
    [] s.cls = "CylinderSegment" -> <<{}, IF s.dim[5] - s.dim[4] = 24 THEN {} ELSE Periodic({s.dim[4] + 12, s.dim[5] + 12, s.dim[4] - 12, s.dim[5] - 12}), {}>>
    [] s.cls = "Circle" -> <<{s.dim[1] \div 2}, {}, {0}>>
    [] s.cls = "Polyline" ->
         LET g(i) == ToFrame(ch, Add3(s.p, MulMV(s.R, s.verts[i])))
             ends(k) == UNION {IF AxisPar(g(i), g(i + 1)) /\ g(i)[k] # g(i + 1)[k] THEN {g(i)[k], g(i + 1)[k]} ELSE {} : i \in 1..(Len(s.verts) - 1)}
         IN [k \in 1..3 |-> ends(k)]
    [] s.cls = "Triangle" -> <<{0}, {0}, {}>>                               \* two of the three edge lines
    [] OTHER -> None3
AllCuts(scene, ch) == [k \in 1..3 |-> UNION {IF Adapted(scene[i], ch) THEN Surf(scene[i], ch)[k] \cup Switch(scene[i], ch)[k] ELSE {} : i \in DOMAIN scene}]
AllSurf(scene, ch) == [k \in 1..3 |-> UNION {IF Adapted(scene[i], ch) THEN Surf(scene[i], ch)[k] ELSE {} : i \in DOMAIN scene}]

(* ---------------------------------------------------------------------------------- flux cells *)
(* cell: lo, hi (chart coordinates), full[k] = the azimuth k runs once around (no faces on that axis) *)
WellFormedCell(ch, lo, hi, full) ==
  /\ \A k \in 1..3 : lo[k] < hi[k]
  /\ \A k \in 1..3 : (IsRadius(ch, k) => lo[k] >= 0) /\ (IsPolar(ch, k) => lo[k] >= 0 /\ hi[k] <= 12)
  /\ \A k \in 1..3 : IF full[k] THEN IsAzimuth(ch, k) /\ hi[k] - lo[k] = 24 ELSE (IsAzimuth(ch, k) => hi[k] - lo[k] < 24)
\* faces with non-zero area: <<axis, side, value>>
DegenerateFace(ch, k, v) == (IsRadius(ch, k) /\ v = 0) \/ (IsPolar(ch, k) /\ v \in {0, 12})
Faces(ch, lo, hi, full) ==
  LET cand == <<<<1, -1, lo[1]>>, <<1, 1, hi[1]>>, <<2, -1, lo[2]>>, <<2, 1, hi[2]>>, <<3, -1, lo[3]>>, <<3, 1, hi[3]>>>>
  IN SelectSeq(cand, LAMBDA f : ~full[f[1]] /\ ~DegenerateFace(ch, f[1], f[3]))
CellBreaks(scene, ch, lo, hi) == LET c == AllCuts(scene, ch) IN [k \in 1..3 |-> {x \in c[k] : lo[k] < x /\ x < hi[k]}]
FullBall(ch, lo, hi, full) == ch.type = "sph" /\ lo[1] = 0 /\ lo[2] = 0 /\ hi[2] = 12 /\ full[3]
FullRod(ch, lo, full) == ch.type = "cyl" /\ lo[1] = 0 /\ full[2]
\* the source (its bounding box) lies strictly inside the cell
Enclosed(s, ch, lo, hi, full) ==
  LET b == FrameBox(ch, SrcBox(s)) IN
  CASE ch.type = "cart" -> StrictlyIn(b, [lo |-> lo, hi |-> hi])
    [] FullRod(ch, lo, full) -> (\A c \in BoxCorners(b) : c[1] * c[1] + c[2] * c[2] < hi[1] * hi[1]) /\ lo[3] < b.lo[3] /\ b.hi[3] < hi[3]
    [] FullBall(ch, lo, hi, full) -> \A c \in BoxCorners(b) : Norm2(c) < hi[1] * hi[1]
    [] OTHER -> FALSE
Away(s, ch, lo, hi) == Disjoint(SrcBox(s), RegionBox(ch, CellCorners(lo, hi)))
FacesOff(S, lo, hi) == \A k \in 1..3 : lo[k] \notin S[k] /\ hi[k] \notin S[k]
\* adapted body: no face of the cell lies in a material surface, the oblique face stays outside, no body edge in a face
AdaptedFluxOK(s, ch, lo, hi, full) ==
  /\ FacesOff(Surf(s, ch), lo, hi)
  /\ (s.cls = "Tetrahedron" => (hi[1] + hi[2] + hi[3] < ch.n \/ lo[1] + lo[2] + lo[3] > ch.n))
  /\ (s.cls = "Triangle" => (hi[3] < 0 \/ lo[3] > 0 \/ hi[1] < 0 \/ hi[2] < 0 \/ lo[1] + lo[2] > ch.n))     \* never cuts the charged sheet
  /\ (s.cls = "CylinderSegment" /\ s.dim[1] = 0 /\ s.dim[5] - s.dim[4] < 24 => (lo[1] > 0 \/ full[2]))    \* the axis is a body edge
  /\ (s.cls = "Dipole" => (lo[1] > 0 \/ FullBall(ch, lo, hi, full)))
  /\ (s.cls = "Circle" => LET r0 == s.dim[1] \div 2 IN
        \/ ~(lo[1] <= r0 /\ r0 <= hi[1] /\ lo[3] <= 0 /\ 0 <= hi[3])                                         \* wire outside the closed cell
        \/ (full[2] /\ lo[1] < r0 /\ r0 < hi[1] /\ lo[3] < 0 /\ 0 < hi[3]))                                   \* wire strictly inside
  /\ (s.cls = "Polyline" =>                                                                                    \* every segment strictly inside or strictly outside
        LET g(i) == ToFrame(ch, Add3(s.p, MulMV(s.R, s.verts[i])))
            cb == [lo |-> lo, hi |-> hi]
        IN \/ \A i \in DOMAIN s.verts : StrictlyIn([lo |-> g(i), hi |-> g(i)], cb)
           \/ \A i \in 1..(Len(s.verts) - 1) : Disjoint([lo |-> VMin(g(i), g(i + 1)), hi |-> VMax(g(i), g(i + 1))], cb))
SrcFluxOK(s, ch, lo, hi, full) ==
  \/ (Adapted(s, ch) /\ AdaptedFluxOK(s, ch, lo, hi, full))
  \/ Away(s, ch, lo, hi)
  \/ Enclosed(s, ch, lo, hi, full)
FluxPremise(scene, ch, lo, hi, full) ==
  /\ WellFormedChart(ch) /\ WellFormedCell(ch, lo, hi, full)
  /\ \A i \in DOMAIN scene : WellFormedSrc(scene[i]) /\ SrcFluxOK(scene[i], ch, lo, hi, full)
\* coverage class of a cell with respect to one body: "free" | "inside" | "cut" | "encloses"
InsideAdapted(s, ch, lo, hi) ==
  LET S == Surf(s, ch) IN
  CASE UnionMesh(s) -> \E i \in 1..UCount(s) : StrictlyIn([lo |-> lo, hi |-> hi], FrameBox(ch, MoveBox(s.R, s.p, UBox(s, i))))
    [] s.cls \in {"Cuboid", "TriangularMesh"} -> \A k \in 1..3 : SetMin(S[k]) < lo[k] /\ hi[k] < SetMax(S[k])
    [] s.cls = "Cylinder" -> hi[1] < s.dim[1] \div 2 /\ -(s.dim[2] \div 2) < lo[3] /\ hi[3] < s.dim[2] \div 2
    [] s.cls = "CylinderSegment" -> s.dim[1] < lo[1] /\ hi[1] < s.dim[2] /\ -(s.dim[3] \div 2) < lo[3] /\ hi[3] < s.dim[3] \div 2
                                     /\ (s.dim[5] - s.dim[4] = 24 \/ \E j \in Turns : s.dim[4] + j < lo[2] /\ hi[2] < s.dim[5] + j)
    [] s.cls = "Sphere" -> hi[1] < s.dim[1] \div 2
    [] s.cls = "Tetrahedron" -> lo[1] > 0 /\ lo[2] > 0 /\ lo[3] > 0 /\ hi[1] + hi[2] + hi[3] < ch.n
    [] OTHER -> FALSE
CutClass(s, ch, lo, hi, full) ==
  IF Enclosed(s, ch, lo, hi, full) THEN "encloses"
  ELSE IF ~Adapted(s, ch) THEN "free"
  ELSE IF InsideAdapted(s, ch, lo, hi) THEN "inside"
  ELSE IF \E k \in 1..3 : \E x \in Surf(s, ch)[k] : lo[k] < x /\ x < hi[k] THEN "cut"
  ELSE "free"

(* --------------------------------------------------------------------------------------- loops *)
(* loop: sequence of edges <<a, b>> in chart coordinates; straight in the chart (one coordinate   *)
(* varies per edge in the curvilinear charts: arcs, rays, meridians); closed modulo the chart's   *)
(* identifications (azimuth period 24, axis, poles).  A ring is the single edge <<(r,0,z),(r,24,z)>>. *)
VaryAxes(a, b) == {k \in 1..3 : a[k] # b[k]}
Equiv(ch, u, v) ==
  CASE ch.type = "cyl" -> u[1] = v[1] /\ u[3] = v[3] /\ (u[1] = 0 \/ (u[2] - v[2]) % 24 = 0)
    [] ch.type = "sph" -> u[1] = v[1] /\ (u[1] = 0 \/ (u[2] = v[2] /\ (u[2] \in {0, 12} \/ (u[3] - v[3]) % 24 = 0)))
    [] OTHER -> u = v
WellFormedLoop(ch, edges) ==
  LET n == Len(edges) IN
  /\ n >= 1
  /\ \A i \in 1..n : LET a == edges[i][1] b == edges[i][2] IN
       /\ a # b
       /\ (ch.type \in {"cyl", "sph"} => Cardinality(VaryAxes(a, b)) = 1)
       /\ \A k \in 1..3 : /\ (IsRadius(ch, k) => a[k] >= 0 /\ b[k] >= 0)
                          /\ (IsPolar(ch, k) => a[k] >= 0 /\ a[k] <= 12 /\ b[k] >= 0 /\ b[k] <= 12)
                          /\ (IsAzimuth(ch, k) => Abs(a[k] - b[k]) <= 24)
       \* no degenerate (zero length) edges on the axis / at the poles
       /\ (ch.type = "cyl" /\ VaryAxes(a, b) = {2} => a[1] > 0)
       /\ (ch.type = "sph" /\ VaryAxes(a, b) = {2} => a[1] > 0)
       /\ (ch.type = "sph" /\ VaryAxes(a, b) = {3} => a[1] > 0 /\ a[2] \notin {0, 12})
       /\ Equiv(ch, b, edges[(i % n) + 1][1])
LoopVerts(edges) == {edges[i][1] : i \in DOMAIN edges} \cup {edges[i][2] : i \in DOMAIN edges}
Frac(num, den) == IF den < 0 THEN <<-num, -den>> ELSE <<num, den>>
\* parameters t in (0,1) at which edge a->b crosses a material or switch surface of an adapted body
EdgeBreaks(scene, ch, a, b) ==
  LET c == AllCuts(scene, ch)
      axis(k) == IF a[k] = b[k] THEN {} ELSE {Frac(x - a[k], b[k] - a[k]) : x \in {x \in c[k] : (a[k] < x /\ x < b[k]) \/ (b[k] < x /\ x < a[k])}}
      sa == a[1] + a[2] + a[3]
      sb == b[1] + b[2] + b[3]
      obl == IF (\E i \in DOMAIN scene : scene[i].cls = "Tetrahedron" /\ Adapted(scene[i], ch)) /\ ((sa < ch.n /\ ch.n < sb) \/ (sb < ch.n /\ ch.n < sa))
             THEN {Frac(ch.n - sa, sb - sa)} ELSE {}
  IN axis(1) \cup axis(2) \cup axis(3) \cup obl
LoopBreaks(scene, ch, edges) == [i \in DOMAIN edges |-> EdgeBreaks(scene, ch, edges[i][1], edges[i][2])]
SameFracs(A, B) == /\ \A x \in A : \E y \in B : x[1] * y[2] = y[1] * x[2]
                   /\ \A y \in B : \E x \in A : x[1] * y[2] = y[1] * x[2]
AwayLoop(s, ch, edges) == Disjoint(SrcBox(s), RegionBox(ch, LoopVerts(edges)))
\* no edge lies inside a material surface of the adapted body
EdgesOffSurf(s, ch, edges) ==
  \A i \in DOMAIN edges : LET a == edges[i][1] b == edges[i][2] IN
    /\ \A k \in 1..3 : a[k] = b[k] => a[k] \notin Surf(s, ch)[k]
    /\ (s.cls = "Tetrahedron" => ~(a[1] + a[2] + a[3] = ch.n /\ b[1] + b[2] + b[3] = ch.n))

\* exact: do the closed lattice segments AB and CD have a common point?
Between(x, a, b) == (a <= x /\ x <= b) \/ (b <= x /\ x <= a)
SegTouch(A, B, C, D) ==
  LET u == Sub3(B, A) v == Sub3(D, C) w == Sub3(C, A) IN
  IF Det3(u, v, w) # 0 THEN FALSE                                   \* skew lines
  ELSE LET n == Cross3(u, v) IN
       IF n # Zero3 THEN                                            \* coplanar, not parallel: project along an axis with n[k] # 0
            LET k == CHOOSE k \in 1..3 : n[k] # 0
                i == (k % 3) + 1
                j == ((k + 1) % 3) + 1
                den == u[i] * v[j] - u[j] * v[i]
                tn == w[i] * v[j] - w[j] * v[i]                     \* t = tn/den on AB
                sn == w[i] * u[j] - w[j] * u[i]                     \* s = sn/den on CD
            IN /\ Sgn(tn) * Sgn(den) >= 0 /\ Abs(tn) <= Abs(den)
               /\ Sgn(sn) * Sgn(den) >= 0 /\ Abs(sn) <= Abs(den)
       ELSE IF Cross3(u, w) # Zero3 THEN FALSE                      \* parallel, not collinear
       ELSE LET k == CHOOSE k \in 1..3 : u[k] # 0                   \* collinear: overlap of the closed intervals
            IN Between(C[k], A[k], B[k]) \/ Between(D[k], A[k], B[k]) \/ Between(A[k], C[k], D[k])
PointOnSeg(P, A, B) == Cross3(Sub3(B, A), Sub3(P, A)) = Zero3 /\ \A k \in 1..3 : Between(P[k], A[k], B[k])

\* vertices of a source's wire / loop vertices in the chart frame (cart chart only)
WireInFrame(s, ch) == [i \in DOMAIN s.verts |-> ToFrame(ch, Add3(s.p, MulMV(s.R, s.verts[i])))]
\* loop edges expressed in the local frame of source s (cart chart only)
InSrcFrame(s, ch, u) == MulMV(Tr(s.R), Sub3(Add3(ch.p, MulMV(ch.R, u)), s.p))
CoordBound(pts, B) == \A u \in pts : \A k \in 1..3 : Abs(u[k]) <= B
\* a straight edge a->b (circle-local coordinates) has no point on the circle of radius r0 in the plane z = 0
EdgeOffCircle(a, b, r0) ==
  IF Sgn(a[3]) * Sgn(b[3]) = 1 THEN TRUE
  ELSE IF a[3] = 0 /\ b[3] = 0 THEN                                   \* in the plane: both ends strictly inside, or the edge box misses the disc box
         \/ (a[1] * a[1] + a[2] * a[2] < r0 * r0 /\ b[1] * b[1] + b[2] * b[2] < r0 * r0)
         \/ Max2(a[1], b[1]) < -r0 \/ Min2(a[1], b[1]) > r0 \/ Max2(a[2], b[2]) < -r0 \/ Min2(a[2], b[2]) > r0
  ELSE LET dz == b[3] - a[3]
           px == a[1] * dz - a[3] * (b[1] - a[1])
           py == a[2] * dz - a[3] * (b[2] - a[2])
       IN IF a[1] = b[1] /\ a[2] = b[2] THEN a[1] * a[1] + a[2] * a[2] # r0 * r0
          ELSE px * px + py * py # r0 * r0 * dz * dz
\* signed crossing of the disc (normal +z) by the edge a->b, half-open rule for vertices in the plane
DiscCross(a, b, r0) ==
  LET up == a[3] < 0 /\ 0 <= b[3]
      dn == b[3] < 0 /\ 0 <= a[3]
      dz == b[3] - a[3]
      px == a[1] * dz - a[3] * (b[1] - a[1])
      py == a[2] * dz - a[3] * (b[2] - a[2])
      inside == IF a[1] = b[1] /\ a[2] = b[2] THEN a[1] * a[1] + a[2] * a[2] < r0 * r0
                ELSE px * px + py * py < r0 * r0 * dz * dz
  IN IF (up \/ dn) /\ inside THEN (IF up THEN 1 ELSE -1) ELSE 0
\* general straight edges need quartic terms: coordinates are bounded so that they fit 32 bits
CircleSmall(s, ch, edges) ==
  \/ \A i \in DOMAIN edges : Cardinality(VaryAxes(InSrcFrame(s, ch, edges[i][1]), InSrcFrame(s, ch, edges[i][2]))) = 1
  \/ (s.dim[1] \div 2 <= 70 /\ CoordBound({InSrcFrame(s, ch, u) : u \in LoopVerts(edges)}, 70))
\* cylinder chart of the circle itself: the wire is the point (r0, 0) of the (r, z) half plane
CylEdgeOffWire(a, b, r0) ==
  CASE a[1] # b[1] -> ~(a[3] = 0 /\ Between(r0, a[1], b[1]))
    [] a[3] # b[3] -> ~(a[1] = r0 /\ Between(0, a[3], b[3]))
    [] OTHER -> ~(a[1] = r0 /\ a[3] = 0)
\* winding number (counter-clockwise, r to the right, z up) of the projected loop around (r0, 0); ray towards +r, half-open rule
CylWinding(edges, r0) ==
  SumSeq([i \in DOMAIN edges |->
     LET a == edges[i][1] b == edges[i][2] IN
     IF a[1] = b[1] /\ a[1] > r0 THEN (IF a[3] < 0 /\ 0 <= b[3] THEN 1 ELSE IF b[3] < 0 /\ 0 <= a[3] THEN -1 ELSE 0) ELSE 0])

\* --- closed lattice polygon (loop) against closed lattice polyline (wire): fan of triangles from the first loop vertex
FanSign(v1, v2, v3, c, d) ==            \* signed crossing of triangle (v1,v2,v3) by segment c->d; 2 = not in general position
  LET n == Cross3(Sub3(v2, v1), Sub3(v3, v1))
      sc == Sgn(Dot3(n, Sub3(c, v1)))
      sd == Sgn(Dot3(n, Sub3(d, v1)))
  IN IF sc = 0 \/ sd = 0 THEN 2
     ELSE IF sc = sd THEN 0
     ELSE LET e == Sub3(d, c)
              o1 == Sgn(Det3(e, Sub3(v1, c), Sub3(v2, c)))
              o2 == Sgn(Det3(e, Sub3(v2, c), Sub3(v3, c)))
              o3 == Sgn(Det3(e, Sub3(v3, c), Sub3(v1, c)))
          IN IF o1 = 0 \/ o2 = 0 \/ o3 = 0 THEN 2
             ELSE IF o1 = o2 /\ o2 = o3 THEN sd ELSE 0
FanPairs(V, W) == {<<i, j>> : i \in 2..(Len(V) - 1), j \in 1..(Len(W) - 1)}
FanGeneric(V, W) == \A q \in FanPairs(V, W) : FanSign(V[1], V[q[1]], V[q[1] + 1], W[q[2]], W[q[2] + 1]) # 2
LkPoly(V, W) == SumSeq([i \in 1..(Len(V) - 2) |-> SumSeq([j \in 1..(Len(W) - 1) |-> FanSign(V[1], V[i + 1], V[i + 2], W[j], W[j + 1])])])
LoopSeq(edges) == [i \in DOMAIN edges |-> edges[i][1]]
PolySmall(s, ch, edges) == CoordBound(LoopVerts(edges) \cup Range(WireInFrame(s, ch)), 250)

\* the loop does not touch source s (wire, dipole) and does not run inside one of its material surfaces
SrcLoopOK(s, ch, edges) ==
  \/ AwayLoop(s, ch, edges)
  \/ /\ s.cls \in Magnets \cup {"Triangle"} /\ Adapted(s, ch) /\ EdgesOffSurf(s, ch, edges)
  \/ /\ s.cls = "Dipole" /\ ch.type = "sph" /\ s.p = ch.p /\ \A u \in LoopVerts(edges) : u[1] > 0
  \/ /\ s.cls = "Dipole" /\ ch.type = "cart"
     /\ \A i \in DOMAIN edges : ~PointOnSeg(ToFrame(ch, s.p), edges[i][1], edges[i][2])
  \/ /\ s.cls = "Circle" /\ ch.type = "cyl" /\ SameFrame(s, ch)
     /\ \A i \in DOMAIN edges : CylEdgeOffWire(edges[i][1], edges[i][2], s.dim[1] \div 2)
  \/ /\ s.cls = "Circle" /\ ch.type = "cart" /\ CircleSmall(s, ch, edges)
     /\ \A i \in DOMAIN edges : EdgeOffCircle(InSrcFrame(s, ch, edges[i][1]), InSrcFrame(s, ch, edges[i][2]), s.dim[1] \div 2)
  \/ /\ s.cls = "Polyline" /\ ch.type = "cart" /\ PolySmall(s, ch, edges)
     /\ LET W == WireInFrame(s, ch) IN
          /\ \A i \in DOMAIN edges : \A j \in 1..(Len(W) - 1) : ~SegTouch(edges[i][1], edges[i][2], W[j], W[j + 1])
          /\ Len(edges) >= 3 /\ FanGeneric(LoopSeq(edges), W)
\* linking number of the loop with the current path of s (0 for everything that carries no current)
Lk(s, ch, edges) ==
  IF s.cls \notin Currents \/ AwayLoop(s, ch, edges) THEN 0       \* separated by a plane => unlinked
  ELSE IF s.cls = "Circle" /\ ch.type = "cyl" THEN -CylWinding(edges, s.dim[1] \div 2)
  ELSE IF s.cls = "Circle" THEN SumSeq([i \in DOMAIN edges |-> DiscCross(InSrcFrame(s, ch, edges[i][1]), InSrcFrame(s, ch, edges[i][2]), s.dim[1] \div 2)])
  ELSE LkPoly(LoopSeq(edges), WireInFrame(s, ch))
CircPremise(scene, ch, edges) ==
  /\ WellFormedChart(ch) /\ WellFormedLoop(ch, edges)
  /\ \A i \in DOMAIN scene : WellFormedSrc(scene[i]) /\ SrcLoopOK(scene[i], ch, edges)
\* right-hand side of Ampere's law in amperes
ExpCirc(scene, ch, edges) == SumSeq([i \in DOMAIN scene |-> CurrentOf(scene[i]) * Lk(scene[i], ch, edges)])

(* "Far" instances: the documentation warns that accuracy "can be a problem at large distances"; DESIGN 3.4 therefore uses   *)
(* 1e-5 instead of the near tolerance for observers farther than 10 sizes from the source.  An instance is far iff EVERY     *)
(* source is separated from the cell / loop by more than 10 times its own largest extent.                                   *)
BodyMaxExt(s) == LET b == LocalBox(s) IN Max2(1, SetMax({b.hi[k] - b.lo[k] : k \in 1..3}))
SrcFar(s, box) == LET sb == SrcBox(s) d == 10 * BodyMaxExt(s) IN \E k \in 1..3 : box.lo[k] - sb.hi[k] > d \/ sb.lo[k] - box.hi[k] > d
\* a loop / cell surface that SURROUNDS the body at a large distance: in the curvilinear charts every point of an edge or face has
\* r >= the smallest r among its corners, so r_min - d > (largest distance of a corner of the body's box from the axis / centre) suffices
SrcFarRound(s, ch, pts) ==
  LET d == 10 * BodyMaxExt(s)
      rmin == SetMin({u[1] : u \in pts})
      b == FrameBox(ch, SrcBox(s))
      rad2 == IF ch.type = "cyl" THEN SetMax({c[1] * c[1] + c[2] * c[2] : c \in BoxCorners(b)}) ELSE SetMax({Norm2(c) : c \in BoxCorners(b)})
  IN ch.type \in {"cyl", "sph"} /\ rmin > d /\ rmin - d <= 40000 /\ (rmin - d) * (rmin - d) > rad2
\* cart cell enclosing the body with all faces farther than d
SrcFarInside(s, ch, lo, hi) == ch.type = "cart" /\ LET b == FrameBox(ch, SrcBox(s)) d == 10 * BodyMaxExt(s) IN \A k \in 1..3 : b.lo[k] - lo[k] > d /\ hi[k] - b.hi[k] > d
AllFar(scene, ch, pts) == \A i \in DOMAIN scene : SrcFar(scene[i], RegionBox(ch, pts)) \/ SrcFarRound(scene[i], ch, pts)
AllFarCell(scene, ch, lo, hi) == \A i \in DOMAIN scene : SrcFar(scene[i], RegionBox(ch, CellCorners(lo, hi))) \/ SrcFarRound(scene[i], ch, CellCorners(lo, hi))
                                                         \/ SrcFarInside(scene[i], ch, lo, hi)

(* joint rigid lattice motion g = (Q, t) of the whole instance: x -> Q x + t                      *)
MoveSrc(Q, t, s) == [s EXCEPT !.R = MulMM(Q, s.R), !.p = Add3(MulMV(Q, s.p), t)]
MoveChart(Q, t, ch) == [ch EXCEPT !.R = MulMM(Q, ch.R), !.p = Add3(MulMV(Q, ch.p), t)]
MoveScene(Q, t, scene) == [i \in DOMAIN scene |-> MoveSrc(Q, t, scene[i])]
ReverseLoop(edges) == LET n == Len(edges) IN [i \in 1..n |-> <<edges[n + 1 - i][2], edges[n + 1 - i][1]>>]
\* axis-parallel rectangle in a cart chart: plane axis k at value c, ranges of the two following axes, positive about +k
RectLoop(k, c, alo, ahi, blo, bhi) ==
  LET i == (k % 3) + 1
      j == ((k + 1) % 3) + 1
      P(x, y) == [m \in 1..3 |-> IF m = k THEN c ELSE IF m = i THEN x ELSE y]
  IN <<<<P(alo, blo), P(ahi, blo)>>, <<P(ahi, blo), P(ahi, bhi)>>, <<P(ahi, bhi), P(alo, bhi)>>, <<P(alo, bhi), P(alo, blo)>>>>
\* coordinate rectangle in any chart (same construction: edges vary one coordinate each)
PolyLoop(V) == LET n == Len(V) IN [i \in 1..n |-> <<V[i], V[(i % n) + 1]>>]

(* ------------------------------------------------------------------------ point laws (C01 only) *)
(* Closed forms that ARE first principles, and the far-field limit, on integer offsets r = obs - p with integer norm rho: *)
(*     4 pi rho^5 H = 3 r (m.r) - m rho^2 =: N(m, r)          (point dipole of moment m; exact integer vector)            *)
(* kind "dipole"     : Dipole                      w = 4 pi rho^5 lam^3 H            = N(R m, r)        exact               *)
(* kind "sphere_out" : Sphere, rho > d/2           w = 3 rho^5 B / (d/2)^3           = N(R J, r)        exact               *)
(* kind "sphere_in"  : Sphere, rho < d/2           w = 3 B = 2 R J ;  3 mu0 H = -R J                    exact               *)
(* kind "far"        : every class, rho >= 100 sizes   w = 4 pi rho^5 B / V (magnets), 4 pi rho^5 lam H / (2 A) (currents)  *)
(*                                                   = N(moment direction, r)  up to O((size/rho)^2) (O(size/rho) if the    *)
(*                     reference point p is not the centre of symmetry of the body)                                          *)
(* The harness logs w = F * rho^5 * num/den * pi^pik * lam^lamexp * mu0^muexp (unit conversion only, all factors from here)  *)
(* quantized in units of 1e-8 of the gross scale G = max_i (3 |r_i| |m.r| + |m_i| rho^2), which is also computed here.       *)
DipN(m, r) == LET mr == Dot3(m, r) r2 == Norm2(r) IN [i \in 1..3 |-> 3 * r[i] * mr - m[i] * r2]
DipG(m, r) == LET mr == Abs(Dot3(m, r)) r2 == Norm2(r) IN Max2(1, SetMax({3 * Abs(r[i]) * mr + Abs(m[i]) * r2 : i \in 1..3}))
PolyArea2(v) == LET RECURSIVE S(_)
                    S(i) == IF i >= Len(v) THEN Zero3 ELSE Add3(Cross3(v[i], v[i + 1]), S(i + 1))
                IN S(1)                                             \* twice the vector area of a closed polygon
\* moment direction (integer vector, global frame) and the rational * pi^pik that turns the field into N(m, r) / rho^5
Moment(s) ==
  CASE s.cls = "Circle" -> MulMV(s.R, <<0, 0, s.exc[1]>>)
    [] s.cls = "Polyline" -> MulMV(s.R, Scale3(s.exc[1], PolyArea2(s.verts)))
    [] OTHER -> MulMV(s.R, s.exc)
TetDet(s) == Abs(Det3(Sub3(s.verts[2], s.verts[1]), Sub3(s.verts[3], s.verts[1]), Sub3(s.verts[4], s.verts[1])))
\* <<num, den, pik, lamexp>>:  4 pi / V  resp. 4 pi / (2 A)  resp. 4 pi
FarNorm(s) ==
  CASE s.cls \in {"Cuboid", "TriangularMesh"} -> <<4, s.dim[1] * s.dim[2] * s.dim[3], 1, 0>>
    [] s.cls = "Cylinder" -> <<16, s.dim[1] * s.dim[1] * s.dim[2], 0, 0>>                      \* V = pi d^2 h / 4
    [] s.cls = "CylinderSegment" -> <<96, (s.dim[5] - s.dim[4]) * (s.dim[2] * s.dim[2] - s.dim[1] * s.dim[1]) * s.dim[3], 0, 0>>   \* V = (f2-f1) pi/12 (r2^2-r1^2) h / 2
    [] s.cls = "Sphere" -> <<24, s.dim[1] * s.dim[1] * s.dim[1], 0, 0>>                          \* V = pi d^3 / 6
    [] s.cls = "Tetrahedron" -> <<24, TetDet(s), 1, 0>>                                          \* V = |det| / 6
    [] s.cls = "Dipole" -> <<4, 1, 1, 3>>
    [] s.cls = "Circle" -> <<16, s.dim[1] * s.dim[1], 0, 1>>                                     \* A = pi d^2 / 4
    [] s.cls = "Polyline" -> <<8, 1, 1, 1>>                                                      \* moment = I * (vector area) = I * PolyArea2 / 2
Centred(s) == s.cls \in {"Cuboid", "TriangularMesh", "Cylinder", "Sphere", "Dipole", "Circle"}
              \/ (s.cls = "CylinderSegment" /\ s.dim[5] - s.dim[4] = 24)
\* pt == [kind, src, obs, field, rho]
PtR(pt) == Sub3(pt.obs, pt.src.p)
PointPremise(pt) ==
  LET m == Moment(pt.src)
      mm == Max2(1, SetMax({Abs(m[i]) : i \in 1..3}))
      rr == SetMax({Abs(PtR(pt)[i]) : i \in 1..3})
  IN /\ WellFormedSrc(pt.src) /\ pt.field \in {"B", "H"}
     /\ rr <= 4000 /\ pt.rho > 0 /\ pt.rho <= 7000 /\ mm <= 200 /\ 12 * rr * rr <= 190000000 \div mm      \* all arithmetic below fits 32 bits (G < 2e8)
     /\ pt.rho * pt.rho = Norm2(PtR(pt))
     /\ CASE pt.kind = "dipole" -> pt.src.cls = "Dipole"
          [] pt.kind = "sphere_out" -> pt.src.cls = "Sphere" /\ 2 * pt.rho > pt.src.dim[1]
          [] pt.kind = "sphere_in" -> pt.src.cls = "Sphere" /\ 2 * pt.rho < pt.src.dim[1]
          [] pt.kind = "far" -> pt.src.cls \in Classes \ {"Triangle"} /\ pt.rho >= 100 * BodyMaxExt(pt.src)
          [] OTHER -> FALSE
\* unit conversion applied by the harness: <<rho5 (1 = use rho^5, 0 = no), num, den, pik, lamexp, muexp>>
PointNorm(pt) ==
  LET s == pt.src
      cur == s.cls \in Currents \/ s.cls = "Dipole"                 \* these return H natively: B needs 1/mu0; magnets: H needs mu0
      mu == IF cur THEN (IF pt.field = "B" THEN -1 ELSE 0) ELSE (IF pt.field = "H" THEN 1 ELSE 0)
      hr == s.dim[1] \div 2
  IN CASE pt.kind = "sphere_in" -> <<0, 3, 1, 0, 0, mu>>
       [] pt.kind = "sphere_out" -> <<1, 3, hr * hr * hr, 0, 0, mu>>
       [] OTHER -> LET f == FarNorm(s) IN <<1, f[1], f[2], f[3], f[4], mu>>
PointExpected(pt) ==
  LET m == Moment(pt.src) IN
  IF pt.kind = "sphere_in" THEN (IF pt.field = "B" THEN Scale3(2, m) ELSE Neg3(m)) ELSE DipN(m, PtR(pt))
PointGross(pt) == LET m == Moment(pt.src) IN
  IF pt.kind = "sphere_in" THEN Max2(1, 2 * SetMax({Abs(m[i]) : i \in 1..3})) ELSE DipG(m, PtR(pt))
\* round(n * 1e8 / g) for |n| <= g < 2e8 by long division (32-bit safe)
RECURSIVE LongDiv(_, _, _, _)
LongDiv(rem, g, acc, k) == IF k = 0 THEN (IF 2 * rem >= g THEN acc + 1 ELSE acc)
                           ELSE LongDiv((rem * 10) % g, g, acc * 10 + (rem * 10) \div g, k - 1)
Quant8(n, g) == IF n >= 0 THEN LongDiv(n % g, g, n \div g, 8) ELSE -LongDiv((-n) % g, g, (-n) \div g, 8)
TolClosed8 == 2                  \* exact closed forms: 2e-8 of the gross scale (quantization + rounding)
\* far field: 1e-7 + truncation of the multipole series: (ext/rho)^2 for bodies centred at p, 2 ext/rho otherwise (ext = largest extent)
PointTol8(pt) ==
  IF pt.kind # "far" THEN TolClosed8
  ELSE LET e == BodyMaxExt(pt.src)
           x == (e * 10000) \div pt.rho + 1                          \* ext/rho in units of 1e-4 (<= 100)
       IN IF Centred(pt.src) THEN 10 + x * x ELSE 10 + 2 * x * 10000

(* ------------------------------------------------------------------- local form: mean-value law (C01) *)
(* In a source-free ball every Cartesian component f of B and of H is harmonic (div B = 0, curl H = 0, B = mu0 H: the integral   *)
(* laws for infinitesimal cells).  Hence   f(c+h e1) + f(c-h e1) + ... + f(c-h e3) - 6 f(c) = O(h^4 d^4 f)  on the lattice.       *)
(* This is the only way to see a wrong value on a set of measure zero (an axis, a switch plane): flux and circulation integrals   *)
(* cannot.  pt == [kind |-> "harmonic", src, obs |-> c (global lattice point), field, rho |-> h]; the premise is that the source  *)
(* is farther than 200 h from c (gap of the bounding boxes).  The harness logs the seven field vectors (c, +x, -x, +y, -y, +z, -z) *)
(* in units of 1e-8 of the largest of their components.                                                                           *)
HarmGap(pt) == LET sb == SrcBox(pt.src) IN SetMax({Max2(pt.obs[k] - sb.hi[k], sb.lo[k] - pt.obs[k]) : k \in 1..3})
HarmPremise(pt) == /\ WellFormedSrc(pt.src) /\ pt.field \in {"B", "H"} /\ pt.rho > 0 /\ pt.rho <= 1000
                   /\ \A k \in 1..3 : Abs(pt.obs[k]) <= 1000000
                   /\ HarmGap(pt) >= 200 * pt.rho
\* 6 quantization errors + 1e-7 + truncation: |h^4/12 sum d^4 f| <= 1000 (h/L)^4 sup|f| generously (Cauchy estimates on the ball of radius L)
HarmTol8(pt) == LET x == (1000 * pt.rho) \div HarmGap(pt) + 1 IN 20 + (x * x * x * x) \div 10
HarmResidual(q, k) == q[2][k] + q[3][k] + q[4][k] + q[5][k] + q[6][k] + q[7][k] - 6 * q[1][k]
=============================================================================
