-------------------------------- MODULE Laws --------------------------------
(* Law instances for real-valued observables (binding C of DESIGN 3.3): C03 covariance, C12 unit         *)
(* invariance, C13 representation / partition independence.                                              *)
(*                                                                                                        *)
(* An ABSTRACT CONFIGURATION is exact integer data:                                                       *)
(*   cfg == [den, k, ea, srcs, obs, sens]                                                                 *)
(*     den  : every length below is an integer multiple of (lattice unit)/den                             *)
(*     k    : the lattice unit is 10^k metres            (changed only by Rescale)                        *)
(*     ea   : excitations are multiplied by 10^ea        (changed only by ScaleExc)                       *)
(*     srcs : sequence of [cls, geo, rep, ops, flip, exc, path]; path = non-empty sequence of poses [p, r], *)
(*            rep = how the object is constructed, ops = what was done to the live object afterwards     *)
(*            ("use", "mesh", "tricoll", "check", "reorient"), flip = faces handed over with inverted winding *)
(*            p in Z^3 (units 1/den), r one of the 24 rotation matrices of the cube                       *)
(*     obs  : sequence of [x, lab]: observer points (global positions, or pixel positions in the sensor   *)
(*            frame when sens.on) with a palette label                                                    *)
(*     sens : [on, path]: an optional Sensor with its own pose path                                       *)
(* geo by class (all integers, units 1/den; angles in units of 15 degrees):                               *)
(*   Cuboid <<a,b,c>>  Cylinder <<d,h>>  CylinderSegment <<r1,r2,h,p1,p2>>  Sphere <<d>>                  *)
(*   Tetrahedron <<v1..v4>>  Triangle <<v1,v2,v3>>  TriangularMesh / TriangleCollection <<verts, faces>>  *)
(*   Circle <<d>>  Polygon <<d, N>> (regular N-gon inscribed in the circle of diameter d)                 *)
(*   Polyline <<v1..vn>>  Dipole <<>> (moment = exc) or <<d>> (moment = exc/mu0 * pi d^3/6)  Custom <<>>  *)
(*                                                                                                        *)
(* ACTIONS in functional form ApplyF(cfg, act), their exact PREMISE Premise(pre, act, post) (declarative, *)
(* not by re-running ApplyF) and their CONCLUSION on fixed-point observations (Verdict operators at the  *)
(* end).  MC_Laws explores behaviours and checks the premise side; TV_Laws judges logged instances.       *)
EXTENDS Integers, Sequences, FiniteSets, Quant

\* ================================================================== lattice
Sgn(x) == IF x > 0 THEN 1 ELSE IF x < 0 THEN -1 ELSE 0
Max2(a, b) == IF a > b THEN a ELSE b
Min2(a, b) == IF a < b THEN a ELSE b
MaxS(S) == CHOOSE x \in S : \A y \in S : x >= y
MinS(S) == CHOOSE x \in S : \A y \in S : x <= y
Add3(a, b) == <<a[1] + b[1], a[2] + b[2], a[3] + b[3]>>
Sub3(a, b) == <<a[1] - b[1], a[2] - b[2], a[3] - b[3]>>
Scale3(k, a) == <<k * a[1], k * a[2], k * a[3]>>
Dot3(a, b) == a[1] * b[1] + a[2] * b[2] + a[3] * b[3]
Cross3(a, b) == <<a[2] * b[3] - a[3] * b[2], a[3] * b[1] - a[1] * b[3], a[1] * b[2] - a[2] * b[1]>>
Det3(a, b, c) == Dot3(a, Cross3(b, c))
Zero3 == <<0, 0, 0>>
V3(v) == <<v[1], v[2], v[3]>>
ChebNorm(a) == Max2(Abs(a[1]), Max2(Abs(a[2]), Abs(a[3])))

MulMV(m, v) == <<Dot3(m[1], v), Dot3(m[2], v), Dot3(m[3], v)>>
Tr(m) == <<<<m[1][1], m[2][1], m[3][1]>>, <<m[1][2], m[2][2], m[3][2]>>, <<m[1][3], m[2][3], m[3][3]>>>>
MulMM(a, b) == LET bt == Tr(b) IN <<<<Dot3(a[1], bt[1]), Dot3(a[1], bt[2]), Dot3(a[1], bt[3])>>,
                                    <<Dot3(a[2], bt[1]), Dot3(a[2], bt[2]), Dot3(a[2], bt[3])>>,
                                    <<Dot3(a[3], bt[1]), Dot3(a[3], bt[2]), Dot3(a[3], bt[3])>>>>
M3(m) == <<V3(m[1]), V3(m[2]), V3(m[3])>>
IdM == <<<<1, 0, 0>>, <<0, 1, 0>>, <<0, 0, 1>>>>
Rx90 == <<<<1, 0, 0>>, <<0, 0, -1>>, <<0, 1, 0>>>>
Ry90 == <<<<0, 0, 1>>, <<0, 1, 0>>, <<-1, 0, 0>>>>
Rz90 == <<<<0, -1, 0>>, <<1, 0, 0>>, <<0, 0, 1>>>>
R111 == <<<<0, 0, 1>>, <<1, 0, 0>>, <<0, 1, 0>>>>            \* 120 degrees about (1,1,1)
UnitRow(j, s) == <<IF j = 1 THEN s ELSE 0, IF j = 2 THEN s ELSE 0, IF j = 3 THEN s ELSE 0>>
Perms3 == {p \in [1..3 -> 1..3] : {p[1], p[2], p[3]} = {1, 2, 3}}
SignedPerms == {<<UnitRow(p[1], s[1]), UnitRow(p[2], s[2]), UnitRow(p[3], s[3])>> : p \in Perms3, s \in [1..3 -> {1, -1}]}
Rots == {m \in SignedPerms : Det3(m[1], m[2], m[3]) = 1}     \* the rotation group O of the cube
\* group axioms (evaluated once by TLC when the module is loaded)
ASSUME Cardinality(Rots) = 24
ASSUME \A a \in Rots : \A b \in Rots : MulMM(a, b) \in Rots
ASSUME \A a \in Rots : MulMM(a, Tr(a)) = IdM /\ Tr(a) \in Rots
ASSUME {IdM, Rx90, Ry90, Rz90, R111} \subseteq Rots

\* small recursive helpers on sequences (sequences here are short: no stack problem)
RECURSIVE SumSeq(_)
SumSeq(s) == IF Len(s) = 0 THEN 0 ELSE Head(s) + SumSeq(Tail(s))
RECURSIVE SumVec(_)
SumVec(s) == IF Len(s) = 0 THEN Zero3 ELSE Add3(V3(Head(s)), SumVec(Tail(s)))
RECURSIVE Concat(_)
Concat(ss) == IF Len(ss) = 0 THEN <<>> ELSE Head(ss) \o Concat(Tail(ss))
SeqRange(s) == {s[i] : i \in 1..Len(s)}
Splice(s, i, n, ins) == SubSeq(s, 1, i - 1) \o ins \o SubSeq(s, i + n, Len(s))     \* replace n entries at i

\* ================================================================== configurations
Pose(p, r) == [p |-> p, r |-> r]
PoseAt(path, i) == path[IF i <= Len(path) THEN i ELSE Len(path)]     \* shorter paths are padded with their last pose
Src(cls, geo, exc, path) == [cls |-> cls, geo |-> geo, rep |-> "", ops |-> <<>>, flip |-> <<>>, exc |-> exc, path |-> path]
Obs(x, lab) == [x |-> x, lab |-> lab]
NoSensor == [on |-> FALSE, path |-> <<Pose(Zero3, IdM)>>]
Cfg(den, srcs, obs, sens) == [den |-> den, k |-> 0, ea |-> 0, srcs |-> srcs, obs |-> obs, sens |-> sens]

Magnets == {"Cuboid", "Cylinder", "CylinderSegment", "Sphere", "Tetrahedron", "TriangularMesh"}
Sheets == {"Triangle", "TriangleCollection"}
Currents == {"Circle", "Polyline", "Polygon"}
Classes == Magnets \cup Sheets \cup Currents \cup {"Dipole", "Custom"}
\* exponent of the field under a change of the length unit by lambda (B, H); J has exponent 0
LenExp(s) == IF s.cls \in Currents THEN -1
             ELSE IF s.cls = "Dipole" /\ Len(s.geo) = 0 THEN -3
             ELSE 0

PathLen(cfg) == MaxS({Len(cfg.srcs[s].path) : s \in 1..Len(cfg.srcs)} \cup (IF cfg.sens.on THEN {Len(cfg.sens.path)} ELSE {}))
\* global position of observer o at path index i
GlobObs(cfg, o, i) == IF cfg.sens.on THEN LET ps == PoseAt(cfg.sens.path, i) IN Add3(V3(ps.p), MulMV(ps.r, V3(o.x)))
                      ELSE V3(o.x)
\* the observer in the local frame of source s at path index i
Local(cfg, s, o, i) == LET ps == PoseAt(s.path, i) IN MulMV(Tr(ps.r), Sub3(GlobObs(cfg, o, i), V3(ps.p)))
\* orientation of the reading frame relative to the source frame (sensor readings are in the sensor frame)
RelRot(cfg, s, i) == IF cfg.sens.on THEN MulMM(Tr(PoseAt(cfg.sens.path, i).r), PoseAt(s.path, i).r) ELSE PoseAt(s.path, i).r

\* ------------------------------------------------------------------ geometry of one source in its local frame
VertsOfSrc(s) == IF s.cls \in {"Tetrahedron", "Triangle", "Polyline"} THEN s.geo
                 ELSE IF s.cls \in {"TriangularMesh", "TriangleCollection"} THEN s.geo[1] ELSE <<>>
\* bounding box in DOUBLED local coordinates: <<lo2, hi2>>
Coord2(s, j) == {2 * VertsOfSrc(s)[i][j] : i \in 1..Len(VertsOfSrc(s))}
BBox2(s) ==
  CASE s.cls = "Cuboid" -> <<<<-s.geo[1], -s.geo[2], -s.geo[3]>>, <<s.geo[1], s.geo[2], s.geo[3]>>>>
    [] s.cls = "Cylinder" -> <<<<-s.geo[1], -s.geo[1], -s.geo[2]>>, <<s.geo[1], s.geo[1], s.geo[2]>>>>
    [] s.cls = "CylinderSegment" -> <<<<-2 * s.geo[2], -2 * s.geo[2], -s.geo[3]>>, <<2 * s.geo[2], 2 * s.geo[2], s.geo[3]>>>>
    [] s.cls = "Sphere" -> <<<<-s.geo[1], -s.geo[1], -s.geo[1]>>, <<s.geo[1], s.geo[1], s.geo[1]>>>>
    [] s.cls \in {"Circle", "Polygon"} -> <<<<-s.geo[1], -s.geo[1], 0>>, <<s.geo[1], s.geo[1], 0>>>>
    [] s.cls \in {"Dipole", "Custom"} -> <<Zero3, Zero3>>
    [] OTHER -> <<<<MinS(Coord2(s, 1)), MinS(Coord2(s, 2)), MinS(Coord2(s, 3))>>,
                  <<MaxS(Coord2(s, 1)), MaxS(Coord2(s, 2)), MaxS(Coord2(s, 3))>>>>
Size2(s) == LET b == BBox2(s) IN ChebNorm(Sub3(b[2], b[1]))       \* 2 x largest extent ("size" of the source)
Centre4(s) == LET b == BBox2(s) IN Add3(b[1], b[2])                \* 4 x centre of the bounding box
\* distance in units of the source size (Chebyshev distance from the box centre, local frame): dist <= n sizes
WithinSizes(s, x, n) == s.cls \in {"Dipole", "Custom"} \/ ChebNorm(Sub3(Scale3(4, x), Centre4(s))) <= 2 * n * Size2(s)
BeyondSizes(s, x, n) == s.cls \notin {"Dipole", "Custom"} /\ ChebNorm(Sub3(Scale3(4, x), Centre4(s))) >= 2 * n * Size2(s)
\* outside the bounding box by a clear margin: classification is "out" without evaluating squares (32-bit integers)
FarOut(s, x) == \E j \in 1..3 : 2 * x[j] < BBox2(s)[1][j] - 2 \/ 2 * x[j] > BBox2(s)[2][j] + 2

\* three-valued class of a quantity against 0 and combination (out dominates, then on)
Cls(q) == IF q < 0 THEN "in" ELSE IF q = 0 THEN "on" ELSE "out"
Comb(S) == IF "out" \in S THEN "out" ELSE IF "on" \in S THEN "on" ELSE "in"

\* directions at multiples of 15 degrees that are multiples of 30 or of 45 degrees, as <<c0, c1, s0, s1>> meaning the
\* (unnormalised) direction (c0 + c1*sqrt3, s0 + s1*sqrt3)
AngOK(m) == m % 2 = 0 \/ m % 3 = 0
Dir15(mm) == LET m == mm % 24 IN
  CASE m = 0 -> <<1, 0, 0, 0>>   [] m = 2 -> <<0, 1, 1, 0>>    [] m = 3 -> <<1, 0, 1, 0>>    [] m = 4 -> <<1, 0, 0, 1>>
    [] m = 6 -> <<0, 0, 1, 0>>   [] m = 8 -> <<-1, 0, 0, 1>>   [] m = 9 -> <<-1, 0, 1, 0>>   [] m = 10 -> <<0, -1, 1, 0>>
    [] m = 12 -> <<-1, 0, 0, 0>> [] m = 14 -> <<0, -1, -1, 0>> [] m = 15 -> <<-1, 0, -1, 0>> [] m = 16 -> <<-1, 0, 0, -1>>
    [] m = 18 -> <<0, 0, -1, 0>> [] m = 20 -> <<1, 0, 0, -1>>  [] m = 21 -> <<1, 0, -1, 0>>  [] m = 22 -> <<0, 1, -1, 0>>
\* sign of A + B*sqrt3
SgnSurd(A, B) == IF A >= 0 /\ B >= 0 THEN (IF A = 0 /\ B = 0 THEN 0 ELSE 1)
                 ELSE IF A <= 0 /\ B <= 0 THEN -1
                 ELSE IF A > 0 THEN Sgn(A * A - 3 * B * B) ELSE Sgn(3 * B * B - A * A)
\* sign of Dir15(m) x v for v = (x, y)
SgnCrossDV(m, v) == LET d == Dir15(m) IN SgnSurd(d[1] * v[2] - d[3] * v[1], d[2] * v[2] - d[4] * v[1])
\* angular class of v = (x,y) against the sector from angle p1 counter-clockwise to p2 (0 < p2 - p1 <= 24)
AngCls(v, p1, p2) ==
  IF v = <<0, 0>> THEN "on"
  ELSE IF p2 - p1 >= 24 THEN "in"
  ELSE LET c1 == SgnCrossDV(p1, v)
           c2 == -SgnCrossDV(p2, v)
           w == p2 - p1
       IN IF w < 12 THEN (IF c1 > 0 /\ c2 > 0 THEN "in" ELSE IF (c1 = 0 /\ c2 > 0) \/ (c2 = 0 /\ c1 > 0) THEN "on" ELSE "out")
          ELSE IF w = 12 THEN (IF c1 > 0 THEN "in" ELSE IF c1 = 0 THEN "on" ELSE "out")
          ELSE (IF c1 > 0 \/ c2 > 0 THEN "in" ELSE IF c1 = 0 \/ c2 = 0 THEN "on" ELSE "out")

TetraCls(v, x) ==
  LET D0 == Det3(Sub3(v[2], v[1]), Sub3(v[3], v[1]), Sub3(v[4], v[1]))
      sg == Sgn(D0)
      d1 == sg * Det3(Sub3(v[2], x), Sub3(v[3], x), Sub3(v[4], x))
      d2 == sg * Det3(Sub3(x, v[1]), Sub3(v[3], v[1]), Sub3(v[4], v[1]))
      d3 == sg * Det3(Sub3(v[2], v[1]), Sub3(x, v[1]), Sub3(v[4], v[1]))
      d4 == sg * Det3(Sub3(v[2], v[1]), Sub3(v[3], v[1]), Sub3(x, v[1]))
  IN Comb({Cls(-d1), Cls(-d2), Cls(-d3), Cls(-d4)})
\* convex closed mesh, any winding of the faces: x is inside iff it lies on the same side of every face plane as the
\* vertex centroid (n * x is compared with the vertex sum so that everything stays integer)
TriPts(geo, i) == <<V3(geo[1][geo[2][i][1]]), V3(geo[1][geo[2][i][2]]), V3(geo[1][geo[2][i][3]])>>
ConvexMeshCls(geo, x) ==
  LET n == Len(geo[1])
      S == SumVec(geo[1])
      side(i) == LET t == TriPts(geo, i)
                     nrm == Cross3(Sub3(t[2], t[1]), Sub3(t[3], t[1]))
                     dc == Dot3(nrm, Sub3(S, Scale3(n, t[1])))          \* centroid side (never 0 for a convex body)
                     dx == Dot3(nrm, Sub3(x, t[1]))
                 IN Cls(-Sgn(dc) * dx)
  IN Comb({side(i) : i \in 1..Len(geo[2])})

\* the convex hull of the 8 corners of a centred box (from_ConvexHull; the implementation chooses the faces)
HullCls(V, x) == Comb({Cls(Abs(x[j]) - MaxS({V[i][j] : i \in 1..Len(V)})) : j \in 1..3})
\* closed convex polyhedron: every vertex lies on or behind every face plane as seen from the centroid side
ConvexMesh(geo) ==
  LET n == Len(geo[1])
      S == SumVec(geo[1])
  IN \A i \in 1..Len(geo[2]) : LET t == TriPts(geo, i)
                                    nrm == Cross3(Sub3(t[2], t[1]), Sub3(t[3], t[1]))
                                    dc == Sgn(Dot3(nrm, Sub3(S, Scale3(n, t[1]))))
                                IN dc # 0 /\ \A v \in 1..n : dc * Dot3(nrm, Sub3(V3(geo[1][v]), t[1])) >= 0
OutsideBBox(s, x) == \E j \in 1..3 : 2 * x[j] < BBox2(s)[1][j] \/ 2 * x[j] > BBox2(s)[2][j]
\* x lies on the closed triangle t (a sheet): in its plane and not strictly outside any edge.  In the plane every (q-p) x (x-p) is
\* parallel to the normal n: the side is read off one non-zero component of n (no products of large numbers: 32-bit integers)
OnTriangle(t, x) ==
  LET n == Cross3(Sub3(t[2], t[1]), Sub3(t[3], t[1]))
      k == CHOOSE k \in 1..3 : n[k] # 0
      side(p, q) == Sgn(Cross3(Sub3(q, p), Sub3(x, p))[k]) * Sgn(n[k])
      inbox == \A j \in 1..3 : x[j] >= MinS({t[1][j], t[2][j], t[3][j]}) /\ x[j] <= MaxS({t[1][j], t[2][j], t[3][j]})
  IN inbox /\ Dot3(n, Sub3(x, t[1])) = 0 /\ side(t[1], t[2]) >= 0 /\ side(t[2], t[3]) >= 0 /\ side(t[3], t[1]) >= 0
\* "in" / "on" / "out" of a local point x (units 1/den) for a source; for sheets "on" means on the closed triangle, for wires and
\* points on the carrier line / point (observers must avoid these sets), otherwise "out".  A point on the straight extension of
\* an edge or on the extension of a face plane OUTSIDE the body is "out": the laws hold there too
Status(s, x) ==
  IF FarOut(s, x) /\ s.cls \notin {"Triangle", "TriangleCollection", "Polyline"} THEN "out"
  ELSE CASE s.cls = "Cuboid" -> Comb({Cls(2 * Abs(x[j]) - s.geo[j]) : j \in 1..3})
    [] s.cls = "Cylinder" -> Comb({Cls(4 * (x[1] * x[1] + x[2] * x[2]) - s.geo[1] * s.geo[1]), Cls(2 * Abs(x[3]) - s.geo[2])})
    [] s.cls = "Sphere" -> Cls(4 * Dot3(x, x) - s.geo[1] * s.geo[1])
    [] s.cls = "CylinderSegment" ->
         LET q == x[1] * x[1] + x[2] * x[2] IN
         Comb({Cls(q - s.geo[2] * s.geo[2]), Cls(s.geo[1] * s.geo[1] - q), AngCls(<<x[1], x[2]>>, s.geo[4], s.geo[5]),
               Cls(2 * Abs(x[3]) - s.geo[3])})
    [] s.cls = "Tetrahedron" -> TetraCls(s.geo, x)
    [] s.cls = "TriangularMesh" -> IF Len(s.geo[2]) = 0 THEN HullCls(s.geo[1], x)
                                   ELSE IF ConvexMesh(s.geo) THEN ConvexMeshCls(s.geo, x)
                                   ELSE IF OutsideBBox(s, x) THEN "out" ELSE "on"       \* not decided here: observers must stay outside the box
    [] s.cls = "Triangle" -> IF OnTriangle(s.geo, x) THEN "on" ELSE "out"
    [] s.cls = "TriangleCollection" -> IF \E i \in 1..Len(s.geo[2]) : OnTriangle(TriPts(s.geo, i), x) THEN "on" ELSE "out"
    [] s.cls \in {"Circle", "Polygon"} -> IF x[3] = 0 /\ 4 * (x[1] * x[1] + x[2] * x[2]) <= s.geo[1] * s.geo[1] /\ s.cls = "Polygon" THEN "on"
                                          ELSE IF x[3] = 0 /\ 4 * (x[1] * x[1] + x[2] * x[2]) = s.geo[1] * s.geo[1] THEN "on" ELSE "out"
    [] s.cls = "Polyline" -> IF \E i \in 1..(Len(s.geo) - 1) : Cross3(Sub3(s.geo[i + 1], s.geo[i]), Sub3(x, s.geo[i])) = Zero3 THEN "on" ELSE "out"
    [] s.cls = "Dipole" -> IF x = Zero3 THEN "on" ELSE "out"
    [] OTHER -> "out"

\* ------------------------------------------------------------------ triangle soups (sequences of point triples)
SoupOf(s) == IF s.cls \in {"TriangularMesh", "TriangleCollection"} THEN [i \in 1..Len(s.geo[2]) |-> TriPts(s.geo, i)]
             ELSE <<s.geo>>                                                  \* a Triangle
DirEdgesT(t) == {<<t[1], t[2]>>, <<t[2], t[3]>>, <<t[3], t[1]>>}
CountDE(T, e) == Cardinality({i \in 1..Len(T) : e \in DirEdgesT(T[i])})
\* closed and consistently oriented: every directed edge occurs once and its reverse once
ClosedOriented(T) == \A i \in 1..Len(T) : \A e \in DirEdgesT(T[i]) : CountDE(T, e) = 1 /\ CountDE(T, <<e[2], e[1]>>) = 1
SoupVol6(T) == SumSeq([i \in 1..Len(T) |-> Det3(T[i][1], T[i][2], T[i][3])])   \* 6 x signed enclosed volume
SoupPts(T) == UNION {{T[i][1], T[i][2], T[i][3]} : i \in 1..Len(T)}

\* ------------------------------------------------------------------ well-formedness and observers
GeoOK(s) ==
  CASE s.cls = "Cuboid" -> Len(s.geo) = 3 /\ \A j \in 1..3 : s.geo[j] > 0
    [] s.cls = "Cylinder" -> Len(s.geo) = 2 /\ s.geo[1] > 0 /\ s.geo[2] > 0
    [] s.cls = "Sphere" -> Len(s.geo) = 1 /\ s.geo[1] > 0
    [] s.cls = "CylinderSegment" -> Len(s.geo) = 5 /\ 0 <= s.geo[1] /\ s.geo[1] < s.geo[2] /\ s.geo[3] > 0 /\ s.geo[4] < s.geo[5]
                                    /\ s.geo[5] - s.geo[4] <= 24 /\ AngOK(s.geo[4]) /\ AngOK(s.geo[5])
    [] s.cls = "Tetrahedron" -> Len(s.geo) = 4 /\ Det3(Sub3(s.geo[2], s.geo[1]), Sub3(s.geo[3], s.geo[1]), Sub3(s.geo[4], s.geo[1])) # 0
    [] s.cls = "Triangle" -> Len(s.geo) = 3 /\ Cross3(Sub3(s.geo[2], s.geo[1]), Sub3(s.geo[3], s.geo[1])) # Zero3
    [] s.cls \in {"TriangularMesh", "TriangleCollection"} -> Len(s.geo) = 2 /\ Len(s.geo[1]) >= 4
    [] s.cls = "Circle" -> Len(s.geo) = 1 /\ s.geo[1] > 0
    [] s.cls = "Polygon" -> Len(s.geo) = 2 /\ s.geo[1] > 0 /\ s.geo[2] >= 3
    [] s.cls = "Polyline" -> Len(s.geo) >= 2
    [] s.cls = "Dipole" -> Len(s.geo) \in {0, 1}
    [] s.cls = "Custom" -> TRUE
    [] OTHER -> FALSE
\* what can be done to a live TriangularMesh after construction: "use" = a field evaluation, "mesh" = reading .mesh, "tricoll" =
\* to_TriangleCollection(), "check" = check_open / check_disconnected / check_selfintersecting, "reorient" = reorient_faces()
OpNames == {"use", "mesh", "tricoll", "check", "reorient"}
IsMeshy(s) == s.cls \in {"TriangularMesh", "TriangleCollection"}
\* geo always lists the faces with outward winding; the faces in `flip` are handed to the constructor inverted.  The object
\* describes the body once it has been normalised: by the constructor (every rep but "ctor_skip") or by a later reorient_faces()
DescribesBody(s) == ~IsMeshy(s) \/ Len(s.flip) = 0 \/ s.rep # "ctor_skip" \/ "reorient" \in SeqRange(s.ops)
HistoryOK(s) == /\ SeqRange(s.ops) \subseteq OpNames
                /\ (~IsMeshy(s) => Len(s.ops) = 0 /\ Len(s.flip) = 0)
                /\ (IsMeshy(s) => SeqRange(s.flip) \subseteq 1..Len(s.geo[2]))
SrcOK(s) == /\ s.cls \in Classes /\ GeoOK(s) /\ Len(s.path) >= 1 /\ HistoryOK(s) /\ DescribesBody(s)
            /\ \A i \in 1..Len(s.path) : M3(s.path[i].r) \in Rots
            /\ Len(s.exc) = (IF s.cls \in Currents THEN 1 ELSE 3)
WellFormed(cfg) == /\ cfg.den > 0 /\ cfg.k \in -9..9 /\ cfg.ea \in -12..12
                   /\ Len(cfg.srcs) >= 1 /\ \A s \in 1..Len(cfg.srcs) : SrcOK(cfg.srcs[s])
                   /\ Len(cfg.obs) >= 1
                   /\ (cfg.sens.on => \A i \in 1..Len(cfg.sens.path) : M3(cfg.sens.path[i].r) \in Rots)
                   \* paths may have different lengths: "paths shorter than index m are considered as static beyond their end"
                   \* (PoseAt: an object stays at its LAST pose, position and orientation)

\* every observer is strictly off every surface, cut plane, sheet plane, wire and point source, at every path index
ObsOK(cfg, o) == \A s \in 1..Len(cfg.srcs) : \A i \in 1..PathLen(cfg) : Status(cfg.srcs[s], Local(cfg, cfg.srcs[s], o, i)) # "on"
ObsOff(cfg) == \A j \in 1..Len(cfg.obs) : ObsOK(cfg, cfg.obs[j])
\* observer classes of the palettes: the label tells the truth about inside / outside / far (30..300 sizes);
\* "gen" and "close" (close to a sheet or wire) promise nothing beyond ObsOK
InLabs == {"deep_in", "face_in"}
\* edge_ext: close to the straight extension of an edge; ext_edge / ext_face: exactly ON the straight extension of an edge /
\* on the extension of a face plane of a Cuboid, outside the body; in_one: strictly inside exactly one of several sources
OutLabs == {"face_out", "edge", "edge_ext", "ext_edge", "ext_face", "far", "out"}
Labels == InLabs \cup OutLabs \cup {"gen", "close", "in_one"}
OnPlanes(src, x) == Cardinality({j \in 1..3 : 2 * Abs(x[j]) = src.geo[j]})
LabelOK(cfg, o) == o.lab \in Labels /\ \A s \in 1..Len(cfg.srcs) : \A i \in 1..PathLen(cfg) :
    LET src == cfg.srcs[s]
        x == Local(cfg, src, o, i)
        st == Status(src, x)
    IN /\ (o.lab \in InLabs => st = "in")
       /\ (o.lab \in OutLabs => st = "out")
       /\ (o.lab = "far" /\ src.cls \notin {"Dipole", "Custom"} => BeyondSizes(src, x, 30) /\ WithinSizes(src, x, 300))
       /\ (o.lab # "far" => WithinSizes(src, x, 10))
       /\ (o.lab = "ext_edge" /\ src.cls = "Cuboid" => OnPlanes(src, x) = 2)
       /\ (o.lab = "ext_face" /\ src.cls = "Cuboid" => OnPlanes(src, x) = 1)
InOneOK(cfg, o) == o.lab = "in_one" => \A i \in 1..PathLen(cfg) :
    LET st(s) == Status(cfg.srcs[s], Local(cfg, cfg.srcs[s], o, i)) IN
    /\ Cardinality({s \in 1..Len(cfg.srcs) : st(s) = "in"}) = 1 /\ \A s \in 1..Len(cfg.srcs) : st(s) \in {"in", "out"}
    \* distinguishing: seen from the body that contains it, the point is outside the SHAPE of every other body
    /\ LET w == CHOOSE s \in 1..Len(cfg.srcs) : st(s) = "in" IN
       \A u \in 1..Len(cfg.srcs) : u # w => Status(cfg.srcs[u], Local(cfg, cfg.srcs[w], o, i)) = "out"
LabelsOK(cfg) == \A j \in 1..Len(cfg.obs) : LabelOK(cfg, cfg.obs[j]) /\ InOneOK(cfg, cfg.obs[j])
\* distance class of observer j in a configuration: near iff within 10 sizes of every source at every path index
NearIn(cfg, j) == \A s \in 1..Len(cfg.srcs) : \A i \in 1..PathLen(cfg) : WithinSizes(cfg.srcs[s], Local(cfg, cfg.srcs[s], cfg.obs[j], i), 10)
DistClass(pre, post, j) == IF NearIn(pre, j) /\ NearIn(post, j) THEN "near" ELSE "far"
\* exact inside/outside class of observer j w.r.t. source s at path index i
InsideClass(cfg, s, j, i) == Status(cfg.srcs[s], Local(cfg, cfg.srcs[s], cfg.obs[j], i))

\* ================================================================== actions (functional form)
MovePose(ps, g, t) == Pose(Add3(MulMV(g, V3(ps.p)), t), MulMM(g, M3(ps.r)))
MovePath(path, g, t) == [i \in 1..Len(path) |-> MovePose(path[i], g, t)]
RigidMoveF(cfg, g, t) ==
  [cfg EXCEPT !.srcs = [s \in 1..Len(cfg.srcs) |-> [cfg.srcs[s] EXCEPT !.path = MovePath(@, g, t)]],
              !.sens = IF cfg.sens.on THEN [cfg.sens EXCEPT !.path = MovePath(@, g, t)] ELSE cfg.sens,
              !.obs = IF cfg.sens.on THEN cfg.obs
                      ELSE [j \in 1..Len(cfg.obs) |-> [cfg.obs[j] EXCEPT !.x = Add3(MulMV(g, V3(@)), t)]]]
RescaleF(cfg, k) == [cfg EXCEPT !.k = @ + k]
ScaleExcF(cfg, a, m) == [cfg EXCEPT !.ea = @ + a,
                                    !.srcs = [s \in 1..Len(cfg.srcs) |-> [cfg.srcs[s] EXCEPT !.exc = [j \in 1..Len(@) |-> m * @[j]]]]]

\* a part of source s: same orientation at every path index, position shifted by the body-frame offset `off`
PartPath(path, off) == [i \in 1..Len(path) |-> Pose(Add3(V3(path[i].p), MulMV(M3(path[i].r), off)), M3(path[i].r))]
Part(s, cls, geo, off) == [cls |-> cls, geo |-> geo, rep |-> "", ops |-> <<>>, flip |-> <<>>, exc |-> s.exc, path |-> PartPath(s.path, off)]
Axis3(j, v) == <<IF j = 1 THEN v ELSE 0, IF j = 2 THEN v ELSE 0, IF j = 3 THEN v ELSE 0>>

\* Split a Cuboid by the plane at distance `cut` from its low face along `axis` (dim and cut even: centres stay integer)
SplitOK(s, axis, cut) == s.cls = "Cuboid" /\ s.geo[axis] % 2 = 0 /\ cut % 2 = 0 /\ 0 < cut /\ cut < s.geo[axis]
SplitParts(s, axis, cut) ==
  <<Part(s, "Cuboid", [s.geo EXCEPT ![axis] = cut], Axis3(axis, (cut - s.geo[axis]) \div 2)),
    Part(s, "Cuboid", [s.geo EXCEPT ![axis] = s.geo[axis] - cut], Axis3(axis, cut \div 2))>>
\* Split a CylinderSegment in r, phi or z
SplitSegOK(s, kind, cut) ==
  /\ s.cls = "CylinderSegment"
  /\ CASE kind = "r" -> s.geo[1] < cut /\ cut < s.geo[2]
       [] kind = "phi" -> s.geo[4] < cut /\ cut < s.geo[5] /\ AngOK(cut)
       [] kind = "z" -> s.geo[3] % 2 = 0 /\ cut % 2 = 0 /\ 0 < cut /\ cut < s.geo[3]
SplitSegParts(s, kind, cut) ==
  CASE kind = "r" -> <<Part(s, s.cls, [s.geo EXCEPT ![2] = cut], Zero3), Part(s, s.cls, [s.geo EXCEPT ![1] = cut], Zero3)>>
    [] kind = "phi" -> <<Part(s, s.cls, [s.geo EXCEPT ![5] = cut], Zero3), Part(s, s.cls, [s.geo EXCEPT ![4] = cut], Zero3)>>
    [] kind = "z" -> <<Part(s, s.cls, [s.geo EXCEPT ![3] = cut], <<0, 0, (cut - s.geo[3]) \div 2>>),
                       Part(s, s.cls, [s.geo EXCEPT ![3] = s.geo[3] - cut], <<0, 0, cut \div 2>>)>>

\* the box with even dimensions <<a,b,c>>: corners (number k-1 = 4*bx + 2*by + bz, bit 0 = low side), 12 outward triangles,
\* decompositions into 5 and 6 tetrahedra
Corner(dim, k) == LET b == k - 1 IN <<(IF b \div 4 = 0 THEN -1 ELSE 1) * (dim[1] \div 2),
                                      (IF (b \div 2) % 2 = 0 THEN -1 ELSE 1) * (dim[2] \div 2),
                                      (IF b % 2 = 0 THEN -1 ELSE 1) * (dim[3] \div 2)>>
Corners(dim) == [k \in 1..8 |-> Corner(dim, k)]
BoxFaces == <<<<1, 2, 4>>, <<1, 4, 3>>, <<5, 8, 6>>, <<5, 7, 8>>, <<1, 5, 6>>, <<1, 6, 2>>,
              <<3, 8, 7>>, <<3, 4, 8>>, <<1, 3, 7>>, <<1, 7, 5>>, <<2, 8, 4>>, <<2, 6, 8>>>>
Tetra5 == <<<<1, 4, 6, 7>>, <<2, 1, 4, 6>>, <<3, 1, 4, 7>>, <<5, 1, 6, 7>>, <<8, 4, 6, 7>>>>
Tetra6 == <<<<1, 5, 7, 8>>, <<1, 5, 6, 8>>, <<1, 3, 7, 8>>, <<1, 3, 4, 8>>, <<1, 2, 6, 8>>, <<1, 2, 4, 8>>>>
EvenBox(s) == s.cls = "Cuboid" /\ \A j \in 1..3 : s.geo[j] % 2 = 0
IsBoxMesh(s) == s.cls = "TriangularMesh" /\ Len(s.geo[2]) > 0 /\ ClosedOriented(SoupOf(s)) /\ SoupVol6(SoupOf(s)) > 0

Reps == {"Mesh", "MeshHull", "Tetra5", "Tetra6", "Sheets", "Prisms", "TriColl", "FromTriangles", "FromMesh", "FullSeg", "Dipole", "Polygon"}
\* "Prisms": the box cut by the diagonal plane that contains its SHORTEST edge direction k into two triangular prisms, each a closed
\* outward oriented 8-face mesh whose face list starts with the slanted (diagonal) face
ThinAxis(dim) == CHOOSE k \in 1..3 : \A j \in 1..3 : dim[k] < dim[j] \/ (dim[k] = dim[j] /\ k <= j)
Pt3(k, pu, pv, pw) == LET u == (k % 3) + 1  v == (u % 3) + 1 IN [j \in 1..3 |-> IF j = u THEN pu ELSE IF j = v THEN pv ELSE pw]
PrismVerts(dim, k, tri) == LET w == dim[k] \div 2 IN
    [n \in 1..6 |-> Pt3(k, tri[((n - 1) % 3) + 1][1], tri[((n - 1) % 3) + 1][2], IF n <= 3 THEN -w ELSE w)]
PrismFaces == <<<<1, 2, 5>>, <<1, 5, 4>>, <<2, 3, 6>>, <<2, 6, 5>>, <<3, 1, 4>>, <<3, 4, 6>>, <<1, 3, 2>>, <<4, 5, 6>>>>
PrismTris(dim, k) == LET u == (k % 3) + 1  v == (u % 3) + 1  a == dim[u] \div 2  b == dim[v] \div 2 IN
    <<<<<<a, b>>, <<-a, -b>>, <<a, -b>>>>, <<<<-a, -b>>, <<a, b>>, <<-a, b>>>>>>
\* "MeshLate" (act.ops = history): the 12-face mesh is built UN-normalised (reorient_faces skipped, the faces LateFlip inverted), the
\* live object is used / inspected, normalised by reorient_faces(), possibly used again - and only then compared
LateFlip == <<2, 5, 6, 10>>
ConvertOK(s, rep) ==
  CASE rep \in {"Mesh", "MeshLate", "MeshHull", "Sheets", "Prisms"} -> EvenBox(s)
    \* the separating-axis test of the tetrahedra multiplies three lengths: 32-bit integers
    [] rep \in {"Tetra5", "Tetra6"} -> EvenBox(s) /\ \A j \in 1..3 : s.geo[j] <= 64
    [] rep \in {"TriColl", "FromTriangles", "FromMesh"} -> IsBoxMesh(s)
    [] rep = "FullSeg" -> s.cls = "Cylinder" /\ s.geo[1] % 2 = 0
    [] rep = "Dipole" -> s.cls = "Sphere"
    [] rep = "Polygon" -> s.cls = "Circle"
    [] OTHER -> FALSE
ConvertParts(s, act) ==
  LET C == Corners(s.geo)
      rep == act.rep IN
  CASE rep = "Mesh" -> <<[Part(s, "TriangularMesh", <<C, BoxFaces>>, Zero3) EXCEPT !.rep = "ctor"]>>
    [] rep = "MeshLate" -> <<[Part(s, "TriangularMesh", <<C, BoxFaces>>, Zero3) EXCEPT !.rep = "ctor_skip", !.flip = LateFlip, !.ops = act.ops]>>
    [] rep = "MeshHull" -> <<[Part(s, "TriangularMesh", <<C, <<>>>>, Zero3) EXCEPT !.rep = "from_ConvexHull"]>>
    [] rep = "Prisms" -> LET k == ThinAxis(s.geo) IN
         [n \in 1..2 |-> [Part(s, "TriangularMesh", <<PrismVerts(s.geo, k, PrismTris(s.geo, k)[n]), PrismFaces>>, Zero3) EXCEPT !.rep = "ctor"]]
    [] rep = "Tetra5" -> [n \in 1..5 |-> Part(s, "Tetrahedron", [m \in 1..4 |-> C[Tetra5[n][m]]], Zero3)]
    [] rep = "Tetra6" -> [n \in 1..6 |-> Part(s, "Tetrahedron", [m \in 1..4 |-> C[Tetra6[n][m]]], Zero3)]
    [] rep = "Sheets" -> [n \in 1..12 |-> Part(s, "Triangle", [m \in 1..3 |-> C[BoxFaces[n][m]]], Zero3)]
    [] rep = "TriColl" -> <<[s EXCEPT !.cls = "TriangleCollection", !.rep = "to_TriangleCollection"]>>
    [] rep = "FromTriangles" -> <<[s EXCEPT !.rep = "from_triangles", !.ops = <<>>, !.flip = <<>>]>>      \* a new object from the triangles
    [] rep = "FromMesh" -> <<[s EXCEPT !.rep = "from_mesh", !.ops = <<>>, !.flip = <<>>]>>
    [] rep = "FullSeg" -> <<Part(s, "CylinderSegment", <<0, s.geo[1] \div 2, s.geo[2], 0, 24>>, Zero3)>>
    [] rep = "Dipole" -> <<Part(s, "Dipole", s.geo, Zero3)>>
    [] rep = "Polygon" -> <<Part(s, "Polygon", <<s.geo[1], 16>>, Zero3)>>
\* Merge two Cuboids (sources i and i+1) that share a full face
MergeAxis(a, b) ==      \* the axis along which b sits next to a, or 0
  LET off2 == MulMV(Tr(M3(a.path[1].r)), Sub3(Scale3(2, V3(b.path[1].p)), Scale3(2, V3(a.path[1].p))))     \* doubled offset in a's frame
      ok(j) == /\ \A m \in 1..3 : m # j => (off2[m] = 0 /\ a.geo[m] = b.geo[m])
               /\ Abs(off2[j]) = a.geo[j] + b.geo[j]
  IN IF \E j \in 1..3 : ok(j) THEN CHOOSE j \in 1..3 : ok(j) ELSE 0
MergeOK(a, b) == /\ a.cls = "Cuboid" /\ b.cls = "Cuboid" /\ a.exc = b.exc /\ Len(a.path) = Len(b.path)
                 /\ MergeAxis(a, b) # 0
                 /\ \A i \in 1..Len(a.path) : M3(a.path[i].r) = M3(b.path[i].r)
                 /\ LET off == MulMV(Tr(M3(a.path[1].r)), Sub3(V3(b.path[1].p), V3(a.path[1].p)))
                    IN \A i \in 1..Len(a.path) : V3(b.path[i].p) = Add3(V3(a.path[i].p), MulMV(M3(a.path[i].r), off))
                 /\ (a.geo[MergeAxis(a, b)] + b.geo[MergeAxis(a, b)]) % 2 = 0
Merged(a, b) ==
  LET j == MergeAxis(a, b)
      off2 == MulMV(Tr(M3(a.path[1].r)), Sub3(Scale3(2, V3(b.path[1].p)), Scale3(2, V3(a.path[1].p))))
      \* centre of the union relative to a: sign * b.geo[j] / 2
      sh == Sgn(off2[j]) * (b.geo[j] \div 2)
  IN Part(a, "Cuboid", [a.geo EXCEPT ![j] = a.geo[j] + b.geo[j]], Axis3(j, sh))

\* Freeze(m): the STATIC configuration in which every object (sources, sensor) is placed at its pose number min(m, own length)
FreezeF(cfg, m) ==
  [cfg EXCEPT !.srcs = [s \in 1..Len(cfg.srcs) |-> [cfg.srcs[s] EXCEPT !.path = <<PoseAt(@, m)>>]],
              !.sens = IF cfg.sens.on THEN [cfg.sens EXCEPT !.path = <<PoseAt(@, m)>>] ELSE cfg.sens]
\* The small-angle image of a configuration (fine concretizations): every path is contracted towards its first pose by a factor
\* eps <= 1e-5, all SOURCE orientations towards the first orientation of the first source (steps of a path and sources of a group
\* then differ by 1e-3 .. 1e-5 degrees).  In the limit every source stands at its first position with the orientation of the first
\* source and the sensor at its first pose: observers must be strictly off all surfaces of THAT configuration (margin >= 1 unit,
\* the image moves by less than 1e-4 units)
FineView(cfg) ==
  [cfg EXCEPT !.srcs = [s \in 1..Len(cfg.srcs) |-> [cfg.srcs[s] EXCEPT !.path = <<Pose(V3(@[1].p), M3(cfg.srcs[1].path[1].r))>>]],
              !.sens = IF cfg.sens.on THEN [cfg.sens EXCEPT !.path = <<@[1]>>] ELSE cfg.sens]
FinePremise(cfg) == ObsOff(FineView(cfg))

\* act records: [name |-> "RigidMove", g, t] [name |-> "Rescale", k] [name |-> "ScaleExc", a, m]
\*              [name |-> "Split", i, axis, cut] [name |-> "SplitSeg", i, kind, cut] [name |-> "Convert", i, rep] [name |-> "Merge", i]
\*              [name |-> "Convert", i, rep |-> "MeshLate", ops] [name |-> "Op", i, op] (something is done to the live mesh object)
\*              [name |-> "Reconcretize"] (the abstract configuration does not change; the concretization does)
EnabledAct(cfg, act) ==
  CASE act.name = "RigidMove" -> M3(act.g) \in Rots
    [] act.name = "Rescale" -> cfg.k + act.k \in -9..9 /\ act.k # 0
    [] act.name = "ScaleExc" -> cfg.ea + act.a \in -12..12 /\ act.m \in {1, -1} /\ ~(act.a = 0 /\ act.m = 1)
    [] act.name = "Split" -> act.i \in 1..Len(cfg.srcs) /\ SplitOK(cfg.srcs[act.i], act.axis, act.cut)
    [] act.name = "SplitSeg" -> act.i \in 1..Len(cfg.srcs) /\ SplitSegOK(cfg.srcs[act.i], act.kind, act.cut)
    [] act.name = "Convert" -> /\ act.i \in 1..Len(cfg.srcs) /\ ConvertOK(cfg.srcs[act.i], act.rep)
                               /\ (act.rep = "MeshLate" => SeqRange(act.ops) \subseteq OpNames /\ "reorient" \in SeqRange(act.ops))
    [] act.name = "Op" -> /\ act.i \in 1..Len(cfg.srcs) /\ cfg.srcs[act.i].cls = "TriangularMesh" /\ act.op \in OpNames
                          /\ Len(cfg.srcs[act.i].ops) < 4
    [] act.name = "Merge" -> act.i \in 1..(Len(cfg.srcs) - 1) /\ MergeOK(cfg.srcs[act.i], cfg.srcs[act.i + 1])
    [] act.name = "Reconcretize" -> TRUE
    [] act.name = "Freeze" -> PathLen(cfg) > 1 /\ act.m \in 1..PathLen(cfg)
    [] OTHER -> FALSE
ApplyF(cfg, act) ==
  CASE act.name = "RigidMove" -> RigidMoveF(cfg, M3(act.g), V3(act.t))
    [] act.name = "Rescale" -> RescaleF(cfg, act.k)
    [] act.name = "ScaleExc" -> ScaleExcF(cfg, act.a, act.m)
    [] act.name = "Split" -> [cfg EXCEPT !.srcs = Splice(@, act.i, 1, SplitParts(@[act.i], act.axis, act.cut))]
    [] act.name = "SplitSeg" -> [cfg EXCEPT !.srcs = Splice(@, act.i, 1, SplitSegParts(@[act.i], act.kind, act.cut))]
    [] act.name = "Convert" -> [cfg EXCEPT !.srcs = Splice(@, act.i, 1, ConvertParts(@[act.i], act))]
    [] act.name = "Op" -> [cfg EXCEPT !.srcs[act.i].ops = Append(@, act.op)]
    [] act.name = "Merge" -> [cfg EXCEPT !.srcs = Splice(@, act.i, 2, <<Merged(@[act.i], @[act.i + 1])>>)]
    [] act.name = "Reconcretize" -> cfg
    [] act.name = "Freeze" -> FreezeF(cfg, act.m)

\* ================================================================== exact premises (declarative)
SameFrame(pre, post) == post.den = pre.den /\ post.k = pre.k /\ post.ea = pre.ea
SameObs(pre, post) == post.obs = pre.obs /\ post.sens = pre.sens
SameBody(a, b) == a.cls = b.cls /\ a.geo = b.geo /\ a.rep = b.rep /\ a.ops = b.ops /\ a.flip = b.flip /\ a.exc = b.exc /\ Len(a.path) = Len(b.path)

\* --- C03: post is pre moved by (g, t): every pose of every path, the sensor path, the observer points
LocalInvariant(pre, post) ==
  /\ PathLen(post) = PathLen(pre)
  /\ \A s \in 1..Len(pre.srcs) : \A j \in 1..Len(pre.obs) : \A i \in 1..PathLen(pre) :
        Local(post, post.srcs[s], post.obs[j], i) = Local(pre, pre.srcs[s], pre.obs[j], i)
PremiseMove(pre, act, post) ==
  LET g == M3(act.g)  t == V3(act.t) IN
  /\ g \in Rots
  /\ SameFrame(pre, post) /\ Len(post.srcs) = Len(pre.srcs) /\ Len(post.obs) = Len(pre.obs)
  /\ \A s \in 1..Len(pre.srcs) : SameBody(pre.srcs[s], post.srcs[s])
  /\ \A s \in 1..Len(pre.srcs) : \A i \in 1..Len(pre.srcs[s].path) :
        /\ M3(post.srcs[s].path[i].r) = MulMM(g, M3(pre.srcs[s].path[i].r)) /\ M3(post.srcs[s].path[i].r) \in Rots
        /\ V3(post.srcs[s].path[i].p) = Add3(MulMV(g, V3(pre.srcs[s].path[i].p)), t)
  /\ post.sens.on = pre.sens.on /\ Len(post.sens.path) = Len(pre.sens.path)
  /\ \A j \in 1..Len(pre.obs) : post.obs[j].lab = pre.obs[j].lab
  /\ (IF pre.sens.on
      THEN /\ \A i \in 1..Len(pre.sens.path) : /\ M3(post.sens.path[i].r) = MulMM(g, M3(pre.sens.path[i].r))
                                               /\ V3(post.sens.path[i].p) = Add3(MulMV(g, V3(pre.sens.path[i].p)), t)
           /\ \A j \in 1..Len(pre.obs) : V3(post.obs[j].x) = V3(pre.obs[j].x)
      ELSE \A j \in 1..Len(pre.obs) : V3(post.obs[j].x) = Add3(MulMV(g, V3(pre.obs[j].x)), t))
  \* what the physics needs: relative placement (local observer coordinates, relative orientation of the reading frame) unchanged
  /\ LocalInvariant(pre, post)
  /\ \A s \in 1..Len(pre.srcs) : \A i \in 1..PathLen(pre) :
        RelRot(post, post.srcs[s], i) = (IF pre.sens.on THEN RelRot(pre, pre.srcs[s], i) ELSE MulMM(g, RelRot(pre, pre.srcs[s], i)))

\* --- C03, second sentence: "position and orientation of a source are honoured exactly as local frame placed in the global
\* frame".  post is the static configuration of pre at path index m: every object at its own pose number min(m, own length)
PremiseFreeze(pre, act, post) ==
  LET m == act.m IN
  /\ PathLen(pre) > 1 /\ m \in 1..PathLen(pre) /\ PathLen(post) = 1
  /\ SameFrame(pre, post) /\ post.obs = pre.obs /\ Len(post.srcs) = Len(pre.srcs)
  /\ \A s \in 1..Len(pre.srcs) : /\ post.srcs[s] = [pre.srcs[s] EXCEPT !.path = post.srcs[s].path]
                                 /\ post.srcs[s].path = <<PoseAt(pre.srcs[s].path, m)>>
  /\ post.sens.on = pre.sens.on
  /\ (IF pre.sens.on THEN post.sens.path = <<PoseAt(pre.sens.path, m)>> ELSE post.sens = pre.sens)
  \* what the physics needs: the same relative placement and reading frame as at index m of the paths
  /\ \A s \in 1..Len(pre.srcs) : /\ RelRot(post, post.srcs[s], 1) = RelRot(pre, pre.srcs[s], m)
                                 /\ \A j \in 1..Len(pre.obs) : Local(post, post.srcs[s], post.obs[j], 1) = Local(pre, pre.srcs[s], pre.obs[j], m)

\* --- C12
KindHomogeneous(cfg) == \A s, u \in 1..Len(cfg.srcs) : LenExp(cfg.srcs[s]) = LenExp(cfg.srcs[u])
PremiseRescale(pre, act, post) == act.k # 0 /\ post = [pre EXCEPT !.k = pre.k + act.k] /\ post.k \in -9..9 /\ KindHomogeneous(pre)
PremiseScaleExc(pre, act, post) ==
  /\ act.m \in {1, -1} /\ post.ea = pre.ea + act.a /\ post.ea \in -12..12
  /\ post.den = pre.den /\ post.k = pre.k /\ SameObs(pre, post) /\ Len(post.srcs) = Len(pre.srcs)
  /\ \A s \in 1..Len(pre.srcs) : /\ post.srcs[s] = [pre.srcs[s] EXCEPT !.exc = post.srcs[s].exc]
                                 /\ \A j \in 1..Len(pre.srcs[s].exc) : post.srcs[s].exc[j] = act.m * pre.srcs[s].exc[j]

\* --- C13: source i of `whole` configuration is replaced by n sources of `parts` configuration, everything else equal
Replaces(whole, parts, i, n) ==
  /\ SameFrame(whole, parts) /\ SameObs(whole, parts)
  /\ Len(parts.srcs) = Len(whole.srcs) + n - 1 /\ i \in 1..Len(whole.srcs) /\ n >= 1
  /\ \A s \in 1..(i - 1) : parts.srcs[s] = whole.srcs[s]
  /\ \A s \in (i + 1)..Len(whole.srcs) : parts.srcs[s + n - 1] = whole.srcs[s]
\* part q sits in the body frame of w at a fixed offset with the same orientation, at every path index, same excitation
OffsetOf(w, q) == MulMV(Tr(M3(w.path[1].r)), Sub3(V3(q.path[1].p), V3(w.path[1].p)))
SamePoseExc(w, q) ==
  /\ q.exc = w.exc /\ Len(q.path) = Len(w.path)
  /\ \A i \in 1..Len(w.path) : /\ M3(q.path[i].r) = M3(w.path[i].r)
                               /\ V3(q.path[i].p) = Add3(V3(w.path[i].p), MulMV(M3(w.path[i].r), OffsetOf(w, q)))
\* boxes in the frame of w, doubled coordinates
BoxLo2(w, q) == Sub3(Scale3(2, OffsetOf(w, q)), q.geo)
BoxHi2(w, q) == Add3(Scale3(2, OffsetOf(w, q)), q.geo)
BoxesDisjoint(w, a, b) == \E j \in 1..3 : BoxHi2(w, a)[j] <= BoxLo2(w, b)[j] \/ BoxHi2(w, b)[j] <= BoxLo2(w, a)[j]
BoxPartition(w, Q) ==
  /\ \A n \in 1..Len(Q) : Q[n].cls = "Cuboid" /\ \A j \in 1..3 : BoxLo2(w, Q[n])[j] >= -w.geo[j] /\ BoxHi2(w, Q[n])[j] <= w.geo[j]
  /\ \A n, m \in 1..Len(Q) : n < m => BoxesDisjoint(w, Q[n], Q[m])
  /\ SumSeq([n \in 1..Len(Q) |-> Q[n].geo[1] * Q[n].geo[2] * Q[n].geo[3]]) = w.geo[1] * w.geo[2] * w.geo[3]
\* tetrahedra: separating axis test with the face normals and the edge x edge directions
TetEdges(v) == {Sub3(v[p[2]], v[p[1]]) : p \in {<<1, 2>>, <<1, 3>>, <<1, 4>>, <<2, 3>>, <<2, 4>>, <<3, 4>>}}
TetNormals(v) == {Cross3(Sub3(v[p[2]], v[p[1]]), Sub3(v[p[3]], v[p[1]])) : p \in {<<1, 2, 3>>, <<1, 2, 4>>, <<1, 3, 4>>, <<2, 3, 4>>}}
Proj(v, n) == {Dot3(n, v[a]) : a \in 1..4}
Separated(u, v, n) == MaxS(Proj(u, n)) <= MinS(Proj(v, n)) \/ MaxS(Proj(v, n)) <= MinS(Proj(u, n))
TetDisjoint(u, v) == \E n \in TetNormals(u) \cup TetNormals(v) \cup ({Cross3(e, f) : e \in TetEdges(u), f \in TetEdges(v)} \ {Zero3}) : Separated(u, v, n)
TetVol6(v) == Abs(Det3(Sub3(v[2], v[1]), Sub3(v[3], v[1]), Sub3(v[4], v[1])))
InBox2(w, pt) == \A j \in 1..3 : 2 * Abs(pt[j]) <= w.geo[j]
TetPartition(w, Q) ==
  /\ \A n \in 1..Len(Q) : Q[n].cls = "Tetrahedron" /\ OffsetOf(w, Q[n]) = Zero3 /\ \A a \in 1..4 : InBox2(w, Q[n].geo[a])
  /\ \A n, m \in 1..Len(Q) : n < m => TetDisjoint(Q[n].geo, Q[m].geo)
  /\ SumSeq([n \in 1..Len(Q) |-> TetVol6(Q[n].geo)]) = 6 * w.geo[1] * w.geo[2] * w.geo[3]
\* a closed, outward oriented triangle surface with all vertices in the (convex) box and exactly its volume is its boundary
SurfaceOfBox(w, T) == /\ ClosedOriented(T) /\ \A pt \in SoupPts(T) : InBox2(w, pt)
                      /\ SoupVol6(T) = 6 * w.geo[1] * w.geo[2] * w.geo[3]
\* chart boxes of cylinder segments in the frame of w: radii, angles (units 15 degrees, modulo 24), doubled z
SegZLo2(w, q) == 2 * OffsetOf(w, q)[3] - q.geo[3]
SegZHi2(w, q) == 2 * OffsetOf(w, q)[3] + q.geo[3]
AngDisjoint(a, b) == \A sh \in {-24, 0, 24} : a.geo[5] <= b.geo[4] + sh \/ b.geo[5] + sh <= a.geo[4]
AngInside(w, q) == w.geo[5] - w.geo[4] = 24 \/ \E sh \in {-24, 0, 24} : w.geo[4] <= q.geo[4] + sh /\ q.geo[5] + sh <= w.geo[5]
SegMeasure(q) == (q.geo[2] * q.geo[2] - q.geo[1] * q.geo[1]) * (q.geo[5] - q.geo[4]) * q.geo[3]
SegDisjoint(w, a, b) == \/ a.geo[2] <= b.geo[1] \/ b.geo[2] <= a.geo[1] \/ AngDisjoint(a, b)
                        \/ SegZHi2(w, a) <= SegZLo2(w, b) \/ SegZHi2(w, b) <= SegZLo2(w, a)
SegPartition(w, Q) ==
  /\ \A n \in 1..Len(Q) : /\ Q[n].cls = "CylinderSegment" /\ GeoOK(Q[n])
                          /\ OffsetOf(w, Q[n])[1] = 0 /\ OffsetOf(w, Q[n])[2] = 0
                          /\ w.geo[1] <= Q[n].geo[1] /\ Q[n].geo[2] <= w.geo[2] /\ AngInside(w, Q[n])
                          /\ SegZLo2(w, Q[n]) >= -w.geo[3] /\ SegZHi2(w, Q[n]) <= w.geo[3]
  /\ \A n, m \in 1..Len(Q) : n < m => SegDisjoint(w, Q[n], Q[m])
  /\ SumSeq([n \in 1..Len(Q) |-> SegMeasure(Q[n])]) = SegMeasure(w)

\* two convex closed outward oriented meshes inside the box, on different sides of the plane of the first face of the first one,
\* with exactly the volume of the box
MeshPairPartition(w, Q) ==
  LET T1 == SoupOf(Q[1])  T2 == SoupOf(Q[2])
      f == T1[1]
      nrm == Cross3(Sub3(f[2], f[1]), Sub3(f[3], f[1])) IN
  /\ Len(Q) = 2 /\ \A n \in 1..2 : Q[n].cls = "TriangularMesh" /\ OffsetOf(w, Q[n]) = Zero3 /\ Len(Q[n].geo[2]) > 0
  /\ ClosedOriented(T1) /\ ClosedOriented(T2) /\ SoupVol6(T1) > 0 /\ SoupVol6(T2) > 0
  /\ \A pt \in SoupPts(T1) \cup SoupPts(T2) : InBox2(w, pt)
  /\ \A pt \in SoupPts(T1) : Dot3(nrm, Sub3(pt, f[1])) <= 0
  /\ \A pt \in SoupPts(T2) : Dot3(nrm, Sub3(pt, f[1])) >= 0
  /\ SoupVol6(T1) + SoupVol6(T2) = 6 * w.geo[1] * w.geo[2] * w.geo[3]
\* Q (a sequence of sources) describes exactly the body w with the same polarization at every path index
SameBodyAs(w, Q) ==
  /\ Len(Q) >= 1 /\ \A n \in 1..Len(Q) : SamePoseExc(w, Q[n]) /\ GeoOK(Q[n])
  /\ CASE w.cls = "Cuboid" /\ Q[1].cls = "Cuboid" -> BoxPartition(w, Q)
       [] w.cls = "Cuboid" /\ Q[1].cls = "Tetrahedron" -> TetPartition(w, Q)
       [] w.cls = "Cuboid" /\ Q[1].cls = "TriangularMesh" /\ Q[1].rep = "from_ConvexHull" ->
            \* the implementation chooses the faces; the body is the convex hull of exactly the 8 corners
            Len(Q) = 1 /\ OffsetOf(w, Q[1]) = Zero3 /\ SeqRange(Q[1].geo[1]) = SeqRange(Corners(w.geo)) /\ EvenBox(w) /\ Len(Q[1].geo[2]) = 0
       [] w.cls = "Cuboid" /\ Q[1].cls = "TriangularMesh" /\ Q[1].rep # "from_ConvexHull" ->
            IF Len(Q) = 1 THEN OffsetOf(w, Q[1]) = Zero3 /\ SurfaceOfBox(w, SoupOf(Q[1])) ELSE MeshPairPartition(w, Q)
       [] w.cls = "Cuboid" /\ Q[1].cls = "Triangle" ->
            /\ \A n \in 1..Len(Q) : Q[n].cls = "Triangle" /\ OffsetOf(w, Q[n]) = Zero3
            /\ SurfaceOfBox(w, [n \in 1..Len(Q) |-> Q[n].geo])
       [] w.cls = "TriangularMesh" /\ Q[1].cls \in {"TriangularMesh", "TriangleCollection"} ->
            Len(Q) = 1 /\ OffsetOf(w, Q[1]) = Zero3 /\ Q[1].geo = w.geo /\ IsBoxMesh(w)
       [] w.cls = "Cylinder" /\ Q[1].cls = "CylinderSegment" ->
            SegPartition([w EXCEPT !.cls = "CylinderSegment", !.geo = <<0, w.geo[1] \div 2, w.geo[2], 0, 24>>], Q) /\ w.geo[1] % 2 = 0
       [] w.cls = "CylinderSegment" /\ Q[1].cls = "CylinderSegment" -> SegPartition(w, Q)
       [] w.cls = "Sphere" /\ Q[1].cls = "Dipole" -> Len(Q) = 1 /\ OffsetOf(w, Q[1]) = Zero3 /\ Q[1].geo = w.geo
       [] w.cls = "Circle" /\ Q[1].cls = "Polygon" -> Len(Q) = 1 /\ OffsetOf(w, Q[1]) = Zero3 /\ Q[1].geo[1] = w.geo[1]
       [] OTHER -> FALSE
NewCount(pre, post) == Len(post.srcs) - Len(pre.srcs) + 1
PremiseReplace(pre, act, post) ==
  /\ Replaces(pre, post, act.i, NewCount(pre, post))
  /\ SameBodyAs(pre.srcs[act.i], SubSeq(post.srcs, act.i, act.i + NewCount(pre, post) - 1))
  /\ (act.name = "Convert" /\ act.rep = "MeshLate" =>
        post.srcs[act.i].rep = "ctor_skip" /\ post.srcs[act.i].ops = act.ops /\ Len(post.srcs[act.i].flip) > 0)
  \* the sphere/dipole identity holds outside the sphere only
  /\ (act.name = "Convert" /\ act.rep = "Dipole" =>
        \A j \in 1..Len(pre.obs) : \A i \in 1..PathLen(pre) : InsideClass(pre, act.i, j, i) = "out")
\* something is done to the live object of source i, which described the body before and describes it afterwards
PremiseOp(pre, act, post) ==
  /\ act.i \in 1..Len(pre.srcs) /\ act.op \in OpNames /\ pre.srcs[act.i].cls = "TriangularMesh"
  /\ post = [pre EXCEPT !.srcs[act.i].ops = Append(@, act.op)]
  /\ DescribesBody(pre.srcs[act.i]) /\ DescribesBody(post.srcs[act.i])
PremiseMerge(pre, act, post) ==
  /\ Replaces(post, pre, act.i, 2)
  /\ SameBodyAs(post.srcs[act.i], SubSeq(pre.srcs, act.i, act.i + 1))

Premise(pre, act, post) ==
  /\ WellFormed(pre) /\ WellFormed(post) /\ ObsOff(pre) /\ ObsOff(post)
  /\ CASE act.name = "RigidMove" -> PremiseMove(pre, act, post)
       [] act.name = "Rescale" -> PremiseRescale(pre, act, post)
       [] act.name = "ScaleExc" -> PremiseScaleExc(pre, act, post)
       [] act.name \in {"Split", "SplitSeg", "Convert"} -> PremiseReplace(pre, act, post)
       [] act.name = "Merge" -> PremiseMerge(pre, act, post)
       [] act.name = "Op" -> PremiseOp(pre, act, post)
       [] act.name = "Reconcretize" -> post = pre
       [] act.name = "Freeze" -> PremiseFreeze(pre, act, post)
       [] OTHER -> FALSE

\* which fields a step makes a claim about
Claims(act) == IF act.name \in {"Split", "SplitSeg", "Merge", "Op"} THEN {"B", "H"}
               ELSE IF act.name = "Convert" THEN (IF act.rep \in {"Sheets", "TriColl"} THEN {"H"} ELSE {"B", "H"})
               ELSE {"B", "H", "J"}

\* conserved measures along any behaviour of Split / SplitSeg / Convert / Merge (checked by MC_Laws in every state)
SrcVol6(s) == CASE s.cls = "Cuboid" -> 6 * s.geo[1] * s.geo[2] * s.geo[3]
                [] s.cls = "Tetrahedron" -> TetVol6(s.geo)
                [] s.cls \in {"TriangularMesh", "TriangleCollection"} -> IF Len(s.geo[2]) = 0 THEN 6 * 8 * Abs(s.geo[1][1][1] * s.geo[1][1][2] * s.geo[1][1][3]) ELSE Abs(SoupVol6(SoupOf(s)))
                [] s.cls = "Triangle" -> SoupVol6(<<s.geo>>)              \* signed: a closed outward set adds up to 6V
                [] OTHER -> 0
SrcCylMeasure(s) == CASE s.cls = "Cylinder" -> s.geo[1] * s.geo[1] * 24 * s.geo[2]          \* 4 r^2 * angle * h
                      [] s.cls = "CylinderSegment" -> 4 * SegMeasure(s)
                      [] OTHER -> 0
PolyVol6(cfg) == SumSeq([s \in 1..Len(cfg.srcs) |-> SrcVol6(cfg.srcs[s])])
CylMeasure(cfg) == SumSeq([s \in 1..Len(cfg.srcs) |-> SrcCylMeasure(cfg.srcs[s])])

\* ================================================================== conclusions on fixed-point observations
\* Observations of one observer and one field: ob == [b, a, xs] with b[s][i], a[s][i] = 3-vector of the field of source s at
\* path index i before / after (integers: q8 = 1e-8 of the gross scale of this observer and field for C03 and C12; q12 two
\* limbs for the sums of C13); the `after` values are quantized with the scale multiplied by 10^xs (xs measured by the driver).
TolNear8 == 1              \* 1e-8 of the gross scale (DESIGN 3.4): covariance, rescaling, linearity within 10 sizes
TolFar8 == 1000            \* 1e-5 beyond 10 sizes
TolNear12 == 10000         \* the same tolerances in units of 1e-12 (representation / partition identities)
TolFar12 == 10000000
Tol8(dist) == IF dist = "near" THEN TolNear8 ELSE TolFar8
Tol12(dist) == IF dist = "near" THEN TolNear12 ELSE TolFar12

AllZeroOb(x) == \A s \in 1..Len(x) : \A i \in 1..Len(x[s]) : V3(x[s][i]) = Zero3
SameShape(ob) == Len(ob.a) = Len(ob.b) /\ \A s \in 1..Len(ob.b) : Len(ob.a[s]) = Len(ob.b[s])
\* after = g . before (g a signed permutation: exact on the integers), per source and path index
MoveConclusion(ob, g, tol) == SameShape(ob) /\ ob.xs = 0
                              /\ \A s \in 1..Len(ob.b) : \A i \in 1..Len(ob.b[s]) : VecClose8(V3(ob.a[s][i]), MulMV(g, V3(ob.b[s][i])), tol)
\* after * 10^(-xs) = m * before with the decade shift xs required by the law
ScaleConclusion(ob, m, tol) == SameShape(ob)
                               /\ \A s \in 1..Len(ob.b) : \A i \in 1..Len(ob.b[s]) : VecClose8(V3(ob.a[s][i]), Scale3(m, V3(ob.b[s][i])), tol)
ExpOK(ob, xs) == (AllZeroOb(ob.b) /\ AllZeroOb(ob.a)) \/ ob.xs = xs
\* the observation at path index m of the paths = the observation of the static placement (path index 1 of `after`)
PlacementConclusion(ob, m, tol) == Len(ob.a) = Len(ob.b) /\ ob.xs = 0
                                   /\ \A s \in 1..Len(ob.b) : VecClose8(V3(ob.a[s][1]), V3(ob.b[s][m]), tol)
\* the same conclusions on two-limb values (fine concretizations: 1e-12 of the gross scale)
Vec12Close(a, b, tol) == \A c \in 1..3 : Close12(a[c], b[c], tol)
Mul12(g, v) == [c \in 1..3 |-> <<Dot3(g[c], <<v[1][1], v[2][1], v[3][1]>>), Dot3(g[c], <<v[1][2], v[2][2], v[3][2]>>)>>]     \* signed permutation, limb-wise
MoveConclusion12(ob, g, tol) == SameShape(ob) /\ ob.xs = 0
                                /\ \A s \in 1..Len(ob.b) : \A i \in 1..Len(ob.b[s]) : Vec12Close(ob.a[s][i], Mul12(g, ob.b[s][i]), tol)
PlacementConclusion12(ob, m, tol) == Len(ob.a) = Len(ob.b) /\ ob.xs = 0
                                     /\ \A s \in 1..Len(ob.b) : Vec12Close(ob.a[s][1], ob.b[s][m], tol)
\* the CHANGE of the field along a fine path (difference to step 1, limb-wise): after-change = g . before-change.  The change is of
\* the order eps * gross scale; a path frozen at its first orientation has change 0 and is rejected, rounding noise (1e-13) is not
Delta12(x, s, i) == [c \in 1..3 |-> <<x[s][i][c][1] - x[s][1][c][1], x[s][i][c][2] - x[s][1][c][2]>>]
ChangeConclusion12(ob, g, tol) == SameShape(ob)
                                  /\ \A s \in 1..Len(ob.b) : \A i \in 2..Len(ob.b[s]) : Vec12Close(Delta12(ob.a, s, i), Mul12(g, Delta12(ob.b, s, i)), tol)
\* fine.e = e: increments scaled by 10^-e (e = 5, 6, 7: steps of 1e-3 .. 1e-5 degrees); tolerance of the change: 1e-3 of its own scale
\* 10^-e, not below 1e-9 of the gross scale (measured noise of re-derived inputs <= 6e-11)
TolChange12(e) == IF e <= 5 THEN 10000 ELSE 1000
\* sum over the sources, two-limb values: Sum12(x, i) = <<sum of high limbs, sum of low limbs>> per component
Sum12(x, i, c) == <<SumSeq([s \in 1..Len(x) |-> x[s][i][c][1]]), SumSeq([s \in 1..Len(x) |-> x[s][i][c][2]])>>
SumConclusion(ob, npath, tol) == ob.xs = 0 /\ \A i \in 1..npath : \A c \in 1..3 : Close12(Sum12(ob.a, i, c), Sum12(ob.b, i, c), tol)
\* inside/outside pattern read off J (J # 0 inside, 0 outside): identical before and after
JPattern(x) == [s \in 1..Len(x) |-> [i \in 1..Len(x[s]) |-> V3(x[s][i]) # Zero3]]
\* polygon -> circle: e(N) = max deviation of the N-gon from the circle (q8 units); e decreases at least 3.5-fold per doubling of N
MaxDev(circ, poly) == MaxS({Abs(poly[i][c] - circ[i][c]) : i \in 1..Len(circ), c \in 1..3})
RateOK(e1, e2) == 100 * e1 >= 1225 * e2            \* N -> 4 N: two doublings, 3.5^2 = 12.25
=============================================================================
