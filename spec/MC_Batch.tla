------------------------------ MODULE MC_Batch ------------------------------
(* TLC enumerates the batch compositions (which palette sources, in which order, with duplicates) and the      *)
(* linear combinations to test; the dumped states are the test plan. Invariants state what the plan covers:    *)
(* every palette entry occurs first, last, alone, and next to an entry of the same class.                      *)
EXTENDS Batch, TLC
CONSTANTS NPal,          \* number of palette entries (the harness defines the same palette, with ClassOf below)
          MaxLen, CoefIdx, DecIdx
CoefOf == <<-3, -2, -1, 1, 2, 3>>
\* decades of the excitation for the homogeneity law Obs(10^d * e) = 10^d * Obs(e): weak and strong excitations are ordinary inputs
DecOf == <<-15, -12, -9, -6, -3, 3, 6, 9>>
VARIABLES kind, arr, lin
vars == <<kind, arr, lin>>
\* classes of the palette entries (two entries of each class that has a variable-size geometry)
\* 1 and 15 have the SAME number of faces, 3 and 16 the SAME number of vertices - different geometry and excitation;
\* 17 and 18 are pyramids on the SAME base: same face count and identical leading facets
ClassOf(i) == CASE i \in {1, 2, 15, 17, 18} -> "TriangularMesh" [] i \in {3, 4, 16} -> "Polyline" [] i \in {5, 6} -> "CylinderSegment"
                [] i = 7 -> "Cuboid" [] i = 8 -> "Cylinder" [] i = 9 -> "Sphere" [] i = 10 -> "Tetrahedron"
                [] i = 11 -> "Triangle" [] i = 12 -> "Circle" [] i = 13 -> "Dipole" [] i = 14 -> "Tetrahedron"
Arrs == UNION {[1..n -> 1..NPal] : n \in 1..MaxLen}
\* three sources of ONE variable-size class, the middle one different from the first (first and last possibly equal in size or identical)
Ragged == {"TriangularMesh", "Polyline"}
Sandwich == {<<i, j, k>> : i \in 1..NPal, j \in 1..NPal, k \in 1..NPal} \cap {a \in [1..3 -> 1..NPal] : ClassOf(a[1]) \in Ragged /\ ClassOf(a[2]) = ClassOf(a[1]) /\ ClassOf(a[3]) = ClassOf(a[1]) /\ a[2] # a[1]}
\* "batch1": the smallest case - static copies of the sources and ONE observer (placed inside the last source)
Init == \/ (kind \in {"batch", "batch1"} /\ arr \in Arrs /\ lin = <<0, 0>>)
        \/ (kind = "batch" /\ arr \in Sandwich /\ lin = <<0, 0>>)
        \/ (kind = "homog" /\ arr \in [1..1 -> 1..NPal] /\ lin \in {<<DecOf[i], 0>> : i \in DecIdx})
        \/ (kind = "linear" /\ arr \in [1..1 -> 1..NPal] /\ lin \in {<<CoefOf[i], CoefOf[j]>> : i \in CoefIdx, j \in CoefIdx})
Next == UNCHANGED vars
Spec == Init /\ [][Next]_vars
\* coverage facts of the plan (checked once over the whole set, not per state)
ASSUME \A i \in 1..NPal :
         /\ \E a \in Arrs : Len(a) > 1 /\ a[1] = i
         /\ \E a \in Arrs : Len(a) > 1 /\ a[Len(a)] = i
         /\ <<i>> \in Arrs
         /\ (\E j \in 1..NPal : j # i /\ ClassOf(j) = ClassOf(i)) => \E a \in Arrs : \E q \in 1..(Len(a) - 1) : a[q] = i /\ a[q + 1] # i /\ ClassOf(a[q + 1]) = ClassOf(i)
         /\ \E a \in Arrs : \E q \in 1..(Len(a) - 1) : a[q] = i /\ a[q + 1] = i
ASSUME \A c \in Ragged : (\E a \in Sandwich : ClassOf(a[1]) = c /\ a[1] = a[3]) /\ (\E a \in Sandwich : ClassOf(a[1]) = c /\ a[1] # a[3] /\ a[2] # a[3])
TypeOK == kind \in {"batch", "batch1", "linear", "homog"} /\ Len(arr) >= 1
=============================================================================
