CONSTANTS
 NPal = 18
 MaxLen = 2
 DecIdx = {2, 3, 5, 7}
 CoefIdx = {2, 4, 6}
SPECIFICATION Spec
INVARIANT TypeOK
CHECK_DEADLOCK FALSE
