CONSTANTS
 NPal = 16
 MaxLen = 3
 CoefIdx = {1, 3, 4, 5, 6}
SPECIFICATION Spec
INVARIANT TypeOK
CHECK_DEADLOCK FALSE
