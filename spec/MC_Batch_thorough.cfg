CONSTANTS
 NPal = 18
 MaxLen = 3
 DecIdx = {1, 2, 3, 4, 5, 6, 7, 8}
 CoefIdx = {1, 3, 4, 5, 6}
SPECIFICATION Spec
INVARIANT TypeOK
CHECK_DEADLOCK FALSE
