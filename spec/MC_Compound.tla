---------------------------- MODULE MC_Compound ----------------------------
(* Sequences of move / rotate / position= / orientation= / reset_path applied to ANY object of a       *)
(* collection tree (C10): operating on a collection keeps every descendant's pose relative to it,      *)
(* operating on a child changes only that child's subtree.                                             *)
EXTENDS Path, TLC
CONSTANTS MaxIn, MaxStart, MaxInit, Depth, Shapes
VARIABLES st, last
vars == <<st, last>>

KidsOf(s) == CASE s = 1 -> [A |-> <<"b">>, b |-> <<>>]
               [] s = 2 -> [A |-> <<"b", "c">>, b |-> <<>>, c |-> <<>>]
               [] s = 3 -> [A |-> <<"D">>, D |-> <<"b">>, b |-> <<>>]
               [] s = 4 -> [A |-> <<"b", "D">>, b |-> <<>>, D |-> <<"c", "E">>, c |-> <<>>, E |-> <<"f">>, f |-> <<>>]
Objs == DOMAIN st.kids

VecSeq == <<<<1,0,0>>, <<0,2,0>>, <<0,0,3>>, <<-1,1,0>>>>
RotSeq == <<Rx90, Rz90, Ry90, MulMM(Rx90, Rz90)>>
AncSeq == <<<<1,0,0>>, <<0,1,0>>, <<0,0,1>>, <<1,1,1>>>>
Prefix(s, n) == [i \in 1..n |-> s[i]]
Scalar(x) == [scalar |-> TRUE, v |-> <<x>>]
Vector(s) == [scalar |-> FALSE, v |-> s]
Disps == {Scalar(<<1,-2,3>>)} \cup {Vector(Prefix(VecSeq, n)) : n \in 1..MaxIn}
RotIns == {Scalar(Rz90)} \cup {Vector(Prefix(RotSeq, n)) : n \in 1..MaxIn}
Ancs == {NoAnchor, [kind |-> "vec", scalar |-> TRUE, v |-> <<Zero3>>], [kind |-> "vec", scalar |-> TRUE, v |-> <<<<1,1,0>>>>]}
        \cup {[kind |-> "vec", scalar |-> FALSE, v |-> Prefix(AncSeq, n)] : n \in 1..MaxIn}
Starts == {AutoStart} \cup {IntStart(k) : k \in -MaxStart..MaxStart}
NewPos == {Prefix(<<<<2,0,1>>, <<0,3,0>>, <<1,1,1>>, <<0,0,-2>>>>, n) : n \in 1..MaxIn}
NewOri == {Prefix(<<Rz90, Rx90, Ry90, IdM>>, n) : n \in 1..MaxIn}

\* distinct, asymmetric initial poses; every member shares the path length n
Code(o) == CASE o = "A" -> 1 [] o = "b" -> 2 [] o = "c" -> 3 [] o = "D" -> 4 [] o = "E" -> 5 [] o = "f" -> 6
RotOf(k) == CASE k % 4 = 0 -> IdM [] k % 4 = 1 -> Rz90 [] k % 4 = 2 -> Rx90 [] k % 4 = 3 -> Ry90
\* sh shifts the orientation pattern: with sh = 2 the root collection starts UNROTATED and rotates along its path
InitPath(o, n, sh) == [pos |-> [i \in 1..n |-> <<Code(o) + i, 2 * Code(o) - i, i * Code(o) - 3>>],
                       ori |-> [i \in 1..n |-> RotOf(Code(o) + i + sh)]]

Call(op, o, inp, anc, start) == [op |-> op, o |-> o, inp |-> inp, anc |-> anc, start |-> start]
CallsOn(o) == {Call("move", o, d, NoAnchor, s) : d \in Disps, s \in Starts}
         \cup {Call("rotate", o, g, a, s) : g \in RotIns, a \in Ancs, s \in Starts}
         \cup {Call("setpos", o, Vector(np), NoAnchor, AutoStart) : np \in NewPos}
         \cup {Call("setori", o, Vector(nr), NoAnchor, AutoStart) : nr \in NewOri}
         \cup {Call("reset", o, Scalar(Zero3), NoAnchor, AutoStart)}
\* inputs that are EXPRESSIONS over the current state: the displacement / anchor / new position is the position path of an object r of
\* the tree (the caller passes `r.position`, a live view of r's path, which the operation itself may be changing). Value semantics:
\* the operation uses the value the expression had when the call was made.
RefInp(s, r) == [scalar |-> Len(s.path[r].pos) = 1, v |-> s.path[r].pos, ref |-> r]
RefCallsOn(s, o) == {Call("move", o, RefInp(s, r), NoAnchor, sx) : r \in DOMAIN s.kids, sx \in {AutoStart, IntStart(0)}}
               \cup {Call("rotate", o, Scalar(Rz90), [kind |-> "vec", scalar |-> Len(s.path[r].pos) = 1, v |-> s.path[r].pos, ref |-> r], AutoStart) : r \in DOMAIN s.kids}
               \cup {Call("setpos", o, [scalar |-> FALSE, v |-> s.path[r].pos, ref |-> r], NoAnchor, AutoStart) : r \in DOMAIN s.kids}
Calls1 == CallsOn("o")      \* the per-object call list (the harness substitutes the target)

Init == /\ \E s \in Shapes, n \in 1..MaxInit, sh \in {0, 2} :
             st = [kids |-> KidsOf(s), path |-> [o \in DOMAIN KidsOf(s) |-> InitPath(o, n, sh)]]
        /\ last = [op |-> "init", o |-> "A"]
Next == \E o \in Objs : \E c \in CallsOn(o) \cup RefCallsOn(st, o) : st' = ApplyPath(st, c) /\ last' = c
Spec == Init /\ [][Next]_vars
View == st
Bound == TLCGet("level") <= Depth

Inv == \A o \in Objs : PathOK(st.path[o])
\* C10: relative poses of all descendants of the target are kept (edge-padded / end-sliced along with the path)
RelPose == [][RelPoseKept(st, st', last'.o)]_vars
\* C10: operating on an object changes only that object's subtree
Frame == [][FrameKept(st, st', last'.o)]_vars
\* the target's own path follows the single-object semantics of C09 (children do not disturb it)
Own == [][ /\ (last'.op = "move" => st'.path[last'.o] = MoveDecl(st.path[last'.o], last'.inp, last'.start))
           /\ (last'.op = "rotate" => st'.path[last'.o] = RotDecl(st.path[last'.o], last'.inp, last'.anc, last'.start)) ]_vars
\* non-vacuity: from a tree whose members share the root's length, an operation on the root keeps it so
KeepLen == [][(SubLen(st, "A") /\ last'.o = "A") => SubLen(st', "A")]_vars
ASSUME PrintT(<<"CALLS", Calls1>>)
=============================================================================
