CONSTANTS
 MaxIn = 2
 MaxStart = 4
 MaxInit = 2
 Depth = 2
 Shapes = {1, 2, 3}
SPECIFICATION Spec
VIEW View
CONSTRAINT Bound
INVARIANT Inv
PROPERTY RelPose
PROPERTY Frame
PROPERTY Own
PROPERTY KeepLen
CHECK_DEADLOCK FALSE
