---------------------------- MODULE MC_FieldCall ----------------------------
(* All executions of one field call over objects with bounded path lengths, with a failure possible at     *)
(* every phase.  Restore = TRUE : un-tiling happens on every exit (requirement view / repaired code);      *)
(* Restore = FALSE: the code as it was before the repair - TLC returns the counterexample                  *)
(* call, checked, tiled, raise (used by ./selftest only).                                                  *)
EXTENDS FieldCall, TLC
CONSTANTS Objs, MaxL, Groups, Restore
VARIABLES s, hist
vars == <<s, hist>>
Ev(p, lens) == [p |-> p, lens |-> lens]
Init == \E lens \in [Objs -> 1..MaxL] : s = Start(lens) /\ hist = <<>>
\* what the implementation does at each point (lens it would log)
Do(p, lens) == LET r == StepF(s, Ev(p, lens)) IN s' = r.st /\ hist' = Append(hist, Ev(p, lens))
Call == s.pc = "idle" /\ Do("call", s.len)
Checked == s.pc = "entered" /\ Do("checked", s.len)
FailEarly == s.pc \in {"entered", "checked"} /\ Do("raise", s.len)          \* bad arguments, missing dimension/excitation
Tile == s.pc = "checked" /\ Do("tiled", Tiled(s.len))
Group == s.pc \in {"tiled", "group"} /\ s.grp < Groups /\ Do("group", s.len)
Computed == s.pc \in {"tiled", "group"} /\ s.grp = Groups /\ Do("computed", s.len)
Phase(p) == p \in After(s.pc) /\ p \notin {"group", "computed"} /\ Do(p, s.len)
\* field_func None / raising / returning None or a wrong shape in group i, failing reduction, rotation or aggregation
FailTiled == s.pc \in InTiled /\ Do("raise", IF Restore THEN s.saved ELSE s.len)
Untile == s.pc = "aggregated" /\ Do("untiled", s.saved)
FailOutput == s.pc = "untiled" /\ Do("raise", s.len)                         \* bad `output` argument is checked after un-tiling
Return == s.pc = "untiled" /\ Do("return", s.len)
Next == Call \/ Checked \/ FailEarly \/ Tile \/ Group \/ Computed \/ (\E p \in {"reduced", "rotated", "aggregated"} : Phase(p))
        \/ FailTiled \/ Untile \/ FailOutput \/ Return
Spec == Init /\ [][Next]_vars
View == s
\* C08 on the model: at return or raise every object has its original path length
NoMutation == s.pc \in {"returned", "raised"} => s.len = s.saved
\* the validator's run function accepts exactly the behaviours of this machine (spec and validator agree)
RunAccepts == s.pc \in {"returned", "raised"} => RunF(Start(hist[1].lens), hist, 1).ok
=============================================================================
