CONSTANTS
 Objs = {"o1", "o2", "o3"}
 MaxL = 3
 Groups = 2
 Restore = TRUE
SPECIFICATION Spec
INVARIANT NoMutation
INVARIANT RunAccepts
CHECK_DEADLOCK FALSE
