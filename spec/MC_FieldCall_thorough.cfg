CONSTANTS
 Objs = {"o1", "o2", "o3", "o4"}
 MaxL = 4
 Groups = 3
 Restore = TRUE
SPECIFICATION Spec
INVARIANT NoMutation
INVARIANT RunAccepts
CHECK_DEADLOCK FALSE
