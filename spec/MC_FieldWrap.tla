---------------------------- MODULE MC_FieldWrap ----------------------------
(* TLC enumerates call scenarios (arrangements of sources/collections, sensor kinds, path-length patterns,  *)
(* flags), checks facts about the DEFINITION of the result tensor on each (element independence C06,        *)
(* collection = sum of leaves C05, shape rule), and the dumped scenarios are the test plan that the          *)
(* harness executes on real objects (binding A, spec -> code).                                               *)
EXTENDS FieldAlgo, TLC
CONSTANTS SrcArrs, SensArrs, PPs, Fields, Aggs, Flags
VARIABLES sc, e
vars == <<sc, e>>

\* ---------------------------------------------------------------- poses
Gens == <<IdM, Rz90, Rx90, Ry90, MulMM(Rz90, Rx90), MulMM(Rx90, Rx90)>>
RotN(k) == Gens[(k % 6) + 1]
LeafLen(i, lenmode) == CASE lenmode = 1 -> 1 [] lenmode = 2 -> 1 + (i % 3) [] lenmode = 3 -> 3
\* orimode 0: orientations from the palette; 1: a rotation and its INVERSE alternate along the path (and between neighbouring leaves),
\* so that quaternion components cancel in sums and differ only by signs
LeafPath(i, lenmode, orimode) == LET n == LeafLen(i, lenmode) IN
    [pos |-> [m \in 1..n |-> <<i - 2 * m, m + 1, 2 * i - 3>>],
     ori |-> [m \in 1..n |-> IF orimode = 0 THEN RotN(i + 2 * m) ELSE (IF (i + m) % 2 = 0 THEN Rz90 ELSE Tr(Rz90))]]
Leaf(i, pp) == [kind |-> "leaf", id |-> i, tag |-> (IF pp = 4 THEN 1 + (i % 2) ELSE i),
                path |-> LeafPath(i, IF pp > 3 THEN 2 ELSE pp, IF pp = 5 THEN 1 ELSE 0)]
Coll(kids) == [kind |-> "coll", kids |-> kids]
SensIn == [kind |-> "sens"]

\* ---------------------------------------------------------------- source arrangements (leaf ids in DFS order)
SrcArr(a, pp) ==
  LET L(i) == Leaf(i, pp) IN
  CASE a = 1 -> <<L(1)>>
    [] a = 2 -> <<L(1), L(2)>>
    [] a = 3 -> <<Coll(<<L(1)>>)>>
    [] a = 4 -> <<Coll(<<L(1), L(2)>>), L(3)>>
    [] a = 5 -> <<L(1), Coll(<<L(2), L(3), L(4)>>)>>
    [] a = 6 -> <<Coll(<<L(1), Coll(<<L(2), L(3)>>), SensIn>>)>>
    [] a = 7 -> <<Coll(<<L(1), L(2), L(3), L(4), L(5)>>)>>
    [] a = 8 -> <<Coll(<<L(1), L(2)>>), Coll(<<L(3)>>), L(4)>>
    [] a = 9 -> <<L(1), L(1)>>
    [] a = 10 -> <<Coll(<<L(1), L(2), L(3), L(4)>>), L(5), Coll(<<L(6)>>)>>
    [] a = 11 -> <<L(1), L(2), L(3)>>
    [] a = 12 -> <<L(2), Coll(<<L(1), L(3)>>), L(2)>>
    \* collections that also hold sensors, FOLLOWED by further entries (the sensors take no part in the field of the collection)
    [] a = 13 -> <<Coll(<<L(1), SensIn, L(2)>>), Coll(<<L(3), L(4)>>)>>
    [] a = 14 -> <<Coll(<<L(1), L(2), Coll(<<SensIn, SensIn>>)>>), L(3), Coll(<<L(4), L(5)>>)>>

\* ---------------------------------------------------------------- sensor kinds
P2 == <<<<1, -1, 2>>, <<0, 2, -1>>>>
P22 == <<<<1, 0, 0>>, <<0, 1, 0>>, <<0, 0, 1>>, <<1, 1, -1>>>>
Sensor(id, pos, ori, left, pix, pixshape) == [id |-> id, path |-> [pos |-> pos, ori |-> ori], left |-> left, pix |-> pix, pixshape |-> pixshape,
     pk |-> (IF id = "a" THEN "none" ELSE IF id \in {"b", "h"} THEN "vec" ELSE "arr")]
SensKind(x) ==
  CASE x = "a" -> Sensor("a", <<<<2, -1, 1>>>>, <<IdM>>, FALSE, <<Zero3>>, <<1>>)                         \* static, unrotated, no pixel
    [] x = "b" -> Sensor("b", <<<<0, 3, 1>>>>, <<Rz90>>, FALSE, <<<<1, -1, 2>>>>, <<1>>)                  \* static, rotated, pixel (3,)
    [] x = "c" -> Sensor("c", <<<<1, 0, 0>>, <<2, 1, 0>>, <<3, 1, -1>>>>, <<Rx90, Rx90, Rx90>>, FALSE, P2, <<2>>)   \* translating only
    [] x = "d" -> Sensor("d", <<<<0, 0, 1>>, <<1, 0, 1>>, <<1, 2, 1>>>>, <<Rz90, Rx90, Ry90>>, FALSE, P2, <<2>>)     \* rotating path
    [] x = "e" -> Sensor("e", <<<<1, 1, 1>>, <<-1, 0, 2>>>>, <<Ry90, MulMM(Rz90, Rx90)>>, TRUE, P22, <<2, 2>>)      \* short, left-handed
    [] x = "f" -> Sensor("f", <<<<0, 1, 0>>, <<0, 2, 0>>, <<0, 3, 1>>>>, <<IdM, IdM, IdM>>, FALSE, P2, <<2>>)        \* unrotated translating path
    [] x = "g" -> Sensor("g", <<<<1, 0, 2>>, <<1, 1, 2>>, <<2, 1, 2>>>>, <<Rz90, Rx90, Rz90>>, TRUE, P2, <<2>>)      \* first = last orientation
    [] x = "h" -> Sensor("h", <<<<-1, 0, 0>>, <<0, 0, 0>>>>, <<IdM, Rz90>>, FALSE, <<<<0, 0, 0>>>>, <<1>>)           \* starts unrotated, then rotates
    \* mirror-image orientations (R and R^-1 alternate): their quaternions differ only in signs of components
    [] x = "i" -> Sensor("i", <<<<1, 2, 0>>, <<1, 2, 1>>, <<0, 2, 1>>>>, <<Rz90, Tr(Rz90), Rz90>>, FALSE, P2, <<2>>)
    \* half turn about the face diagonal (1,-1,0): the vector part of its quaternion sums to zero
    [] x = "k" -> Sensor("k", <<<<1, -2, 1>>>>, <<<<<<0, -1, 0>>, <<-1, 0, 0>>, <<0, 0, -1>>>>>>, FALSE, P2, <<2>>)
    [] x = "l" -> Sensor("l", <<<<0, 1, 2>>, <<1, 1, 2>>>>, <<<<<<0, -1, 0>>, <<-1, 0, 0>>, <<0, 0, -1>>>>, <<<<-1, 0, 0>>, <<0, 0, -1>>, <<0, -1, 0>>>>>>, TRUE, P2, <<2>>)
    \* left-handed sensors whose whole orientation path is the unit orientation (static / translating only)
    [] x = "m" -> Sensor("m", <<<<-1, 2, 2>>>>, <<IdM>>, TRUE, P2, <<2>>)
    [] x = "n" -> Sensor("n", <<<<0, -1, 1>>, <<1, -1, 1>>, <<1, -1, 3>>>>, <<IdM, IdM, IdM>>, TRUE, P2, <<2>>)
    [] x = "j" -> Sensor("j", <<<<2, 0, 1>>, <<2, 1, 1>>>>, <<MulMM(Rz90, Rx90), MulMM(Tr(Rx90), Rz90)>>, FALSE, P2, <<2>>)  \* order-3 rotations about (1,1,1) and (1,-1,1)... mirror pair
SensArr(s) ==
  CASE s = 1 -> <<"a">> [] s = 2 -> <<"b">> [] s = 3 -> <<"c">> [] s = 4 -> <<"d">> [] s = 5 -> <<"e">>
    [] s = 6 -> <<"f">> [] s = 7 -> <<"g">> [] s = 8 -> <<"c", "d">> [] s = 9 -> <<"f", "g", "d">>
    [] s = 10 -> <<"b", "a", "h">> [] s = 11 -> <<"a", "d", "e">> [] s = 12 -> <<"e", "c">> [] s = 13 -> <<"h">>
    [] s = 14 -> <<"d", "d">> [] s = 15 -> <<"i">> [] s = 16 -> <<"j", "c">> [] s = 17 -> <<"i", "g">> [] s = 18 -> <<"k">> [] s = 19 -> <<"l", "k">> [] s = 20 -> <<"m">> [] s = 21 -> <<"n", "c">>

\* flags: 0..3 = 2 * sumup + squeeze
Build(s) == [field |-> s.field, sumup |-> s.flags \div 2 = 1, squeeze |-> s.flags % 2 = 1, agg |-> s.agg,
             sources |-> SrcArr(s.sa, s.pp),
             sensors |-> [k \in 1..Len(SensArr(s.xa)) |-> SensKind(SensArr(s.xa)[k])]]
Scenarios == [sa : SrcArrs, xa : SensArrs, pp : PPs, field : Fields, agg : Aggs, flags : Flags]

Init == sc \in Scenarios /\ e = Build(sc)
Next == UNCHANGED vars
Spec == Init /\ [][Next]_vars

\* ---------------------------------------------------------------- facts about the definition
Defined == WellFormed(e) =>
    /\ ElementIndependent(e)
    /\ CollectionIsSum(e)
\* the result has exactly the announced shape: its nesting matches FullShape
ShapeMatches == WellFormed(e) =>
    LET x == Expected(e)  fs == FullShape(e) IN
    /\ Len(x) = fs[1] /\ Len(x[1]) = fs[2] /\ Len(x[1][1]) = fs[3]
    /\ \A k \in 1..Len(e.sensors) : Len(x[1][1][k]) = (IF e.agg # "none" THEN 1 ELSE Len(e.sensors[k].pix))
\* the implementation view (FieldAlgo.tla: tile, poso, groups, level1, reduce loop, sensor rotation, aggregation, sumup) yields the
\* tensor of the requirement view
AlgoRefines == WellFormed(e) => Refines(e)
\* C04: a left-handed sensor differs from the right-handed one only by the sign of the x component
Handed == WellFormed(e) =>
    LET flip == [e EXCEPT !.sensors = [k \in 1..Len(e.sensors) |-> [e.sensors[k] EXCEPT !.left = ~e.sensors[k].left]]]
        a == PerSource(e)  b == PerSource(flip)
    IN \A l \in 1..Len(a) : \A m \in 1..Len(a[l]) : \A k \in 1..Len(a[l][m]) : \A j \in 1..Len(a[l][m][k]) :
          b[l][m][k][j] = <<-a[l][m][k][j][1], a[l][m][k][j][2], a[l][m][k][j][3]>>
=============================================================================
