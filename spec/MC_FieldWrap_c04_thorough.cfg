CONSTANTS
 SrcArrs = {1,2,9,11}
 SensArrs = {1,2,3,4,5,6,7,8,9,10,11,12,13,14,15,16,17,18,19,20,21}
 PPs = {1,2,3,4,5}
 Fields = {"B", "H"}
 Aggs = {"none", "sum", "mean", "min", "max", "median", "ptp", "var"}
 Flags = {0,1,2,3}
SPECIFICATION Spec
INVARIANT Defined
INVARIANT ShapeMatches
INVARIANT Handed
CHECK_DEADLOCK FALSE
