CONSTANTS
 SrcArrs = {2,3,4,5,6,7,8,10,12,13,14}
 SensArrs = {1,4,5,8,10,11,16}
 PPs = {2, 4, 5}
 Fields = {"B", "H"}
 Aggs = {"none", "mean", "max"}
 Flags = {0,1,2,3}
SPECIFICATION Spec
INVARIANT Defined
INVARIANT ShapeMatches
INVARIANT Handed
CHECK_DEADLOCK FALSE
