CONSTANTS
 SrcArrs = {1,2,3,4,5,6,7,8,9,10,11,12,13,14}
 SensArrs = {1,2,4,5,8,9,10,13,14,15,17,19,21}
 PPs = {1,2,3,4,5}
 Fields = {"B"}
 Aggs = {"none"}
 Flags = {0, 1}
SPECIFICATION Spec
INVARIANT Defined
INVARIANT ShapeMatches
INVARIANT Handed
INVARIANT AlgoRefines
CHECK_DEADLOCK FALSE
