---------------------------- MODULE MC_Functional ----------------------------
(* Enumerates, for every class, every way of giving each parameter (one set, or n sets with n in 1..MaxN) and   *)
(* checks facts about the documented tiling rule; the dumped combinations are the test plan for binding A.     *)
EXTENDS Functional, TLC
CONSTANTS MaxN, ClsSet
VARIABLES cls, given
vars == <<cls, given>>
Forms == {[multi |-> FALSE, n |-> 1]} \cup {[multi |-> TRUE, n |-> n] : n \in 1..MaxN}
Init == cls \in ClsSet /\ given \in [AllParams(cls) -> Forms]
Next == UNCHANGED vars
Spec == Init /\ [][Next]_vars
\* the rule is total and deterministic: either incompatible (0) or a positive instance count that every multi-given parameter agrees with
RuleTotal == LET N == Instances(given) IN
   /\ N >= 0
   /\ (N = 0 <=> \E p, q \in DOMAIN given : given[p].multi /\ given[q].multi /\ given[p].n > 1 /\ given[q].n > 1 /\ given[p].n # given[q].n)
   /\ (N > 0 => \A p \in DOMAIN given : \A i \in 1..N : SetFor(given, p, i) \in 1..(IF given[p].multi THEN given[p].n ELSE 1))
\* giving a single set, or the same set N times, selects the same set for every instance
TilingIsRepetition == LET N == Instances(given) IN
   N > 0 => \A p \in DOMAIN given : (~given[p].multi \/ given[p].n = 1) => \A i \in 1..N : SetFor(given, p, i) = 1
=============================================================================
