CONSTANTS
 MaxN = 4
 ClsSet = {"Cuboid", "Cylinder", "CylinderSegment", "Sphere", "Tetrahedron", "Triangle", "TriangularMesh", "Circle", "Polyline", "Dipole"}
SPECIFICATION Spec
INVARIANT RuleTotal
INVARIANT TilingIsRepetition
CHECK_DEADLOCK FALSE
