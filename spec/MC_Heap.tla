------------------------------ MODULE MC_Heap ------------------------------
(* Model-checking wrapper for Heap: all histories of copy / in-place mutation (incl. of the lazily created  *)
(* style) / assignment / tree edits over the base tree  C1[S1, C2[X1]]  (a collection with a child source   *)
(* and a nested collection holding a sensor; S1, C2, X1 have a parent, C1 has none) with a pool of spare    *)
(* object ids for the copies (copies of copies included).  Configurations: MC_Heap_quick.cfg (depth bound), *)
(* MC_Heap_thorough.cfg (fixpoint, 2 spare ids); the check derives further ones by replacing constants,     *)
(* among them the counter-designs (ShallowSlots, KeepParent) that TLC must refute.                          *)
EXTENDS Heap
CONSTANTS NSpare,         \* number of object ids available for copies
          Vals,           \* abstract cell contents
          StyleModes,     \* initial lazy-style states explored: subset of {"none","pending","init"}
          MaxEdits,       \* number of tree edits per history
          MaxOvr,         \* largest number of overrides in one copy call
          MaxCopies,      \* number of copy() calls per history
          MaxLevel,       \* depth bound (states deeper than this are checked but not expanded); 0 = none
          ShallowSlots,   \* COUNTER-DESIGN: slots copy() copies by reference   ({} = magpylib's design)
          KeepParent,     \* COUNTER-DESIGN: copy() keeps the parent link       (FALSE = magpylib's design)
          AliasArgs,      \* COUNTER-DESIGN: slots for which the copy refers to the caller's argument cell ({})
          MergeInPlace,   \* COUNTER-DESIGN: an extra style keyword is merged into the caller's style template (FALSE)
          EagerParent     \* COUNTER-DESIGN: parent=... is applied before a later keyword is found invalid        (FALSE)
VARIABLES st, ne, pairs, last
vars == <<st, ne, pairs, last>>

Spare == SubSeq(<<"N1", "N2", "N3", "N4", "N5", "N6", "N7", "N8", "N9", "N10">>, 1, NSpare)
Base == {"C1", "S1", "C2", "X1"}
\* the caller's argument node: a position array, an attribute array and a style template the caller keeps and reuses
ArgNode == "A1"
Args == {ArgNode}
ArgSlots == {"_position", "_attr", StySlot}
Kind0 == [o \in Base \cup Args |-> IF o \in {"C1", "C2"} THEN "C" ELSE IF o = "S1" THEN "S" ELSE IF o = "X1" THEN "X" ELSE "A"]
SlotsOfKind(k) == IF k = "C" THEN {"_position", "_orientation", StySlot, KwSlot, KidSlot}
                  ELSE IF k = "A" THEN ArgSlots
                  ELSE {"_position", "_orientation", "_attr", StySlot, KwSlot}
Cell(x, s, g) == <<x, s, g>>
St0(mode, lab0) ==
   [kind |-> Kind0,
    parent |-> [o \in Base \cup Args |-> IF o \in {"C1", ArgNode} THEN None ELSE IF o = "X1" THEN "C2" ELSE "C1"],
    srcs |-> [c \in {"C1", "C2"} |-> IF c = "C1" THEN <<"S1">> ELSE <<>>],
    sens |-> [c \in {"C1", "C2"} |-> IF c = "C2" THEN <<"X1">> ELSE <<>>],
    colls |-> [c \in {"C1", "C2"} |-> IF c = "C1" THEN <<"C2">> ELSE <<>>],
    refs |-> [o \in Base \cup Args |-> [s \in SlotsOfKind(Kind0[o]) |-> Cell(o, s, 0)]],
    val |-> [c \in UNION {{Cell(o, s, 0) : s \in SlotsOfKind(Kind0[o]) \ {KidSlot}} : o \in Base \cup Args} |-> IF c[1] = ArgNode THEN 1 ELSE 0],
    kids |-> [c \in {Cell("C1", KidSlot, 0), Cell("C2", KidSlot, 0)} |->
                 IF c = Cell("C1", KidSlot, 0) THEN <<"S1", "C2">> ELSE <<"X1">>],
    sty |-> [o \in Base \cup Args |-> IF o = ArgNode THEN "init" ELSE mode],
    lab |-> [o \in Base \cup Args |-> IF mode = "none" \/ o = ArgNode THEN -1 ELSE lab0]]

Universe == Base \cup Args \cup Range(Spare)
UsedCells(s) == UNION {{s.refs[o][t] : t \in DOMAIN s.refs[o]} : o \in HObjs(s)}
\* allocator: for the pair <<x, t>> the cell <<x, t, g>> with the smallest generation nobody refers to
FreshCell(s, x, t) == Cell(x, t, CHOOSE g \in 0..Cardinality(Universe) :
                                    /\ Cell(x, t, g) \notin UsedCells(s)
                                    /\ \A h \in 0..(g - 1) : Cell(x, t, h) \in UsedCells(s))

\* renaming for a copy of o: the subtree in DFS preorder onto the unused spare ids in their fixed order
FreeSeq(s) == FilterSeq(Spare, LAMBDA x : x \notin HObjs(s))
FlatOf(s, o) == IF HColl(s, o) THEN <<o>> \o AllBelow(TreeView(s), o) ELSE <<o>>
RenOf(s, o) == LET fl == FlatOf(s, o) fr == FreeSeq(s) IN
    [x \in Range(fl) |-> fr[CHOOSE i \in DOMAIN fl : fl[i] = x]]
\* keyword forms: any set of at most MaxOvr keywords among the slots the object has and the label; the values of the
\* slots are read from the caller's argument node; a style template may come with an extra underscore keyword
OvrSlotSets(s, o) == {T \in SUBSET (DOMAIN s.refs[o] \cap ArgSlots) : Cardinality(T) <= MaxOvr}
Copy(o, slots, extra, lab, par) ==
    /\ Cardinality(pairs) < MaxCopies
    /\ Len(FreeSeq(st)) >= Len(FlatOf(st, o))
    /\ Cardinality(slots) + (IF lab >= 0 THEN 1 ELSE 0) + (IF par # None THEN 1 ELSE 0) <= MaxOvr
    /\ (extra >= 0 => StySlot \in slots)
    /\ LET ren == RenOf(st, o)
           newc == [p \in UNION {{<<ren[x], t>> : t \in DOMAIN st.refs[x]} : x \in DOMAIN ren} |-> Cell(p[1], p[2], 0)]
       IN /\ st' = CopyIntoF(CopyWithArgsF(st, o, ArgNode, slots, extra, lab, ren, newc, ShallowSlots, KeepParent, AliasArgs, MergeInPlace), ren[o], par)
          /\ pairs' = pairs \cup {<<o, ren[o]>>}
          /\ last' = [op |-> "copy", o |-> o, ren |-> ren, ovr |-> OvrFromArgs(st, ArgNode, slots, extra, lab), par |-> par, touched |-> {}]
    /\ UNCHANGED ne
\* a copy() call that is rejected because a keyword AFTER parent=par has an invalid value: nothing happens (design);
\* counter-design: the half-made copy has already joined the collection
CopyRejected(o, par) ==
    /\ Cardinality(pairs) < MaxCopies
    /\ Len(FreeSeq(st)) >= Len(FlatOf(st, o))
    /\ LET ren == RenOf(st, o)
           newc == [p \in UNION {{<<ren[x], t>> : t \in DOMAIN st.refs[x]} : x \in DOMAIN ren} |-> Cell(p[1], p[2], 0)]
       IN st' = IF EagerParent /\ par # None
                THEN CopyIntoF(CopyWithArgsF(st, o, ArgNode, {}, -1, -1, ren, newc, ShallowSlots, KeepParent, AliasArgs, MergeInPlace), ren[o], par)
                ELSE st
    /\ last' = [op |-> "copyfail", o |-> o, par |-> par, touched |-> {}]
    /\ UNCHANGED <<ne, pairs>>
ParentChoices(s, o) == {None} \cup {c \in HObjs(s) : s.kind[c] = "C" /\ c \notin HSub(s, o)}
Mutate(o, s, v) ==
    /\ st' = MutateF(st, o, s, v)
    /\ last' = [op |-> "mutate", o |-> o, slot |-> s, touched |-> {o}]
    /\ UNCHANGED <<ne, pairs>>
\* a buffer nobody else refers to may be reused for the new value (same observations as a fresh one)
Exclusive(s, x, t) == \A y \in HObjs(s) : \A u \in DOMAIN s.refs[y] : (y # x \/ u # t) => s.refs[y][u] # s.refs[x][t]
Assign(o, s, v) ==
    /\ LET tg == AssignTargets(st, o, s) IN
       st' = Collect(AssignF(st, o, s, v, [p \in tg |-> IF Exclusive(st, p[1], p[2]) THEN st.refs[p[1]][p[2]] ELSE FreshCell(st, p[1], p[2])]))
    /\ last' = [op |-> "assign", o |-> o, slot |-> s, touched |-> IF s \in PathSlots THEN HSub(st, o) ELSE {o}]
    /\ UNCHANGED <<ne, pairs>>
Add(c, o) ==
    /\ ne < MaxEdits
    /\ LET r == HAddF(st, c, o, TRUE) IN
       /\ r.ok
       /\ st' = r.st
       /\ last' = [op |-> "add", o |-> o, touched |-> {c, o} \cup (IF st.parent[o] = None THEN {} ELSE {st.parent[o]})]
    /\ ne' = ne + 1 /\ UNCHANGED pairs
Unparent(o) ==
    /\ ne < MaxEdits /\ st.parent[o] # None
    /\ st' = HSetParentF(st, o, None).st
    /\ last' = [op |-> "unparent", o |-> o, touched |-> {o, st.parent[o]}]
    /\ ne' = ne + 1 /\ UNCHANGED pairs

Init == /\ \E m \in StyleModes, l \in {-1, 0} : st = St0(m, l)
        /\ ne = 0 /\ pairs = {} /\ last = [op |-> "init", touched |-> {}]
Next == \E o \in HObjs(st) :
          \/ (o \notin Args /\ \E slots \in OvrSlotSets(st, o), extra \in {-1} \cup Vals, lab \in {-1, 7} : Copy(o, slots, extra, lab, None))
          \/ (o \notin Args /\ \E par \in ParentChoices(st, o) \ {None} : Copy(o, {}, -1, -1, par) \/ CopyRejected(o, par))
          \/ (o \notin Args /\ CopyRejected(o, None))
          \/ \E s \in DOMAIN st.refs[o] \ {KidSlot, KwSlot} : \E v \in Vals \ {PubOf(st, o)[s]} :
                 Mutate(o, s, v) \/ (s # StySlot /\ o \notin Args /\ Assign(o, s, v))
          \/ (o \notin Args /\ \E c \in {x \in HObjs(st) : st.kind[x] = "C"} : Add(c, o))
          \/ (o \notin Args /\ Unparent(o))
Spec == Init /\ [][Next]_vars
\* the content of value cells influences neither the enabling nor the shape of any step: the structural view
StructView == <<[st EXCEPT !.val = [c \in DOMAIN @ |-> 0]], ne, pairs>>
LevelBound == MaxLevel = 0 \/ TLCGet("level") <= MaxLevel

(***************************************************************************)
(* Properties                                                              *)
(***************************************************************************)
\* no two live objects share a cell, ever (implies NoSharing for every pair of disjoint subtrees)
NoAliasInv == LET all == UNION {{<<a, s>> : s \in DOMAIN st.refs[a]} : a \in HObjs(st)}
              IN Cardinality({st.refs[p[1]][p[2]] : p \in all}) = Cardinality(all)
ForestHeapInv == ForestInv(TreeView(st))
IsCopy == last'.op = "copy"
NoSharingP          == [][IsCopy => NoSharing(ObsOf(st'), last'.o, last'.ren[last'.o]) /\ CopyCellsPrivate(ObsOf(st'), last'.ren[last'.o], Args)]_vars
CopyParentlessP     == [][IsCopy => CopyParentIs(ObsOf(st'), last'.ren[last'.o], last'.par)]_vars
RejectedCopyP       == [][last'.op = "copyfail" => RejectedCopyUntouched(ObsOf(st), ObsOf(st'))]_vars
CopySubtreeForestP  == [][IsCopy => CopySubtreeForest(ObsOf(st), ObsOf(st'), last'.o, last'.ren)]_vars
OriginalUntouchedP  == [][IsCopy /\ last'.par = None => OriginalUntouched(ObsOf(st), ObsOf(st'))]_vars
ArgumentsP          == [][IsCopy => ArgumentsUntouched(ObsOf(st), ObsOf(st'), Args) /\ ArgumentsNotAliased(ObsOf(st'), last'.ren[last'.o], Args)]_vars
EqualProjectionP    == [][IsCopy => EqualProjection(ObsOf(st), ObsOf(st'), last'.o, last'.ren, FreeByOverride(ObsOf(st), last'.o, last'.ovr))]_vars
OverridesOnlyCopyP  == [][IsCopy => /\ OverridesApplied(ObsOf(st'), last'.ren[last'.o], [a \in DOMAIN last'.ovr \ {"label"} |-> last'.ovr[a]])
                                     /\ ("label" \in DOMAIN last'.ovr => st'.lab[last'.ren[last'.o]] = last'.ovr["label"])
                                     /\ (last'.par = None => OriginalUntouched(ObsOf(st), ObsOf(st')))]_vars
LabelIterP          == [][IsCopy /\ "label" \notin DOMAIN last'.ovr =>
                             st'.lab[last'.ren[last'.o]] = (IF st.sty[last'.o] = "none" THEN st.lab[last'.o] ELSE Iter(st.lab[last'.o]))]_vars
\* the clause dispatcher used by the trace validator agrees with the individual clauses
CopyClauseP         == [][IsCopy => CopyClause(ObsOf(st), ObsOf(st'), last'.o, last'.ren, last'.ovr, FreeByOverride(ObsOf(st), last'.o, last'.ovr), Args, last'.par) = "ok"]_vars
\* any later change is invisible to every object the operation does not address
Independence == [][~IsCopy => IndependentStep(ObsOf(st), ObsOf(st'), HObjs(st) \ last'.touched)]_vars
\* ... in the words of the property: for every (original, copy) pair living in different trees, a change on one
\* side leaves the whole other side as it was
RootOf(s, x) == LET a == Anc(TreeView(s), x) IN IF a = {} THEN x ELSE CHOOSE r \in a : s.parent[r] = None
Side(s, x) == HSub(s, RootOf(s, x))
IndependenceSides == [][~IsCopy /\ last'.op # "add" =>
      \A p \in pairs : Side(st, p[1]) \cap Side(st, p[2]) = {} =>
          /\ (last'.o \in Side(st, p[1]) => Unchanged(ObsOf(st), ObsOf(st'), Side(st, p[2])))
          /\ (last'.o \in Side(st, p[2]) => Unchanged(ObsOf(st), ObsOf(st'), Side(st, p[1])))]_vars
\* everything above in one action property (observations computed once per step)
StepOK == LET pre == ObsOf(st)
              post == ObsOf(st')
              l == last'
          IN IF l.op = "copy"
             THEN /\ CopyClause(pre, post, l.o, l.ren, l.ovr, FreeByOverride(pre, l.o, l.ovr), Args, l.par) = "ok"
                  /\ NoSharing(post, l.o, l.ren[l.o])
                  /\ (IF "label" \in DOMAIN l.ovr THEN post.lab[l.ren[l.o]] = l.ovr["label"]
                      ELSE post.lab[l.ren[l.o]] = (IF st.sty[l.o] = "none" THEN pre.lab[l.o] ELSE Iter(pre.lab[l.o])))
             ELSE IF l.op = "copyfail" THEN RejectedCopyUntouched(pre, post)
             ELSE IndependentStep(pre, post, HObjs(st) \ l.touched)
C18Step == [][StepOK]_vars
=============================================================================
