CONSTANTS
 NSpare = 6
 Vals = {0, 1}
 StyleModes = {"none","pending","init"}
 MaxEdits = 1
 MaxOvr = 1
 MaxCopies = 2
 MaxLevel = 3
 ShallowSlots = {}
 KeepParent = FALSE
 AliasArgs = {}
 MergeInPlace = FALSE
 EagerParent = FALSE
SPECIFICATION Spec
VIEW StructView
CONSTRAINT LevelBound
INVARIANT NoAliasInv
INVARIANT ForestHeapInv
PROPERTY C18Step
CHECK_DEADLOCK FALSE
