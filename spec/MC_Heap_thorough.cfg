CONSTANTS
 NSpare = 2
 Vals = {0, 1}
 StyleModes = {"none","pending","init"}
 MaxEdits = 1
 MaxOvr = 2
 MaxCopies = 2
 MaxLevel = 0
 ShallowSlots = {}
 KeepParent = FALSE
 AliasArgs = {}
 MergeInPlace = FALSE
 EagerParent = FALSE
SPECIFICATION Spec
VIEW StructView
CONSTRAINT LevelBound
INVARIANT NoAliasInv
INVARIANT ForestHeapInv
PROPERTY C18Step
PROPERTY IndependenceSides
CHECK_DEADLOCK FALSE
