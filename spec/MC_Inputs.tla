----------------------------- MODULE MC_Inputs -----------------------------
(* Model-checking wrapper for Inputs: TLC enumerates (class, attribute) x value descriptors of the grammar,  *)
(* checks that the table is total, deterministic and consistent with the documented read-back formats, and  *)
(* explores the state machine of one attribute slot under constructor / setter assignments.                 *)
EXTENDS Inputs, TLC
CONSTANTS E1, E2, E3, E4,     \* largest extent of arrays of rank 1, 2, 3, 4
          RotMax              \* longest Rotation stack
VARIABLES cell, last
vars == <<cell, last>>

Shapes == {<<>>} \cup {<<i>> : i \in 0..E1} \cup {<<i, j>> : i \in 0..E2, j \in 0..E2}
          \cup {<<i, j, k>> : i \in 0..E3, j \in 0..E3, k \in 0..E3}
          \cup {<<i, j, k, l>> : i \in 0..E4, j \in 0..E4, k \in 0..E4, l \in 0..E4}
RECURSIVE Size(_)
Size(sh) == IF sh = <<>> THEN 1 ELSE Head(sh) * Size(Tail(sh))
ArrayDescsOf(sh) ==
    IF Size(sh) = 0 THEN {D("array", sh, "empty", "na", FALSE)}
    ELSE {D("array", sh, e, "na", FALSE) : e \in {"str", "none"}} \cup
         (IF sh \in GeomShapes THEN {D("array", sh, "num", g, i) : g \in GeomLabels(sh), i \in BOOLEAN}
          ELSE IF Size(sh) = 1 THEN {D("array", sh, e, "na", i) : e \in {"pos", "neg"}, i \in BOOLEAN} \cup {D("array", sh, "zero", "na", TRUE)}
          ELSE {D("array", sh, e, "na", i) : e \in {"pos", "zero", "neg", "mixed"}, i \in BOOLEAN})
\* index arrays with an index that is not a vertex of the (4-vertex) base mesh: relevant for `faces` only
OobDescs == {D("array", sh, "oob", "na", TRUE) : sh \in {s \in Shapes : Len(s) = 2 /\ s[2] = 3 /\ s[1] >= 1}}
Descs == UNION {ArrayDescsOf(sh) : sh \in Shapes} \cup OobDescs
    \cup {D("none", <<>>, "na", "na", FALSE), D("object", <<>>, "na", "na", FALSE), D("ragged", <<>>, "na", "na", FALSE), D("complex", <<>>, "na", "na", FALSE)}
    \cup {D("bool", <<>>, e, "na", FALSE) : e \in {"pos", "zero"}}
    \cup {D(k, <<>>, e, "na", FALSE) : k \in {"int", "float"}, e \in {"pos", "zero", "neg"}}
    \cup {D("str", <<>>, e, "na", FALSE) : e \in {"right", "left", "other"}}
    \cup {D("rotation", <<>>, "na", "na", FALSE)} \cup {D("rotation", <<n>>, "na", "na", FALSE) : n \in 0..RotMax}
    \* callables: every pair of per-field answers (B, H), and a wrong signature
    \cup {D("callable", <<>>, b, h, FALSE) : b \in CallAns, h \in CallAns} \cup {D("callable", <<>>, "badargs", "na", FALSE)}

ForcedInts(v) == v.kind = "array" /\ Size(v.shape) = 1 /\ v.entries = "zero"     \* a single entry 0 is integer-valued
\* the geometric refinements of a shape are only exercised where a geometric meaning is documented, the integer-valued
\* variant of an array only for index arrays (for every other slot the driver alternates integer and float instances
\* of the same descriptor and logs what it built)
Relevant(c, a, v) == /\ (v.kind # "array" \/ v.geom \in {"na", "ok"} \/ a \in {"dimension", "vertices"})
                     /\ (a = "faces" \/ v.ints = ForcedInts(v))
                     /\ (v.entries = "oob" => a = "faces")
Triples == {t \in Pairs \X Descs : Relevant(t[1][1], t[1][2], t[2])}

Kinds == {"na", "none", "float", "array", "rotation", "str", "callable"}
\* ---- properties of the table itself (evaluated once, over the whole cross product)
ASSUME Deterministic == \A t \in Triples : Cardinality(Alternatives(t[1][1], t[1][2], t[2])) <= 1
ASSUME Total == \A t \in Triples : LET d == Decide(t[1][1], t[1][2], t[2]) IN
                    /\ d.accept \in BOOLEAN /\ d.doc \in BOOLEAN /\ d.kind \in Kinds /\ d.dtype \in {"na", "f", "i"}
                    /\ d.shape \in Seq(Nat)
                    /\ (d.accept => StoredOK(t[1][1], t[1][2], StoredOf(d)))
                    /\ (~d.accept => d.kind = "na")
\* every slot has documented-valid and documented-malformed values in the grammar
ASSUME NonVacuous == \A p \in Pairs : /\ \E v \in Descs : LET d == Decide(p[1], p[2], v) IN d.accept /\ d.doc
                                      /\ \E v \in Descs : LET d == Decide(p[1], p[2], v) IN ~d.accept /\ d.doc
ASSUME PrintT(<<"GRAMMAR", Cardinality(Descs), Cardinality(Pairs), Cardinality(Triples)>>)
ASSUME PrintT(<<"DESCS", Descs>>)
ASSUME PrintT(<<"PAIRS", Pairs>>)

Cell0(c, a) == [cls |-> c, attr |-> a, built |-> FALSE, stored |-> Unset, twin |-> "na"]
Init == /\ \E p \in Pairs : cell = Cell0(p[1], p[2])
        /\ last = [op |-> "init"]
Assign(v, via) ==
    /\ Relevant(cell.cls, cell.attr, v)
    /\ (via = "ctor") = ~cell.built
    /\ (via = "setter") => ~CtorOnly(cell.cls, cell.attr)
    /\ LET r == AssignF(cell, v, via) IN
         /\ cell' = r.cell
         /\ last' = [op |-> "assign", v |-> v, via |-> via, ok |-> r.ok]
Next == \E v \in Descs, via \in {"ctor", "setter"} : Assign(v, via)
Spec == Init /\ [][Next]_vars
View == cell

\* stored values always satisfy the documented format; an object only exists after an accepted constructor call
StoredInv == /\ (cell.built => StoredOK(cell.cls, cell.attr, cell.stored))
             /\ (~cell.built => cell.stored = Unset)
\* the dependent pair is None together
PairInv == (cell.built /\ Paired(cell.attr)) => ((cell.stored.kind = "none") <=> (cell.twin = "none"))
\* a rejected assignment changes nothing; an accepted one stores what the table says, whichever way it came in
RejectUnchanged == [][(~last'.ok) => cell' = cell]_vars
AcceptStores == [][last'.ok => /\ cell'.stored = StoredOf(Decide(cell.cls, cell.attr, last'.v))
                               /\ cell'.cls = cell.cls /\ cell'.attr = cell.attr]_vars
=============================================================================
