CONSTANTS
 E1 = 5
 E2 = 5
 E3 = 3
 E4 = 2
 RotMax = 3
SPECIFICATION Spec
VIEW View
INVARIANT StoredInv
INVARIANT PairInv
PROPERTY RejectUnchanged
PROPERTY AcceptStores
CHECK_DEADLOCK FALSE
