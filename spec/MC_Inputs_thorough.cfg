CONSTANTS
 E1 = 7
 E2 = 7
 E3 = 5
 E4 = 4
 RotMax = 4
SPECIFICATION Spec
VIEW View
INVARIANT StoredInv
INVARIANT PairInv
PROPERTY RejectUnchanged
PROPERTY AcceptStores
CHECK_DEADLOCK FALSE
