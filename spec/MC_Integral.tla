---------------------------- MODULE MC_Integral ----------------------------
(* Enumeration of the law instances (test plan) and model check of the geometric library.          *)
(*  - every enumerated instance satisfies its premise (general position) exactly: PremiseInv        *)
(*  - Lk is invariant under a joint rigid lattice motion of loop and conductors, antisymmetric      *)
(*    under loop reversal (LkInv), zero for loops separated from the conductor (FarInv) and         *)
(*    additive under splitting of a rectangle (SplitInv)                                            *)
(*  - the derived data (faces, breakpoints) do not depend on the pose (DerivedInv)                  *)
(* The dumped states are the plan executed by harness/drivers/integral.py.                          *)
EXTENDS Integral
CONSTANTS Prop,        \* "C14" | "C01": which family of instances
          Thorough     \* BOOLEAN
VARIABLES inst,        \* the law instance
          hist,        \* [lk0: expected circulation of the base instance, sgn: +1/-1 reversed, nmv: number of translations]
          der          \* derived by the specification: faces, breakpoints, coverage class
vars == <<inst, hist, der>>

FFF == <<FALSE, FALSE, FALSE>>
NoPt == [kind |-> "", obs |-> Zero3, field |-> "", rho |-> 0]
Flux(fam, scene, ch, lo, hi, full) == [law |-> "flux", fam |-> fam, scene |-> scene, ch |-> ch, lo |-> lo, hi |-> hi, full |-> full, edges |-> <<>>, pt |-> NoPt]
Circ(fam, scene, ch, edges) == [law |-> "circ", fam |-> fam, scene |-> scene, ch |-> ch, lo |-> Zero3, hi |-> Zero3, full |-> FFF, edges |-> edges, pt |-> NoPt]
Point(fam, src, kind, obs, field, rho) == [law |-> "point", fam |-> fam, scene |-> <<src>>, ch |-> CartChart(IdM, Zero3), lo |-> Zero3, hi |-> Zero3, full |-> FFF, edges |-> <<>>,
                                           pt |-> [kind |-> kind, obs |-> obs, field |-> field, rho |-> rho]]
PtOf(i) == [kind |-> i.pt.kind, src |-> i.scene[1], obs |-> i.pt.obs, field |-> i.pt.field, rho |-> i.pt.rho]
Premise(i) == IF i.law = "flux" THEN FluxPremise(i.scene, i.ch, i.lo, i.hi, i.full)
              ELSE IF i.law = "circ" THEN CircPremise(i.scene, i.ch, i.edges)
              ELSE IF i.pt.kind = "harmonic" THEN HarmPremise(PtOf(i)) ELSE PointPremise(PtOf(i))
Expected(i) == IF i.law = "circ" THEN ExpCirc(i.scene, i.ch, i.edges) ELSE 0
ClassOf(i) == IF i.law = "point" THEN <<i.pt.kind>> ELSE IF i.law = "flux" THEN [k \in DOMAIN i.scene |-> CutClass(i.scene[k], i.ch, i.lo, i.hi, i.full)]
              ELSE [k \in DOMAIN i.scene |-> IF Lk(i.scene[k], i.ch, i.edges) # 0 THEN "linked"
                                              ELSE IF AwayLoop(i.scene[k], i.ch, i.edges) THEN "away" ELSE "near"]
Derived(i) == [faces |-> IF i.law = "flux" THEN Faces(i.ch, i.lo, i.hi, i.full) ELSE <<>>,
               brk |-> IF i.law = "flux" THEN CellBreaks(i.scene, i.ch, i.lo, i.hi) ELSE None3,
               ebrk |-> IF i.law = "circ" THEN LoopBreaks(i.scene, i.ch, i.edges) ELSE <<>>,
               cls |-> ClassOf(i),
               norm |-> IF i.law = "point" /\ i.pt.kind # "harmonic" THEN PointNorm(PtOf(i)) ELSE <<>>,
               gross |-> IF i.law = "point" /\ i.pt.kind # "harmonic" THEN PointGross(PtOf(i)) ELSE 0]

(* ------------------------------------------------------------------------------ building blocks *)
Rx90 == <<<<1, 0, 0>>, <<0, 0, -1>>, <<0, 1, 0>>>>
Ry90 == <<<<0, 0, 1>>, <<0, 1, 0>>, <<-1, 0, 0>>>>
Rz90 == <<<<0, -1, 0>>, <<1, 0, 0>>, <<0, 0, 1>>>>
\* <<A, w>>: the body is the base shape times A, the cell/loop has width w (lattice units): size ratios 1e-2 .. 1e2
Scales == IF Thorough THEN {<<1, 1>>, <<50, 1>>, <<1, 100>>, <<5, 1>>, <<1, 10>>, <<100, 1>>, <<2, 300>>}
          ELSE {<<1, 1>>, <<50, 1>>, <<1, 100>>}
\* interval menu on one chart axis relative to the body surfaces s1 < s2 on that axis
Iv(tag, s1, s2, w) ==
  LET c == (s1 + s2) \div 2 IN
  CASE tag = "in" -> <<c - w, c + 2 * w>>
    [] tag = "hi" -> <<s2 - w, s2 + 2 * w>>
    [] tag = "lo" -> <<s1 - 2 * w, s1 + w>>
    [] tag = "out" -> <<s2 + w, s2 + 4 * w>>
    [] tag = "enc" -> <<s1 - w, s2 + 2 * w>>
    [] tag = "nr" -> <<s1 + w, s1 + 3 * w>>
Pos(iv) == <<Max2(0, iv[1]), iv[2]>>                      \* radial axes
Pat3 == IF Thorough THEN {<<"in", "in", "in">>, <<"hi", "in", "in">>, <<"in", "lo", "in">>, <<"in", "in", "hi">>, <<"hi", "hi", "in">>, <<"hi", "lo", "hi">>,
         <<"out", "in", "in">>, <<"out", "out", "out">>, <<"in", "in", "out">>, <<"enc", "enc", "enc">>, <<"enc", "hi", "in">>, <<"lo", "enc", "enc">>}
        ELSE {<<"in", "in", "in">>, <<"hi", "in", "in">>, <<"in", "lo", "in">>, <<"hi", "hi", "in">>, <<"hi", "lo", "hi">>, <<"out", "in", "in">>, <<"enc", "enc", "enc">>, <<"enc", "hi", "in">>}
BoxCell(fam, scene, ch, S, w, pat) ==       \* S = <<<<s1,s2>>, ..>> per axis
  LET iv(k) == Iv(pat[k], S[k][1], S[k][2], w) IN
  Flux(fam, scene, ch, <<iv(1)[1], iv(2)[1], iv(3)[1]>>, <<iv(1)[2], iv(2)[2], iv(3)[2]>>, FFF)
P1 == <<1, 2, 3>>
P2 == <<-2, 1, 0>>
P3 == <<0, 0, 2>>
Cub(A, R, p, pol) == Src("Cuboid", R, p, <<4 * A, 6 * A, 8 * A>>, pol, <<>>)
Mesh(A, R, p, pol) == Src("TriangularMesh", R, p, <<4 * A, 6 * A, 8 * A>>, pol, <<>>)
Cyl(A, R, p, pol) == Src("Cylinder", R, p, <<4 * A, 6 * A>>, pol, <<>>)
SegDims(A) == IF Thorough THEN {<<A, 3 * A, 4 * A, 0, 6>>, <<0, 2 * A, 2 * A, -3, 9>>, <<2 * A, 3 * A, 2 * A, 2, 20>>}
              ELSE IF A = 1 THEN {<<A, 3 * A, 4 * A, 0, 6>>, <<0, 2 * A, 2 * A, -3, 9>>} ELSE {<<A, 3 * A, 4 * A, 0, 6>>}
Seg(dim, R, p, pol) == Src("CylinderSegment", R, p, dim, pol, <<>>)
Sph(A, R, p, pol) == Src("Sphere", R, p, <<4 * A>>, pol, <<>>)
TetV(A) == <<<<0, 0, 0>>, <<12 * A, 0, 0>>, <<3 * A, 12 * A, 0>>, <<3 * A, 3 * A, 12 * A>>>>
Tet(A, R, p, pol) == Src("Tetrahedron", R, p, <<>>, pol, TetV(A))
TetChart(A, R, p, i0) ==          \* anchored at vertex i0, edges in right-handed order
  LET v == TetV(A)
      oth == CHOOSE q \in {<<a, b, c>> : a \in 1..4, b \in 1..4, c \in 1..4} :
               /\ {q[1], q[2], q[3]} = (1..4) \ {i0}
               /\ SgnDet3(Sub3(v[q[1]], v[i0]), Sub3(v[q[2]], v[i0]), Sub3(v[q[3]], v[i0])) > 0
  IN Chart("aff", R, p, v[i0], <<Sub3(v[oth[1]], v[i0]), Sub3(v[oth[2]], v[i0]), Sub3(v[oth[3]], v[i0])>>, 12 * A)
Dip(R, p, m) == Src("Dipole", R, p, <<>>, m, <<>>)
Cir(A, R, p, I) == Src("Circle", R, p, <<4 * A>>, <<I>>, <<>>)
SquareV(A) == <<<<2 * A, 2 * A, 0>>, <<-2 * A, 2 * A, 0>>, <<-2 * A, -2 * A, 0>>, <<2 * A, -2 * A, 0>>, <<2 * A, 2 * A, 0>>>>
HexV(A) == <<<<2 * A, 0, 0>>, <<2 * A, 2 * A, A>>, <<0, 2 * A, 2 * A>>, <<-2 * A, 0, A>>, <<-2 * A, -2 * A, 0>>, <<0, -2 * A, -A>>, <<2 * A, 0, 0>>>>
\* a closed path along box edges: segments parallel to x, z, y, z, x, y (every axis direction occurs in the local frame)
StepV(A) == <<<<2 * A, 2 * A, 0>>, <<-2 * A, 2 * A, 0>>, <<-2 * A, 2 * A, 2 * A>>, <<-2 * A, -2 * A, 2 * A>>, <<-2 * A, -2 * A, 0>>, <<2 * A, -2 * A, 0>>, <<2 * A, 2 * A, 0>>>>
Pol(verts, R, p, I) == Src("Polyline", R, p, <<>>, <<I>>, verts)

(* ----------------------------------------------------------------------------------- C14: flux *)
Id0 == CartChart(IdM, Zero3)
FluxCuboid == UNION {{BoxCell("cuboid", <<Cub(sc[1], IdM, Zero3, P1)>>, Id0, <<<<-2 * sc[1], 2 * sc[1]>>, <<-3 * sc[1], 3 * sc[1]>>, <<-4 * sc[1], 4 * sc[1]>>>>, sc[2], pat)
                       : pat \in Pat3} : sc \in Scales}
FluxMesh == UNION {{BoxCell("mesh", <<Mesh(sc[1], IdM, Zero3, P2)>>, Id0, <<<<-2 * sc[1], 2 * sc[1]>>, <<-3 * sc[1], 3 * sc[1]>>, <<-4 * sc[1], 4 * sc[1]>>>>, sc[2], pat)
                       : pat \in {<<"in", "in", "in">>, <<"hi", "in", "in">>, <<"hi", "lo", "hi">>, <<"enc", "enc", "enc">>}} : sc \in Scales}
\* cylindrical cells: radial interval x azimuth interval (15 degree units; full turn) x axial interval
AzIv == {<<1, 4>>, <<-5, 2>>, <<0, 24>>}
CylCell(fam, scene, ch, riv, fiv, ziv) == Flux(fam, scene, ch, <<riv[1], fiv[1], ziv[1]>>, <<riv[2], fiv[2], ziv[2]>>, <<FALSE, fiv[2] - fiv[1] = 24, FALSE>>)
RadTags == {"in", "hi", "out", "enc"}
FluxCylinder == UNION {{CylCell("cylinder", <<Cyl(sc[1], IdM, Zero3, P1)>>, CylChart(IdM, Zero3),
                                Pos(Iv(rt, 0, 2 * sc[1], sc[2])), f, Iv(zt, -3 * sc[1], 3 * sc[1], sc[2]))
                          : rt \in RadTags, f \in AzIv, zt \in {"in", "hi", "out", "enc"}} : sc \in Scales}
SegAz(d) == IF Thorough THEN {<<d[4] + 1, d[5] - 1>>, <<d[5] - 1, d[5] + 2>>, <<d[4] - 2, d[4] + 1>>, <<0, 24>>}
            ELSE {<<d[5] - 1, d[5] + 2>>}
SegScales == IF Thorough THEN {<<1, 1>>, <<5, 1>>, <<50, 1>>, <<1, 100>>} ELSE Scales      \* the segment field costs ~0.2 ms per point
SegRad == IF Thorough THEN {"in", "hi", "lo", "out"} ELSE {"hi", "lo"}
SegAx == IF Thorough THEN {"in", "hi", "out"} ELSE {"hi"}
FluxSegment == UNION {UNION {{CylCell("segment", <<Seg(d, IdM, Zero3, P1)>>, CylChart(IdM, Zero3),
                                Pos(Iv(rt, d[1], d[2], sc[2])), f, Iv(zt, -(d[3] \div 2), d[3] \div 2, sc[2]))
                          : rt \in SegRad, f \in SegAz(d), zt \in SegAx} : d \in SegDims(sc[1])} : sc \in SegScales}
PolIv == {<<2, 5>>, <<0, 12>>, <<0, 3>>}
SphCell(fam, scene, ch, riv, tiv, fiv) == Flux(fam, scene, ch, <<riv[1], tiv[1], fiv[1]>>, <<riv[2], tiv[2], fiv[2]>>, <<FALSE, FALSE, fiv[2] - fiv[1] = 24>>)
FluxSphere == UNION {{SphCell("sphere", <<Sph(sc[1], IdM, Zero3, P1)>>, SphChart(IdM, Zero3), Pos(Iv(rt, 0, 2 * sc[1], sc[2])), t, f)
                          : rt \in RadTags, t \in PolIv, f \in AzIv} : sc \in Scales}
FluxDipole == UNION {{SphCell("dipole", <<Dip(IdM, Zero3, P1)>>, SphChart(IdM, Zero3), Pos(Iv(rt, 0, 2 * sc[1], sc[2])), t, f)
                          : rt \in RadTags, t \in PolIv, f \in AzIv} : sc \in Scales}
     \cup {BoxCell("dipole", <<Dip(IdM, <<1, 0, -1>>, P2)>>, Id0, <<<<-2, 2>>, <<-2, 2>>, <<-2, 2>>>>, w, pat) : w \in {1, 100}, pat \in {<<"enc", "enc", "enc">>, <<"out", "in", "in">>, <<"hi", "hi", "hi">>}}
TetS(A) == <<<<0, 12 * A>>, <<0, 12 * A>>, <<0, 12 * A>>>>
TetPat == {<<"lo", "lo", "lo">>, <<"lo", "nr", "nr">>, <<"nr", "lo", "nr">>, <<"nr", "nr", "lo">>, <<"nr", "lo", "lo">>, <<"nr", "nr", "nr">>,
           <<"out", "nr", "nr">>, <<"nr", "out", "lo">>, <<"out", "out", "out">>}
FluxTetra == UNION {UNION {{BoxCell("tetrahedron", <<Tet(sc[1], IdM, Zero3, P1)>>, TetChart(sc[1], IdM, Zero3, i0), TetS(sc[1]), sc[2], pat)
                          : pat \in TetPat} : i0 \in {1, 3}} : sc \in Scales}
      \* Cartesian cells enclosing the whole body or away from it (the chart is not adapted: the body must not touch the cell)
      \cup UNION {{BoxCell("tetrahedron", <<Tet(sc[1], IdM, Zero3, P1)>>, Id0, <<<<0, 12 * sc[1]>>, <<0, 12 * sc[1]>>, <<0, 12 * sc[1]>>>>, sc[2], pat)
                          : pat \in {<<"enc", "enc", "enc">>, <<"out", "in", "in">>}} : sc \in Scales}
\* current loops: cells enclosing the whole wire and cells in free space next to it
FluxCircle == UNION {{CylCell("circle", <<Cir(sc[1], IdM, Zero3, 2)>>, CylChart(IdM, Zero3),
                                Pos(Iv(rt, 0, 2 * sc[1], sc[2])), f, Iv(zt, 0, 0, sc[2]))
                          : rt \in RadTags, f \in AzIv, zt \in {"in", "out"}} : sc \in Scales}
FluxPolyline == UNION {{BoxCell("polyline", <<Pol(v, IdM, Zero3, 3)>>, Id0, <<<<-2 * sc[1], 2 * sc[1]>>, <<-2 * sc[1], 2 * sc[1]>>, <<-sc[1], sc[1]>>>>, sc[2], pat)
                          : pat \in {<<"enc", "enc", "enc">>, <<"out", "in", "in">>, <<"in", "in", "out">>, <<"out", "out", "out">>, <<"in", "in", "in">>},
                            v \in {SquareV(sc[1]), HexV(sc[1]), StepV(sc[1])}} : sc \in Scales}
\* collections: chart adapted to several bodies at once, other members enclosed or away
FluxColl ==
  UNION {{BoxCell("coll:cuboid+cuboid", <<Cub(sc[1], IdM, Zero3, P1), Cub(sc[1], Rx90, <<2 * sc[1] + 1, sc[1], 0>>, P2)>>, Id0,
                  <<<<-2 * sc[1], 2 * sc[1]>>, <<-3 * sc[1], 3 * sc[1]>>, <<-4 * sc[1], 4 * sc[1]>>>>, sc[2], pat) : pat \in Pat3} : sc \in Scales}
  \cup UNION {{CylCell("coll:cylinder+circle", <<Cyl(sc[1], IdM, Zero3, P3), Cir(2 * sc[1], IdM, Zero3, -1)>>, CylChart(IdM, Zero3),
                  Pos(Iv(rt, 0, 2 * sc[1], sc[2])), f, Iv(zt, -3 * sc[1], 3 * sc[1], sc[2]))
                  : rt \in RadTags, f \in AzIv, zt \in {"in", "hi", "enc"}} : sc \in Scales}
  \cup UNION {{SphCell("coll:sphere+dipole", <<Sph(sc[1], Rz90, <<1, 2, 3>>, P2), Dip(Rx90, <<1, 2, 3>>, P1)>>, SphChart(IdM, <<1, 2, 3>>),
                  Pos(Iv(rt, 0, 2 * sc[1], sc[2])), t, f) : rt \in RadTags, t \in PolIv, f \in AzIv} : sc \in Scales}
  \cup UNION {{BoxCell("coll:mixed", <<Cub(sc[1], Rz90, Zero3, P1), Sph(1, IdM, <<0, 0, 4 * sc[1] + 4>>, P3), Cir(1, Ry90, <<0, 0, -4 * sc[1] - 4>>, 2),
                                       Pol(SquareV(1), Rx90, <<0, 3 * sc[1] + 4, 0>>, 1), Dip(IdM, <<0, -3 * sc[1] - 3, 0>>, P2)>>, Id0,
                  <<<<-3 * sc[1], 3 * sc[1]>>, <<-2 * sc[1], 2 * sc[1]>>, <<-4 * sc[1], 4 * sc[1]>>>>, sc[2], pat)
                  : pat \in {<<"enc", "enc", "enc">>, <<"hi", "in", "in">>, <<"in", "in", "in">>, <<"hi", "lo", "hi">>}} : sc \in Scales}
C14Flux == FluxCuboid \cup FluxMesh \cup FluxCylinder \cup FluxSegment \cup FluxSphere \cup FluxDipole \cup FluxTetra \cup FluxCircle \cup FluxPolyline \cup FluxColl

(* ---------------------------------------------------------------------------- C14: circulation *)
\* rectangles on coordinate surfaces of the chart: fixed axis k at value c, menu intervals on the other two axes
CoordRect(k, c, ia, ib) == RectLoop(k, c, ia[1], ia[2], ib[1], ib[2])
RectTags == {<<"in", "in">>, <<"hi", "in">>, <<"hi", "hi">>, <<"enc", "enc">>, <<"out", "in">>, <<"lo", "enc">>}
BodyRects(fam, scene, ch, S, w, fixed) ==      \* fixed = set of <<k, c>>
  {Circ(fam, scene, ch, CoordRect(f[1], f[2], Iv(t[1], S[(f[1] % 3) + 1][1], S[(f[1] % 3) + 1][2], w),
                                               Iv(t[2], S[((f[1] + 1) % 3) + 1][1], S[((f[1] + 1) % 3) + 1][2], w))) : f \in fixed, t \in RectTags}
CircCuboid == UNION {BodyRects("cuboid", <<Cub(sc[1], IdM, Zero3, P1)>>, Id0, <<<<-2 * sc[1], 2 * sc[1]>>, <<-3 * sc[1], 3 * sc[1]>>, <<-4 * sc[1], 4 * sc[1]>>>>, sc[2],
                               {<<1, 1>>, <<2, -1>>, <<3, 3 * sc[1] + 0>>, <<1, 5 * sc[1]>>}) : sc \in Scales}
CircMesh == UNION {BodyRects("mesh", <<Mesh(sc[1], IdM, Zero3, P2)>>, Id0, <<<<-2 * sc[1], 2 * sc[1]>>, <<-3 * sc[1], 3 * sc[1]>>, <<-4 * sc[1], 4 * sc[1]>>>>, sc[2],
                               {<<1, 1>>, <<3, -1>>}) : sc \in Scales}
\* cylindrical charts: (r,z) rectangles at fixed azimuth, (r,phi) sectors at fixed z, (phi,z) patches at fixed r, rings
Ring(r, z) == <<<<<<r, 0, z>>, <<r, 24, z>>>>>>
CylLoops(fam, scene, ch, S, w, azs, fs) ==     \* S = <<<<r1, r2>>, -, <<z1, z2>>>>
  UNION {{Circ(fam, scene, ch, CoordRect(2, f, Iv(t[2], S[3][1], S[3][2], w), Pos(Iv(t[1], S[1][1], S[1][2], w)))) : f \in fs} : t \in RectTags}
  \cup UNION {{Circ(fam, scene, ch, CoordRect(3, z, Pos(Iv(t, S[1][1], S[1][2], w)), az)) : z \in {S[3][2] - w, S[3][2] + w}, az \in azs} : t \in {"in", "hi", "out"}}
  \cup UNION {{Circ(fam, scene, ch, CoordRect(1, r, az, Iv(t, S[3][1], S[3][2], w))) : r \in {S[1][2] + w} \cup (IF S[1][2] - w > 0 THEN {S[1][2] - w} ELSE {}), az \in azs} : t \in {"in", "hi", "enc"}}
  \cup {Circ(fam, scene, ch, Ring(r, z)) : r \in {S[1][2] + w} \cup (IF S[1][2] - w > 0 THEN {S[1][2] - w} ELSE {}), z \in {1, S[3][2] + w}}
CircCylinder == UNION {CylLoops("cylinder", <<Cyl(sc[1], IdM, Zero3, P1)>>, CylChart(IdM, Zero3), <<<<0, 2 * sc[1]>>, <<0, 0>>, <<-3 * sc[1], 3 * sc[1]>>>>, sc[2], {<<1, 4>>, <<-5, 2>>}, {0, 1, -7}) : sc \in Scales}
CircSegment == UNION {UNION {CylLoops("segment", <<Seg(d, IdM, Zero3, P2)>>, CylChart(IdM, Zero3), <<<<d[1], d[2]>>, <<0, 0>>, <<-(d[3] \div 2), d[3] \div 2>>>>, sc[2],
                                       IF Thorough THEN {<<d[4] + 1, d[5] - 1>>, <<d[5] - 1, d[5] + 2>>, <<d[4] - 2, d[5] + 1>>} ELSE {<<d[5] - 1, d[5] + 2>>},
                                       IF Thorough THEN {0, 1, -7} ELSE {1}) : d \in SegDims(sc[1])} : sc \in Scales}
SphLoops(fam, scene, ch, r0, w) ==
  UNION {{Circ(fam, scene, ch, CoordRect(3, f, Pos(Iv(t, 0, r0, w)), pv)) : f \in {0, 5}, pv \in {<<2, 5>>, <<1, 11>>}} : t \in {"in", "hi", "out", "enc"}}   \* (r, theta) at fixed phi
  \cup {Circ(fam, scene, ch, CoordRect(1, r, <<2, 7>>, <<-3, 6>>)) : r \in {r0 + w} \cup (IF r0 - w > 0 THEN {r0 - w} ELSE {})}                              \* (theta, phi) at fixed r
  \cup {Circ(fam, scene, ch, <<<<<<r, t, 0>>, <<r, t, 24>>>>>>) : r \in {r0 + w} \cup (IF r0 - w > 0 THEN {r0 - w} ELSE {}), t \in {3, 6}}                    \* parallels
CircSphere == UNION {SphLoops("sphere", <<Sph(sc[1], IdM, Zero3, P1)>>, SphChart(IdM, Zero3), 2 * sc[1], sc[2]) : sc \in Scales}
CircDipole == UNION {SphLoops("dipole", <<Dip(IdM, Zero3, P1)>>, SphChart(IdM, Zero3), 2 * sc[1], sc[2]) : sc \in Scales}
CircTetra == UNION {UNION {BodyRects("tetrahedron", <<Tet(sc[1], IdM, Zero3, P1)>>, TetChart(sc[1], IdM, Zero3, i0), TetS(sc[1]), sc[2],
                                     {<<1, 1>>, <<2, -1>>, <<3, sc[1]>>}) : i0 \in {1, 4}} : sc \in Scales}
\* Circle conductor in its own cylindrical chart: meridian rectangles around / beside the wire, rings, and two coaxial circles
CircCircle ==
  UNION {{Circ("circle", <<Cir(sc[1], IdM, Zero3, 2)>>, CylChart(IdM, Zero3), CoordRect(2, f, Iv(t[2], 0, 0, sc[2]), Pos(Iv(t[1], 0, 2 * sc[1], sc[2]))))
            : f \in {0, 5}, t \in {<<"hi", "in">>, <<"in", "in">>, <<"out", "in">>, <<"enc", "in">>, <<"hi", "out">>}} : sc \in Scales}
  \cup UNION {{Circ("circle", <<Cir(sc[1], IdM, Zero3, 2)>>, CylChart(IdM, Zero3), Ring(r, z)) : r \in {sc[1], 3 * sc[1]}, z \in {0, sc[2]}} : sc \in Scales}
  \cup UNION {{Circ("coll:circle+circle", <<Cir(sc[1], IdM, Zero3, 2), Cir(2 * sc[1], IdM, Zero3, -3)>>, CylChart(IdM, Zero3),
                    CoordRect(2, 3, Iv("in", 0, 0, sc[2]), Pos(Iv(t, 0, r0, sc[2])))) : t \in {"hi", "enc", "in"}, r0 \in {2 * sc[1], 4 * sc[1]}} : sc \in Scales}
C14CircChart == CircCuboid \cup CircMesh \cup CircCylinder \cup CircSegment \cup CircSphere \cup CircDipole \cup CircTetra \cup CircCircle

\* Cartesian loops against wires: these are also moved / reversed / split by the model (library check)
Sq1 == Pol(SquareV(1), IdM, Zero3, 3)
Hex2 == Pol(HexV(2), IdM, Zero3, -2)
CartLk ==
     \* rectangles around one side of the square, through its interior, beside it (odd coordinates: never touch the even wire)
     {Circ("lk:polyline", <<Sq1>>, Id0, RectLoop(k, c, a[1], a[2], b[1], b[2])) : k \in 1..3, c \in {1, 5}, a \in {<<-1, 3>>, <<1, 5>>, <<-5, 5>>}, b \in {<<-1, 1>>, <<-3, 3>>}}
  \cup {Circ("lk:polyline", <<Hex2>>, Id0, RectLoop(k, c, a[1], a[2], b[1], b[2])) : k \in 1..3, c \in {1}, a \in {<<-1, 7>>, <<1, 5>>, <<-9, 9>>}, b \in {<<-1, 3>>, <<-7, 7>>}}
     \* a wire with segments along all three local axes: loops around its z-parallel and y-parallel segments
  \cup {Circ("lk:polyline", <<Pol(StepV(1), IdM, Zero3, 2)>>, Id0, RectLoop(k, c, a[1], a[2], b[1], b[2])) : k \in 1..3, c \in {1}, a \in {<<-5, -1>>, <<1, 3>>, <<-5, 7>>}, b \in {<<1, 3>>, <<-3, 5>>}}
     \* triangles and a non-planar pentagon in general position
  \cup {Circ("lk:polyline", <<Sq1>>, Id0, PolyLoop(v)) : v \in {<<<<1, 1, -3>>, <<5, 1, 1>>, <<1, -1, 3>>>>, <<<<1, 1, -1>>, <<3, 5, 3>>, <<5, 1, -3>>>>,
                                                              <<<<1, 1, 1>>, <<3, 1, 1>>, <<3, 1, -1>>, <<1, -1, -3>>, <<-1, 3, -1>>>>}}
     \* circle: rectangles in its frame through the disc, beside it, and tilted triangles
  \cup {Circ("lk:circle", <<Cir(1, IdM, Zero3, 2)>>, Id0, RectLoop(k, c, a[1], a[2], b[1], b[2])) : k \in 1..3, c \in {1}, a \in {<<-1, 3>>, <<1, 5>>, <<-5, 5>>}, b \in {<<-1, 1>>, <<-3, 3>>}}
  \cup {Circ("lk:circle", <<Cir(2, IdM, Zero3, -1)>>, Id0, PolyLoop(v)) : v \in {<<<<1, 1, -3>>, <<9, 1, 1>>, <<1, -1, 3>>>>, <<<<5, 1, -3>>, <<9, 1, 1>>, <<7, -1, 3>>>>}}
     \* collections: wire + circle + magnet + dipole
  \cup {Circ("lk:coll", <<Sq1, Cir(1, Rx90, <<2, 0, 0>>, 2), Cub(1, IdM, <<0, 0, 9>>, P1), Dip(IdM, <<0, 7, 0>>, P2)>>, Id0, RectLoop(k, c, a[1], a[2], b[1], b[2]))
          : k \in {2, 3}, c \in {1}, a \in {<<-1, 3>>, <<1, 5>>, <<-5, 5>>}, b \in {<<-1, 1>>, <<-3, 3>>, <<-5, 11>>}}
CartBig == \* size ratios up to 1e2 and down to 1e-2 (no moves)
     {Circ("polyline", <<Pol(SquareV(A), IdM, Zero3, 3)>>, Id0, RectLoop(2, 1, 2 * A - w, 2 * A + 2 * w + 1, -w, 2 * w + 1)) : A \in {1, 50}, w \in {1, 100}}
  \cup {Circ("polyline", <<Pol(SquareV(A), IdM, Zero3, 3)>>, Id0, RectLoop(3, 1, -w, 2 * w + 1, -w, 2 * w + 1)) : A \in {1, 50}, w \in {1, 100}}
  \cup {Circ("circle", <<Cir(A, IdM, Zero3, 2)>>, Id0, RectLoop(2, 1, 2 * A - w, 2 * A + 2 * w + 1, -w, 2 * w + 1)) : A \in {1, 50}, w \in {1, 100}}

(* ------------------------------------------------------------------------------ the state machine *)
(* ============================================================ C01: branch-coverage family + point laws *)
(* Cells and loops STRADDLING every documented value-dependent switch of every formula (listed with file:line at   *)
(* Integral!Switch), on both sides, inside and outside the body, at relative sizes 1e-3 .. 1e3.  The family name   *)
(* is "<class>|<switch surface>|<side>" and is reported in `where` of a rejection.                                 *)
Nm(cls, surf, side) == cls \o "|" \o surf \o "|" \o side
\* <<A, w>> for the switch family: cell width / body size from 1e-3 to 1
SwScales == IF Thorough THEN {<<1, 1>>, <<5, 1>>, <<50, 1>>, <<500, 1>>} ELSE {<<1, 1>>, <<50, 1>>, <<500, 1>>}
\* interval far away from the body (distance D body sizes), width comparable to the distance / 8
FarIv(s1, s2, D) == <<s2 + D * (s2 - s1), s2 + D * (s2 - s1) + Max2(3, (D * (s2 - s1)) \div 8)>>
NamedBox(name, scene, ch, iv) == Flux(name, scene, ch, <<iv[1][1], iv[2][1], iv[3][1]>>, <<iv[1][2], iv[2][2], iv[3][2]>>, FFF)
\* --- Cuboid / box mesh: octant planes through the centre ("in" straddles them), face planes, edge extensions; near and far
CubS(A) == <<<<-2 * A, 2 * A>>, <<-3 * A, 3 * A>>, <<-4 * A, 4 * A>>>>
SwBoxPat == {<<"octant planes", "inside", <<"in", "in", "in">>>>, <<"face+octant planes", "across the face", <<"hi", "in", "in">>>>,
             <<"face+octant planes", "across the face", <<"in", "lo", "in">>>>, <<"edge+octant plane", "across an edge", <<"hi", "hi", "in">>>>,
             <<"corner", "across a corner", <<"hi", "lo", "hi">>>>, <<"octant planes", "outside near", <<"out", "in", "in">>>>,
             <<"edge extension", "outside near", <<"out", "hi", "in">>>>, <<"edge extension", "outside near", <<"hi", "out", "lo">>>>,
             <<"face plane extension", "outside near", <<"out", "out", "hi">>>>}
SwBox(cls, mk(_)) ==
  UNION {{BoxCell(Nm(cls, q[1], q[2]), <<mk(sc[1])>>, Id0, CubS(sc[1]), sc[2], q[3]) : q \in SwBoxPat} : sc \in SwScales}
  \cup UNION {{NamedBox(Nm(cls, "octant planes", "far"), <<mk(1)>>, Id0, <<Iv("in", -2, 2, D), FarIv(-3, 3, D), Iv("in", -4, 4, D)>>),
               NamedBox(Nm(cls, "face plane extension", "far"), <<mk(1)>>, Id0, <<Iv("hi", -2, 2, D), FarIv(-3, 3, D), FarIv(-4, 4, D)>>),
               NamedBox(Nm(cls, "edge extension", "far"), <<mk(1)>>, Id0, <<Iv("hi", -2, 2, D), Iv("hi", -3, 3, D), FarIv(-4, 4, D)>>)} : D \in {10, 100}}
SwCuboid == SwBox("Cuboid", LAMBDA A : Cub(A, IdM, Zero3, P1)) \cup SwBox("TriangularMesh", LAMBDA A : Mesh(A, IdM, Zero3, P2))
\* loops through the same switches (H is a gradient field: circulation 0 through the octant planes, faces and edges extensions)
SwCuboidLoops == UNION {BodyRects(Nm("Cuboid", "octant+face planes", "loop"), <<Cub(sc[1], IdM, Zero3, P1)>>, Id0, CubS(sc[1]), sc[2], {<<1, 0>>, <<2, 1>>, <<3, 2 * sc[1]>>}) : sc \in SwScales}
\* --- Cylinder with 40 | d: r/r0 = 0.05 is the lattice value r = A; hull r = 20 A; bases z = +-10 A
Cyl40(A, pol) == Src("Cylinder", IdM, Zero3, <<40 * A, 20 * A>>, pol, <<>>)
SwCylinder ==
  UNION {{CylCell(Nm("Cylinder", "r/r0=0.05", "inside"), <<Cyl40(A, pol)>>, CylChart(IdM, Zero3), <<A - w, A + 2 * w>>, f, Iv("in", -10 * A, 10 * A, w)),
                 CylCell(Nm("Cylinder", "r/r0=0.05 and base", "across the base"), <<Cyl40(A, pol)>>, CylChart(IdM, Zero3), <<A - w, A + 2 * w>>, f, Iv("hi", -10 * A, 10 * A, w)),
                 CylCell(Nm("Cylinder", "r/r0=0.05", "outside near"), <<Cyl40(A, pol)>>, CylChart(IdM, Zero3), <<A - w, A + 2 * w>>, f, Iv("out", -10 * A, 10 * A, 3 * w)),
                 CylCell(Nm("Cylinder", "r/r0=0.05", "outside far"), <<Cyl40(A, pol)>>, CylChart(IdM, Zero3), <<A - w, A + 2 * w>>, f, FarIv(-10 * A, 10 * A, 10)),
                 CylCell(Nm("Cylinder", "hull r=r0", "inside z-range"), <<Cyl40(A, pol)>>, CylChart(IdM, Zero3), <<20 * A - w, 20 * A + 2 * w>>, f, Iv("in", -10 * A, 10 * A, w)),
                 CylCell(Nm("Cylinder", "rim", "across the rim"), <<Cyl40(A, pol)>>, CylChart(IdM, Zero3), <<20 * A - w, 20 * A + 2 * w>>, f, Iv("hi", -10 * A, 10 * A, w)),
                 CylCell(Nm("Cylinder", "hull extension r=r0", "outside z-range"), <<Cyl40(A, pol)>>, CylChart(IdM, Zero3), <<20 * A - w, 20 * A + 2 * w>>, f, Iv("out", -10 * A, 10 * A, w)),
                 CylCell(Nm("Cylinder", "hull extension r=r0", "far"), <<Cyl40(A, pol)>>, CylChart(IdM, Zero3), <<20 * A - w, 20 * A + 2 * w>>, f, FarIv(-10 * A, 10 * A, 10)),
                 CylCell(Nm("Cylinder", "base plane extension |z|=z0", "outside hull"), <<Cyl40(A, pol)>>, CylChart(IdM, Zero3), <<20 * A + w, 20 * A + 4 * w>>, f, Iv("hi", -10 * A, 10 * A, w)),
                 CylCell(Nm("Cylinder", "axis r=0", "inside"), <<Cyl40(A, pol)>>, CylChart(IdM, Zero3), <<0, 3 * w>>, <<0, 24>>, Iv("in", -10 * A, 10 * A, w))}
                : f \in {<<1, 4>>, <<0, 24>>}, pol \in {P1, P3}, A \in {1, 2, 25}, w \in {1}}
  \cup UNION {{CylCell(Nm("Cylinder", "r/r0=0.05", "inside"), <<Cyl40(A, P1)>>, CylChart(IdM, Zero3), <<A - w, A + 2 * w>>, <<-5, 2>>, Iv("in", -10 * A, 10 * A, w))} : A \in {25}, w \in {10}}
SwCylinderLoopsA(A) ==
  UNION {{Circ(Nm("Cylinder", "r/r0=0.05 and axis", "loop"), <<Cyl40(A, P1)>>, CylChart(IdM, Zero3), CoordRect(2, f, Iv(t, -10 * A, 10 * A, 1), <<0, 3 * A>>)),
          Circ(Nm("Cylinder", "r/r0=0.05", "loop"), <<Cyl40(A, P1)>>, CylChart(IdM, Zero3), CoordRect(3, z, <<1, 4 * A>>, <<-5, 2>>)),
          Circ(Nm("Cylinder", "hull and base", "loop"), <<Cyl40(A, P1)>>, CylChart(IdM, Zero3), CoordRect(2, f, Iv(t, -10 * A, 10 * A, A), <<19 * A, 22 * A>>))}
         : f \in {1, -7}, t \in {"in", "hi", "out"}, z \in {1, 11 * A}}
SwCylinderLoops == UNION {SwCylinderLoopsA(A) : A \in {1, 25}}
\* --- CylinderSegment: case surfaces r = r_i (everywhere), phi = phi_j + n pi (both half planes), z = z_k (everywhere), axis
SwSegDim(A) == <<2 * A, 4 * A, 4 * A, 1, 7>>            \* 15 .. 105 degrees; switch half planes at 15, 105, 195, 285 degrees
SegAngleAliases ==
  UNION {{CylCell(Nm("CylinderSegment", q[1], "section angles " \o ToString(d[4] * 15) \o ".." \o ToString(d[5] * 15)), <<Seg(d, IdM, Zero3, P1)>>, CylChart(IdM, Zero3), q[2], q[3], q[4])
           : q \in {<<"phi=phi2 across the face", <<2 * A + 1, 2 * A + 3>>, <<2, 5>>, Iv("in", -2 * A, 2 * A, 1)>>,
                    <<"phi=phi1 across the face", <<2 * A + 1, 2 * A + 3>>, <<-5, -2>>, Iv("in", -2 * A, 2 * A, 1)>>,
                    <<"inside the wedge", <<2 * A + 1, 2 * A + 3>>, <<-1, 2>>, Iv("in", -2 * A, 2 * A, 1)>>,
                    <<"r=r1, phi=phi2 across the inner corner", <<2 * A - 1, 2 * A + 2>>, <<2, 5>>, Iv("in", -2 * A, 2 * A, 1)>>,
                    <<"opposite half plane", <<2 * A + 1, 2 * A + 3>>, <<8, 11>>, Iv("in", -2 * A, 2 * A, 1)>>},
             d \in {<<2 * A, 4 * A, 4 * A, -27, -21>>, <<2 * A, 4 * A, 4 * A, 21, 27>>, <<2 * A, 4 * A, 4 * A, -51, -45>>}}
         : A \in {2}}
SwSegment ==
  UNION {{CylCell(Nm("CylinderSegment", q[1], q[2]), <<Seg(SwSegDim(A), IdM, Zero3, P1)>>, CylChart(IdM, Zero3), q[3], q[4], q[5])
           : q \in {<<"r=r1, phi=phi2", "across the inner corner", <<2 * A - 1, 2 * A + 2>>, <<6, 9>>, Iv("in", -2 * A, 2 * A, 1)>>,
                    <<"r=r2 extension", "above the body", <<4 * A - 1, 4 * A + 2>>, <<3, 5>>, Iv("out", -2 * A, 2 * A, 1)>>,
                    <<"phi=phi1+pi", "opposite half plane", <<2 * A + 1, 2 * A + 3>>, <<12, 15>>, Iv("in", -2 * A, 2 * A, 1)>>,
                    <<"z=z2 extension", "outside r2", <<4 * A + 1, 4 * A + 3>>, <<3, 5>>, Iv("hi", -2 * A, 2 * A, 1)>>,
                    <<"r=r1 extension", "inside the bore", <<2 * A - 1, 2 * A + 2>>, <<9, 11>>, Iv("out", -2 * A, 2 * A, 1)>>}}
         : A \in IF Thorough THEN {2, 20} ELSE {2}}
  \* section angles given beyond +-360 degrees and STRADDLING them (valid input: only phi2 - phi1 <= 360 is demanded): -405..-315 and 315..405
  \* degrees are both the wedge -45..45 degrees; cells across its two faces, across the inner corner, inside and in the opposite half plane
  \cup SegAngleAliases
SwSegmentLoops ==
  UNION {{Circ(Nm("CylinderSegment", "all r/z case surfaces", "loop"), <<Seg(SwSegDim(A), IdM, Zero3, P2)>>, CylChart(IdM, Zero3), CoordRect(2, f, <<-3 * A, 4 * A>>, <<A, 5 * A>>)),
          Circ(Nm("CylinderSegment", "all phi case surfaces", "loop"), <<Seg(SwSegDim(A), IdM, Zero3, P2)>>, CylChart(IdM, Zero3), Ring(3 * A, z)),
          Circ(Nm("CylinderSegment", "all phi case surfaces", "loop"), <<Seg(SwSegDim(A), IdM, Zero3, P2)>>, CylChart(IdM, Zero3), Ring(5 * A, z)),
          Circ(Nm("CylinderSegment", "axis r=0", "loop with an edge on the axis"), <<Seg(SwSegDim(2 * A), IdM, Zero3, P2)>>, CylChart(IdM, Zero3), CoordRect(2, f, <<-A, 2 * A>>, <<0, 6 * A>>)),
          Circ(Nm("CylinderSegment", "far", "loop"), <<Seg(SwSegDim(A), IdM, Zero3, P2)>>, CylChart(IdM, Zero3), CoordRect(2, f, <<400 * A, 400 * A + 50>>, <<400 * A, 400 * A + 50>>))}
         : A \in {1}, f \in {3, 13}, z \in {1, 3}}
\* --- Sphere: r = r0
SwSphere == UNION {{SphCell(Nm("Sphere", "r=r0", "across the surface"), <<Sph(sc[1], IdM, Zero3, P1)>>, SphChart(IdM, Zero3), Iv("hi", 0, 2 * sc[1], sc[2]), t, f)
                      : t \in PolIv, f \in AzIv} : sc \in SwScales}
\* --- Circle: axis branch r = 0 (a loop edge ON the axis uses it for every node), loop plane z = 0
SwCircle ==
  UNION {{Circ(Nm("Circle", "axis r=0 (edge on the axis)", "linking loop"), <<Cir(A, IdM, Zero3, 2)>>, CylChart(IdM, Zero3), CoordRect(2, f, <<-w, 2 * w>>, <<0, 2 * A + w>>)),
          Circ(Nm("Circle", "axis r=0 (edge on the axis)", "unlinked loop"), <<Cir(A, IdM, Zero3, 2)>>, CylChart(IdM, Zero3), CoordRect(2, f, <<-w, 2 * w>>, <<0, A>>)),
          Circ(Nm("Circle", "loop plane z=0", "unlinked loop"), <<Cir(A, IdM, Zero3, 2)>>, CylChart(IdM, Zero3), CoordRect(2, f, <<-w, 2 * w>>, <<2 * A + w, 2 * A + 4 * w>>)),
          CylCell(Nm("Circle", "axis and loop plane", "rod around the axis"), <<Cir(A, IdM, Zero3, 2)>>, CylChart(IdM, Zero3), <<0, Min2(w, A)>>, <<0, 24>>, <<-w, 2 * w>>),
          CylCell(Nm("Circle", "loop plane z=0", "outside the loop"), <<Cir(A, IdM, Zero3, 2)>>, CylChart(IdM, Zero3), <<2 * A + w, 2 * A + 4 * w>>, <<1, 4>>, <<-w, 2 * w>>)}
         : A \in {1, 50, 500}, w \in {1, 100}, f \in {0, 5}}
\* --- Polyline: planes through the end points perpendicular to a segment, segment extension lines, the wire itself (loops)
SwPolyline ==
  UNION {{NamedBox(Nm("Polyline", "end-point plane + extension line", "beyond a corner"), <<Pol(SquareV(A), IdM, Zero3, 3)>>, Id0, <<<<2 * A + w, 2 * A + 4 * w>>, <<2 * A - w, 2 * A + 2 * w>>, <<-w, 2 * w>>>>),
          NamedBox(Nm("Polyline", "end-point plane", "beside a segment"), <<Pol(SquareV(A), IdM, Zero3, 3)>>, Id0, <<<<2 * A + w, 2 * A + 4 * w>>, <<-2 * A - w, -2 * A + 2 * w>>, <<w, 4 * w>>>>),
          NamedBox(Nm("Polyline", "end-point planes", "inside the loop"), <<Pol(SquareV(A), IdM, Zero3, 3)>>, Id0, <<<<-w, 2 * w>>, <<-w, 2 * w>>, <<-w, 2 * w>>>>),
          Circ(Nm("Polyline", "wire axis", "loop around one segment"), <<Pol(SquareV(A), IdM, Zero3, 3)>>, Id0, RectLoop(2, 1, 2 * A - w, 2 * A + 2 * w + 1, -w, 2 * w + 1)),
          Circ(Nm("Polyline", "end-point plane", "loop around a corner"), <<Pol(SquareV(A), IdM, Zero3, 3)>>, Id0, RectLoop(2, 2 * A - 1, 2 * A - w, 2 * A + 2 * w + 1, -w, 2 * w + 1)),
          Circ(Nm("Polyline", "extension line", "loop around the extension"), <<Pol(SquareV(A), IdM, Zero3, 3)>>, Id0, RectLoop(2, 2 * A + 1, 2 * A - w, 2 * A + 2 * w + 1, -w, 2 * w + 1))}
         : A \in {1, 50}, w \in {1, 9}}
  \cup UNION {{Circ(Nm("Polyline", "wire axis (z-parallel segment)", "loop around one segment"), <<Pol(StepV(A), IdM, Zero3, 2)>>, Id0, RectLoop(3, 1, -2 * A - w, -2 * A + w + 2, 2 * A - w, 2 * A + w + 1)),
                Circ(Nm("Polyline", "end-point plane (z-parallel segment)", "loop above the segment"), <<Pol(StepV(A), IdM, Zero3, 2)>>, Id0, RectLoop(3, 2 * A + 1, -2 * A - w, -2 * A + w + 2, 2 * A - w, 2 * A + w + 1)),
                Circ(Nm("Polyline", "wire axis (y-parallel segment)", "loop around one segment"), <<Pol(StepV(A), IdM, Zero3, 2)>>, Id0, RectLoop(2, 1, 2 * A - w, 2 * A + w + 1, -2 * A - w, -2 * A + w + 2)),
                NamedBox(Nm("Polyline", "end-point planes (z-parallel segment)", "beside the segment"), <<Pol(StepV(A), IdM, Zero3, 2)>>, Id0, <<<<-2 * A - 4 * w, -2 * A - w>>, <<2 * A - w, 2 * A + 2 * w>>, <<-w, 2 * w>>>>)}
               : A \in {1, 50}, w \in {1}}
\* --- Triangle (charged sheet): its plane outside the sheet, edge lines and their extensions; loops through the sheet
TriV(A) == <<<<0, 0, 0>>, <<12 * A, 0, 0>>, <<3 * A, 12 * A, 0>>>>
Tri(A, pol) == Src("Triangle", IdM, Zero3, <<>>, pol, TriV(A))
TriChart(A) == Chart("aff", IdM, Zero3, <<0, 0, 0>>, <<<<12 * A, 0, 0>>, <<3 * A, 12 * A, 0>>, <<0, 0, 12 * A>>>>, 12 * A)
SwTriangle ==
  UNION {{NamedBox(Nm("Triangle", "triangle plane", "outside the sheet"), <<Tri(A, P1)>>, TriChart(A), <<<<-4 * w, -w>>, <<w, 4 * w>>, <<-w, 2 * w>>>>),
          NamedBox(Nm("Triangle", "edge extension line", "beyond a vertex"), <<Tri(A, P1)>>, TriChart(A), <<<<-w, 2 * w>>, <<12 * A + w, 12 * A + 4 * w>>, <<-w, 2 * w>>>>),
          NamedBox(Nm("Triangle", "above the sheet", "near"), <<Tri(A, P1)>>, TriChart(A), <<<<w, 4 * w>>, <<w, 4 * w>>, <<w, 4 * w>>>>),
          Circ(Nm("Triangle", "through the sheet", "loop"), <<Tri(A, P1)>>, TriChart(A), CoordRect(2, 2 * w, <<-w, 2 * w>>, <<w, 5 * w>>)),
          Circ(Nm("Triangle", "edge line", "loop around an edge"), <<Tri(A, P1)>>, TriChart(A), CoordRect(2, 2 * w, <<-w, 2 * w>>, <<-2 * w, 3 * w>>)),
          Circ(Nm("Triangle", "edge extension line", "loop around the extension"), <<Tri(A, P1)>>, TriChart(A), CoordRect(2, 12 * A + 2 * w, <<-w, 2 * w>>, <<-2 * w, 3 * w>>))}
         : A \in {1, 50}, w \in {1}}
\* --- Tetrahedron: face planes inside / outside the face, edge extensions (all four anchors)
SwTetra ==
  UNION {UNION {{BoxCell(Nm("Tetrahedron", q[1], q[2]), <<Tet(sc[1], IdM, Zero3, P1)>>, TetChart(sc[1], IdM, Zero3, i0), TetS(sc[1]), sc[2], q[3])
            : q \in {<<"face plane", "across the face", <<"lo", "nr", "nr">>>>, <<"edge", "across an edge", <<"nr", "lo", "lo">>>>, <<"vertex", "around a vertex", <<"lo", "lo", "lo">>>>,
                     <<"face plane extension", "outside", <<"lo", "out", "nr">>>>, <<"edge extension", "beyond a vertex", <<"out", "lo", "lo">>>>, <<"inside", "inside", <<"nr", "nr", "nr">>>>}}
            : i0 \in 1..4} : sc \in {<<1, 1>>, <<50, 1>>}}
C01Cells == SwCuboid \cup SwCuboidLoops \cup SwCylinder \cup SwCylinderLoops \cup SwSegment \cup SwSegmentLoops \cup SwSphere \cup SwCircle \cup SwPolyline \cup SwTriangle \cup SwTetra

\* --- point laws: integer offsets with integer norm (scaled Pythagorean quadruples, all on-axis directions included)
Quads == {<<<<0, 0, 1>>, 1>>, <<<<1, 0, 0>>, 1>>, <<<<0, -1, 0>>, 1>>, <<<<1, 2, 2>>, 3>>, <<<<-2, 1, 2>>, 3>>, <<<<2, 3, -6>>, 7>>, <<<<0, 3, 4>>, 5>>, <<<<-4, 0, 3>>, 5>>,
          <<<<1, -4, 8>>, 9>>, <<<<4, 4, 7>>, 9>>, <<<<6, -2, -9>>, 11>>, <<<<3, 4, 12>>, 13>>}
Off(q, k) == [r |-> Scale3(k, q[1]), rho |-> k * q[2]]
PtDipole == {Point(Nm("Dipole", "closed form", "k=" \o ToString(k)), Dip(R, p, m), "dipole", Add3(p, Off(q, k).r), f, Off(q, k).rho)
               : q \in Quads, k \in {1, 10, 100}, f \in {"B", "H"}, m \in {P1, P2}, R \in {IdM, Rx90}, p \in {<<1, -2, 3>>}}
PtSphere == {Point(Nm("Sphere", "closed form outside", "k=" \o ToString(k)), Sph(A, R, p, m), "sphere_out", Add3(p, Off(q, k).r), f, Off(q, k).rho)
               : q \in Quads, k \in {1, 10, 100}, f \in {"B", "H"}, m \in {P1}, R \in {IdM, Rz90}, p \in {<<1, -2, 3>>}, A \in {1, 4}}
       \cup {Point(Nm("Sphere", "closed form inside", "k=" \o ToString(k)), Sph(A, R, p, m), "sphere_in", Add3(p, Off(q, k).r), f, Off(q, k).rho)
               : q \in Quads, k \in {1, 3}, f \in {"B", "H"}, m \in {P1, P2}, R \in {IdM, Ry90}, p \in {<<1, -2, 3>>}, A \in {30}}
FarSrcs == {Cub(1, Rx90, <<1, 0, -1>>, P1), Mesh(1, IdM, Zero3, P2), Cyl(1, Ry90, Zero3, P1), Seg(<<1, 3, 4, 0, 6>>, IdM, Zero3, P1), Seg(<<0, 2, 2, -3, 9>>, Rz90, Zero3, P2),
            Seg(<<1, 2, 2, 0, 24>>, IdM, Zero3, P1), Sph(1, IdM, Zero3, P2), Tet(1, IdM, Zero3, P1), Dip(Rx90, Zero3, P1), Cir(1, Rx90, Zero3, 2), Pol(SquareV(1), Ry90, Zero3, 3), Pol(HexV(1), IdM, Zero3, -2), Pol(StepV(1), Rx90, Zero3, 1)}
PtFar == {Point(Nm(s.cls, "far field", "k=" \o ToString(k)), s, "far", Add3(s.p, Off(q, k).r), f, Off(q, k).rho)
            : s \in FarSrcs, q \in Quads, k \in {150, 300, 1200, 3600}, f \in {"B", "H"}}
C01Points == PtDipole \cup PtSphere \cup PtFar
(* ============================================================ thin slabs next to faces, thin tubes next to axes (C14 and C01) *)
(* Surface masks and special-case branches live within 1e-3 .. 1e-5 of a face / an axis.  A closed cell sees such a branch only if  *)
(* ONE of its faces lies in the thin region: tiny cells (3 lattice units) straddling the face over the INTERIOR of a facet of a     *)
(* body that is 1e3 .. 3e4 units large, and cells of width 1 hugging the symmetry axis of a source of radius 1e3 .. 1e4.           *)
SlabA == IF Thorough THEN {500, 2500} ELSE {500}            \* tetrahedron edge 12 A: offsets 1.7e-4 and 3e-5 of the facet size
Q4(s1, s2, w) == LET c == (s1 + s2) \div 2 + (s2 - s1) \div 4 IN <<c - w, c + 2 * w>>      \* quarter point: off the face diagonals of a box mesh
SlabBoxPat(A) == LET S == CubS(A) IN       \* one cell over the interior of three faces (off the centre lines and off the diagonals)
  {<<"face x=+a", <<Iv("hi", S[1][1], S[1][2], 1), Q4(S[2][1], S[2][2], 1), Iv("in", S[3][1], S[3][2], 1)>>>>,
   <<"face y=-b", <<Q4(S[1][1], S[1][2], 1), Iv("lo", S[2][1], S[2][2], 1), Iv("in", S[3][1], S[3][2], 1)>>>>,
   <<"face z=+c", <<Iv("in", S[1][1], S[1][2], 1), Q4(S[2][1], S[2][2], 1), Iv("hi", S[3][1], S[3][2], 1)>>>>}
SlabBox == UNION {{NamedBox(Nm("Cuboid", "thin slab at " \o q[1], "across the face interior"), <<Cub(A, IdM, Zero3, P1)>>, Id0, q[2]) : q \in SlabBoxPat(A)} : A \in SlabA}
      \cup UNION {{NamedBox(Nm("TriangularMesh", "thin slab at " \o q[1], "across the facet interior"), <<Mesh(A, IdM, Zero3, P1)>>, Id0, q[2]) : q \in SlabBoxPat(A)} : A \in SlabA}
\* tetrahedron: over the interior (u = n/3) of the three faces through the anchor vertex; anchors 1 and 2 cover all four faces
TetMid(A) == <<4 * A - 1, 4 * A + 2>>
SlabTetra == UNION {UNION {{NamedBox(Nm("Tetrahedron", "thin slab at a facet", "across the facet interior"), <<Tet(A, IdM, Zero3, P1)>>, TetChart(A, IdM, Zero3, i0),
                                     [k \in 1..3 |-> IF k = j THEN <<-2, 1>> ELSE TetMid(A)]) : j \in 1..3} : i0 \in {1, 2}} : A \in SlabA}
SlabCurved ==
  UNION {{CylCell(Nm("Cylinder", "thin slab at the hull", "across the hull"), <<Cyl(A, IdM, Zero3, P1)>>, CylChart(IdM, Zero3), <<2 * A - 1, 2 * A + 2>>, <<1, 3>>, <<A, A + 3>>),
          CylCell(Nm("Cylinder", "thin slab at the base", "across the base"), <<Cyl(A, IdM, Zero3, P1)>>, CylChart(IdM, Zero3), <<A, A + 3>>, <<1, 3>>, <<3 * A - 1, 3 * A + 2>>),
          SphCell(Nm("Sphere", "thin slab at the surface", "across the surface"), <<Sph(A, IdM, Zero3, P1)>>, SphChart(IdM, Zero3), <<2 * A - 1, 2 * A + 2>>, <<3, 5>>, <<1, 3>>)}
         : A \in {500, 5000}}
  \cup UNION {{CylCell(Nm("CylinderSegment", "thin slab at the outer hull", "across the hull"), <<Seg(<<A, 3 * A, 4 * A, 0, 6>>, IdM, Zero3, P1)>>, CylChart(IdM, Zero3), <<3 * A - 1, 3 * A + 2>>, <<2, 4>>, <<A, A + 3>>),
                CylCell(Nm("CylinderSegment", "thin slab at the base", "across the base"), <<Seg(<<A, 3 * A, 4 * A, 0, 6>>, IdM, Zero3, P1)>>, CylChart(IdM, Zero3), <<2 * A, 2 * A + 3>>, <<2, 4>>, <<2 * A - 1, 2 * A + 2>>)}
               : A \in IF Thorough THEN {500, 5000} ELSE {500}}
\* thin tubes next to the symmetry axis (cylindrical chart in the source frame): rod around the axis, wedge from the axis, first ring next to it
TubeCells(name, src, zs) ==
  UNION {{CylCell(Nm(name, "thin tube at the axis", "rod around the axis"), <<src>>, CylChart(src.R, src.p), <<0, 1>>, <<0, 24>>, <<z, z + 3>>),
          CylCell(Nm(name, "thin tube at the axis", "wedge from the axis"), <<src>>, CylChart(src.R, src.p), <<0, 1>>, <<1, 4>>, <<z, z + 3>>),
          CylCell(Nm(name, "thin tube at the axis", "across the tube"), <<src>>, CylChart(src.R, src.p), <<0, 3>>, <<-5, 2>>, <<z, z + 3>>),
          CylCell(Nm(name, "thin tube at the axis", "next to the tube"), <<src>>, CylChart(src.R, src.p), <<1, 4>>, <<1, 4>>, <<z, z + 3>>)} : z \in zs}
AxisTubes == UNION {TubeCells("Circle", Cir(A, IdM, Zero3, 2), {A, -3 * A}) \cup TubeCells("Circle", Cir(A, Rx90, <<3, -1, 2>>, -1), {2 * A})
                    \cup TubeCells("Cylinder", Cyl(A, IdM, Zero3, P1), {-1, 4 * A})
                    \cup TubeCells("CylinderSegment", Seg(<<A, 3 * A, 4 * A, 0, 6>>, IdM, Zero3, P1), {-1, 3 * A})
                    \cup TubeCells("Dipole", Dip(Rz90, <<1, 2, 3>>, P1), {A, -2 * A})
                    \cup TubeCells("Sphere", Sph(A, Ry90, Zero3, P1), {3 * A}) : A \in {500, 5000}}
ThinCells == SlabBox \cup SlabTetra \cup SlabCurved \cup AxisTubes \cup SegAngleAliases

(* ============================================================ mean-value law at points ON the special sets (C01) *)
\* points exactly on an axis / centre line / switch plane / segment extension line, in free space, with their six lattice neighbours
Harm(name, surf, src, loc, h) == Point(Nm(name, surf, "mean value, h=" \o ToString(h)), src, "harmonic", Add3(src.p, MulMV(src.R, loc)), "B", h)
HarmH(i) == [i EXCEPT !.pt.field = "H"]
HarmPoses == {<<IdM, Zero3>>, <<Rx90, <<2, -1, 3>>>>, <<Rz90, <<-4, 0, 1>>>>}
HarmB ==
  UNION {UNION {{Harm("CylinderSegment", "axis of a solid wedge (r1 = 0) beyond the faces", Seg(<<0, 2 * A, 2 * A, -3, 9>>, g[1], g[2], pol), <<0, 0, z>>, 1) : z \in {A + 200, -A - 300}, pol \in {P1, P2}}
           \cup {Harm("CylinderSegment", "axis of a solid wedge (r1 = 0) beyond the faces", Seg(<<0, 3 * A, 2 * A, 1, 6>>, g[1], g[2], P1), <<0, 0, z>>, 1) : z \in {A + 250}}
           \cup {Harm("CylinderSegment", "axis (r1 > 0) beyond the faces", Seg(<<A, 3 * A, 4 * A, 0, 6>>, g[1], g[2], P1), <<0, 0, z>>, 1) : z \in {2 * A + 200}}
           \cup {Harm("Cylinder", "axis beyond the bases", Cyl(A, g[1], g[2], P1), <<0, 0, z>>, 1) : z \in {3 * A + 200}}
           \cup {Harm("Cylinder", "hull extension r = r0", Cyl(A, g[1], g[2], P1), <<2 * A, 0, z>>, 1) : z \in {3 * A + 200}}
           \* the radius ratio r/r0 = 1/20 (where the diametral field switches from its series to the general form), in free space beyond a base
           \cup {Harm("Cylinder", "r/r0 = 0.05 beyond the bases", Src("Cylinder", g[1], g[2], <<40 * A, 6 * A>>, pol, <<>>), <<A, 0, z>>, 1) : z \in {3 * A + 200}, pol \in {P1, P2}}
           \cup {Harm("Circle", "axis r = 0", Cir(A, g[1], g[2], 2), <<0, 0, z>>, 1) : z \in {200, -A}}
           \cup {Harm("Circle", "loop plane z = 0 outside", Cir(A, g[1], g[2], 2), <<2 * A + 250, 0, 0>>, 1)}
           \cup {Harm("Cuboid", "centre line / octant planes", Cub(A, g[1], g[2], P1), loc, 1) : loc \in {<<0, 0, 4 * A + 200>>, <<2 * A + 200, 0, A>>, <<2 * A + 250, 3 * A, 4 * A>>}}
           \cup {Harm("TriangularMesh", "centre line / facet plane extension", Mesh(A, g[1], g[2], P2), loc, 1) : loc \in {<<0, 0, 4 * A + 200>>, <<2 * A + 250, 3 * A, 4 * A>>}}
           \cup {Harm("Tetrahedron", "face plane and edge extension", Tet(A, g[1], g[2], P1), loc, 1) : loc \in {<<12 * A + 200, 0, 0>>, <<-200, 5 * A, 0>>}}
           \cup {Harm("Sphere", "centre line", Sph(A, g[1], g[2], P1), <<0, 0, 2 * A + 200>>, 1)}
           \cup {Harm("Dipole", "moment axis / coordinate axis", Dip(g[1], g[2], P3), loc, 1) : loc \in {<<0, 0, 200>>, <<250, 0, 0>>}}
           \cup {Harm("Polyline", "segment extension line", Pol(SquareV(A), g[1], g[2], 3), <<2 * A + 200, 2 * A, 0>>, 1)}
           : g \in HarmPoses} : A \in IF Thorough THEN {100, 500} ELSE {500}}
HarmPts == HarmB \cup {HarmH(i) : i \in HarmB}
(* ============================================================ several sources in ONE field call; wires given in site coordinates (C14 and C01) *)
(* Flux and circulation are linear: the right-hand sides add (0 resp. the sum of I*Lk over all sources).  The scene is evaluated as one     *)
(* Collection, so grouping / tiling inside the field wrapper and the core functions is part of what is measured.                          *)
MeshD(dim, R, p, pol) == Src("TriangularMesh", R, p, dim, pol, <<>>)
TallM == MeshD(<<8, 12, 16>>, IdM, Zero3, P1)
ShortM == MeshD(<<8, 12, 8>>, IdM, <<14, 0, 0>>, P2)           \* same footprint and face count, different height
TallC == Src("Cuboid", IdM, Zero3, <<8, 12, 16>>, P1, <<>>)
PairScenes == {<<TallM, ShortM>>, <<ShortM, TallM>>, <<TallC, ShortM>>, <<ShortM, TallC>>,
               <<TallM, ShortM, Cir(1, Rx90, <<7, 0, 12>>, 2)>>, <<MeshD(<<8, 12, 8>>, Rz90, <<0, 0, 20>>, P3), TallM, ShortM>>}
PairCells == {<<"inside the tall body, across the height of the short one", <<<<-1, 2>>, <<-1, 2>>, <<3, 6>>>>>>,
              <<"across the top face of the short body", <<<<13, 16>>, <<-1, 2>>, <<3, 6>>>>>>,
              <<"inside the short body", <<<<13, 16>>, <<-1, 2>>, <<-1, 2>>>>>>,
              <<"across the top face of the tall body", <<<<-1, 2>>, <<1, 4>>, <<7, 10>>>>>>,
              <<"across facing side faces of both bodies", <<<<3, 11>>, <<-1, 4>>, <<-1, 4>>>>>>,
              <<"between the bodies", <<<<5, 9>>, <<-1, 2>>, <<-1, 2>>>>>>,
              <<"enclosing both bodies", <<<<-9, 23>>, <<-11, 12>>, <<-13, 14>>>>>>}
FluxPairs == {NamedBox(Nm(sc[1].cls \o "+" \o sc[2].cls, "two bodies in one call", q[1]), sc, Id0, q[2]) : sc \in PairScenes, q \in PairCells}
\* two wires in one call: loops threading the first, the second, both
TwoWires == {<<Pol(SquareV(1), IdM, Zero3, 3), Pol(SquareV(1), IdM, <<0, 0, 2>>, -2)>>, <<Pol(SquareV(1), IdM, <<0, 0, 2>>, -2), Pol(SquareV(1), IdM, Zero3, 3)>>,
             <<Pol(SquareV(1), IdM, Zero3, 3), Pol(StepV(1), IdM, <<0, 0, 4>>, 1), Cir(1, IdM, <<0, 0, -2>>, 2)>>}
CircPairs == {Circ(Nm("Polyline+Polyline", "two wires in one call", "loop around one / both"), sc, Id0, RectLoop(2, 1, a[1], a[2], 1, 7)) : sc \in TwoWires, a \in {<<-1, 1>>, <<-1, 3>>, <<1, 3>>, <<-3, 5>>}}
\* wires given in site coordinates: local vertices = loop + a large offset O, position = -R O (the loop sits where it was); sides cut into short collinear segments
Shifted(v, O) == [i \in DOMAIN v |-> Add3(v[i], O)]
SitePol(v, O, R, I) == Pol(Shifted(v, O), R, Neg3(MulMV(R, O)), I)
SubSquareV(A) == <<<<2 * A, 2 * A, 0>>, <<A, 2 * A, 0>>, <<0, 2 * A, 0>>, <<-A, 2 * A, 0>>, <<-2 * A, 2 * A, 0>>, <<-2 * A, A, 0>>, <<-2 * A, 0, 0>>, <<-2 * A, -A, 0>>, <<-2 * A, -2 * A, 0>>,
                   <<-A, -2 * A, 0>>, <<0, -2 * A, 0>>, <<A, -2 * A, 0>>, <<2 * A, -2 * A, 0>>, <<2 * A, -A, 0>>, <<2 * A, 0, 0>>, <<2 * A, A, 0>>, <<2 * A, 2 * A, 0>>>>
SiteOffsets == {<<1000000, 1000000, 0>>, <<1000000, 0, 0>>, <<0, -400000, 300000>>}
SiteWires == {SitePol(SubSquareV(2), O, R, 3) : O \in SiteOffsets, R \in {IdM, Rz90}} \cup {SitePol(SquareV(2), O, IdM, -2) : O \in SiteOffsets}
CircSite == {Circ(Nm("Polyline", "site coordinates (vertices 1e6 units from the local origin), short collinear segments", q[1]), <<s>>, Id0, q[2]) : s \in SiteWires,
               q \in {<<"loop around the side y=+4", RectLoop(1, 1, 3, 7, -1, 1)>>, <<"loop around the side x=+4", RectLoop(2, 1, -1, 1, 3, 7)>>,
                      <<"loop around the side y=-4", RectLoop(1, -1, -7, -3, -1, 1)>>, <<"loop around the side x=-4", RectLoop(2, -1, -1, 1, -7, -3)>>,
                      <<"loop beside the wire", RectLoop(1, 1, 5, 9, -1, 1)>>}}
FluxSite == {NamedBox(Nm("Polyline", "site coordinates (vertices 1e6 units from the local origin), short collinear segments", q[1]), <<s>>, Id0, q[2]) : s \in SiteWires,
               q \in {<<"cell enclosing the wire", <<<<-9, 10>>, <<-9, 10>>, <<-5, 6>>>>>>, <<"cell beside one side", <<<<5, 9>>, <<-1, 3>>, <<1, 5>>>>>>}}
(* non-convex meshes: unions of lattice boxes (U- and L-shaped prisms, a box with a notch).  For a point inside one arm of the U a ray   *)
(* towards the other arm crosses the surface three times; the U is built with its arms separated along each of the three local axes, so   *)
(* that such points exist for all six axis directions (the ray used by the inside test is the implementation's business).                *)
UBoxes == <<<<-6, -6, -2>>, <<6, -2, 2>>, <<-6, -2, -2>>, <<-2, 6, 2>>, <<2, -2, -2>>, <<6, 6, 2>>>>          \* base + two arms, open towards +y
LBoxes == <<<<-6, -6, -2>>, <<6, -2, 2>>, <<-6, -2, -2>>, <<-2, 8, 2>>>>
NotchBoxes == <<<<-6, -6, -4>>, <<6, 2, 4>>, <<-6, 2, -4>>, <<-2, 8, 4>>, <<2, 2, -4>>, <<6, 8, 4>>>>        \* box with a shallow notch in its +y face
RotB(Q, lo, hi) == MoveBox(Q, Zero3, [lo |-> lo, hi |-> hi])
RotBoxes(Q, bs) == [i \in DOMAIN bs |-> IF i % 2 = 1 THEN RotB(Q, bs[i], bs[i + 1]).lo ELSE RotB(Q, bs[i - 1], bs[i]).hi]
UnionM(Q, bs, R, p, pol) == Src("TriangularMesh", R, p, <<>>, pol, RotBoxes(Q, bs))
UCells == {<<"inside the arm at -x", <<-5, 1, -1>>, <<-3, 4, 1>>>>, <<"inside the arm at +x", <<3, 1, -1>>, <<5, 4, 1>>>>, <<"inside the base", <<-1, -5, -1>>, <<1, -3, 1>>>>,
           <<"across the end face of the arm at -x", <<-5, 5, -1>>, <<-3, 8, 1>>>>, <<"across the end face of the arm at +x", <<3, 5, -1>>, <<5, 8, 1>>>>,
           <<"across the inner side face of the arm at -x", <<-3, 1, -1>>, <<-1, 4, 1>>>>, <<"across the inner side face of the arm at +x", <<1, 1, -1>>, <<3, 4, 1>>>>,
           <<"across the outer side face of the arm at +x", <<5, 1, -1>>, <<8, 4, 1>>>>, <<"across the top face of the arm at -x", <<-5, 1, 1>>, <<-3, 4, 3>>>>,
           <<"in the gap between the arms", <<-1, 1, -1>>, <<1, 4, 1>>>>, <<"across the bottom of the gap", <<-1, -3, -1>>, <<1, 1, 1>>>>,
           <<"gap and both inner faces", <<-3, 1, -1>>, <<3, 3, 1>>>>, <<"enclosing the body", <<-9, -8, -5>>, <<8, 9, 4>>>>}
UQs == {IdM, Rz90, Ry90}            \* arms separated along x, y, z
UPoses == {<<IdM, Zero3>>}
FluxNonConvex ==
  UNION {UNION {{Flux(Nm("TriangularMesh", "non-convex U prism", c[1]), <<UnionM(Q, UBoxes, g[1], g[2], P1)>>, CartChart(g[1], g[2]), RotB(Q, c[2], c[3]).lo, RotB(Q, c[2], c[3]).hi, FFF)
                  : c \in UCells} : Q \in UQs} : g \in UPoses}
  \cup {Flux(Nm("TriangularMesh", "non-convex L prism", c[1]), <<UnionM(IdM, LBoxes, IdM, Zero3, P2)>>, Id0, c[2], c[3], FFF)
          : c \in {q \in UCells : q[1] \in {"inside the arm at -x", "across the end face of the arm at -x", "across the inner side face of the arm at -x", "inside the base", "enclosing the body"}}}
  \cup {Flux(Nm("TriangularMesh", "box with a notch", c[1]), <<UnionM(Q, NotchBoxes, IdM, Zero3, P1)>>, Id0, RotB(Q, c[2], c[3]).lo, RotB(Q, c[2], c[3]).hi, FFF)
          : Q \in {IdM, Ry90}, c \in {<<"inside a lip", <<-5, 3, -1>>, <<-3, 6, 2>>>>, <<"inside the other lip", <<3, 3, -1>>, <<5, 6, 2>>>>, <<"in the notch", <<-1, 3, -1>>, <<1, 6, 2>>>>,
                                     <<"across the notch bottom", <<-1, 1, -1>>, <<1, 4, 2>>>>, <<"across a lip end", <<3, 6, -1>>, <<5, 9, 2>>>>}}
\* two wide plates (40 x 40 x 8) separated by a thin gap (4) and joined along one edge: whatever the direction of the ray used by an inside
\* test, a ray to a point near the middle of the farther plate passes through the nearer plate first (three crossings), and the whole
\* cell lies in that shadow (a cell cut by the oblique boundary of the shadow would only be unmeasurable)
ClampBoxes == <<<<-20, -20, 2>>, <<20, 20, 10>>, <<-20, -20, -10>>, <<20, 20, -2>>, <<-20, -28, -10>>, <<20, -20, 10>>>>
ClampCells == {<<"inside the plate at +z", <<-2, 1, 4>>, <<1, 4, 7>>>>, <<"inside the plate at -z", <<-2, 1, -7>>, <<1, 4, -4>>>>,
               <<"across the inner face of the plate at +z", <<-2, 1, 0>>, <<1, 4, 4>>>>, <<"across the inner face of the plate at -z", <<-2, 1, -4>>, <<1, 4, 0>>>>,
               <<"across the outer face of the plate at +z", <<-2, 1, 8>>, <<1, 4, 12>>>>, <<"across the outer face of the plate at -z", <<-2, 1, -12>>, <<1, 4, -8>>>>,
               <<"in the gap between the plates", <<-2, 1, -1>>, <<1, 4, 1>>>>, <<"gap and both inner faces", <<-2, 1, -4>>, <<1, 4, 4>>>>}
FluxClamp == UNION {{Flux(Nm("TriangularMesh", "non-convex clamp (two plates, thin gap)", c[1]), <<UnionM(Q, ClampBoxes, IdM, Zero3, P1)>>, Id0, RotB(Q, c[2], c[3]).lo, RotB(Q, c[2], c[3]).hi, FFF)
                       : c \in ClampCells} : Q \in {IdM, Rx90, Ry90}}
             \cup {Flux(Nm("TriangularMesh", "non-convex clamp (two plates, thin gap)", c[1]), <<UnionM(IdM, ClampBoxes, Rz90, <<1, -2, 3>>, P2)>>, CartChart(Rz90, <<1, -2, 3>>), c[2], c[3], FFF) : c \in ClampCells}
CircNonConvex == {Circ(Nm("TriangularMesh", "non-convex U prism", "loop through both arms and the gap"), <<UnionM(IdM, UBoxes, IdM, Zero3, P1)>>, Id0, e)
                    : e \in {RectLoop(3, 1, -7, 7, 1, 4), RectLoop(2, 3, -1, 3, -7, 7), RectLoop(1, -4, 1, 8, -1, 3)}}
MultiAndSite == FluxPairs \cup CircPairs \cup CircSite \cup FluxSite \cup FluxNonConvex \cup FluxClamp \cup CircNonConvex
Candidates == IF Prop = "C14" THEN C14Flux \cup C14CircChart \cup CartLk \cup CartBig \cup ThinCells \cup MultiAndSite ELSE C01Cells \cup C01Points \cup ThinCells \cup HarmPts \cup MultiAndSite
\* Conditioning of the measurement (not part of the premise; it only selects which instances are worth integrating with a
\* fixed-order rule): the cell is not a thin slab, and a cell that touches a body is not much larger than the body
\* (otherwise single quadrature pieces would span decades of the field's variation and the instance would be unmeasurable).
LinAxes(ch) == CASE ch.type = "cyl" -> {1, 3} [] ch.type = "sph" -> {1} [] OTHER -> {1, 2, 3}
BodyScale(s) ==
  CASE UnionMesh(s) -> SetMin(UNION {{UBox(s, i).hi[k] - UBox(s, i).lo[k] : k \in 1..3} : i \in 1..UCount(s)})
    [] s.cls \in {"Cuboid", "TriangularMesh"} -> SetMin({s.dim[1], s.dim[2], s.dim[3]})
    [] s.cls = "Cylinder" -> Min2(s.dim[1], s.dim[2])
    [] s.cls = "CylinderSegment" -> Min2(s.dim[2] - s.dim[1], s.dim[3])
    [] s.cls \in {"Sphere", "Circle"} -> s.dim[1]
    [] s.cls = "Dipole" -> 1
    [] OTHER -> LET b == LocalBox(s) IN SetMax({b.hi[k] - b.lo[k] : k \in 1..3})
\* surfaces of s parallel to the cell faces of axis k: coordinate surfaces if adapted, else the faces of its bounding box (cart cells)
ParSurf(s, ch, k) == IF s.cls \in Magnets /\ Adapted(s, ch) THEN Surf(s, ch)[k]
                     ELSE IF s.cls = "Circle" /\ Adapted(s, ch) THEN <<{s.dim[1] \div 2}, {}, {0}>>[k]
                     ELSE IF ch.type = "cart" THEN LET b == FrameBox(ch, SrcBox(s)) IN {b.lo[k], b.hi[k]} ELSE {}
Conditioned(i) ==
  i.law \in {"circ", "point"} \/
  LET ext == {i.hi[k] - i.lo[k] : k \in LinAxes(i.ch)} IN
  /\ SetMax(ext) <= 8 * SetMin(ext)
  /\ \A k \in DOMAIN i.scene : (~Away(i.scene[k], i.ch, i.lo, i.hi) /\ ~Enclosed(i.scene[k], i.ch, i.lo, i.hi, i.full)) => SetMax(ext) <= 4 * BodyScale(i.scene[k])
  \* no cell face hugs a parallel body surface (gap at least 1/16 of the smaller of cell and body)
  /\ \A j \in DOMAIN i.scene : Away(i.scene[j], i.ch, i.lo, i.hi) \/
        \A k \in LinAxes(i.ch) : \A v \in {i.lo[k], i.hi[k]} : \A x \in ParSurf(i.scene[j], i.ch, k) :
            16 * Abs(v - x) >= Min2(SetMax(ext), BodyMaxExt(i.scene[j]))
Base == {c \in Candidates : Premise(c) /\ Conditioned(c)}
Movable(i) == i.fam \in {"lk:polyline", "lk:circle", "lk:coll"}
Gens == {Rx90, Rz90}
Shifts == IF Thorough THEN {<<1, -2, 3>>, <<-4, 0, 1>>} ELSE {<<1, -2, 3>>}
Init == /\ inst \in Base
        /\ hist = [lk0 |-> Expected(inst), sgn |-> 1, nmv |-> 0, rot |-> FALSE, der0 |-> Derived(inst)]
        /\ der = Derived(inst)
Move(Q, t) == /\ Movable(inst)
              /\ inst' = [inst EXCEPT !.scene = MoveScene(Q, t, inst.scene), !.ch = MoveChart(Q, t, inst.ch)]
              /\ der' = Derived(inst')
MaxMoves == IF Thorough THEN 7 ELSE 1          \* 7 >= diameter of the rotation group in these generators + the shift
Next == \/ \E Q \in Gens : hist.nmv < MaxMoves /\ Move(Q, Zero3) /\ hist' = [hist EXCEPT !.nmv = @ + 1, !.rot = TRUE]
        \/ \E t \in Shifts : ~hist.rot /\ hist.nmv = 0 /\ Move(IdM, t) /\ hist' = [hist EXCEPT !.nmv = 1]
        \/ /\ inst.law = "circ" /\ hist.sgn = 1 /\ (Thorough \/ Movable(inst))
           /\ inst' = [inst EXCEPT !.edges = ReverseLoop(inst.edges)]
           /\ hist' = [hist EXCEPT !.sgn = -1]
           /\ der' = Derived(inst')
Spec == Init /\ [][Next]_vars
View == <<inst, hist.sgn, hist.lk0>>       \* the move counter is bookkeeping only

PremiseInv == Premise(inst)
LkInv == Expected(inst) = hist.sgn * hist.lk0
FarInv == inst.law = "circ" => \A k \in DOMAIN inst.scene : AwayLoop(inst.scene[k], inst.ch, inst.edges) => Lk(inst.scene[k], inst.ch, inst.edges) = 0
\* splitting an axis-parallel rectangle (cart chart, 4 edges) along its first side at any lattice value keeps the sum of the linking numbers
IsRect(i) == i.law = "circ" /\ i.ch.type = "cart" /\ Len(i.edges) = 4 /\ \A e \in 1..4 : Cardinality(VaryAxes(i.edges[e][1], i.edges[e][2])) = 1
SplitInv == IsRect(inst) /\ Movable(inst) /\ ~hist.rot =>
   LET a == inst.edges[1][1] b == inst.edges[1][2] c == inst.edges[3][1] d == inst.edges[3][2]
       k == CHOOSE k \in 1..3 : a[k] # b[k]
   IN \A m \in (Min2(a[k], b[k]) + 1)..(Max2(a[k], b[k]) - 1) :
        LET am == [a EXCEPT ![k] = m]
            dm == [d EXCEPT ![k] = m]
            left == PolyLoop(<<a, am, dm, d>>)
            right == PolyLoop(<<am, b, c, dm>>)
        IN (CircPremise(inst.scene, inst.ch, left) /\ CircPremise(inst.scene, inst.ch, right))
             => ExpCirc(inst.scene, inst.ch, left) + ExpCirc(inst.scene, inst.ch, right) = Expected(inst)
\* the derived data are attached to the chart: they do not change when loop, chart and scene move together
DerivedInv == hist.sgn = 1 => der = hist.der0
=============================================================================
