CONSTANTS
 Prop = "C01"
 Thorough = FALSE
SPECIFICATION Spec
VIEW View
INVARIANT PremiseInv
INVARIANT LkInv
INVARIANT FarInv
INVARIANT SplitInv
INVARIANT DerivedInv
CHECK_DEADLOCK FALSE
