CONSTANTS
 Prop = "C01"
 Thorough = TRUE
SPECIFICATION Spec
VIEW View
INVARIANT PremiseInv
INVARIANT LkInv
INVARIANT FarInv
INVARIANT SplitInv
INVARIANT DerivedInv
CHECK_DEADLOCK FALSE
