CONSTANTS
 Prop = "C14"
 Thorough = TRUE
SPECIFICATION Spec
VIEW View
INVARIANT PremiseInv
INVARIANT LkInv
INVARIANT FarInv
INVARIANT SplitInv
INVARIANT DerivedInv
CHECK_DEADLOCK FALSE
