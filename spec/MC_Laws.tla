------------------------------ MODULE MC_Laws ------------------------------
(* Model-checking wrapper for the law instances of C03 / C12 / C13.                                       *)
(* A behaviour starts in a base configuration of the palette and applies up to Depth actions of the      *)
(* palette of the selected mode (environment variable LAWS_MODE = C03 | C12 | C13).  A state is the       *)
(* triple (prev, last, cur) = one law instance (premise side): TLC checks in EVERY state that             *)
(*   - the configuration is well formed and every observer is strictly off every surface / cut plane,     *)
(*   - the exact, declarative premise of the law of `last` holds between prev and cur (Inv_Step),         *)
(*   - mode specific global facts hold relative to the base configuration: relative placement unchanged   *)
(*     and rotations in the group (C03), only the unit / excitation changed (C12), total volume           *)
(*     conserved (C13).                                                                                    *)
(* The distinct states (-dump) are the test plan that harness/drivers/laws.py instantiates as real        *)
(* magpylib objects; TV_Laws then judges every logged instance with the same Premise operator and the     *)
(* conclusion of the law.                                                                                  *)
EXTENDS Laws, TLC, IOUtils
CONSTANTS Tier            \* "quick" | "thorough"
VARIABLES base, prev, last, cur, n
vars == <<base, prev, last, cur, n>>

Mode == IF "LAWS_MODE" \in DOMAIN IOEnv THEN IOEnv.LAWS_MODE ELSE "C13"
Depth == IF Tier = "quick" THEN (IF Mode = "C13" THEN 3 ELSE 2) ELSE (IF Mode = "C13" THEN 4 ELSE 3)

\* ------------------------------------------------------------------ pose paths (positions even, units 1/den)
RxRz == MulMM(Rx90, Rz90)
RyRx == MulMM(Ry90, Rx90)
Path1 == <<Pose(<<2, -4, 6>>, R111)>>
Path2 == <<Pose(<<0, 0, 0>>, IdM), Pose(<<4, -2, 6>>, Rz90)>>
Path3 == <<Pose(<<-2, 4, 2>>, Rx90), Pose(<<2, 4, -2>>, RxRz), Pose(<<4, 0, 2>>, R111)>>
Path4 == <<Pose(<<2, 2, -4>>, Ry90), Pose(<<-2, 2, 0>>, RyRx), Pose(<<0, -4, 2>>, Tr(R111)), Pose(<<2, 0, 4>>, MulMM(Rz90, Rz90))>>
SPath(L) == CASE L = 1 -> <<Pose(<<-6, 2, 4>>, RyRx)>>
              [] L = 2 -> <<Pose(<<-6, 2, 4>>, RyRx), Pose(<<-4, 6, 2>>, Rx90)>>
              [] L = 3 -> <<Pose(<<-6, 2, 4>>, RyRx), Pose(<<-4, 6, 2>>, Rx90), Pose(<<-6, 4, -2>>, Tr(R111))>>
              [] L = 4 -> <<Pose(<<-6, 2, 4>>, RyRx), Pose(<<-4, 6, 2>>, Rx90), Pose(<<-6, 4, -2>>, Tr(R111)), Pose(<<-8, 2, 2>>, Rz90)>>
ScalePath(path, f) == [i \in 1..Len(path) |-> Pose(Scale3(f, path[i].p), path[i].r)]
\* an observer given in the local frame of a pose
ObsAt(ps, x, lab) == Obs(Add3(ps.p, MulMV(ps.r, x)), lab)

\* ------------------------------------------------------------------ C03 palette (den = 4): asymmetric sources, paths, generic observers
TetV(f) == <<<<0, 0, 0>>, <<8 * f, 0, 0>>, <<0, 12 * f, 0>>, <<4 * f, 4 * f, 8 * f>>>>
TetMeshV(f) == <<<<-4 * f, -4 * f, -4 * f>>, <<8 * f, -2 * f, -4 * f>>, <<-2 * f, 8 * f, -4 * f>>, <<0, 0, 8 * f>>>>
TetMeshF == <<<<1, 2, 3>>, <<1, 2, 4>>, <<1, 3, 4>>, <<2, 3, 4>>>>           \* windings as they come: the class reorients them
TriV(f) == <<<<0, 0, 0>>, <<8 * f, 0, 4 * f>>, <<0, 12 * f, 0>>>>
LineV(f) == <<<<0, 0, 0>>, <<8 * f, 0, 0>>, <<8 * f, 12 * f, 0>>, <<4 * f, 12 * f, 8 * f>>>>
MeshSrc(geo, exc, path) == [Src("TriangularMesh", geo, exc, path) EXCEPT !.rep = "ctor"]
C03Src(c) ==
  CASE c = "Cuboid" -> Src(c, <<4, 8, 12>>, <<1, 2, 3>>, Path3)
    [] c = "Cylinder" -> Src(c, <<8, 12>>, <<1, 2, 3>>, Path1)
    [] c = "CylinderSegment" -> Src(c, <<4, 8, 12, 2, 9>>, <<1, 2, 3>>, Path4)
    [] c = "Sphere" -> Src(c, <<8>>, <<1, 2, 3>>, Path3)
    [] c = "Tetrahedron" -> Src(c, TetV(1), <<1, 2, 3>>, Path4)
    [] c = "TriangularMesh" -> MeshSrc(<<TetMeshV(1), TetMeshF>>, <<1, 2, 3>>, Path3)
    [] c = "Triangle" -> Src(c, TriV(1), <<1, 2, 3>>, Path1)
    [] c = "Circle" -> Src(c, <<8>>, <<2>>, Path4)
    [] c = "Polyline" -> Src(c, LineV(1), <<3>>, Path3)
    [] c = "Dipole" -> Src(c, <<>>, <<1, 2, 3>>, Path4)
    [] c = "Custom" -> Src(c, <<>>, <<1, 2, 3>>, Path3)
C03Pts == <<Obs(<<7, 3, -5>>, "gen"), Obs(<<-9, 5, 11>>, "gen"), Obs(<<1, -7, 3>>, "gen"), Obs(<<13, 9, -11>>, "gen"), Obs(<<801, -603, 1005>>, "far")>>
C03Pix == <<Obs(<<1, 3, -5>>, "gen"), Obs(<<-7, 5, 3>>, "gen"), Obs(<<9, -3, 7>>, "gen"), Obs(<<801, -603, 1005>>, "far")>>
C03Classes == {"Cuboid", "Cylinder", "CylinderSegment", "Sphere", "Tetrahedron", "TriangularMesh", "Triangle", "Circle", "Polyline", "Dipole", "Custom"}
C03Base(c, mode) == LET s == C03Src(c) IN
  IF mode = "pts" THEN Cfg(4, <<s>>, C03Pts, NoSensor)
  ELSE Cfg(4, <<s>>, C03Pix, [on |-> TRUE, path |-> SPath(IF Len(s.path) = 1 THEN 3 ELSE Len(s.path))])
\* paths of UNEQUAL lengths in one call (a shorter path stays at its last pose): sources of 2 and 3 steps with changing orientation
\* next to a source of 5 steps, read at points or through a sensor of 5 steps
Path5 == <<Pose(<<-10, -8, 6>>, Rz90), Pose(<<-10, -6, 8>>, Rx90), Pose(<<-8, -8, 8>>, RyRx), Pose(<<-10, -10, 10>>, IdM), Pose(<<-8, -6, 10>>, Tr(R111))>>
Path2b == <<Pose(<<8, 8, 6>>, Ry90), Pose(<<10, 6, 8>>, RxRz)>>
UnequalSrcs == <<Src("Cuboid", <<4, 8, 12>>, <<1, 2, 3>>, Path3), Src("Circle", <<8>>, <<2>>, Path2b), Src("Sphere", <<4>>, <<3, -1, 2>>, Path5)>>
C03Unequal(mode) == IF mode = "pts" THEN Cfg(4, UnequalSrcs, C03Pts, NoSensor)
                    ELSE Cfg(4, SubSeq(UnequalSrcs, 1, 2), C03Pix, [on |-> TRUE, path |-> Path5])
\* bases that are ALSO concretized by their small-angle image (fine steps within a path and between the sources of one group); the
\* first source starts unrotated: in the canonical frame its first quaternion has a zero vector part
FPath3 == <<Pose(<<2, -4, 6>>, IdM), Pose(<<4, -2, 6>>, Rx90), Pose(<<2, -2, 8>>, RxRz)>>
FPath4 == <<Pose(<<2, -4, 6>>, IdM), Pose(<<4, -2, 6>>, Rz90), Pose(<<2, -2, 8>>, RyRx), Pose(<<4, -4, 8>>, R111)>>
FineSrc(c) == CASE c = "FineCuboid" -> <<Src("Cuboid", <<4, 8, 12>>, <<1, 2, 3>>, FPath3)>>
                [] c = "FineCircle" -> <<Src("Circle", <<8>>, <<2>>, FPath4)>>
                [] c = "FineTetra" -> <<Src("Tetrahedron", TetV(1), <<1, 2, 3>>, FPath3)>>
                \* one group: two cuboids tilted against each other, the second one with a short path
                [] c = "FineGroup" -> <<Src("Cuboid", <<4, 8, 12>>, <<1, 2, 3>>, <<Pose(<<2, -4, 6>>, IdM)>>),
                                        Src("Cuboid", <<8, 4, 4>>, <<2, -1, 3>>, <<Pose(<<-12, 10, -8>>, Rz90), Pose(<<-10, 10, -8>>, RyRx)>>)>>
FineIds == {"FineCuboid", "FineCircle", "FineTetra", "FineGroup"}
FinePts == <<Obs(<<9, 3, -5>>, "gen"), Obs(<<-7, 5, 11>>, "gen"), Obs(<<3, -5, 7>>, "gen"), Obs(<<801, -603, 1005>>, "far")>>
C03Fine(c, mode) == IF mode = "pts" THEN Cfg(4, FineSrc(c), FinePts, NoSensor)
                    ELSE Cfg(4, FineSrc(c), C03Pix, [on |-> TRUE, path |-> SPath(4) \o <<Pose(<<-8, 4, 2>>, IdM)>>])
\* a static scene of three sources (and a static sensor): also moved through the setters of a Collection
StaticSrcs == <<Src("Cuboid", <<4, 8, 12>>, <<1, 2, 3>>, <<Pose(<<2, -4, 6>>, Rx90)>>), Src("Circle", <<8>>, <<2>>, <<Pose(<<-12, 10, -8>>, RxRz)>>),
                Src("Tetrahedron", TetV(1), <<3, -1, 2>>, <<Pose(<<-10, -12, 4>>, Tr(R111))>>)>>
C03Static(mode) == IF mode = "pts" THEN Cfg(4, StaticSrcs, FinePts, NoSensor)
                   ELSE Cfg(4, StaticSrcs, C03Pix, [on |-> TRUE, path |-> SPath(1)])
\* two sources of different kinds with paths of different length in one scene
C03Pair == Cfg(4, <<Src("Cuboid", <<4, 8, 12>>, <<1, 2, 3>>, Path3), Src("Circle", <<8>>, <<2>>, <<Pose(<<-8, 6, -10>>, RxRz)>>)>>, C03Pts, NoSensor)

\* ------------------------------------------------------------------ C12 palette (den = 16): one source, observer classes
P12 == Pose(<<32, -48, 16>>, RxRz)
Far12 == <<1921, -963, 2885>>
BoxV(dim) == Corners(dim)
FlippedBoxFaces == [i \in 1..12 |-> IF i \in {2, 5, 11} THEN <<BoxFaces[i][1], BoxFaces[i][3], BoxFaces[i][2]>> ELSE BoxFaces[i]]
TwoBoxV == Corners(<<16, 16, 16>>) \o [i \in 1..8 |-> Add3(Corners(<<16, 16, 16>>)[i], <<48, 0, 0>>)]
TwoBoxF == BoxFaces \o [i \in 1..12 |-> <<BoxFaces[i][1] + 8, BoxFaces[i][2] + 8, BoxFaces[i][3] + 8>>]
OpenBoxF == SubSeq(FlippedBoxFaces, 1, 11)
BoxObs == <<<<1, 3, -5>>, <<7, 3, -5>>, <<9, 3, -5>>, <<9, 17, -5>>>>
BoxMesh12 == MeshSrc(<<BoxV(<<16, 32, 48>>), BoxFaces>>, <<1, 2, 3>>, <<P12>>)
P12B == Pose(Add3(P12.p, MulMV(P12.r, <<48, 0, 0>>)), P12.r)          \* a second body next to the first one
\* inside the first only, inside the second only (each at local coordinates that are OUTSIDE the shape of the other body: a mix-up
\* of the bodies in a joint evaluation cannot go unnoticed), between them
PairObs == <<<<1, 11, -5>>, <<59, 3, -5>>, <<21, 3, -5>>>>
C12Defs == [
  Cuboid |-> [s |-> Src("Cuboid", <<16, 32, 48>>, <<1, 2, 3>>, <<P12>>), o |-> BoxObs, l |-> <<"deep_in", "face_in", "face_out", "edge">>],
  Cylinder |-> [s |-> Src("Cylinder", <<32, 48>>, <<1, 2, 3>>, <<P12>>), o |-> <<<<1, 3, -5>>, <<15, 1, 3>>, <<17, 1, 3>>, <<17, 1, 25>>>>, l |-> <<"deep_in", "face_in", "face_out", "edge">>],
  CylinderSegment |-> [s |-> Src("CylinderSegment", <<16, 32, 48, 2, 9>>, <<1, 2, 3>>, <<P12>>), o |-> <<<<5, 23, 3>>, <<5, 31, 3>>, <<5, 33, 3>>, <<27, 15, 25>>>>, l |-> <<"deep_in", "face_in", "face_out", "edge">>],
  Sphere |-> [s |-> Src("Sphere", <<32>>, <<1, 2, 3>>, <<P12>>), o |-> <<<<1, 3, -5>>, <<15, 3, 1>>, <<15, 5, 3>>, <<17, 9, -5>>>>, l |-> <<"deep_in", "face_in", "face_out", "out">>],
  Tetrahedron |-> [s |-> Src("Tetrahedron", TetV(4), <<1, 2, 3>>, <<P12>>), o |-> <<<<11, 15, 7>>, <<9, 13, 1>>, <<9, 13, -1>>, <<15, -1, -1>>, <<64, 1, -1>>, <<132, 1, 1>>>>, l |-> <<"deep_in", "face_in", "face_out", "edge", "edge_ext", "edge_ext">>],
  TriangularMesh |-> [s |-> MeshSrc(<<BoxV(<<16, 32, 48>>), BoxFaces>>, <<1, 2, 3>>, <<P12>>), o |-> BoxObs \o <<<<136, 17, 25>>>>, l |-> <<"deep_in", "face_in", "face_out", "edge", "edge_ext">>],
  MeshFlipped |-> [s |-> MeshSrc(<<BoxV(<<16, 32, 48>>), FlippedBoxFaces>>, <<1, 2, 3>>, <<P12>>), o |-> BoxObs, l |-> <<"deep_in", "face_in", "face_out", "edge">>],
  MeshTetra |-> [s |-> MeshSrc(<<TetMeshV(4), TetMeshF>>, <<1, 2, 3>>, <<P12>>), o |-> <<<<1, 3, 1>>, <<1, 3, -15>>, <<1, 3, -17>>, <<35, -9, -17>>, <<129, -7, -17>>>>, l |-> <<"deep_in", "face_in", "face_out", "edge", "edge_ext">>],
  MeshTwoParts |-> [s |-> MeshSrc(<<TwoBoxV, TwoBoxF>>, <<1, 2, 3>>, <<P12>>), o |-> <<<<-11, 3, 5>>, <<25, 3, -11>>>>, l |-> <<"out", "out">>],
  MeshOpen |-> [s |-> MeshSrc(<<BoxV(<<16, 32, 48>>), OpenBoxF>>, <<1, 2, 3>>, <<P12>>), o |-> <<<<25, 3, 5>>>>, l |-> <<"out">>],
  Triangle |-> [s |-> Src("Triangle", TriV(4), <<1, 2, 3>>, <<P12>>), o |-> <<<<11, 15, 5>>, <<5, -7, 13>>, <<-1, 21, 1>>, <<1, -64, 1>>>>, l |-> <<"close", "gen", "close", "edge_ext">>],
  Circle |-> [s |-> Src("Circle", <<32>>, <<2>>, <<P12>>), o |-> <<<<15, 5, 1>>, <<3, 5, 7>>, <<21, -9, 5>>>>, l |-> <<"close", "gen", "gen">>],
  Polyline |-> [s |-> Src("Polyline", LineV(4), <<3>>, <<P12>>), o |-> <<<<15, 1, 1>>, <<5, -7, 13>>, <<33, 21, -1>>>>, l |-> <<"close", "gen", "close">>],
  Dipole |-> [s |-> Src("Dipole", <<>>, <<1, 2, 3>>, <<P12>>), o |-> <<<<1, 1, -1>>, <<3, 5, 7>>, <<161, -75, 33>>>>, l |-> <<"close", "gen", "gen">>],
  \* the same box through the other constructors of the class (every decade, also lattice units that are not round numbers of metres)
  MeshFromTriangles |-> [s |-> [BoxMesh12 EXCEPT !.rep = "from_triangles"], o |-> BoxObs \o <<<<136, 17, 25>>>>, l |-> <<"deep_in", "face_in", "face_out", "edge", "edge_ext">>],
  MeshFromMesh |-> [s |-> [BoxMesh12 EXCEPT !.rep = "from_mesh"], o |-> BoxObs, l |-> <<"deep_in", "face_in", "face_out", "edge">>],
  MeshHull |-> [s |-> [BoxMesh12 EXCEPT !.rep = "from_ConvexHull", !.geo = <<BoxV(<<16, 32, 48>>), <<>>>>], o |-> BoxObs, l |-> <<"deep_in", "face_in", "face_out", "edge">>],
  TriColl |-> [s |-> [BoxMesh12 EXCEPT !.cls = "TriangleCollection", !.rep = "to_TriangleCollection"], o |-> BoxObs, l |-> <<"gen", "close", "close", "gen">>],
  \* several magnets in ONE field call: two different meshes with the same number of faces, a mesh next to a cuboid; observers
  \* strictly inside exactly one of the bodies
  MeshPair |-> [s |-> <<BoxMesh12, [MeshSrc(<<BoxV(<<32, 16, 48>>), BoxFaces>>, <<2, -1, 3>>, <<P12B>>) EXCEPT !.rep = "ctor"]>>, o |-> PairObs, l |-> <<"in_one", "in_one", "out">>],
  MeshCuboid |-> [s |-> <<BoxMesh12, Src("Cuboid", <<32, 16, 48>>, <<2, -1, 3>>, <<P12B>>)>>, o |-> PairObs, l |-> <<"in_one", "in_one", "out">>],
  CuboidMesh |-> [s |-> <<Src("Cuboid", <<16, 32, 48>>, <<1, 2, 3>>, <<P12>>), [MeshSrc(<<BoxV(<<32, 16, 48>>), FlippedBoxFaces>>, <<2, -1, 3>>, <<P12B>>) EXCEPT !.rep = "from_mesh"]>>, o |-> PairObs, l |-> <<"in_one", "in_one", "out">>]]
C12Ids == DOMAIN C12Defs
C12Multi == {"MeshPair", "MeshCuboid", "CuboidMesh"}
C12Base(id) == LET d == C12Defs[id]
                   far == IF id \in {"Dipole", "MeshTwoParts", "MeshOpen"} THEN <<>> ELSE <<ObsAt(P12, Far12, "far")>>
               IN Cfg(16, IF id \in C12Multi THEN d.s ELSE <<d.s>>, [j \in 1..Len(d.o) |-> ObsAt(P12, d.o[j], d.l[j])] \o far, NoSensor)

\* ------------------------------------------------------------------ C13 palette (den = 4)
P13 == Pose(<<2, -4, 6>>, RxRz)
Far13 == <<401, -303, 605>>
BoxObs13 == <<ObsAt(P13, <<1, -3, 5>>, "deep_in"), ObsAt(P13, <<1, -1, 1>>, "face_in"), ObsAt(P13, <<3, 1, -3>>, "face_out"),
              ObsAt(P13, <<3, 5, -3>>, "edge"), ObsAt(P13, <<-7, 9, 5>>, "out"), ObsAt(P13, Far13, "far")>>
CylObs13 == <<ObsAt(P13, <<1, 3, 1>>, "deep_in"), ObsAt(P13, <<-3, -1, -3>>, "face_in"), ObsAt(P13, <<3, -5, 1>>, "face_out"),
              ObsAt(P13, <<5, 1, 5>>, "edge"), ObsAt(P13, <<-7, 9, 5>>, "out"), ObsAt(P13, Far13, "far")>>
SegObs13 == <<ObsAt(P13, <<-3, 1, 1>>, "deep_in"), ObsAt(P13, <<1, 5, -3>>, "face_in"), ObsAt(P13, <<3, -1, 1>>, "face_out"),
              ObsAt(P13, <<-5, -3, 1>>, "gen"), ObsAt(P13, <<-7, 9, 5>>, "out"), ObsAt(P13, Far13, "far")>>
SegTurnObs13 == <<ObsAt(P13, <<3, 1, 1>>, "deep_in"), ObsAt(P13, <<5, -1, -3>>, "face_in"), ObsAt(P13, <<7, 1, 1>>, "face_out"),
                  ObsAt(P13, <<-3, -5, 1>>, "gen"), ObsAt(P13, <<-7, 9, 5>>, "out"), ObsAt(P13, Far13, "far")>>
OutObs13 == <<ObsAt(P13, <<5, 3, 1>>, "face_out"), ObsAt(P13, <<-3, 5, -7>>, "out"), ObsAt(P13, <<9, -11, 5>>, "out"), ObsAt(P13, Far13, "far")>>
LoopObs13 == <<ObsAt(P13, <<1, 3, 1>>, "gen"), ObsAt(P13, <<5, -3, 3>>, "gen"), ObsAt(P13, <<-7, 9, 5>>, "gen"), ObsAt(P13, <<3, 1, -13>>, "gen")>>
\* observers for the moving cuboid: global points that stay off every plane of the body frames along Path3
PathObs13 == <<Obs(<<-1, 5, 3>>, "gen"), Obs(<<3, 3, -1>>, "gen"), Obs(<<9, -5, 7>>, "gen"), Obs(Far13, "far")>>
\* an unrotated pose: with the exact gauge of the harness (no global rotation) an observer ON a half plane is seen there by the implementation too
PHalf == Pose(<<2, -4, 6>>, IdM)
C13Defs == [
  Cuboid |-> Cfg(4, <<Src("Cuboid", <<4, 8, 12>>, <<1, 2, 3>>, <<P13>>)>>, BoxObs13, NoSensor),
  CuboidPath |-> Cfg(4, <<Src("Cuboid", <<4, 8, 12>>, <<3, -1, 2>>, Path3)>>, PathObs13, NoSensor),
  Cylinder |-> Cfg(4, <<Src("Cylinder", <<8, 8>>, <<1, 2, 3>>, <<P13>>)>>, CylObs13, NoSensor),
  \* observers inside and outside a Cylinder ON the half planes phi = 0, 90, 180 degrees through its axis: no surface of
  \* the body, but where a representation by a section (FullSeg: 0..360 degrees) has its section angle
  CylinderHalfPlanes |-> Cfg(4, <<Src("Cylinder", <<8, 8>>, <<1, 2, 3>>, <<PHalf>>)>>,
        <<ObsAt(PHalf, <<2, 0, 1>>, "deep_in"), ObsAt(PHalf, <<-3, 0, -1>>, "deep_in"), ObsAt(PHalf, <<0, 2, 3>>, "deep_in"), ObsAt(PHalf, <<1, 0, -3>>, "deep_in"),
          ObsAt(PHalf, <<6, 0, 1>>, "out"), ObsAt(PHalf, <<0, -7, 5>>, "out")>>, NoSensor),
  Segment |-> Cfg(4, <<Src("CylinderSegment", <<2, 6, 8, 2, 14>>, <<1, 2, 3>>, <<P13>>)>>, SegObs13, NoSensor),
  \* section angles beyond and straddling -360 / +360 degrees (valid input): -450..-270 and 270..450 degrees are the half ring x > 0
  SegmentTurnsNeg |-> Cfg(4, <<Src("CylinderSegment", <<2, 6, 8, -30, -18>>, <<1, 2, 3>>, <<P13>>)>>, SegTurnObs13, NoSensor),
  SegmentTurnsPos |-> Cfg(4, <<Src("CylinderSegment", <<2, 6, 8, 18, 30>>, <<3, -1, 2>>, <<P13>>)>>, SegTurnObs13, NoSensor),
  Sphere |-> Cfg(4, <<Src("Sphere", <<8>>, <<1, 2, 3>>, <<P13>>)>>, OutObs13, NoSensor),
  Circle |-> Cfg(4, <<Src("Circle", <<8>>, <<2>>, <<P13>>)>>, LoopObs13, NoSensor),
  Mesh |-> Cfg(4, <<MeshSrc(<<BoxV(<<4, 8, 12>>), BoxFaces>>, <<1, 2, 3>>, <<P13>>)>>, BoxObs13, NoSensor)]
C13Ids == DOMAIN C13Defs
\* observers exactly ON the straight extensions of all 12 edges (three directions) and on the extensions of face planes of the
\* cuboid <<4, 8, 12>>, outside the body: no cut plane, no surface - every representation and partition must agree there too
ExtLocal == <<<<2, 4, 9>>, <<-2, 4, -11>>, <<2, -4, -9>>, <<-2, -4, 13>>,  <<2, 7, 6>>, <<-2, -9, 6>>, <<2, -7, -6>>, <<-2, 11, -6>>,
              <<5, 4, 6>>, <<-7, 4, -6>>, <<5, -4, -6>>, <<-5, -4, 6>>,  <<2, 7, 9>>, <<-5, 4, -9>>, <<5, -7, 6>>>>
ExtObs(P) == [j \in 1..15 |-> ObsAt(P, ExtLocal[j], IF j <= 12 THEN "ext_edge" ELSE "ext_face")]
PExtA == Pose(<<2, -4, 6>>, IdM)
PExtB == Pose(<<-4, 2, 6>>, Rz90)
C13Ext == [CuboidExtA |-> Cfg(4, <<Src("Cuboid", <<4, 8, 12>>, <<1, 2, 3>>, <<PExtA>>)>>, ExtObs(PExtA), NoSensor),
           CuboidExtB |-> Cfg(4, <<Src("Cuboid", <<4, 8, 12>>, <<3, -1, 2>>, <<PExtB>>)>>, ExtObs(PExtB), NoSensor)]
\* THIN bodies (aspect 1:1000 along each axis, one of 1:5000): plates cut in halves, slabs, two diagonal prisms, mesh / hull / sheets;
\* observers at distances comparable to the large extent
Cyc(k, v) == [j \in 1..3 |-> v[(((j - 1) + (3 - k)) % 3) + 1]]            \* the point whose third coordinate becomes coordinate k
ThinLocal == <<<<901, 301, 201>>, <<101, 201, 301>>, <<-401, 1201, 701>>, <<201, -101, -41>>>>
ThinObs(k, f) == [j \in 1..4 |-> ObsAt(P13, Cyc(k, Scale3(f, ThinLocal[j])), "gen")]
C13Thin == [ThinZ |-> Cfg(4, <<Src("Cuboid", Cyc(3, <<2000, 1600, 2>>), <<1, 2, 3>>, <<P13>>)>>, ThinObs(3, 1), NoSensor),
            ThinX |-> Cfg(4, <<Src("Cuboid", Cyc(1, <<2000, 1600, 2>>), <<1, 2, 3>>, <<P13>>)>>, ThinObs(1, 1), NoSensor),
            ThinY |-> Cfg(4, <<Src("Cuboid", Cyc(2, <<2000, 1600, 2>>), <<3, -1, 2>>, <<P13>>)>>, ThinObs(2, 1), NoSensor),
            Thin5Z |-> Cfg(4, <<Src("Cuboid", <<10000, 8000, 2>>, <<1, 2, 3>>, <<P13>>)>>, ThinObs(3, 5), NoSensor)]

BaseIds == CASE Mode = "C03" -> {<<c, m>> : c \in C03Classes \cup FineIds \cup {"Unequal", "Static"}, m \in {"pts", "sens"}} \cup {<<"Pair", "pts">>}
             [] Mode = "C12" -> {<<id, "pts">> : id \in C12Ids}
             [] Mode = "C13" -> {<<id, "pts">> : id \in C13Ids} \cup {<<id, "ext">> : id \in DOMAIN C13Ext} \cup {<<id, "thin">> : id \in DOMAIN C13Thin}
BaseCfg(b) == CASE Mode = "C03" -> (IF b[1] = "Pair" THEN C03Pair ELSE IF b[1] = "Unequal" THEN C03Unequal(b[2]) ELSE IF b[1] = "Static" THEN C03Static(b[2])
                                    ELSE IF b[1] \in FineIds THEN C03Fine(b[1], b[2]) ELSE C03Base(b[1], b[2]))
                [] Mode = "C12" -> C12Base(b[1])
                [] Mode = "C13" -> (IF b[2] = "ext" THEN C13Ext[b[1]] ELSE IF b[2] = "thin" THEN C13Thin[b[1]] ELSE C13Defs[b[1]])

\* ------------------------------------------------------------------ action palettes
T1 == IF Tier = "quick" THEN {<<4, -8, 12>>} ELSE {<<0, 0, 0>>, <<4, -8, 12>>, <<-6, 2, 0>>}
T2 == {<<-2, 6, 4>>}
Gens == IF Tier = "quick" THEN {Rz90, R111} ELSE {Rx90, Rz90, R111}
\* a second REALISATION of the same abstract step: the configuration is built in its first frame, wrapped into a Collection (flat, or
\* nested two levels deep with the inner collections at other positions) and moved through the collection: rotate with anchor=None
\* ("flat_rot", "nest_rot"), rotate about the explicit anchor 0 ("nest_rot0"), position / orientation setters ("nest_set"), + move
Vias == {"flat_rot", "nest_rot", "nest_rot0", "nest_set"}
ViaRots == IF Tier = "quick" THEN {Rz90, R111} ELSE {Rx90, Rz90, R111, Tr(R111), MulMM(Rz90, Rz90)}
MoveActs(d) == IF d = 0 THEN {[name |-> "RigidMove", g |-> g, t |-> t] : g \in Rots, t \in T1}
                             \cup {[name |-> "RigidMove", g |-> g, t |-> <<4, -8, 12>>, via |-> v] : g \in ViaRots, v \in Vias}
               ELSE {[name |-> "RigidMove", g |-> g, t |-> t] : g \in Gens, t \in T2}
KSet == IF Tier = "quick" THEN {-9, -6, -4, -2, 2, 5, 9} ELSE (-9..9) \ {0}
K2Set == IF Tier = "quick" THEN {-9, 9} ELSE {-9, -6, -3, 3, 9}
ESet == IF Tier = "quick" THEN {<<-12, 1>>, <<-6, -1>>, <<0, -1>>, <<6, 1>>, <<12, -1>>}
        ELSE {<<a, m>> : a \in {-12, -9, -6, -3, 0, 3, 6, 9, 12}, m \in {1, -1}} \ {<<0, 1>>}
E2Set == {<<-12, -1>>, <<12, 1>>}
UnitActs(d, lst) ==
  IF d = 0 THEN {[name |-> "Rescale", k |-> k] : k \in KSet} \cup {[name |-> "ScaleExc", a |-> e[1], m |-> e[2]] : e \in ESet}
  ELSE IF lst.name = "Rescale" THEN {[name |-> "ScaleExc", a |-> e[1], m |-> e[2]] : e \in E2Set}
  ELSE {[name |-> "Rescale", k |-> k] : k \in K2Set}
\* quick: whole lattice planes (den = 4); thorough: half-lattice planes too for the first cut
CutSet(d) == {c \in 1..12 : c % (IF Tier = "thorough" /\ d = 0 THEN 2 ELSE 4) = 0}
RCuts == {2, 4}
PhiCuts(d) == IF Tier = "thorough" /\ d <= 1 THEN {4, 6, 8, 9, 12, 15, 16, 20} ELSE {8, 12, 15}
MaxSrcs == IF Tier = "quick" THEN 3 ELSE 4
ThinBox(s) == s.cls = "Cuboid" /\ MaxS({s.geo[1], s.geo[2], s.geo[3]}) >= 100 * MinS({s.geo[1], s.geo[2], s.geo[3]})
Histories == {<<"reorient">>, <<"use", "reorient">>, <<"mesh", "reorient">>, <<"tricoll", "reorient", "use">>, <<"check", "use", "reorient">>}
             \cup (IF Tier = "quick" THEN {} ELSE {<<"reorient", "use", "reorient">>, <<"check", "reorient">>, <<"use", "mesh", "tricoll", "reorient">>})
LiveOps == IF Tier = "quick" THEN {"use", "reorient", "check"} ELSE {"use", "mesh", "tricoll", "check", "reorient"}
ReprActs(cfg, d) ==
  LET I == 1..Len(cfg.srcs) IN
       (IF Len(cfg.srcs) < MaxSrcs
        THEN {[name |-> "Split", i |-> i, axis |-> a, cut |-> c] : i \in {i \in I : ~ThinBox(cfg.srcs[i])}, a \in 1..3, c \in CutSet(d)}
             \* thin plates: halves and a slab of one lattice unit
             \cup {[name |-> "Split", i |-> i, axis |-> a, cut |-> c] : i \in {i \in I : ThinBox(cfg.srcs[i])}, a \in 1..3, c \in {4}}
             \cup {[name |-> "Split", i |-> i, axis |-> a, cut |-> cfg.srcs[i].geo[a] \div 2] : i \in {i \in I : ThinBox(cfg.srcs[i])}, a \in 1..3}
             \cup {[name |-> "SplitSeg", i |-> i, kind |-> "r", cut |-> c] : i \in I, c \in RCuts}
             \cup {[name |-> "SplitSeg", i |-> i, kind |-> "phi", cut |-> c] : i \in I, c \in PhiCuts(d)}
             \cup {[name |-> "SplitSeg", i |-> i, kind |-> "z", cut |-> c] : i \in I, c \in CutSet(d)}
        ELSE {})
  \cup (IF Len(cfg.srcs) <= MaxSrcs THEN {[name |-> "Convert", i |-> i, rep |-> r] : i \in I, r \in Reps} ELSE {})
  \* the mesh built un-normalised, used, normalised later (whole bodies and first-generation parts)
  \cup (IF d <= 1 /\ Len(cfg.srcs) <= MaxSrcs THEN {[name |-> "Convert", i |-> i, rep |-> "MeshLate", ops |-> h] : i \in I, h \in Histories} ELSE {})
  \* something is done to the live object of a mesh that stands alone
  \cup (IF Len(cfg.srcs) = 1 THEN {[name |-> "Op", i |-> 1, op |-> o] : o \in LiveOps} ELSE {})
  \cup {[name |-> "Merge", i |-> i] : i \in I}
\* the same abstract configuration under another generic global rotation: base configurations and a few moved ones
Regauge(d, lst) == IF d = 0 \/ (d = 1 /\ M3(lst.g) \in Gens) THEN {[name |-> "Reconcretize"]} ELSE {}
\* the static placements of a configuration with paths: base configurations and a few moved ones
Placements(cfg, d, lst) == IF PathLen(cfg) > 1 /\ (d = 0 \/ (d = 1 /\ M3(lst.g) \in Gens)) THEN {[name |-> "Freeze", m |-> m] : m \in 1..PathLen(cfg)} ELSE {}
Acts(cfg, d, lst) == CASE Mode = "C03" -> MoveActs(d) \cup Regauge(d, lst) \cup Placements(cfg, d, lst)
                       [] Mode = "C12" -> UnitActs(d, lst)
                       [] Mode = "C13" -> ReprActs(cfg, d)

Init == \E b \in BaseIds : base = b /\ cur = BaseCfg(b) /\ prev = BaseCfg(b) /\ last = [name |-> "Init"] /\ n = 0
Next == /\ n < Depth /\ last.name \notin {"Reconcretize", "Freeze"} /\ "via" \notin DOMAIN last
        /\ (base[2] \in {"ext", "thin"} => n < 2)
        /\ \E act \in Acts(cur, n, last) :
              /\ EnabledAct(cur, act)
              /\ (act.name = "Merge" /\ last.name = "Split" => act.i # last.i)      \* do not just undo the previous step
              \* the position / orientation setters of a Collection are a rigid motion of members WITHOUT own paths (what they do to
              \* longer member paths is the business of C10)
              /\ ("via" \in DOMAIN act /\ act.via = "nest_set" => PathLen(cur) = 1)
              /\ ObsOff(ApplyF(cur, act))                             \* the laws quantify over observers off all surfaces and cut planes
              /\ cur' = ApplyF(cur, act) /\ prev' = cur /\ last' = act /\ base' = base /\ n' = n + 1
Spec == Init /\ [][Next]_vars

\* ------------------------------------------------------------------ what TLC checks in every state
Inv_WF == WellFormed(cur) /\ ObsOff(cur)
Inv_Labels == n = 0 => LabelsOK(cur)
Inv_Step == n = 0 \/ Premise(prev, last, cur)
\* C03: along the whole behaviour the relative placement of every observer and every source is the one of the base
\* configuration and all orientations stay in the group
Inv_C03 == Mode = "C03" => /\ Len(cur.srcs) = Len(BaseCfg(base).srcs) /\ (last.name # "Freeze" => LocalInvariant(BaseCfg(base), cur))
                           /\ (base[1] \in FineIds => FinePremise(cur))
                           /\ \A s \in 1..Len(cur.srcs) : \A i \in 1..Len(cur.srcs[s].path) : cur.srcs[s].path[i].r \in Rots
\* C12: only the unit, the excitation decade and the sign of the excitation ever change
Inv_C12 == Mode = "C12" => LET b == BaseCfg(base) IN
             /\ [cur EXCEPT !.k = 0, !.ea = 0, !.srcs = b.srcs] = b
             /\ \A s \in 1..Len(b.srcs) : \E m \in {1, -1} : cur.srcs[s] = [b.srcs[s] EXCEPT !.exc = [j \in 1..Len(@) |-> m * @[j]]]
             /\ \A s \in 1..Len(b.srcs) : \A j \in 1..Len(b.obs) : \A i \in 1..PathLen(b) : InsideClass(cur, s, j, i) = InsideClass(b, s, j, i)
\* C13: the total volume (6 V of the polyhedral bodies, the chart measure of the cylindrical ones) is conserved, every
\* source keeps the polarization of the base body, every observer stays off every part
Inv_C13 == Mode = "C13" => LET b == BaseCfg(base) IN
             /\ PolyVol6(cur) = PolyVol6(b) /\ CylMeasure(cur) = CylMeasure(b)
             /\ \A s \in 1..Len(cur.srcs) : cur.srcs[s].exc = b.srcs[1].exc
             /\ cur.obs = b.obs
             \* a point strictly inside the base body is strictly inside exactly one part (bodies with an interior)
             /\ \A j \in 1..Len(b.obs) : \A i \in 1..PathLen(b) :
                  (b.srcs[1].cls \in Magnets /\ \A s \in 1..Len(cur.srcs) : cur.srcs[s].cls \in Magnets /\ ~(cur.srcs[s].cls = "TriangularMesh" /\ Len(cur.srcs[s].geo[2]) = 0))
                  => Cardinality({s \in 1..Len(cur.srcs) : InsideClass(cur, s, j, i) = "in"}) = (IF InsideClass(b, 1, j, i) = "in" THEN 1 ELSE 0)
=============================================================================
