CONSTANTS
 Tier = "thorough"
SPECIFICATION Spec
INVARIANT Inv_WF
INVARIANT Inv_Labels
INVARIANT Inv_Step
INVARIANT Inv_C03
INVARIANT Inv_C12
INVARIANT Inv_C13
CHECK_DEADLOCK FALSE
