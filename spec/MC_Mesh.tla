------------------------------ MODULE MC_Mesh ------------------------------
(* Model-checking wrapper for Mesh: TLC explores sequences of the mesh transformations from the base meshes      *)
(* and checks that the ground truth used by the validator is trustworthy:                                        *)
(*  - Open / Disconnected / Outward are invariant under PermuteFaces, RenumberVertices and RewindCyclic, and      *)
(*    FlipFaces changes nothing but the orientation (action property StepOK);                                    *)
(*  - every variant of a closed base is closed, connected, free of self-intersection and the same body;          *)
(*    derived meshes have the status their construction promises (KindTruth);                                    *)
(*  - the reference reorientation (propagate over edges, fix the sign by the volume) reaches Outward on every    *)
(*    closed variant by changing windings only, and is the identity exactly on outward meshes (RefOK);           *)
(*  - the general exact triangle/triangle predicate agrees with the interval predicate on all pairs of lattice   *)
(*    boxes of a grid (PairTruth);                                                                               *)
(*  - the exact ray-casting point classification agrees with the half-space test of convex bodies and with the   *)
(*    union-of-boxes definition of the L-shape on a whole grid of quarter-lattice points, and gives the declared  *)
(*    class of every field observer on every variant (ObsOK).                                                    *)
(*  - flat bodies (family "aniso"): the bodies stretched by diag(k,k,1), diag(k,1,k), diag(1,k,k) for k up to 10^4,  *)
(*    every face in turn as the first face, flipped or not, as one and as two disconnected parts; the state keeps *)
(*    the unstretched mesh and the stretch, the ground truth is invariant under the stretch (StretchInvariant).   *)
(* The distinct states are dumped and every one of them is built as a real magpylib TriangularMesh               *)
(* (harness/drivers/mesh.py).                                                                                    *)
EXTENDS Mesh, TLC
CONSTANTS Bases,          \* subset of BaseNames
          Depth,          \* bound on the number of transformation steps for meshes larger than the tetrahedron
          DerivDepth,     \* derived meshes (delete / duplicate / interpenetrate) are built from states with n <= DerivDepth
          FlipAllUpTo,    \* all 2^k subsets of faces are flipped for meshes with k <= FlipAllUpTo faces, else singles and pairs
          TetraRewind,    \* cyclic rewinding of single faces among the generators of the tetrahedron
          TetraDerivAll,  \* derive from every tetrahedron variant (else only from those with the original vertex numbering)
          DelAll,         \* delete every single face and pair of faces (else faces {1} and {1,2})
          GridMargin,     \* the point classification is compared on all quarter-lattice points of the bounding box widened by this
          PairGrid,       \* second box of a pair ranges over all lattice boxes in (0..PairGrid)^3; first box is [1,3]^3
          AnisoBases,     \* bodies that are also explored flat: stretched by diag(k,k,1), diag(k,1,k), diag(1,k,k)
          AnisoFactors,   \* the factors k for bodies with at most 8 faces (extent ratios 1:k, up to the body's own proportions)
          AnisoBigFactors,\* the factors k for bodies with more faces
          AnisoPairs,     \* flip pairs of faces as well as single faces before a face is brought to the front (bodies with <= 8 faces)
          AnisoRewind,    \* also rewind the first face cyclically: all six ways to write the seed face (bodies with <= 8 faces)
          AnisoDupFaces,  \* flat bodies with at most this many faces are also explored as two disconnected parts
          LifeMaxPre      \* object histories: at most this many uses/checks before reorient_faces() is called
VARIABLES m, kind, base, n, last,
          st,             \* stretch of the concrete mesh: the real object has the vertices Stretch(m, st).v; m itself stays small
          fam             \* "std": the transformation palette;  "aniso": every face in turn as the first face, flat bodies
vars == <<m, kind, base, n, last, st, fam>>

\* ---------------------------------------------------------------- argument domains
AdjSwap(k, i) == [j \in 1..k |-> IF j = i THEN i + 1 ELSE IF j = i + 1 THEN i ELSE j]
Rot1(k) == [j \in 1..k |-> (j % k) + 1]
Rev(k) == [j \in 1..k |-> k + 1 - j]
Swap1k(k) == [j \in 1..k |-> IF j = 1 THEN k ELSE IF j = k THEN 1 ELSE j]
Scramble(k) == [j \in 1..k |-> (2 * j) % (k + 1)]            \* a permutation whenever k is even
PermPalette(k) == {Rot1(k), Rev(k), Swap1k(k), AdjSwap(k, 1)} \cup (IF k % 2 = 0 THEN {Scramble(k)} ELSE {})
Singles(k) == {{i} : i \in 1..k}
Pairs(k) == {{i, j} : i, j \in 1..k} \ Singles(k)
FlipSets(k) == IF k <= FlipAllUpTo THEN (SUBSET (1..k)) \ {{}} ELSE Singles(k) \cup Pairs(k)
DelSets(k) == IF DelAll THEN Singles(k) \cup Pairs(k) ELSE {{1}, {1, 2}}
ToFront(k, j) == [i \in 1..k |-> IF i = 1 THEN j ELSE IF i = j THEN 1 ELSE i]      \* old face j becomes the first face
Unit == <<1, 1, 1>>
Flat(k) == {<<k, k, 1>>, <<k, 1, k>>, <<1, k, k>>}
Stretches(b) == UNION {Flat(k) : k \in (IF Len(BaseMesh(b).f) > 8 THEN AnisoBigFactors ELSE AnisoFactors)}
                \cup (IF b \in Bases THEN {} ELSE {Unit})          \* a body without a "std" instance is also explored unstretched
AnisoFlipSets(k) == Singles(k) \cup (IF AnisoPairs /\ k <= 8 THEN Pairs(k) ELSE {})
FarShift == <<7, 0, 0>>                       \* farther than any base mesh is wide: the copy is disjoint
\* second parts that pierce the base body: a lattice box chosen so that some edge goes through the interior of a face
\* (KindTruth proves it), and for the box also a displaced copy of itself
Probe(b) == CASE b = "tetra" -> <<<<-1, 1, -1>>, <<1, 2, 1>>>>
              [] b = "box" -> <<<<-1, 1, 1>>, <<2, 2, 2>>>>
              [] b = "prism" -> <<<<0, 1, -1>>, <<1, 2, 2>>>>
              [] b = "octa" -> <<<<-1, -1, 1>>, <<0, 0, 3>>>>
              [] b = "lshape" -> <<<<-1, 1, -1>>, <<1, 3, 2>>>>
NearParts(b) == {[arg |-> Probe(b), part |-> BoxMesh(Probe(b)[1], Probe(b)[2])]}
                \cup (IF b = "box" THEN {[arg |-> <<<<0, 1, 1>>>>, part |-> Shifted(Box, <<0, 1, 1>>)]} ELSE {})
Cube == BoxMesh(<<1, 1, 1>>, <<3, 3, 3>>)
Ivs == {iv \in (0..PairGrid) \X (0..PairGrid) : iv[1] < iv[2]}
MeshOf(b) == IF b = "cube" THEN Cube ELSE BaseMesh(b)

\* ---------------------------------------------------------------- behaviours
Init == /\ \/ fam = "std" /\ base \in Bases \cup (IF PairGrid > 0 THEN {"cube"} ELSE {}) /\ st = Unit
           \/ fam = "aniso" /\ base \in AnisoBases /\ st \in Stretches(base)
        /\ m = MeshOf(base)
        /\ kind = IF base = "cube" THEN "pairbase" ELSE "closed"
        /\ n = 0
        /\ last = [op |-> "init", arg |-> <<>>]

Step(m2, k2, n2, op, arg) == /\ m' = m2 /\ kind' = k2 /\ n' = n2 /\ base' = base /\ last' = [op |-> op, arg |-> arg]
                             /\ st' = st /\ fam' = fam

TetraStep ==
  /\ kind = "closed" /\ base = "tetra" /\ fam = "std"
  /\ \/ \E i \in 1..3 : Step(PermuteFaces(m, AdjSwap(4, i)), "closed", 0, "permute", AdjSwap(4, i))
     \/ \E i \in 1..3 : Step(RenumberVertices(m, AdjSwap(4, i)), "closed", 0, "renumber", AdjSwap(4, i))
     \/ \E i \in 1..4 : Step(FlipFaces(m, {i}), "closed", 0, "flip", {i})
     \/ TetraRewind /\ \E i \in 1..4 : Step(RewindCyclic(m, {i}), "closed", 0, "rewind", {i})
BigStep ==
  /\ kind = "closed" /\ base # "tetra" /\ n < Depth /\ fam = "std"
  /\ \/ n = 0 /\ \E S \in FlipSets(Len(m.f)) : Step(FlipFaces(m, S), "closed", n + 1, "flip", S)
     \/ \E p \in PermPalette(Len(m.f)) : Step(PermuteFaces(m, p), "closed", n + 1, "permute", p)
     \/ \E p \in PermPalette(Len(m.v)) : Step(RenumberVertices(m, p), "closed", n + 1, "renumber", p)
     \/ \E S \in Singles(Len(m.f)) : Step(RewindCyclic(m, S), "closed", n + 1, "rewind", S)
     \/ Step(RewindCyclic(m, 1..Len(m.f)), "closed", n + 1, "rewind", <<"all">>)
MayDerive == kind = "closed" /\ fam = "std" /\ (IF base = "tetra" THEN (TetraDerivAll \/ m.v = Tetra.v) ELSE n <= DerivDepth)
Derive ==
  /\ MayDerive
  /\ \/ \E S \in DelSets(Len(m.f)) : Step(DeleteFaces(m, S), "open", n, "delete", S)
     \/ Step(DuplicateShifted(m, FarShift), "dup", n, "dup", FarShift)
     \/ \E q \in NearParts(base) : Step(Interpenetrate(m, q.part), "inter", n, "inter", q.arg)
PairStep ==
  /\ kind = "pairbase"
  /\ \E ix \in Ivs, iy \in Ivs, iz \in Ivs :
       LET lo == <<ix[1], iy[1], iz[1]>>  hi == <<ix[2], iy[2], iz[2]>>
       IN Step(Join(m, BoxMesh(lo, hi)), "pair", n, "pair", <<lo, hi>>)
\* flat bodies: flip one face (or two), then bring every face in turn to the front (the first face is the seed of the
\* implementation's reorientation), optionally rewind it; every such variant also with a disjoint second copy
AnisoStep ==
  /\ kind = "closed" /\ fam = "aniso"
  /\ \/ n = 0 /\ \E S \in AnisoFlipSets(Len(m.f)) : Step(FlipFaces(m, S), "closed", 1, "flip", S)
     \/ n <= 1 /\ \E j \in 2..Len(m.f) : Step(PermuteFaces(m, ToFront(Len(m.f), j)), "closed", 2, "permute", ToFront(Len(m.f), j))
     \/ AnisoRewind /\ Len(m.f) <= 8 /\ n \in {2, 3} /\ Step(RewindCyclic(m, {1}), "closed", n + 1, "rewind", {1})
     \/ Len(m.f) <= AnisoDupFaces /\ Step(DuplicateShifted(m, FarShift), "dup", n, "dup", FarShift)
Next == TetraStep \/ BigStep \/ Derive \/ PairStep \/ AnisoStep
Spec == Init /\ [][Next]_vars
View == <<m, kind, base, n, st, fam>>

\* ---------------------------------------------------------------- what is checked
TypeOK == /\ kind \in {"closed", "open", "dup", "inter", "pair", "pairbase"}
          /\ WellFormed(m.v, m.f)
          /\ (kind # "pair" => DistinctPoints(m.v))          \* two boxes of a pair may have a corner in common
          /\ fam \in {"std", "aniso"} /\ (fam = "std" => st = Unit)
          /\ StretchExact(st, Stretch(m, st).v) /\ Destretch(st, Stretch(m, st).v) = m.v

\* the ground truth of the stretched mesh is that of the unstretched one (evaluated where the determinants fit in 32 bits)
MaxStretch == Max2(Max2(st[1], st[2]), st[3])
StretchInvariant == fam = "aniso" /\ st # Unit /\ MaxStretch <= 10 =>
  LET W == Stretch(m, st).v  V == m.v  F == m.f IN
  /\ WellFormed(W, F)
  /\ SelfIntersecting(W, F) = SelfIntersecting(V, F)
  /\ \A C \in EdgeComponents(F) : Sgn(Vol6(W, F, C)) = Sgn(Vol6(V, F, C)) /\ Vol6(W, F, C) = st[1] * st[2] * st[3] * Vol6(V, F, C)
  /\ Outward(W, F) = Outward(V, F)
  /\ RefOrient(W, F) = RefOrient(V, F)

\* every state has the status its history promises
KindTruth ==
  LET V == m.v  F == m.f  b == MeshOf(base) IN
  CASE kind \in {"closed", "pairbase"} -> ~Open(F) /\ ~Disconnected(F) /\ ~SelfIntersecting(V, F) /\ SameBody(V, F, b.v, b.f)
    [] kind = "open" -> Open(F) /\ TriSet(V, F) \subseteq TriSet(b.v, b.f) /\ Len(F) < Len(b.f)
    [] kind = "dup" -> ~Open(F) /\ Disconnected(F) /\ ~SelfIntersecting(V, F) /\ Cardinality(Components(F)) = 2
    [] kind = "inter" -> ~Open(F) /\ Disconnected(F) /\ ProperlyCrossing(V, F) /\ SelfIntersecting(V, F) /\ Cardinality(Components(F)) = 2
    [] kind = "pair" -> ~Open(F) /\ Disconnected(F) /\ Cardinality(Components(F)) = 2

\* vertex-connected and edge-connected components coincide on everything explored
CompsAgree == Components(m.f) = EdgeComponents(m.f)

\* the reference reorientation reaches Outward by changing windings only; it is the identity exactly on outward meshes
RefOK == kind \in {"closed", "dup", "pairbase"} =>
  LET r == RefOrient(m.v, m.f) IN
  /\ Outward(m.v, r) /\ SameFaceSets(m.f, r)
  /\ (Outward(m.v, m.f) <=> r = m.f)
  /\ (base # "cube" /\ last.op = "init" => Outward(m.v, m.f))                \* the base meshes are outward as written

\* general triangle/triangle predicate against the interval predicate for two boxes
PairTruth == kind = "pair" =>
  LET V == m.v  F == m.f
      C1 == 1..12  C2 == 13..24
      lo1 == BBoxLo(V, F, C1)  hi1 == BBoxHi(V, F, C1)  lo2 == BBoxLo(V, F, C2)  hi2 == BBoxHi(V, F, C2)
  IN /\ Components(F) = {C1, C2} /\ IsBoxSurface(V, F, C1) /\ IsBoxSurface(V, F, C2)
     /\ <<lo2, hi2>> = last.arg
     /\ (SelfIntersecting(V, F) <=> BoxSurfacesMeet(lo1, hi1, lo2, hi2))
     /\ (ProperlyCrossing(V, F) => BoxesInterpenetrate(lo1, hi1, lo2, hi2))

\* point classification: quarter-lattice points, vertices scaled by 4
Q == 4
ScaleV(V) == [i \in 1..Len(V) |-> Scale(Q, V[i])]
Grid(b) ==
  LET V == ScaleV(BaseMesh(b).v)  F == BaseMesh(b).f  C == FaceIdx(F)
      lo == BBoxLo(V, F, C)  hi == BBoxHi(V, F, C)
  IN ((lo[1] - GridMargin)..(hi[1] + GridMargin)) \X ((lo[2] - GridMargin)..(hi[2] + GridMargin)) \X ((lo[3] - GridMargin)..(hi[3] + GridMargin))
InBoxOpen(p, lo, hi) == \A k \in 1..3 : Q * lo[k] < p[k] /\ p[k] < Q * hi[k]
InBoxClosed(p, lo, hi) == \A k \in 1..3 : Q * lo[k] <= p[k] /\ p[k] <= Q * hi[k]
\* the L-shape as the union of its two boxes (they share a face region, so a point strictly inside the union is inside
\* one open box or on the open common wall)
LClass(p) ==
  LET a == LBoxes[1]  b == LBoxes[2]
      inA == InBoxOpen(p, a[1], a[2])  inB == InBoxOpen(p, b[1], b[2])
      clA == InBoxClosed(p, a[1], a[2])  clB == InBoxClosed(p, b[1], b[2])
  IN IF inA \/ inB THEN "in" ELSE IF ~clA /\ ~clB THEN "out" ELSE "on"
GridOK(b) ==
  LET V == ScaleV(BaseMesh(b).v)  F == BaseMesh(b).f IN
  \A p \in Grid(b) :
    LET c == PointClass(V, F, p) IN
    /\ c # "undecided"
    /\ (Convex(b) => c = ConvexClass(V, F, p))
    /\ (b = "lshape" => (LClass(p) \in {"in", "out"} => c = LClass(p)) /\ (c = "on" => LClass(p) = "on"))
ObsOK == last.op = "init" /\ base # "cube" /\ (fam = "std" \/ (base \notin Bases /\ st = Unit)) =>
  /\ \A p \in ObsIn(base) : PointClass(ScaleV(m.v), m.f, p) = "in"
  /\ \A p \in ObsOut(base) : PointClass(ScaleV(m.v), m.f, p) = "out"
  /\ ObsIn(base) \cap ObsOut(base) = {} /\ ObsIn(base) # {} /\ ObsOut(base) # {}
  /\ GridOK(base)

\* the status flags do not depend on face order, vertex numbering or winding start; a flip changes only the orientation
StepOK == [][
  LET V == m.v  F == m.f  V2 == m'.v  F2 == m'.f  op == last'.op IN
  /\ op \in {"permute", "renumber", "rewind", "flip"} =>
        /\ Open(F2) = Open(F)
        /\ Components(F2) # {} /\ Cardinality(Components(F2)) = Cardinality(Components(F))
        /\ SameBody(V, F, V2, F2)
  /\ op \in {"permute", "renumber", "rewind"} => Outward(V2, F2) = Outward(V, F)
  /\ op = "flip" => V2 = V /\ SameFaceSets(F, F2) /\ F2 # F
  /\ op \in {"permute", "rewind"} => V2 = V
  /\ op = "delete" => V2 = V /\ Open(F2) /\ Len(F2) < Len(F)
  /\ op \in {"dup", "inter", "pair"} => SubSeq(V2, 1, Len(V)) = V /\ SubSeq(F2, 1, Len(F)) = F /\ Len(F2) > Len(F)
  ]_vars
\* (invariance of SelfIntersecting and of Outward-after-RefOrient under every step follows from KindTruth and RefOK, which
\*  are evaluated in every reachable state: all closed variants have the value of their base)

\* object histories "use, then normalise, then use": in the model every history of every flip pattern of the tetrahedron ends
\* with outward faces of the same vertex sets; the set of histories is printed for the harness, which executes each one on
\* real objects built with reorient_faces = skip
ASSUME \A S \in SUBSET (1..4) : \A h \in LifeHistories(LifeMaxPre) :
         LET o == ObjRun(Tetra.v, ObjInit(FlipFaces(Tetra, S).f), h, 1)
         IN o.reoriented /\ Outward(Tetra.v, o.faces) /\ SameFaceSets(Tetra.f, o.faces)
ASSUME PrintT(<<"HIST", LifeHistories(LifeMaxPre)>>)
\* the observers used by the binding are printed once so that the harness reads them from the specification
ASSUME \A b \in BaseNames : PrintT(<<"OBS", b, ObsIn(b), ObsOut(b)>>)
=============================================================================
