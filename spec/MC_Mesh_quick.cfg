CONSTANTS
 Bases = {"tetra","box","prism","octa","lshape"}
 Depth = 1
 DerivDepth = 0
 FlipAllUpTo = 4
 TetraRewind = FALSE
 TetraDerivAll = FALSE
 DelAll = FALSE
 GridMargin = 1
 PairGrid = 3
 AnisoBases = {"tetra","prism","octa","hexprism"}
 AnisoFactors = {10, 400, 10000}
 AnisoBigFactors = {400}
 AnisoPairs = FALSE
 AnisoRewind = FALSE
 AnisoDupFaces = 8
 LifeMaxPre = 2
SPECIFICATION Spec
VIEW View
INVARIANT TypeOK
INVARIANT KindTruth
INVARIANT CompsAgree
INVARIANT RefOK
INVARIANT PairTruth
INVARIANT ObsOK
INVARIANT StretchInvariant
PROPERTY StepOK
CHECK_DEADLOCK FALSE
