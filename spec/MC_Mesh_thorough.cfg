CONSTANTS
 Bases = {"tetra","box","prism","octa","lshape"}
 Depth = 2
 DerivDepth = 0
 FlipAllUpTo = 8
 TetraRewind = FALSE
 TetraDerivAll = FALSE
 DelAll = TRUE
 GridMargin = 2
 PairGrid = 4
 AnisoBases = {"tetra","prism","octa","hexprism","box"}
 AnisoFactors = {10, 400, 10000}
 AnisoBigFactors = {10, 400, 10000}
 AnisoPairs = TRUE
 AnisoRewind = TRUE
 AnisoDupFaces = 12
 LifeMaxPre = 4
SPECIFICATION Spec
VIEW View
INVARIANT TypeOK
INVARIANT KindTruth
INVARIANT CompsAgree
INVARIANT RefOK
INVARIANT PairTruth
INVARIANT ObsOK
INVARIANT StretchInvariant
PROPERTY StepOK
CHECK_DEADLOCK FALSE
