CONSTANTS
 Bases = {"tetra","box","prism","octa","lshape"}
 Depth = 2
 DerivDepth = 0
 FlipAllUpTo = 8
 TetraRewind = FALSE
 TetraDerivAll = FALSE
 DelAll = TRUE
 GridMargin = 2
 PairGrid = 4
SPECIFICATION Spec
VIEW View
INVARIANT TypeOK
INVARIANT KindTruth
INVARIANT CompsAgree
INVARIANT RefOK
INVARIANT PairTruth
INVARIANT ObsOK
PROPERTY StepOK
CHECK_DEADLOCK FALSE
