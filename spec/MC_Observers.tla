---------------------------- MODULE MC_Observers ----------------------------
(* TLC enumerates the ways of writing the `observers` argument (Observers.tla) x call options; checks facts about the   *)
(* grammar (a list of equal-shaped position arrays IS one array; wrapping one observer in a list changes nothing; a     *)
(* collection stands for its sensors in depth-first order); the dumped scenarios are executed on real objects.          *)
EXTENDS Observers, TLC
CONSTANTS Args, SrcNs, Aggs, Flags, Fields
VARIABLES sc, c, arg
vars == <<sc, c, arg>>

S(id, pos, ori, left, pix, pixshape, pk) == [id |-> id, path |-> [pos |-> pos, ori |-> ori], left |-> left, pix |-> pix, pixshape |-> pixshape, pk |-> pk]
P2 == <<<<1, -1, 2>>, <<0, 2, -1>>>>
P22 == <<<<1, 0, 0>>, <<0, 1, 0>>, <<0, 0, 1>>, <<1, 1, -1>>>>
Sa == S("a", <<<<2, -1, 1>>>>, <<IdM>>, FALSE, <<Zero3>>, <<1>>, "none")
Sb == S("b", <<<<0, 3, 1>>>>, <<Rz90>>, FALSE, <<<<1, -1, 2>>>>, <<1>>, "vec")
Sc == S("c", <<<<1, 0, 0>>, <<2, 1, 0>>>>, <<Rx90, Rx90>>, FALSE, P2, <<2>>, "arr")
Sd == S("d", <<<<0, 0, 1>>, <<1, 0, 1>>, <<1, 2, 1>>>>, <<Rz90, Rx90, Ry90>>, TRUE, P2, <<2>>, "arr")
Se == S("e", <<<<1, 1, 1>>>>, <<Ry90>>, FALSE, P22, <<2, 2>>, "arr")
Sen(s) == [kind |-> "sens", s |-> s]
Src == [kind |-> "src"]
Co(kids) == [kind |-> "coll", kids |-> kids]
PosA(shape, pts, form) == [kind |-> "pos", shape |-> shape, pts |-> pts, form |-> form]
Li(items, form) == [kind |-> "list", items |-> items, form |-> form]
W1 == <<3, 1, -2>>
W2 == <<0, 2, 2>>
W3 == <<-1, 4, 1>>
Q2 == <<<<2, 2, 1>>, <<-3, 0, 1>>>>
Q3 == <<<<2, 2, 1>>, <<-3, 0, 1>>, <<0, -2, 3>>>>

ArgOf(a) ==
  CASE a = 1 -> PosA(<<>>, <<W1>>, "list")
    [] a = 2 -> PosA(<<>>, <<W1>>, "tuple")
    [] a = 3 -> PosA(<<>>, <<W1>>, "ndarray")
    [] a = 4 -> PosA(<<2>>, Q2, "list")
    [] a = 5 -> PosA(<<2, 2>>, P22, "ndarray")
    [] a = 6 -> PosA(<<1>>, <<W2>>, "list")
    [] a = 7 -> Sen(Sa)
    [] a = 8 -> Sen(Sc)
    [] a = 9 -> Li(<<Sen(Sb)>>, "list")
    [] a = 10 -> Li(<<Sen(Sc), Sen(Sd)>>, "list")
    [] a = 11 -> Li(<<Sen(Sd), Sen(Sc)>>, "tuple")
    [] a = 12 -> Li(<<PosA(<<>>, <<W1>>, "tuple"), PosA(<<>>, <<W2>>, "tuple")>>, "list")               \* = one array (2, 3)
    [] a = 13 -> Li(<<PosA(<<2>>, Q2, "ndarray"), PosA(<<2>>, P2, "ndarray")>>, "list")                 \* = one array (2, 2, 3)
    [] a = 14 -> Li(<<PosA(<<>>, <<W1>>, "tuple"), Sen(Sa)>>, "list")                                  \* two observers
    [] a = 15 -> Li(<<PosA(<<2>>, Q2, "list"), Sen(Sc)>>, "list")
    [] a = 16 -> Li(<<PosA(<<>>, <<W1>>, "tuple"), PosA(<<1>>, <<W2>>, "list")>>, "list")               \* shapes (3,) and (1, 3): two observers
    [] a = 17 -> Co(<<Sen(Sa), Sen(Sb)>>)
    [] a = 18 -> Co(<<Sen(Sc), Co(<<Sen(Sd)>>)>>)
    [] a = 19 -> Co(<<Src, Sen(Sd), Src>>)
    [] a = 20 -> Li(<<Co(<<Sen(Sc), Sen(Sd)>>), Sen(Sc)>>, "list")                                    \* a sensor twice
    [] a = 21 -> Li(<<Co(<<Sen(Sa)>>), PosA(<<>>, <<W3>>, "ndarray")>>, "tuple")
    [] a = 22 -> Li(<<PosA(<<2>>, Q2, "list"), PosA(<<3>>, Q3, "list")>>, "list")                       \* different shapes: needs pixel_agg
    [] a = 23 -> Li(<<>>, "list")                                                                    \* not admitted
    [] a = 24 -> Co(<<Src>>)                                                                         \* not admitted: no sensor
    [] a = 25 -> Li(<<Sen(Sa), [kind |-> "junk"]>>, "list")                                          \* not admitted
    [] a = 26 -> [kind |-> "junk"]
    [] a = 27 -> Li(<<PosA(<<>>, <<W1>>, "list"), PosA(<<>>, <<W2>>, "list"), Sen(Sb)>>, "list")        \* three observers
    [] a = 28 -> Li(<<PosA(<<2>>, Q2, "ndarray"), Sen(Sd), Sen(Se)>>, "tuple")                         \* pixel shapes (2), (2), (2,2)
    [] a = 29 -> Li(<<Co(<<Src>>), Sen(Sa)>>, "list")                                                \* not admitted: a collection without sensor
    [] a = 30 -> Sen(Se)
    [] a = 31 -> Li(<<PosA(<<2, 2>>, P22, "ndarray"), Sen(Se)>>, "list")

LeafPath(i, n) == [pos |-> [m \in 1..n |-> <<i - 2 * m, m + 1, 2 * i - 3>>], ori |-> [m \in 1..n |-> IF (i + m) % 2 = 0 THEN Rz90 ELSE Rx90]]
Leaf(i, n) == [kind |-> "leaf", id |-> i, tag |-> i, path |-> LeafPath(i, n)]
Sources(n) == CASE n = 1 -> <<Leaf(1, 1)>> [] n = 2 -> <<Leaf(1, 2), [kind |-> "coll", kids |-> <<Leaf(2, 1), Leaf(3, 3)>>]>>
                \* source arguments the documentation does not admit: an entry without any source in it
                [] n = 3 -> <<Leaf(1, 1), [kind |-> "coll", kids |-> <<>>]>>
                [] n = 4 -> <<[kind |-> "coll", kids |-> <<[kind |-> "sens"]>>], Leaf(1, 2)>>
                [] n = 5 -> <<Leaf(1, 1), [kind |-> "sens"]>>

Scenarios == [a : Args, n : SrcNs, field : Fields, agg : Aggs, flags : Flags]
Init == /\ sc \in Scenarios
        /\ c = [field |-> sc.field, sumup |-> sc.flags \div 2 = 1, squeeze |-> sc.flags % 2 = 1, agg |-> sc.agg, sources |-> Sources(sc.n)]
        /\ arg = ArgOf(sc.a)
Next == UNCHANGED vars
Spec == Init /\ [][Next]_vars

\* ---- facts about the grammar
\* wrapping ONE observer that is not a position array in a list changes nothing
WrapIsNeutral == arg.kind \in {"sens", "coll"} => ObsSensors(Li(<<arg>>, "list")) = ObsSensors(arg)
\* a list of equal-shaped position arrays has the pixels of all of them, in order, as ONE observer
StackIsOne == (arg.kind = "list" /\ AllPosSameShape(arg.items)) =>
                 /\ Len(ObsSensors(arg)) = 1
                 /\ ObsSensors(arg)[1].pix = ConcatPts(arg.items)
                 /\ ObsSensors(arg)[1].pixshape = <<Len(arg.items)>> \o arg.items[1].shape
\* a collection stands for exactly its sensors, sources inside are ignored
CollIsItsSensors == arg.kind = "coll" => \A i \in 1..Len(ObsSensors(arg)) : ObsSensors(arg)[i].id \in {"a", "b", "c", "d", "e"}
\* an admitted argument with an aggregator is always a well-formed call; without one iff all pixel shapes agree
AdmittedRule == (ObsAdmitted(arg) /\ SourcesAdmitted(c)) => (ObsWellFormed(c, arg) <=> (c.agg # "none" \/ AllSamePix(CallOfObs(c, arg))))
\* the implementation view yields the requirement view on the sensors the argument stands for
SourcesRule == ~SourcesAdmitted(c) => ~ObsWellFormed(c, arg)
ObsRefines == ObsWellFormed(c, arg) => Refines(CallOfObs(c, arg))
ASSUME \A a \in 1..31 : ArgOf(a).kind \in {"pos", "sens", "coll", "list", "junk"}
=============================================================================
