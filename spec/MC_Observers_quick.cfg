CONSTANTS
 Args = {1,2,3,4,5,6,7,8,9,10,11,12,13,14,15,16,17,18,19,20,21,22,23,24,25,26,27,28,29,30,31}
 SrcNs = {1, 2, 3, 4, 5}
 Aggs = {"none", "max"}
 Flags = {0, 1, 2}
 Fields = {"B"}
SPECIFICATION Spec
INVARIANT WrapIsNeutral
INVARIANT StackIsOne
INVARIANT CollIsItsSensors
INVARIANT AdmittedRule
INVARIANT SourcesRule
INVARIANT ObsRefines
CHECK_DEADLOCK FALSE
