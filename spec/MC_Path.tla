------------------------------ MODULE MC_Path ------------------------------
(* All sequences (bounded depth) of move / rotate / position= / orientation= / reset_path on one object. *)
EXTENDS Path, TLC
CONSTANTS MaxIn,        \* longest vector input
          MaxStart,     \* start in -MaxStart..MaxStart and 'auto'
          MaxInit,      \* initial path lengths 1..MaxInit
          Depth
VARIABLES path, last
vars == <<path, last>>

VecSeq == <<<<1,0,0>>, <<0,2,0>>, <<0,0,3>>, <<-1,1,0>>, <<2,0,-1>>>>
RotSeq == <<Rx90, Rz90, Ry90, MulMM(Rx90, Rz90), MulMM(Rz90, Rz90)>>
AncSeq == <<<<1,0,0>>, <<0,1,0>>, <<0,0,1>>, <<1,1,1>>, <<-1,0,2>>>>
Prefix(s, n) == [i \in 1..n |-> s[i]]
Scalar(x) == [scalar |-> TRUE, v |-> <<x>>]
Vector(s) == [scalar |-> FALSE, v |-> s]
\* the neutral inputs (zero displacement, unit rotation) are ordinary inputs: they pad / append like any other
Disps == {Scalar(<<1,-2,3>>), Scalar(Zero3)} \cup {Vector(Prefix(VecSeq, n)) : n \in 1..MaxIn}
RotIns == {Scalar(Rz90), Scalar(IdM)} \cup {Vector(Prefix(RotSeq, n)) : n \in 1..MaxIn}
Ancs == {NoAnchor, [kind |-> "vec", scalar |-> TRUE, v |-> <<Zero3>>], [kind |-> "vec", scalar |-> TRUE, v |-> <<<<1,1,0>>>>]}
        \cup {[kind |-> "vec", scalar |-> FALSE, v |-> Prefix(AncSeq, n)] : n \in 1..MaxIn}
Starts == {AutoStart} \cup {IntStart(k) : k \in -MaxStart..MaxStart}
NewPos == {Prefix(<<<<2,0,1>>, <<0,3,0>>, <<1,1,1>>, <<0,0,-2>>, <<5,0,0>>>>, n) : n \in 1..MaxIn}
NewOri == {Prefix(<<Rz90, Rx90, Ry90, IdM, MulMM(Rz90, Rx90)>>, n) : n \in 1..MaxIn}
InitPath(n) == [pos |-> [i \in 1..n |-> <<i, 2*i, -i>>], ori |-> Prefix(<<Ry90, IdM, Rz90, Rx90, MulMM(Ry90, Ry90)>>, n)]

Call(op, inp, anc, start) == [op |-> op, o |-> "o", inp |-> inp, anc |-> anc, start |-> start]
Calls == {Call("move", d, NoAnchor, s) : d \in Disps, s \in Starts}
    \cup {Call("rotate", g, a, s) : g \in RotIns, a \in Ancs, s \in Starts}
    \cup {Call("setpos", Vector(np), NoAnchor, AutoStart) : np \in NewPos}
    \cup {Call("setori", Vector(nr), NoAnchor, AutoStart) : nr \in NewOri}
    \cup {Call("reset", Scalar(Zero3), NoAnchor, AutoStart)}

St(p) == [kids |-> [o \in {"o"} |-> <<>>], path |-> [o \in {"o"} |-> p]]
Init == path \in {InitPath(n) : n \in 1..MaxInit} /\ last = [op |-> "init"]
Next == \E c \in Calls : path' = ApplyPath(St(path), c).path["o"] /\ last' = c
Spec == Init /\ [][Next]_vars
View == path
Bound == TLCGet("level") <= Depth

\* C09: both paths have equal length >= 1 and every orientation stays a rotation of the lattice group
Inv == PathOK(path) /\ \A i \in DOMAIN path.ori : path.ori[i] \in Rots
\* C09: the operational transcription of the code computes exactly the documented index semantics
DeclAgrees == [][ /\ (last'.op = "move" => path' = MoveDecl(path, last'.inp, last'.start))
                  /\ (last'.op = "rotate" => path' = RotDecl(path, last'.inp, last'.anc, last'.start)) ]_vars
\* C09: setters edge-pad or end-slice the other path; reset gives the unit path
Setters == [][ /\ (last'.op = "setpos" => path'.pos = last'.inp.v /\ path'.ori = PadSlice(Len(last'.inp.v), path.ori))
               /\ (last'.op = "setori" => path'.ori = last'.inp.v /\ path'.pos = PadSlice(Len(last'.inp.v), path.pos))
               /\ (last'.op = "reset" => path' = [pos |-> <<Zero3>>, ori |-> <<IdM>>]) ]_vars
\* scalar input never shortens a path and touches every entry from start on; vector input of n touches exactly n entries
Touch == [][ last'.op = "move" =>
             LET f == DeclFrame(last'.inp, Len(path.pos), last'.start) IN
             /\ Len(path'.pos) = f.hi - f.lo
             /\ Cardinality({i \in 1..Len(path'.pos) : InWin(last'.inp, f, i - 1 + f.lo)}) =
                   (IF last'.inp.scalar THEN f.hi - f.a ELSE f.n) ]_vars
ASSUME PrintT(<<"CALLS", Calls>>)
ASSUME Cardinality(Rots) = 24 /\ \A a, b \in Rots : MulMM(a, b) \in Rots /\ MulMM(a, Tr(a)) = IdM
=============================================================================
