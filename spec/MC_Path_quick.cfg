CONSTANTS
 MaxIn = 3
 MaxStart = 5
 MaxInit = 3
 Depth = 2
SPECIFICATION Spec
VIEW View
CONSTRAINT Bound
INVARIANT Inv
PROPERTY DeclAgrees
PROPERTY Setters
PROPERTY Touch
CHECK_DEADLOCK FALSE
