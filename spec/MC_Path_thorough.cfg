CONSTANTS
 MaxIn = 4
 MaxStart = 8
 MaxInit = 4
 Depth = 2
SPECIFICATION Spec
VIEW View
CONSTRAINT Bound
INVARIANT Inv
PROPERTY DeclAgrees
PROPERTY Setters
PROPERTY Touch
CHECK_DEADLOCK FALSE
