CONSTANTS
 MaxIn = 2
 MaxStart = 3
 MaxInit = 2
 Depth = 1
SPECIFICATION Spec
VIEW View
CONSTRAINT Bound
INVARIANT Inv
PROPERTY DeclAgrees
PROPERTY Setters
PROPERTY Touch
CHECK_DEADLOCK FALSE
